import RisorModel.C18.Model
/-!
C18 helper lemmas.

Layer 1: small-step executions of the generic bytecode machine and how they embed into an
appended code.  Layer 2: what the compiler emits for a piece whose statements all resolve, and
what the VM does with it.
-/
namespace Risor.C18

/-! ## Layer 1 -/

variable {σ : Type}

/-- executions of any length: `Steps S c (pc, s) (pc', s')` -/
inductive Steps (S : Sem σ) (c : List BIns) : Nat × σ → Nat × σ → Prop where
  | refl (x : Nat × σ) : Steps S c x x
  | step {pc pc' : Nat} {s s' : σ} {i : BIns} {y : Nat × σ} :
      c[pc]? = some i → stepAt S i pc s = .ok (pc', s') → Steps S c (pc', s') y → Steps S c (pc, s) y

theorem Steps.trans {S : Sem σ} {c : List BIns} {x y z : Nat × σ}
    (h1 : Steps S c x y) (h2 : Steps S c y z) : Steps S c x z := by
  induction h1 with
  | refl => exact h2
  | step hi hs _ ih => exact .step hi hs (ih h2)

/-- shifting an instruction's position shifts its outcome -/
theorem stepAt_shift (S : Sem σ) (i : BIns) (n pc pc' : Nat) (s s' : σ)
    (h : stepAt S i pc s = .ok (pc', s')) : stepAt S i (n + pc) s = .ok (n + pc', s') := by
  cases i with
  | op k =>
    simp only [stepAt] at h ⊢
    split at h
    · simp only [Except.ok.injEq, Prod.mk.injEq] at h
      obtain ⟨ha, hb⟩ := h
      simp only [Except.ok.injEq, Prod.mk.injEq]
      exact ⟨by omega, hb⟩
    · cases h
  | jf d =>
    simp only [stepAt, Except.ok.injEq, Prod.mk.injEq] at h ⊢
    obtain ⟨ha, hb⟩ := h
    exact ⟨by omega, hb⟩
  | jb d =>
    simp only [stepAt] at h ⊢
    split at h
    · rename_i hd
      simp only [Except.ok.injEq, Prod.mk.injEq] at h
      obtain ⟨ha, hb⟩ := h
      have : d ≤ n + pc := by omega
      simp only [this, ↓reduceIte, Except.ok.injEq, Prod.mk.injEq]
      exact ⟨by omega, hb⟩
    · cases h
  | cjf k d =>
    simp only [stepAt] at h ⊢
    split at h
    · rename_i b s1 he
      simp only [Except.ok.injEq, Prod.mk.injEq] at h
      obtain ⟨ha, hb⟩ := h
      simp only [Except.ok.injEq, Prod.mk.injEq]
      refine ⟨?_, hb⟩
      cases b
      · simp only [Bool.false_eq_true, ↓reduceIte] at ha ⊢
        omega
      · simp only [↓reduceIte] at ha ⊢
        omega
    · cases h

theorem stepAt_shift_err (S : Sem σ) (i : BIns) (n pc : Nat) (s e : σ)
    (hl : ∀ d, i = .jb d → d ≤ pc)
    (h : stepAt S i pc s = .error e) : stepAt S i (n + pc) s = .error e := by
  cases i with
  | op k =>
    simp only [stepAt] at h ⊢
    split at h
    · cases h
    · exact h
  | jf d => simp [stepAt] at h
  | jb d =>
    have := hl d rfl
    simp [stepAt, this] at h
  | cjf k d =>
    simp only [stepAt] at h ⊢
    split at h
    · cases h
    · exact h

theorem getElem?_append_left' {α} (a b : List α) (pc : Nat) (x : α) (h : a[pc]? = some x) :
    (a ++ b)[pc]? = some x := by
  have hlt : pc < a.length := by
    rcases Nat.lt_or_ge pc a.length with h1 | h1
    · exact h1
    · rw [List.getElem?_eq_none h1] at h
      cases h
  rw [List.getElem?_append_left hlt]
  exact h

theorem getElem?_append_shift {α} (a b : List α) (pc : Nat) : (a ++ b)[a.length + pc]? = b[pc]? := by
  rw [List.getElem?_append_right (by omega)]
  congr 1
  omega

/-! ## Layer 2 -/

/-- the code a piece adds when all of its statements compile -/
def codeOf : List Stmt → List AIns
  | [] => []
  | s :: rest => frag s ++ sep s rest.isEmpty ++ codeOf rest

def addAll (y : Syms) : List Stmt → Syms
  | [] => y
  | s :: rest => addAll (y.add s) rest

theorem compileStmts_ok (y : Syms) (l : List Stmt) (h : allResolve y l = true) :
    compileStmts y l = some ⟨codeOf l, addAll y l, fnsOf l⟩ := by
  induction l generalizing y with
  | nil => simp [compileStmts, codeOf, addAll, fnsOf]
  | cons s rest ih =>
    simp only [allResolve, Bool.and_eq_true] at h
    have := ih (y.add s) h.2
    simp only [compileStmts, h.1, ↓reduceIte, this, Option.map_some, codeOf, addAll, fnsOf, List.map_cons,
      List.flatten_cons]

/-- a piece with a statement that does not compile — wherever in the piece, whatever was emitted or
    declared before it, inside a function body or not — is rolled back as a whole -/
theorem compileStmts_rejected (y : Syms) (l : List Stmt) (h : allResolve y l = false) :
    compileStmts y l = none := by
  induction l generalizing y with
  | nil => simp [allResolve] at h
  | cons s rest ih =>
    by_cases hs : s.resolves y = true
    · simp only [allResolve, hs, Bool.true_and] at h
      simp only [compileStmts, hs, ↓reduceIte, ih (y.add s) h, Option.map_none]
    · simp only [compileStmts, hs, Bool.false_eq_true, ↓reduceIte]

theorem add_nodecl (y : Syms) (s : Stmt) (h : (s.vdecl.isEmpty && s.cdecl.isEmpty) = true) :
    y.add s = y := by
  simp only [Bool.and_eq_true, List.isEmpty_iff] at h
  simp [Syms.add, h.1, h.2]

theorem addAll_nodecl (y : Syms) (l : List Stmt)
    (h : l.any (fun t => !(t.vdecl.isEmpty && t.cdecl.isEmpty)) = false) : addAll y l = y := by
  induction l generalizing y with
  | nil => rfl
  | cons s rest ih =>
    simp only [List.any_cons, Bool.or_eq_false_iff, Bool.not_eq_false'] at h
    simp only [addAll, add_nodecl y s h.1]
    exact ih y h.2

/-- without declarations after the failure, the symbols of the statements that completed are
    the symbols of the whole piece -/
theorem specExec_syms (y : Syms) (tr : List (Nat × Bool)) (v : Nat) (l : List Stmt)
    (h : declaresAfterFailure l = false) : (specExec y tr v l).syms = addAll y l := by
  induction l generalizing y tr v with
  | nil => rfl
  | cons s rest ih =>
    unfold declaresAfterFailure at h
    by_cases hf : s.fails = true
    · simp only [hf, ↓reduceIte] at h
      simp only [specExec, hf, ↓reduceIte]
      exact (addAll_nodecl y (s :: rest) h).symm
    · simp only [hf, Bool.false_eq_true, ↓reduceIte] at h
      simp only [specExec, hf, Bool.false_eq_true, ↓reduceIte, addAll]
      exact ih _ _ _ h

theorem specExec_ok_iff (y : Syms) (tr : List (Nat × Bool)) (v : Nat) (l : List Stmt) :
    (specExec y tr v l).ok = (leakOf l).isNone := by
  induction l generalizing y tr v with
  | nil => rfl
  | cons s rest ih =>
    by_cases hf : s.fails = true
    · simp [specExec, leakOf, hf]
    · simp only [specExec, hf, Bool.false_eq_true, ↓reduceIte, leakOf]
      exact ih _ _ _

/-- what running the code of an accepted piece does, next to the Spec's execution of the same
    statements: same trace, same verdict; one value on top of the stack the run started on if it
    completes, the failing statement's leak if it does not -/
theorem exec_codeOf (old : List Nat) (y : Syms) (l : List Stmt) (hne : l ≠ []) (stk : List Nat)
    (tr : List (Nat × Bool)) (v : Nat)
    (hfresh : ∀ s ∈ l, s.calls.any old.contains = false) :
    let x := execFrom old (codeOf l) stk tr
    let sp := specExec y tr v l
    x.trace = sp.trace ∧ x.ok = sp.ok ∧
      (sp.ok = true → x.stack = sp.last :: stk) ∧
      (sp.ok = false → ∃ k, leakOf l = some k ∧ x.stack = List.replicate k 0 ++ stk) := by
  induction l generalizing y tr v with
  | nil => exact absurd rfl hne
  | cons s rest ih =>
    have hc := hfresh s (List.mem_cons_self ..)
    by_cases hf : s.fails = true
    · simp [codeOf, frag, hf, execFrom, specExec, leakOf]
    · have hf' : s.fails = false := by simpa using hf
      cases rest with
      | nil =>
        cases he : s.isExpr <;> cases hlv : s.leaves <;>
          simp [codeOf, frag, sep, hf', execFrom, specExec, hlv, he, hc, Stmt.lv, leakOf]
      | cons t rest' =>
        have ih' := ih (y.add s) (by simp) (tr ++ [(s.id, false)]) (if s.isExpr then s.id else 0)
          (fun u hu => hfresh u (List.mem_cons_of_mem _ hu))
        have hx : execFrom old (codeOf (s :: t :: rest')) stk tr
            = execFrom old (codeOf (t :: rest')) stk (tr ++ [(s.id, false)]) := by
          cases he : s.isExpr <;> cases hlv : s.leaves <;>
            simp [codeOf, frag, sep, hf', execFrom, hlv, he, hc, Stmt.lv]
        have hsp : specExec y tr v (s :: t :: rest')
            = specExec (y.add s) (tr ++ [(s.id, false)]) (if s.isExpr then s.id else 0) (t :: rest') := by
          simp [specExec, hf']
        have hl : leakOf (s :: t :: rest') = leakOf (t :: rest') := by
          simp [leakOf, hf']
        simp only [hx, hsp, hl]
        exact ih'

/-! ### the Spec's execution over concatenated statement lists -/

theorem allResolve_append (y : Syms) (a b : List Stmt) :
    allResolve y (a ++ b) = (allResolve y a && allResolve (addAll y a) b) := by
  induction a generalizing y with
  | nil => simp [allResolve, addAll]
  | cons s rest ih => simp [allResolve, addAll, ih, Bool.and_assoc]

theorem specExec_indep (y : Syms) (tr : List (Nat × Bool)) (v w : Nat) (l : List Stmt) :
    (specExec y tr v l).syms = (specExec y tr w l).syms ∧
    (specExec y tr v l).trace = (specExec y tr w l).trace ∧
    (specExec y tr v l).ok = (specExec y tr w l).ok := by
  cases l with
  | nil => exact ⟨rfl, rfl, rfl⟩
  | cons s rest =>
    by_cases hf : s.fails = true <;> simp [specExec, hf]

theorem specExec_append (y : Syms) (tr : List (Nat × Bool)) (v : Nat) (a b : List Stmt)
    (h : (specExec y tr v a).ok = true) :
    specExec y tr v (a ++ b)
      = specExec (specExec y tr v a).syms (specExec y tr v a).trace (specExec y tr v a).last b := by
  induction a generalizing y tr v with
  | nil => rfl
  | cons s rest ih =>
    by_cases hf : s.fails = true
    · simp [specExec, hf] at h
    · simp only [specExec, hf, Bool.false_eq_true, ↓reduceIte, List.cons_append] at h ⊢
      exact ih _ _ _ h

theorem specExec_ok_syms (y : Syms) (tr : List (Nat × Bool)) (v : Nat) (a : List Stmt)
    (h : (specExec y tr v a).ok = true) : (specExec y tr v a).syms = addAll y a := by
  induction a generalizing y tr v with
  | nil => rfl
  | cons s rest ih =>
    by_cases hf : s.fails = true
    · simp [specExec, hf] at h
    · simp only [specExec, hf, Bool.false_eq_true, ↓reduceIte, addAll] at h ⊢
      exact ih _ _ _ h

/-! ### invariants and auxiliary statements used by `Props.lean` -/

theorem jumpsLocalFrom_get (n : Nat) (c : List BIns) (base pc : Nat) (i : BIns)
    (h : jumpsLocalFrom n base c = true) (hi : c[pc]? = some i) : insLocal n (base + pc) i = true := by
  induction c generalizing base pc with
  | nil => simp at hi
  | cons j rest ih =>
    simp only [jumpsLocalFrom, Bool.and_eq_true] at h
    cases pc with
    | zero =>
      simp only [List.getElem?_cons_zero, Option.some.injEq] at hi
      subst hi
      exact h.1
    | succ k =>
      simp only [List.getElem?_cons_succ] at hi
      have := ih (base + 1) k h.2 hi
      have e : base + 1 + k = base + (k + 1) := by omega
      rw [e] at this
      exact this


/-- the invariant that ties the REPL machine, the Spec state and the guard's bookkeeping -/
structure Inv (r : Repl) (st : SpecSt) (g : GSt) : Prop where
  syms  : r.comp.syms = st.syms
  gsyms : g.syms = st.syms
  trace : r.vm.trace = st.trace
  ip    : r.vm.ip = r.comp.code.length
  ht    : r.vm.stack.length = g.ht
  old   : r.vm.old = g.fns
  fns   : r.comp.fns = g.fns

theorem feed_step (r : Repl) (st : SpecSt) (g : GSt) (p : Piece) (inv : Inv r st g)
    (hg : pieceGuard g p = true) :
    (r.feed p).2 = (st.feed p).2 ∧ Inv (r.feed p).1 (st.feed p).1 (g.next p) := by
  cases p with
  | bad => exact ⟨rfl, inv⟩
  | stmts l =>
    by_cases hres : allResolve st.syms l = true
    · -- accepted by the compiler
      have hres' : allResolve g.syms l = true := by rw [inv.gsyms]; exact hres
      simp only [pieceGuard, hres', ↓reduceIte, Bool.and_eq_true,
        Bool.not_eq_eq_eq_not, Bool.not_true] at hg
      obtain ⟨hdecl, hne⟩ := hg
      have hne' : l ≠ [] := by
        intro h; subst h; simp at hne
      have hc := compileStmts_ok r.comp.syms l (by rw [inv.syms]; exact hres)
      -- reloadCode has forgotten every function an earlier run loaded: no call goes to a stale copy
      have hx := exec_codeOf (reloadKeeps r.vm.old) st.syms l hne' [] st.trace 0
        (fun s _ => by simp [reloadKeeps])
      have hdrop : (r.comp.code ++ codeOf l).drop r.vm.ip = codeOf l := by
        rw [inv.ip]; simp
      have hsy := specExec_syms st.syms st.trace 0 l hdecl
      have hok := specExec_ok_iff st.syms st.trace 0 l
      simp only [Repl.feed, hc, hdrop, SpecSt.feed, hres, ↓reduceIte, GSt.next, hres']
      rw [← inv.trace] at hx
      obtain ⟨htr, hok2, hst1, hst2⟩ := hx
      rw [inv.trace] at htr hok2 hst1 hst2
      refine ⟨?_, ?_⟩
      · rw [inv.trace, hok2]
        cases hk : (specExec st.syms st.trace 0 l).ok
        · rfl
        · simp [hst1 hk]
      · constructor
        · show addAll r.comp.syms l = _
          rw [inv.syms, hsy]
        · show (specExec g.syms [] 0 l).syms = _
          rw [inv.gsyms, specExec_syms _ _ _ _ hdecl, hsy]
        · show (execFrom (reloadKeeps r.vm.old) (codeOf l) [] r.vm.trace).trace = _
          rw [inv.trace]; exact htr
        · simp
        · show (execFrom (reloadKeeps r.vm.old) (codeOf l) [] r.vm.trace).stack.length = _
          rw [inv.trace]
          cases hk : (specExec st.syms st.trace 0 l).ok
          · obtain ⟨k, hk1, hk2⟩ := hst2 hk
            rw [hk2, hk1]
            simp
          · rw [hst1 hk]
            have : leakOf l = none := by
              rw [hk] at hok
              cases hl : leakOf l <;> simp [hl] at hok ⊢
            rw [this]
            simp
        · show r.comp.fns ++ fnsOf l = _
          rw [inv.fns]
        · show r.comp.fns ++ fnsOf l = _
          rw [inv.fns]
    · -- rejected by the compiler, at any statement: Compile rolled everything back
      have hres' : allResolve g.syms l = false := by
        rw [inv.gsyms]; simpa using hres
      have hresf : allResolve st.syms l = false := by simpa using hres
      have hc := compileStmts_rejected r.comp.syms l (by rw [inv.syms]; exact hresf)
      simp only [Repl.feed, hc, SpecSt.feed, hresf, Bool.false_eq_true, ↓reduceIte, GSt.next, hres']
      exact ⟨trivial, inv⟩

/-- the guard's bookkeeping after a history -/
def GSt.after (g : GSt) : List Piece → GSt
  | [] => g
  | p :: ps => GSt.after (g.next p) ps

theorem run_inv (h : List Piece) : ∀ (r : Repl) (st : SpecSt) (g : GSt), Inv r st g →
    guardFrom g h = true →
    (r.run h).2 = (st.run h).2 ∧ Inv (r.run h).1 (st.run h).1 (g.after h) := by
  induction h with
  | nil => intro r st g inv _; exact ⟨rfl, inv⟩
  | cons p ps ih =>
    intro r st g inv hg
    simp only [guardFrom, Bool.and_eq_true] at hg
    obtain ⟨ho, inv'⟩ := feed_step r st g p inv hg.1
    obtain ⟨h1, h2⟩ := ih _ _ _ inv' hg.2
    simp only [Repl.run, SpecSt.run, GSt.after]
    exact ⟨by rw [ho, h1], h2⟩


theorem feed_ok_inv (st : SpecSt) (a : List Stmt) (v : Nat) (h : (st.feed (.stmts a)).2 = .ok v) :
    allResolve st.syms a = true ∧ (specExec st.syms st.trace 0 a).ok = true ∧
    (st.feed (.stmts a)).1 = ⟨(specExec st.syms st.trace 0 a).syms, (specExec st.syms st.trace 0 a).trace⟩ := by
  by_cases hr : allResolve st.syms a = true
  · simp only [SpecSt.feed, hr, ↓reduceIte] at h ⊢
    cases hk : (specExec st.syms st.trace 0 a).ok
    · simp [hk] at h
    · simp
  · simp [SpecSt.feed, hr] at h

theorem spec_run_flatten (ls : List (List Stmt)) : ∀ (st : SpecSt),
    (∀ o ∈ (st.run (ls.map .stmts)).2, ∃ v, o = .ok v) →
    allResolve st.syms ls.flatten = true ∧ (specExec st.syms st.trace 0 ls.flatten).ok = true ∧
    (st.run (ls.map .stmts)).1 =
      ⟨(specExec st.syms st.trace 0 ls.flatten).syms, (specExec st.syms st.trace 0 ls.flatten).trace⟩ := by
  induction ls with
  | nil => intro st _; exact ⟨rfl, rfl, rfl⟩
  | cons a rest ih =>
    intro st hall
    simp only [List.map_cons, SpecSt.run, List.mem_cons, forall_eq_or_imp] at hall
    obtain ⟨⟨v, hv⟩, hrest⟩ := hall
    obtain ⟨hra, hoka, hst⟩ := feed_ok_inv st a v hv
    have ih' := ih (st.feed (.stmts a)).1 hrest
    rw [hst] at ih'
    obtain ⟨hr2, hok2, hst2⟩ := ih'
    simp only at hr2 hok2 hst2
    have hsy := specExec_ok_syms _ _ _ _ hoka
    have happ := specExec_append st.syms st.trace 0 a rest.flatten hoka
    have hind := specExec_indep (specExec st.syms st.trace 0 a).syms (specExec st.syms st.trace 0 a).trace
      (specExec st.syms st.trace 0 a).last 0 rest.flatten
    simp only [List.flatten_cons, List.map_cons, SpecSt.run]
    refine ⟨?_, ?_, ?_⟩
    · rw [allResolve_append, hra, ← hsy]; simpa using hr2
    · rw [happ, hind.2.2]; exact hok2
    · rw [hst, hst2, happ, hind.1, hind.2.1]


theorem spec_run_append (p q : List Piece) : ∀ (st : SpecSt),
    (st.run (p ++ q)).1 = ((st.run p).1.run q).1 ∧ (st.run (p ++ q)).2 = (st.run p).2 ++ ((st.run p).1.run q).2 := by
  induction p with
  | nil => intro st; exact ⟨rfl, rfl⟩
  | cons x rest ih =>
    intro st
    obtain ⟨h1, h2⟩ := ih (st.feed x).1
    simp only [List.cons_append, SpecSt.run]
    exact ⟨h1, by rw [h2]⟩

theorem specExec_last_indep (y : Syms) (tr : List (Nat × Bool)) (v w : Nat) (l : List Stmt) (hne : l ≠ []) :
    (specExec y tr v l).last = (specExec y tr w l).last := by
  cases l with
  | nil => exact absurd rfl hne
  | cons s rest => by_cases hf : s.fails = true <;> simp [specExec, hf]


/-! ### definitions only grow (used for the host-supplied names) -/

theorem add_defined_mono (y : Syms) (s : Stmt) (n : Nat) (h : y.defined n = true) :
    (y.add s).defined n = true := by
  simp only [Syms.defined, Syms.add, Bool.or_eq_true, List.contains_eq_mem, List.mem_append,
    decide_eq_true_eq] at h ⊢
  rcases h with h | h
  · exact Or.inl (Or.inl h)
  · exact Or.inr (Or.inl h)

theorem specExec_defined_mono (l : List Stmt) : ∀ (y : Syms) (tr : List (Nat × Bool)) (v n : Nat),
    y.defined n = true → (specExec y tr v l).syms.defined n = true := by
  induction l with
  | nil => intro y tr v n h; exact h
  | cons s rest ih =>
    intro y tr v n h
    by_cases hf : s.fails = true
    · simp only [specExec, hf, ↓reduceIte]; exact h
    · simp only [specExec, hf, Bool.false_eq_true, ↓reduceIte]
      exact ih _ _ _ _ (add_defined_mono y s n h)

theorem spec_feed_defined_mono (st : SpecSt) (p : Piece) (n : Nat) (h : st.syms.defined n = true) :
    (st.feed p).1.syms.defined n = true := by
  cases p with
  | bad => exact h
  | stmts l =>
    by_cases hr : allResolve st.syms l = true
    · simp only [SpecSt.feed, hr, ↓reduceIte]
      exact specExec_defined_mono l _ _ _ _ h
    · simp only [SpecSt.feed, hr, Bool.false_eq_true, ↓reduceIte]; exact h

theorem spec_run_defined_mono (h : List Piece) : ∀ (st : SpecSt) (n : Nat),
    st.syms.defined n = true → (st.run h).1.syms.defined n = true := by
  induction h with
  | nil => intro st n hd; exact hd
  | cons p ps ih =>
    intro st n hd
    simp only [SpecSt.run]
    exact ih _ _ (spec_feed_defined_mono st p n hd)

theorem compileStmts_defined_mono (l : List Stmt) : ∀ (y : Syms) (n : Nat) (o : COut),
    y.defined n = true → compileStmts y l = some o → o.syms.defined n = true := by
  induction l with
  | nil =>
    intro y n o h ho
    simp only [compileStmts, Option.some.injEq] at ho
    subst ho; exact h
  | cons s rest ih =>
    intro y n o h ho
    by_cases hr : s.resolves y = true
    · simp only [compileStmts, hr, ↓reduceIte, Option.map_eq_some_iff] at ho
      obtain ⟨r, hr1, hr2⟩ := ho
      subst hr2
      exact ih _ _ r (add_defined_mono y s n h) hr1
    · simp [compileStmts, hr] at ho

theorem repl_feed_defined_mono (r : Repl) (p : Piece) (n : Nat) (h : r.comp.syms.defined n = true) :
    (r.feed p).1.comp.syms.defined n = true := by
  cases p with
  | bad => exact h
  | stmts l =>
    simp only [Repl.feed]
    split
    · exact h
    · rename_i o ho
      exact compileStmts_defined_mono l r.comp.syms n o h ho

theorem repl_run_defined_mono (h : List Piece) : ∀ (r : Repl) (n : Nat),
    r.comp.syms.defined n = true → (r.run h).1.comp.syms.defined n = true := by
  induction h with
  | nil => intro r n hd; exact hd
  | cons p ps ih =>
    intro r n hd
    simp only [Repl.run]
    exact ih _ _ (repl_feed_defined_mono r p n hd)

/-! ## Layer 3: compile-only marks -/

/-- the marks a piece's compilation sets -/
def marksOf : List CEv → List Mark
  | [] => []
  | .enter m :: rest => m :: marksOf rest
  | _ :: rest => marksOf rest

theorem compileEvsR_own_nil (R : Mark → Bool) (inh : List Mark) (evs : List CEv) :
    ∀ own, balancedFrom own.length evs = true → errClean R own evs = true →
      (compileEvsR R inh own evs).own = [] := by
  induction evs with
  | nil =>
    intro own hb _
    simp only [balancedFrom, beq_iff_eq] at hb
    simp only [compileEvsR]
    exact List.eq_nil_of_length_eq_zero hb
  | cons ev rest ih =>
    intro own hb hc
    cases ev with
    | enter m =>
      simp only [compileEvsR]
      exact ih (m :: own) (by simpa [balancedFrom] using hb) (by simpa [errClean] using hc)
    | leave =>
      simp only [compileEvsR]
      simp only [balancedFrom, Bool.and_eq_true, decide_eq_true_eq] at hb
      apply ih own.tail
      · rw [List.length_tail]; exact hb.2
      · simpa [errClean] using hc
    | emit k sens =>
      simp only [compileEvsR]
      exact ih own (by simpa [balancedFrom] using hb) (by simpa [errClean] using hc)
    | err =>
      simp only [compileEvsR]
      simp only [errClean, List.all_eq_true] at hc
      rw [List.filter_eq_nil_iff]
      intro m hm
      simp [hc m hm]

theorem errClean_of_restored (R : Mark → Bool) (evs : List CEv) :
    ∀ own, (∀ m ∈ own, R m = true) → (∀ m ∈ marksOf evs, R m = true) → errClean R own evs = true := by
  induction evs with
  | nil => intro _ _ _; rfl
  | cons ev rest ih =>
    intro own ho hm
    cases ev with
    | enter m =>
      simp only [errClean]
      apply ih
      · intro x hx
        rcases List.mem_cons.1 hx with h | h
        · subst h; exact hm _ (by simp [marksOf])
        · exact ho x h
      · intro x hx; exact hm x (by simp [marksOf, hx])
    | leave =>
      simp only [errClean]
      exact ih _ (fun x hx => ho x (List.mem_of_mem_tail hx)) (fun x hx => hm x (by simpa [marksOf] using hx))
    | emit k sens =>
      simp only [errClean]
      exact ih _ ho (fun x hx => hm x (by simpa [marksOf] using hx))
    | err =>
      simp only [errClean, List.all_eq_true]
      exact ho

/-- the table of the code as it is restores EVERY compile-only mark on the error path -/
theorem restored_all (m : Mark) : m.restored = true := by cases m <;> decide

/-- … so the side condition "the error surfaces where every mark set is a restored one" holds for every
    event sequence -/
theorem errClean_restored (evs : List CEv) (own : List Mark) : errClean Mark.restored own evs = true :=
  errClean_of_restored Mark.restored evs own (fun m _ => restored_all m) (fun m _ => restored_all m)

/-- a history compiled under any table whose error paths are clean equals the fresh-compiler Spec of
    that table -/
theorem marksRunR_eq (R : Mark → Bool) (h : List (List CEv))
    (hg : ∀ evs ∈ h, balancedFrom 0 evs = true ∧ errClean R [] evs = true) :
    marksRunR R [] h = h.map (compileEvsR R [] []) := by
  induction h with
  | nil => rfl
  | cons evs rest ih =>
    have h1 := hg evs (List.mem_cons_self ..)
    have hown := compileEvsR_own_nil R [] evs [] h1.1 h1.2
    simp only [marksRunR, List.map_cons, hown, List.append_nil]
    rw [ih (fun e he => hg e (List.mem_cons_of_mem _ he))]

/-- what a piece emits and whether it is accepted does not depend on the restore table when nothing is
    inherited (the table only decides what is LEFT SET after an error) -/
theorem compileEvsR_code_indep (R R' : Mark → Bool) (evs : List CEv) : ∀ own,
    (compileEvsR R [] own evs).code = (compileEvsR R' [] own evs).code ∧
    (compileEvsR R [] own evs).ok = (compileEvsR R' [] own evs).ok := by
  induction evs with
  | nil => intro own; exact ⟨rfl, rfl⟩
  | cons ev rest ih =>
    intro own
    cases ev with
    | enter m => simp only [compileEvsR]; exact ih _
    | leave => simp only [compileEvsR]; exact ih _
    | emit k sens =>
      simp only [compileEvsR]
      exact ⟨by rw [(ih own).1], (ih own).2⟩
    | err => simp only [compileEvsR]; exact ⟨trivial, trivial⟩

/-! ## Layer 4: generations -/

/-- the Impl's generations agree with the Spec's single array wherever the bookkeeping says "valid" -/
def Agree (V : Valid) (G S : Gens) : Prop := ∀ g k, V g k = true → G k g = S 0 g

theorem FExpr.eval_agree (V : Valid) (G S : Gens) (k : Nat) (a : Int) (h : Agree V G S) (e : FExpr)
    (hr : e.reads.all (fun x => V x k) = true) : e.eval (G k) a = e.eval (S 0) a := by
  induction e with
  | lit v => rfl
  | glob g =>
    simp only [FExpr.reads, List.all_cons, List.all_nil, Bool.and_true] at hr
    exact h g k hr
  | arg => rfl
  | add x y ihx ihy =>
    simp only [FExpr.reads, List.all_append, Bool.and_eq_true] at hr
    simp only [FExpr.eval, ihx hr.1, ihy hr.2]

theorem agree_write (V : Valid) (G S : Gens) (g k : Nat) (v : Int) (h : Agree V G S) :
    Agree (V.write g k) (G.put k g v) (S.put 0 g v) := by
  intro g' k' hv
  simp only [Valid.write] at hv
  simp only [Gens.put]
  by_cases hg : g' = g
  · subst hg
    simp only [↓reduceIte, beq_iff_eq] at hv
    subst hv
    simp
  · simp only [hg, ↓reduceIte] at hv
    simp only [hg, and_false, ↓reduceIte]
    exact h g' k' hv

theorem runBody_agree (k : Nat) (a : Int) (body : List (Nat × FExpr)) :
    ∀ (V V' : Valid) (G S : Gens), Agree V G S → okBody k body V = some V' →
      Agree V' (runBody k a body G) (runBody 0 a body S) := by
  induction body with
  | nil =>
    intro V V' G S h hk
    simp only [okBody, Option.some.injEq] at hk
    subst hk
    exact h
  | cons ge rest ih =>
    intro V V' G S h hk
    obtain ⟨g, e⟩ := ge
    simp only [okBody] at hk
    split at hk
    · rename_i hr
      simp only [runBody]
      rw [FExpr.eval_agree V G S k a h e hr]
      exact ih _ _ _ _ (agree_write V G S g k _ h) hk
    · cases hk

theorem TExpr.eval_agree (E : BEnv) (e : TExpr) :
    ∀ (V V' : Valid) (G S : Gens), Agree V G S → e.ok E V = some V' →
      (e.eval E G).1 = (e.eval (specEnv E.defs) S).1 ∧ Agree V' (e.eval E G).2 (e.eval (specEnv E.defs) S).2 := by
  induction e with
  | lit v =>
    intro V V' G S h hk
    simp only [TExpr.ok, Option.some.injEq] at hk
    subst hk
    exact ⟨rfl, h⟩
  | glob g =>
    intro V V' G S h hk
    simp only [TExpr.ok] at hk
    split at hk
    · rename_i hv
      simp only [Option.some.injEq] at hk
      subst hk
      exact ⟨h g E.cur hv, h⟩
    · cases hk
  | add a b iha ihb =>
    intro V V' G S h hk
    simp only [TExpr.ok] at hk
    cases ha : a.ok E V with
    | none => simp [ha] at hk
    | some V1 =>
      simp only [ha, Option.bind_some] at hk
      obtain ⟨e1, h1⟩ := iha V V1 G S h ha
      obtain ⟨e2, h2⟩ := ihb V1 V' _ _ h1 hk
      simp only [TExpr.eval]
      exact ⟨by rw [e1, e2], h2⟩
  | call f a iha =>
    intro V V' G S h hk
    simp only [TExpr.ok] at hk
    cases ha : a.ok E V with
    | none => simp [ha] at hk
    | some V1 =>
      simp only [ha, Option.bind_some] at hk
      obtain ⟨e1, h1⟩ := iha V V1 G S h ha
      simp only [TExpr.eval, specEnv]
      cases hd : E.defs f with
      | none =>
        simp only [hd] at hk
        simp only [Option.some.injEq] at hk
        subst hk
        simp only []
        exact ⟨trivial, h1⟩
      | some d =>
        cases hb : E.bind f with
        | none => simp [hd, hb] at hk
        | some k =>
          simp only [hd, hb] at hk
          cases hbody : okBody k d.body V1 with
          | none => simp [hbody] at hk
          | some V2 =>
            simp only [hbody, Option.bind_some] at hk
            split at hk
            · rename_i hret
              simp only [Option.some.injEq] at hk
              subst hk
              simp only [Option.map_some]
              have hx : (a.eval E G).1 = (a.eval (specEnv E.defs) S).1 := e1
              simp only [specEnv] at hx h1
              rw [hx]
              have h2 := runBody_agree k (a.eval ⟨0, E.defs, fun f => (E.defs f).map fun _ => 0⟩ S).1 d.body V1 V2 _ _ h1 hbody
              exact ⟨FExpr.eval_agree V2 _ _ k _ h2 d.ret hret, h2⟩
            · cases hk

theorem TStmt.exec_agree (E : BEnv) (s : TStmt) (V V' : Valid) (G S : Gens) (h : Agree V G S)
    (hk : s.ok E V = some V') :
    (s.exec E G).1 = (s.exec (specEnv E.defs) S).1 ∧ Agree V' (s.exec E G).2 (s.exec (specEnv E.defs) S).2 := by
  cases s with
  | set g e =>
    simp only [TStmt.ok] at hk
    cases he : e.ok E V with
    | none => simp [he] at hk
    | some V1 =>
      simp only [he, Option.map_some, Option.some.injEq] at hk
      subst hk
      obtain ⟨e1, h1⟩ := TExpr.eval_agree E e V V1 G S h he
      simp only [TStmt.exec]
      refine ⟨trivial, ?_⟩
      rw [e1]
      exact agree_write V1 _ _ g E.cur _ h1
  | defn f d =>
    simp only [TStmt.ok, Option.some.injEq] at hk
    subst hk
    exact ⟨rfl, h⟩
  | expr e =>
    simp only [TStmt.ok] at hk
    obtain ⟨e1, h1⟩ := TExpr.eval_agree E e V V' G S h hk
    simp only [TStmt.exec]
    exact ⟨by rw [e1], h1⟩

theorem execPiece_agree (E : BEnv) (l : List TStmt) :
    ∀ (V V' : Valid) (G S : Gens) (v : Option Int), Agree V G S → okPiece E l V = some V' →
      (execPiece E l G v).1 = (execPiece (specEnv E.defs) l S v).1 ∧
      Agree V' (execPiece E l G v).2 (execPiece (specEnv E.defs) l S v).2 := by
  induction l with
  | nil =>
    intro V V' G S v h hk
    simp only [okPiece, Option.some.injEq] at hk
    subst hk
    exact ⟨rfl, h⟩
  | cons s rest ih =>
    intro V V' G S v h hk
    simp only [okPiece] at hk
    cases hs : s.ok E V with
    | none => simp [hs] at hk
    | some V1 =>
      simp only [hs, Option.bind_some] at hk
      obtain ⟨e1, h1⟩ := TStmt.exec_agree E s V V1 G S h hs
      simp only [execPiece]
      rw [e1]
      exact ih V1 V' _ _ _ h1 hk

theorem reload_agree (c : BCtl) (V : Valid) (G S : Gens) (h : Agree V G S) :
    Agree (reloadValid c V) (reloadGens c G) S := by
  intro g k hv
  simp only [reloadValid, reloadGens] at hv ⊢
  cases hs : c.started with
  | false =>
    simp only [hs, Bool.false_eq_true, ↓reduceIte] at hv ⊢
    exact h g k hv
  | true =>
    simp only [hs, ↓reduceIte] at hv ⊢
    by_cases hk : k = c.cur + 1
    · simp only [hk, ↓reduceIte] at hv ⊢
      exact h g c.cur hv
    · simp only [hk, ↓reduceIte] at hv ⊢
      exact h g k hv

theorem bindRun_agree (h : List (List TStmt)) :
    ∀ (c : BCtl) (V : Valid) (G S : Gens) (c' : BCtl) (V' : Valid), Agree V G S →
      bindGuardFrom c V h = some (c', V') →
      (bindRun c G h).1 = (bindSpec c.defs S h).1 ∧ (bindRun c G h).2.1 = c' ∧
      Agree V' (bindRun c G h).2.2 (bindSpec c.defs S h).2.2 := by
  induction h with
  | nil =>
    intro c V G S c' V' ha hg
    simp only [bindGuardFrom, Option.some.injEq, Prod.mk.injEq] at hg
    obtain ⟨h1, h2⟩ := hg
    subst h1; subst h2
    exact ⟨rfl, rfl, ha⟩
  | cons l rest ih =>
    intro c V G S c' V' ha hg
    simp only [bindGuardFrom] at hg
    cases hp : okPiece (c.next l).env l (reloadValid c V) with
    | none => simp [hp] at hg
    | some V1 =>
      simp only [hp] at hg
      obtain ⟨e1, h1⟩ := execPiece_agree (c.next l).env l _ V1 _ S none (reload_agree c V G S ha) hp
      have hd : (c.next l).env.defs = addDefs c.defs l := rfl
      rw [hd] at e1 h1
      obtain ⟨e2, e3, h2⟩ := ih (c.next l) V1 _ _ c' V' h1 hg
      have hd2 : (c.next l).defs = addDefs c.defs l := rfl
      rw [hd2] at e2 h2
      simp only [bindRun, bindSpec]
      exact ⟨by rw [e1, e2], e3, h2⟩


/-! ### since the repair of C18-function-globals-snapshot every read goes to the current generation -/

theorem okBody_cur (k : Nat) (body : List (Nat × FExpr)) :
    ∀ (V : Valid), (∀ g, V g k = true) → ∃ V', okBody k body V = some V' ∧ ∀ g, V' g k = true := by
  induction body with
  | nil => intro V hV; exact ⟨V, rfl, hV⟩
  | cons ge rest ih =>
    intro V hV
    obtain ⟨g, e⟩ := ge
    have hr : e.reads.all (fun x => V x k) = true := List.all_eq_true.2 (fun x _ => hV x)
    simp only [okBody, hr, ↓reduceIte]
    apply ih
    intro g'
    simp only [Valid.write]
    by_cases hg : g' = g
    · simp [hg]
    · simp [hg, hV g']

/-- an environment in which every function constant is bound to the current generation -/
def BEnv.allCur (E : BEnv) : Prop := ∀ f, E.bind f = (E.defs f).map fun _ => E.cur

theorem TExpr.ok_cur (E : BEnv) (hE : E.allCur) (e : TExpr) :
    ∀ (V : Valid), (∀ g, V g E.cur = true) → ∃ V', e.ok E V = some V' ∧ ∀ g, V' g E.cur = true := by
  induction e with
  | lit v => intro V hV; exact ⟨V, rfl, hV⟩
  | glob g => intro V hV; exact ⟨V, by simp [TExpr.ok, hV g], hV⟩
  | add a b iha ihb =>
    intro V hV
    obtain ⟨V1, h1, hV1⟩ := iha V hV
    obtain ⟨V2, h2, hV2⟩ := ihb V1 hV1
    exact ⟨V2, by simp [TExpr.ok, h1, h2], hV2⟩
  | call f a iha =>
    intro V hV
    obtain ⟨V1, h1, hV1⟩ := iha V hV
    have hb := hE f
    cases hd : E.defs f with
    | none =>
      rw [hd] at hb
      simp only [Option.map_none] at hb
      exact ⟨V1, by simp [TExpr.ok, h1, hd, hb], hV1⟩
    | some d =>
      rw [hd] at hb
      simp only [Option.map_some] at hb
      obtain ⟨V2, h2, hV2⟩ := okBody_cur E.cur d.body V1 hV1
      exact ⟨V2, by simp [TExpr.ok, h1, hd, hb, h2]; exact fun x _ => hV2 x, hV2⟩

theorem TStmt.ok_cur (E : BEnv) (hE : E.allCur) (s : TStmt) (V : Valid) (hV : ∀ g, V g E.cur = true) :
    ∃ V', s.ok E V = some V' ∧ ∀ g, V' g E.cur = true := by
  cases s with
  | set g e =>
    obtain ⟨V1, h1, hV1⟩ := TExpr.ok_cur E hE e V hV
    refine ⟨V1.write g E.cur, by simp [TStmt.ok, h1], ?_⟩
    intro g'
    simp only [Valid.write]
    by_cases hg : g' = g
    · simp [hg]
    · simp [hg, hV1 g']
  | defn f d => exact ⟨V, rfl, hV⟩
  | expr e =>
    obtain ⟨V1, h1, hV1⟩ := TExpr.ok_cur E hE e V hV
    exact ⟨V1, by simp [TStmt.ok, h1], hV1⟩

theorem okPiece_cur (E : BEnv) (hE : E.allCur) (l : List TStmt) :
    ∀ (V : Valid), (∀ g, V g E.cur = true) → ∃ V', okPiece E l V = some V' ∧ ∀ g, V' g E.cur = true := by
  induction l with
  | nil => intro V hV; exact ⟨V, rfl, hV⟩
  | cons s rest ih =>
    intro V hV
    obtain ⟨V1, h1, hV1⟩ := TStmt.ok_cur E hE s V hV
    obtain ⟨V2, h2, hV2⟩ := ih V1 hV1
    exact ⟨V2, by simp [okPiece, h1, h2], hV2⟩

/-- every run binds every function constant to its own generation … -/
theorem next_allCur (c : BCtl) (l : List TStmt) : (c.next l).env.allCur := fun _ => rfl

/-- … which starts as a copy of the previous one: valid wherever the previous one was -/
theorem reloadValid_cur (c : BCtl) (l : List TStmt) (V : Valid) (hV : ∀ g, V g c.cur = true) :
    ∀ g, reloadValid c V g (c.next l).env.cur = true := by
  intro g
  simp only [reloadValid, BCtl.next, BCtl.env]
  cases hs : c.started with
  | false => simp [hV g]
  | true => simp [hV g]

theorem bindGuardFrom_isSome (h : List (List TStmt)) :
    ∀ (c : BCtl) (V : Valid), (∀ g, V g c.cur = true) → (bindGuardFrom c V h).isSome = true := by
  induction h with
  | nil => intro c V _; rfl
  | cons l rest ih =>
    intro c V hV
    obtain ⟨V1, h1, hV1⟩ := okPiece_cur (c.next l).env (next_allCur c l) l (reloadValid c V) (reloadValid_cur c l V hV)
    simp only [bindGuardFrom, h1]
    exact ih (c.next l) V1 hV1


/-! ## Layer 6: the import cache -/
theorem execI_append (cfg : ModCfg) (a b : List IStmt) (s : ISt) :
    execI cfg (a ++ b) s = execI cfg b (execI cfg a s) := by
  simp [execI, List.foldl_append]

theorem impRun_keep (cfg : ModCfg) (seed : List Nat) (h : List (List IStmt)) :
    ∀ s, impRun false cfg seed s h = execI cfg h.flatten s := by
  induction h with
  | nil => intro s; rfl
  | cons l rest ih =>
    intro s
    simp only [impRun, startRun, List.flatten_cons, execI_append]
    exact ih _

/-! ## Layer 7: slot-indexed globals -/
theorem getD_append_none (a : Slots) (k i : Nat) :
    (a ++ List.replicate k none).getD i none = a.getD i none := by
  simp only [List.getD_eq_getElem?_getD]
  by_cases h : i < a.length
  · rw [List.getElem?_append_left h]
  · have h' : a.length ≤ i := Nat.le_of_not_lt h
    rw [List.getElem?_append_right h', List.getElem?_eq_none_iff.mpr h']
    cases hr : (List.replicate k (none : Option Int))[i - a.length]? with
    | none => rfl
    | some v =>
      have := List.mem_of_getElem? hr
      rw [List.mem_replicate] at this
      rw [this.2]
      rfl

theorem eval_pad (a : Slots) (k : Nat) (e : SExpr) : e.eval (a ++ List.replicate k none) = e.eval a := by
  induction e with
  | lit v => rfl
  | slot i => simp only [SExpr.eval, getD_append_none]
  | add x y ihx ihy => simp only [SExpr.eval, ihx, ihy]

theorem exec_pad (t : SStmt) (a : Slots) (vs : List Int) (k : Nat) (h : t.scoped a.length = true) :
    t.exec (a ++ List.replicate k none, vs) = ((t.exec (a, vs)).1 ++ List.replicate k none, (t.exec (a, vs)).2) ∧
    (t.exec (a, vs)).1.length = a.length := by
  cases t with
  | set i e =>
    simp only [SStmt.scoped, Bool.and_eq_true, decide_eq_true_eq] at h
    simp only [SStmt.exec, eval_pad, List.length_set, and_true]
    rw [List.set_append_left _ _ h.1]
  | expr e => simp only [SStmt.exec, eval_pad, and_true]

theorem scoped_mono_e (e : SExpr) (n m : Nat) (hnm : n ≤ m) (h : e.scoped n = true) : e.scoped m = true := by
  induction e with
  | lit v => rfl
  | slot i => simp only [SExpr.scoped, decide_eq_true_eq] at h ⊢; omega
  | add x y ihx ihy =>
    simp only [SExpr.scoped, Bool.and_eq_true] at h ⊢
    exact ⟨ihx h.1, ihy h.2⟩

theorem execS_pad (l : List SStmt) : ∀ (a : Slots) (vs : List Int) (k : Nat), l.all (·.scoped a.length) = true →
    execS l (a ++ List.replicate k none, vs) = ((execS l (a, vs)).1 ++ List.replicate k none, (execS l (a, vs)).2) ∧
    (execS l (a, vs)).1.length = a.length := by
  induction l with
  | nil => intro a vs k _; exact ⟨rfl, rfl⟩
  | cons t rest ih =>
    intro a vs k h
    simp only [List.all_cons, Bool.and_eq_true] at h
    obtain ⟨e1, e2⟩ := exec_pad t a vs k h.1
    simp only [execS, List.foldl_cons] at ih ⊢
    rw [e1]
    have := ih (t.exec (a, vs)).1 (t.exec (a, vs)).2 k (by rw [e2]; exact h.2)
    rw [e2] at this
    exact this

theorem execS_append (a b : List SStmt) (s : SSt) : execS (a ++ b) s = execS b (execS a s) := by
  simp [execS, List.foldl_append]

theorem reloadBySlot_grow (names : List Nat) (a : Slots) (h : a.length ≤ names.length) :
    reloadBySlot names a = a ++ List.replicate (names.length - a.length) none := by
  simp only [reloadBySlot, copyInto, List.length_replicate, List.drop_replicate]
  rw [List.take_of_length_le h]

theorem allStmts_cons (p : SPiece) (rest : List SPiece) : allStmts (p :: rest) = p.stmts ++ allStmts rest := by
  simp [allStmts]

theorem allDecls_cons (p : SPiece) (rest : List SPiece) : allDecls (p :: rest) = p.decls ++ allDecls rest := by
  simp [allDecls]

theorem slotRun_pad (N : Nat) (h : List SPiece) : ∀ (names : List Nat) (a : Slots) (vs : List Int),
    a.length = names.length → scopedFrom names.length h = true → names.length + (allDecls h).length ≤ N →
    (slotRun reloadBySlot names (a, vs) h).2.1 ++ List.replicate (N - (names.length + (allDecls h).length)) none
      = (execS (allStmts h) (a ++ List.replicate (N - a.length) none, vs)).1 ∧
    (slotRun reloadBySlot names (a, vs) h).2.2 = (execS (allStmts h) (a ++ List.replicate (N - a.length) none, vs)).2 ∧
    (slotRun reloadBySlot names (a, vs) h).2.1.length = names.length + (allDecls h).length ∧
    (slotRun reloadBySlot names (a, vs) h).1 = names ++ allDecls h := by
  induction h with
  | nil =>
    intro names a vs ha _ _
    simp [slotRun, allStmts, allDecls, execS, ha]
  | cons p rest ih =>
    intro names a vs ha hs hN
    simp only [scopedFrom, Bool.and_eq_true] at hs
    rw [allDecls_cons, List.length_append] at hN
    have hle : a.length ≤ (names ++ p.decls).length := by rw [List.length_append]; omega
    have hgrow := reloadBySlot_grow (names ++ p.decls) a hle
    have hd : (names ++ p.decls).length - a.length = p.decls.length := by rw [List.length_append]; omega
    rw [hd] at hgrow
    have hlen1 : (a ++ List.replicate p.decls.length (none : Option Int)).length = names.length + p.decls.length := by
      rw [List.length_append, List.length_replicate, ha]
    have hsc : p.stmts.all (·.scoped (a ++ List.replicate p.decls.length (none : Option Int)).length) = true := by
      rw [hlen1]; exact hs.1
    obtain ⟨e1, e2⟩ := execS_pad p.stmts (a ++ List.replicate p.decls.length none) vs
      (N - (names.length + p.decls.length)) hsc
    have hsplit : a ++ List.replicate (N - a.length) (none : Option Int)
        = (a ++ List.replicate p.decls.length none) ++ List.replicate (N - (names.length + p.decls.length)) none := by
      rw [List.append_assoc, List.replicate_append_replicate]
      congr 2
      omega
    have hlen2 := e2
    rw [hlen1] at hlen2
    have hnl : (names ++ p.decls).length = names.length + p.decls.length := List.length_append
    obtain ⟨i1, i2, i3, i4⟩ := ih (names ++ p.decls) (execS p.stmts (a ++ List.replicate p.decls.length none, vs)).1
      (execS p.stmts (a ++ List.replicate p.decls.length none, vs)).2 (by rw [hlen2, hnl]) (by rw [hnl]; exact hs.2)
      (by rw [hnl]; omega)
    simp only [slotRun, hgrow, allStmts_cons, allDecls_cons, execS_append]
    rw [hsplit, e1]
    rw [hlen2] at i1 i2
    rw [hnl] at i1 i3
    refine ⟨?_, i2, ?_, ?_⟩
    · rw [List.length_append, ← Nat.add_assoc]; exact i1
    · rw [List.length_append, ← Nat.add_assoc]; exact i3
    · rw [i4, List.append_assoc]


/-- invariant of the import cache: `pending` = modules whose body is running (logged, not cached yet) -/
def CacheInv (seed pending : List Nat) (s : ISt) : Prop :=
  s.log.Nodup ∧ (∀ x ∈ s.log, (x ∈ s.cache ∨ x ∈ pending) ∧ x ∉ seed) ∧ (∀ x ∈ seed, x ∈ s.cache)

theorem loadMod_inv (cfg : ModCfg) (seed : List Nat) (m : Nat) : ∀ (s : ISt) (pending : List Nat),
    CacheInv seed pending s → (∀ x ∈ pending, m < x) → CacheInv seed pending (loadMod cfg m s) := by
  induction m with
  | zero =>
    intro s pending inv hp
    unfold loadMod
    split
    · exact inv
    · rename_i hc
      have hc' : 0 ∉ s.cache := by simpa using hc
      obtain ⟨i1, i2, i3⟩ := inv
      have hnl : 0 ∉ s.log := fun hl => by
        rcases (i2 0 hl).1 with h | h
        · exact hc' h
        · exact Nat.lt_irrefl 0 (hp 0 h)
      refine ⟨?_, ?_, ?_⟩
      · simp only [List.nodup_append, List.nodup_cons, List.not_mem_nil, not_false_eq_true, List.nodup_nil, and_self,
          List.mem_cons, or_false, true_and]
        exact ⟨i1, fun a ha b hb => by subst hb; intro e; subst e; exact hnl ha⟩
      · intro x hx
        simp only [List.mem_append, List.mem_cons, List.not_mem_nil, or_false] at hx
        rcases hx with hx | hx
        · refine ⟨?_, (i2 x hx).2⟩
          rcases (i2 x hx).1 with h | h
          · exact Or.inl (List.mem_cons_of_mem _ h)
          · exact Or.inr h
        · subst hx
          exact ⟨Or.inl (List.mem_cons_self), fun hs => hc' (i3 _ hs)⟩
      · intro x hx; exact List.mem_cons_of_mem _ (i3 x hx)
  | succ m ih =>
    intro s pending inv hp
    unfold loadMod
    split
    · exact inv
    · rename_i hc
      have hc' : (m + 1) ∉ s.cache := by simpa using hc
      obtain ⟨i1, i2, i3⟩ := inv
      have hnl : (m + 1) ∉ s.log := fun hl => by
        rcases (i2 _ hl).1 with h | h
        · exact hc' h
        · exact Nat.lt_irrefl _ (hp _ h)
      have inv1 : CacheInv seed ((m + 1) :: pending) { s with log := s.log ++ [m + 1] } := by
        refine ⟨?_, ?_, i3⟩
        · simp only [List.nodup_append, List.nodup_cons, List.not_mem_nil, not_false_eq_true, List.nodup_nil, and_self,
            List.mem_cons, or_false, true_and]
          exact ⟨i1, fun a ha b hb => by subst hb; intro e; subst e; exact hnl ha⟩
        · intro x hx
          simp only [List.mem_append, List.mem_cons, List.not_mem_nil, or_false] at hx
          rcases hx with hx | hx
          · refine ⟨?_, (i2 x hx).2⟩
            rcases (i2 x hx).1 with h | h
            · exact Or.inl h
            · exact Or.inr (List.mem_cons_of_mem _ h)
          · subst hx
            exact ⟨Or.inr (List.mem_cons_self), fun hs => hc' (i3 _ hs)⟩
      have hp1 : ∀ x ∈ (m + 1) :: pending, m < x := by
        intro x hx
        simp only [List.mem_cons] at hx
        rcases hx with hx | hx
        · omega
        · have := hp x hx; omega
      have inv2 : CacheInv seed ((m + 1) :: pending)
          (if cfg.dep (m + 1) then loadMod cfg m { s with log := s.log ++ [m + 1] } else { s with log := s.log ++ [m + 1] }) := by
        split
        · exact ih _ _ inv1 hp1
        · exact inv1
      obtain ⟨j1, j2, j3⟩ := inv2
      refine ⟨j1, ?_, fun x hx => List.mem_cons_of_mem _ (j3 x hx)⟩
      intro x hx
      refine ⟨?_, (j2 x hx).2⟩
      rcases (j2 x hx).1 with h | h
      · exact Or.inl (List.mem_cons_of_mem _ h)
      · simp only [List.mem_cons] at h
        rcases h with h | h
        · subst h; exact Or.inl (List.mem_cons_self)
        · exact Or.inr h

theorem exec_inv (cfg : ModCfg) (seed : List Nat) (t : IStmt) (s : ISt) (inv : CacheInv seed [] s) :
    CacheInv seed [] (t.exec cfg s) := by
  cases t with
  | imp h m => exact loadMod_inv cfg seed m s [] inv (fun _ hx => by cases hx)
  | bump h d => simp only [IStmt.exec]; split <;> exact inv
  | get hs => exact inv
  | below h => simp only [IStmt.exec]; split <;> exact inv
  | keep j h => exact inv

theorem execI_inv (cfg : ModCfg) (l : List IStmt) : ∀ (s : ISt) (seed : List Nat), CacheInv seed [] s →
    CacheInv seed [] (execI cfg l s) := by
  induction l with
  | nil => intro s seed inv; exact inv
  | cons t rest ih => intro s seed inv; exact ih _ _ (exec_inv cfg seed t s inv)


theorem lastNamed_absent (names : List Nat) (a : Slots) (nm : Nat) (h : nm ∉ names) : lastNamed names a nm = none := by
  simp only [lastNamed, List.findSome?_eq_none_iff, List.mem_reverse]
  intro p hp
  have := (List.of_mem_zip (show (p.1, p.2) ∈ names.zip a from hp)).1
  split
  · rename_i e; subst e; exact absurd this h
  · rfl

theorem lastNamed_cons (x : Nat) (xs : List Nat) (v : Option Int) (vs : Slots) (nm : Nat) :
    lastNamed (x :: xs) (v :: vs) nm = (lastNamed xs vs nm).or (if x = nm then v else none) := by
  simp only [lastNamed, List.zip_cons_cons, List.reverse_cons, List.findSome?_append, List.findSome?_cons,
    List.findSome?_nil]
  cases (if x = nm then v else none) <;> rfl

theorem lastNamed_nodup (names : List Nat) : ∀ (a : Slots) (i : Nat) (hi : i < names.length), names.Nodup →
    lastNamed names a names[i] = a.getD i none := by
  induction names with
  | nil => intro a i hi; cases hi
  | cons x xs ih =>
    intro a i hi hn
    rw [List.nodup_cons] at hn
    cases a with
    | nil => simp [lastNamed]
    | cons v vs =>
      rw [lastNamed_cons]
      cases i with
      | zero =>
        simp only [List.getElem_cons_zero, ↓reduceIte, List.getD_cons_zero]
        rw [lastNamed_absent xs vs x hn.1]
        rfl
      | succ j =>
        have hj : j < xs.length := by simpa using hi
        simp only [List.getElem_cons_succ, List.getD_cons_succ]
        rw [ih vs j hj hn.2]
        have hne : x ≠ xs[j] := fun e => hn.1 (e ▸ List.getElem_mem hj)
        simp only [hne, ↓reduceIte, Option.or_none]

theorem reloadByName_eq_of_nodup (names : List Nat) (a : Slots) (hn : names.Nodup) (ha : a.length ≤ names.length) :
    reloadByName names a = reloadBySlot names a := by
  rw [reloadBySlot_grow names a ha]
  apply List.ext_getElem
  · simp only [reloadByName, List.length_map, List.length_append, List.length_replicate]; omega
  · intro i h1 h2
    simp only [reloadByName, List.length_map] at h1
    simp only [reloadByName, List.getElem_map]
    rw [lastNamed_nodup names a i h1 hn]
    have := getD_append_none a (names.length - a.length) i
    rw [← this, List.getD_eq_getElem?_getD, List.getElem?_eq_getElem h2]
    rfl

theorem slotRun_byName_eq (h : List SPiece) : ∀ (names : List Nat) (a : Slots) (vs : List Int),
    a.length = names.length → scopedFrom names.length h = true → (names ++ allDecls h).Nodup →
    slotRun reloadByName names (a, vs) h = slotRun reloadBySlot names (a, vs) h := by
  induction h with
  | nil => intro names a vs _ _ _; rfl
  | cons p rest ih =>
    intro names a vs ha hs hn
    simp only [scopedFrom, Bool.and_eq_true] at hs
    rw [allDecls_cons, ← List.append_assoc] at hn
    have hn1 : (names ++ p.decls).Nodup := (List.nodup_append.mp hn).1
    have hnl : (names ++ p.decls).length = names.length + p.decls.length := List.length_append
    have hle : a.length ≤ (names ++ p.decls).length := by rw [hnl]; omega
    simp only [slotRun]
    rw [reloadByName_eq_of_nodup _ a hn1 hle]
    have hgrow := reloadBySlot_grow (names ++ p.decls) a hle
    have hlen1 : (reloadBySlot (names ++ p.decls) a).length = names.length + p.decls.length := by
      rw [hgrow, List.length_append, List.length_replicate, hnl]; omega
    have hsc : p.stmts.all (·.scoped (reloadBySlot (names ++ p.decls) a).length) = true := by rw [hlen1]; exact hs.1
    have hlen2 := (execS_pad p.stmts (reloadBySlot (names ++ p.decls) a) vs 0 hsc).2
    exact ih (names ++ p.decls) _ _ (hlen2.trans (hlen1.trans hnl.symm)) (by rw [hnl]; exact hs.2) hn

end Risor.C18
