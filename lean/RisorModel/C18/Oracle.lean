import RisorModel.Util
/-! Line-protocol front end of the C18 model (stub until the model exists). -/
namespace Risor.C18

def handle : List String → String
  | _ => "error\tnot-implemented"

end Risor.C18
