import RisorModel.Util
import RisorModel.C04.Model
import RisorModel.C18.Model
import RisorModel.C18.Tables
import RisorModel.C18.Decls
/-! Line-protocol front end of the C18 model.

`hist <history>` → `ok <impl outcomes> <impl registers> <impl trace> <spec outcomes> <spec trace> <violated guards>`
  history  := piece ("|" piece)*            piece := "X" (parse error) | stmt (";" stmt)*
  stmt     := id:flags:need:leak:pre:uses:asg:vdecl:cdecl:fdefs:calls
  flags    := subset of "elfnj" (isExpr, leaves, fails, inFn, junk) or "-";  lists := n.n.n or "-"
              (need, pre, inFn, junk describe the piece for the historical `PreFix` machine; the Impl machine does not read them)
  outcomes := per piece `ok:<value id>` | `parse` | `compile` | `fail`
  registers:= per piece `<stack height>:<ip at end of code 1/0>:<code grew 1/0>:0` (the last field was "compiler stuck"
              before the repair of C18-compiler-stuck-in-function; kept so that the wire format is unchanged)
  trace    := per piece the statements executed by that piece's run, `id` or `id~` (stale globals view)
`histh <host names> <history>` → the same answer with the listed names (n.n.n or "-") defined as
  host-supplied variables before the first piece (`Repl.init`, `SpecSt.init`, `guardHost`)
`imp …` (layer 6: import cache), `slots …` (layer 7: slot-indexed globals) and `tabs …` (layer 8: constants and root symbol
  table under rollback): see the sections below.
`frag <instruction text>` → `accept <max height>` | `reject <why>`: the real fragment a piece added to
  the main code is position-independent (all jumps stay inside it), starts on an empty frame-relative
  stack, never reads below it and ends with exactly one value — C04's verified checker. -/
namespace Risor.C18

def parseList (s : String) : Option (List Nat) :=
  if s == "-" then some [] else (s.splitOn ".").mapM String.toNat?

def parseStmt (t : String) : Option Stmt :=
  match t.splitOn ":" with
  | [id, fl, need, leak, pre, uses, asg, vd, cd, fd, calls] => do
    let id ← id.toNat?
    let need ← need.toNat?
    let leak ← leak.toNat?
    let pre ← pre.toNat?
    let uses ← parseList uses
    let asg ← parseList asg
    let vd ← parseList vd
    let cd ← parseList cd
    let fd ← parseList fd
    let calls ← parseList calls
    let has (c : Char) : Bool := fl.toList.contains c
    pure { id := id, isExpr := has 'e', leaves := has 'l', fails := has 'f', inFn := has 'n', junk := has 'j',
           need := need, leak := leak, pre := pre, uses := uses, asg := asg, vdecl := vd, cdecl := cd,
           fdefs := fd, calls := calls }
  | _ => none

def parsePiece (t : String) : Option Piece :=
  if t == "X" then some .bad else (t.splitOn ";").mapM parseStmt |>.map .stmts

def parseHist (t : String) : Option (List Piece) := (t.splitOn "|").mapM parsePiece

def showOutcome : Outcome → String
  | .ok v => "ok:" ++ toString v
  | .parseRejected => "parse"
  | .compileRejected => "compile"
  | .failed => "fail"

def showTrace (l : List (Nat × Bool)) : String :=
  if l.isEmpty then "-" else ".".intercalate (l.map fun (i, st) => toString i ++ (if st then "~" else ""))

def b01 (b : Bool) : String := if b then "1" else "0"

/-- feed the pieces one by one, recording registers and the trace delta of each -/
def implLog : Repl → List Piece → List (String × String × String)
  | _, [] => []
  | r, p :: ps =>
    let (r1, o) := r.feed p
    let reg := toString r1.vm.stack.length ++ ":" ++ b01 (r1.vm.ip == r1.comp.code.length) ++ ":" ++
      b01 (r1.comp.code.length > r.comp.code.length) ++ ":0"
    (showOutcome o, reg, showTrace (r1.vm.trace.drop r.vm.trace.length)) :: implLog r1 ps

def specLog : SpecSt → List Piece → List (String × String)
  | _, [] => []
  | s, p :: ps =>
    let (s1, o) := s.feed p
    (showOutcome o, showTrace (s1.trace.drop s.trace.length)) :: specLog s1 ps

def bar (l : List String) : String := if l.isEmpty then "-" else "|".intercalate l

/-- the answer to a history request; `host` = the host-supplied global names the history mentions -/
def answerHist (host : List Nat) (ps : List Piece) : String :=
  let il := implLog (Repl.init host) ps
  let sl := specLog (SpecSt.init host) ps
  let gs := violatedGuardsFrom (GSt.init host) ps
  "\t".intercalate ["ok", bar (il.map (·.1)), bar (il.map (·.2.1)), bar (il.map (·.2.2)),
    bar (sl.map (·.1)), bar (sl.map (·.2)), (if gs.isEmpty then "-" else ",".intercalate gs),
    b01 (guardHost host ps)]


/-! ### layer 3: `marks <history>`
  history := piece ("|" piece)*   piece := "-" | ev ("," ev)*
  ev := "+" m (enter) | "-" … no: "<" (leave) | "e" k ":" letters-or-"-" (emit) | "!" (err);  m := p l b s f
  answer: `ok <impl> <spec> <bracketed 0/1>`, per piece `a|r : marks left set (letters or -) : code`, code := k or k~letters, "." separated -/

def markOf : Char → Option Mark
  | 'p' => some .pipe | 'l' => some .loop | 'b' => some .block | 's' => some .switchVal | 'f' => some .fn | _ => none

def markCh : Mark → Char
  | .pipe => 'p' | .loop => 'l' | .block => 'b' | .switchVal => 's' | .fn => 'f'

def showMarks (l : List Mark) : String := if l.isEmpty then "-" else String.ofList (l.map markCh)

def parseEv (t : String) : Option CEv :=
  match t.toList with
  | ['+', c] => (markOf c).map .enter
  | ['<'] => some .leave
  | ['!'] => some .err
  | 'e' :: rest =>
    match (String.ofList rest).splitOn ":" with
    | [k, ms] => do
      let k ← k.toNat?
      let ms ← if ms == "-" then some [] else ms.toList.mapM markOf
      pure (.emit k ms)
    | _ => none
  | _ => none

def parseEvs (t : String) : Option (List CEv) := if t == "-" then some [] else (t.splitOn ",").mapM parseEv

def showMOut (inh : List Mark) (r : MOut) : String :=
  (if r.ok then "a" else "r") ++ ":" ++ showMarks (r.own ++ inh) ++ ":" ++
    (if r.code.isEmpty then "-" else ".".intercalate (r.code.map fun (k, u) => toString k ++ (if u.isEmpty then "" else "~" ++ showMarks u)))

def marksLog (inh : List Mark) : List (List CEv) → List String
  | [] => []
  | evs :: rest =>
    let r := compileEvs inh [] evs
    showMOut inh r :: marksLog (r.own ++ inh) rest

/-! ### layer 4: `bind <number of globals> <history>`
  history := piece ("|" piece)*   piece := stmt (";" stmt)*
  stmt := "s" g "=" texpr | "d" f "=" body "@" fexpr | "x" texpr     body := "-" | g ":" fexpr ("&" g ":" fexpr)*
  texpr/fexpr := prefix token lists, "," separated: L<int> G<n> A + C<f>
  answer: `ok <impl values> <impl globals> <spec values> <spec globals> <valid> <first piece outside the guard or ->`,
  per piece ("|"): value `n` or an integer; globals/valid "." separated, valid = 1/0 per global of the current generation ("?" once outside the guard) -/

def tl1 (t : String) : String := String.ofList (t.toList.drop 1)

def parseIntTok (t : String) : Option Int :=
  if t.startsWith "-" then (tl1 t).toNat?.map (fun n => - (Int.ofNat n)) else t.toNat?.map Int.ofNat

def parseFTok : Nat → List String → Option (FExpr × List String)
  | 0, _ => none
  | fuel + 1, t :: rest =>
    if t == "A" then some (.arg, rest)
    else if t == "+" then do
      let (a, r1) ← parseFTok fuel rest
      let (b, r2) ← parseFTok fuel r1
      pure (.add a b, r2)
    else if t.startsWith "L" then (parseIntTok (tl1 t)).map fun v => (.lit v, rest)
    else if t.startsWith "G" then (tl1 t).toNat?.map fun g => (.glob g, rest)
    else none
  | _, [] => none

def parseTTok : Nat → List String → Option (TExpr × List String)
  | 0, _ => none
  | fuel + 1, t :: rest =>
    if t == "+" then do
      let (a, r1) ← parseTTok fuel rest
      let (b, r2) ← parseTTok fuel r1
      pure (.add a b, r2)
    else if t.startsWith "L" then (parseIntTok (tl1 t)).map fun v => (.lit v, rest)
    else if t.startsWith "G" then (tl1 t).toNat?.map fun g => (.glob g, rest)
    else if t.startsWith "C" then do
      let f ← (tl1 t).toNat?
      let (a, r1) ← parseTTok fuel rest
      pure (.call f a, r1)
    else none
  | _, [] => none

def parseF (t : String) : Option FExpr :=
  let toks := t.splitOn ","
  match parseFTok (toks.length + 1) toks with
  | some (e, []) => some e
  | _ => none

def parseT (t : String) : Option TExpr :=
  let toks := t.splitOn ","
  match parseTTok (toks.length + 1) toks with
  | some (e, []) => some e
  | _ => none

def parseBody (t : String) : Option (List (Nat × FExpr)) :=
  if t == "-" then some [] else (t.splitOn "&").mapM fun a =>
    match a.splitOn ":" with
    | [g, e] => do pure ((← g.toNat?), (← parseF e))
    | _ => none

def parseTStmt (t : String) : Option TStmt :=
  if t.startsWith "x" then (parseT (tl1 t)).map .expr
  else match (tl1 t).splitOn "=" with
    | [a, b] =>
      if t.startsWith "s" then do pure (.set (← a.toNat?) (← parseT b))
      else if t.startsWith "d" then
        match b.splitOn "@" with
        | [body, ret] => do pure (.defn (← a.toNat?) ⟨(← parseBody body), (← parseF ret)⟩)
        | _ => none
      else none
    | _ => none

def parseBindHist (t : String) : Option (List (List TStmt)) :=
  (t.splitOn "|").mapM fun p => (p.splitOn ";").mapM parseTStmt

def showVal : Option Int → String
  | none => "n"
  | some v => toString v

def dots (l : List String) : String := if l.isEmpty then "-" else ".".intercalate l

/-- Impl, piece by piece: value, the current generation's globals, and the guard's bookkeeping -/
def bindLog (ng : Nat) : BCtl → Gens → Option Valid → List (List TStmt) → List (String × String × String)
  | _, _, _, [] => []
  | c, G, V, l :: rest =>
    let c1 := c.next l
    let r := execPiece c1.env l (reloadGens c G) none
    let V1 := V.bind fun v => okPiece c1.env l (reloadValid c v)
    let snap := dots ((List.range ng).map fun g => toString (r.2 c1.cur g))
    let vs := match V1 with
      | some v => dots ((List.range ng).map fun g => b01 (v g c1.cur))
      | none => "?"
    (showVal r.1, snap, vs) :: bindLog ng c1 r.2 V1 rest

def bindSpecLog (ng : Nat) : (Nat → Option FnDef) → Gens → List (List TStmt) → List (String × String)
  | _, _, [] => []
  | defs, S, l :: rest =>
    let d1 := addDefs defs l
    let r := execPiece (specEnv d1) l S none
    (showVal r.1, dots ((List.range ng).map fun g => toString (r.2 0 g))) :: bindSpecLog ng d1 r.2 rest

/-! ### layer 5: `histc <host names> <contexts> <history>`: `histh` with one context letter per piece
  (b background, c cancellable, d done before the run ends); the answer of `histh` computed on the machine
  with the halt flag, plus the flag after every piece -/

def ctxOf : Char → Option Ctx
  | 'b' => some .background | 'c' => some .cancellable | 'd' => some .done | _ => none

def implLogC : HRepl → List (Ctx × Piece) → List (String × String × String × String)
  | _, [] => []
  | h, (c, p) :: ps =>
    let (h1, o) := h.feed c p
    let r := h.r
    let r1 := h1.r
    let reg := toString r1.vm.stack.length ++ ":" ++ b01 (r1.vm.ip == r1.comp.code.length) ++ ":" ++
      b01 (r1.comp.code.length > r.comp.code.length) ++ ":0"
    (showOutcome o, reg, showTrace (r1.vm.trace.drop r.vm.trace.length), b01 h1.halt) :: implLogC h1 ps

def answerHistC (host : List Nat) (cs : List Ctx) (ps : List Piece) : String :=
  let il := implLogC { r := Repl.init host } (cs.zip ps)
  let sl := specLog (SpecSt.init host) ps
  let gs := violatedGuardsFrom (GSt.init host) ps
  "\t".intercalate ["ok", bar (il.map (·.1)), bar (il.map (·.2.1)), bar (il.map (·.2.2.1)),
    bar (sl.map (·.1)), bar (sl.map (·.2)), (if gs.isEmpty then "-" else ",".intercalate gs),
    b01 (guardHost host ps), String.join (il.map (·.2.2.2))]

/-! ### layer 6: `imp <inits> <deps> <seed> <nvars> <history>`
  inits := one integer per module, "." separated (module numbers 0 … n-1)   deps := one 0/1 per module (module m imports m-1)
  seed  := host-supplied modules n.n or "-"                                  history := piece ("|" piece)*, piece := "-" | stmt (";" stmt)*
  stmt  := "i" h "." m | "b" h "." d | "g" h ("." h)* | "w" h | "k" j "." h
  answer: `ok <impl> <spec> <contrast>`, each one snapshot per piece ("|"): log "/" cache size "/" values of the piece's expression
  statements ("," between statements, "." inside) "/" module states "/" integer globals; spec = the concatenated program up to the end of
  that piece; contrast = an import cache that every run starts afresh -/

def parseIntList (s : String) : Option (List Int) :=
  if s == "-" then some [] else (s.splitOn ".").mapM parseIntTok

def parseIStmt (t : String) : Option IStmt :=
  let args := (tl1 t).splitOn "."
  if t.startsWith "i" then
    match args with
    | [h, m] => do pure (.imp (← h.toNat?) (← m.toNat?))
    | _ => none
  else if t.startsWith "b" then
    match args with
    | [h, d] => do pure (.bump (← h.toNat?) (← parseIntTok d))
    | _ => none
  else if t.startsWith "g" then (args.mapM String.toNat?).map .get
  else if t.startsWith "w" then (tl1 t).toNat?.map .below
  else if t.startsWith "k" then
    match args with
    | [j, h] => do pure (.keep (← j.toNat?) (← h.toNat?))
    | _ => none
  else none

def parseImpHist (t : String) : Option (List (List IStmt)) :=
  (t.splitOn "|").mapM fun p => if p == "-" then some [] else (p.splitOn ";").mapM parseIStmt

def showInts (l : List Int) : String := dots (l.map toString)

def impSnap (nm nv : Nat) (before s : ISt) : String :=
  "/".intercalate [dots (s.log.map toString), toString s.cache.length,
    (let vs := s.vals.drop before.vals.length; if vs.isEmpty then "-" else ",".intercalate (vs.map showInts)),
    showInts ((List.range nm).map s.st), showInts ((List.range nv).map s.vars)]

def impLog (reset : Bool) (cfg : ModCfg) (seed : List Nat) (nm nv : Nat) : ISt → List (List IStmt) → List String
  | _, [] => []
  | s, l :: rest =>
    let s1 := execI cfg l (startRun reset seed s)
    impSnap nm nv s s1 :: impLog reset cfg seed nm nv s1 rest

/-- Spec: the concatenated program; the snapshot after the statements of each piece -/
def impSpecLog (cfg : ModCfg) (nm nv : Nat) : ISt → List (List IStmt) → List String
  | _, [] => []
  | s, l :: rest =>
    let s1 := execI cfg l s
    impSnap nm nv s s1 :: impSpecLog cfg nm nv s1 rest

/-! ### layer 7: `slots <names> <values> <history>`
  names := the table before the first piece, n.n or "-"   values := its array, one entry per slot (an integer or "n"), "." separated, or "-"
  history := piece ("|" piece)*   piece := decls "@" stmts   decls := n.n or "-"   stmts := "-" | stmt (";" stmt)*
  stmt := "s" i "=" expr | "x" expr      expr := prefix tokens, "," separated: L<int> S<i> +
  answer: `ok <impl> <spec> <by-name contrast> <final table> <scoped 0/1>`; per piece ("|") array "/" values of the piece's expression
  statements; array entries "." separated, "n" = never stored; spec = the concatenated program on the full-size array -/

def parseSTok : Nat → List String → Option (SExpr × List String)
  | 0, _ => none
  | fuel + 1, t :: rest =>
    if t == "+" then do
      let (a, r1) ← parseSTok fuel rest
      let (b, r2) ← parseSTok fuel r1
      pure (.add a b, r2)
    else if t.startsWith "L" then (parseIntTok (tl1 t)).map fun v => (.lit v, rest)
    else if t.startsWith "S" then (tl1 t).toNat?.map fun i => (.slot i, rest)
    else none
  | _, [] => none

def parseS (t : String) : Option SExpr :=
  let toks := t.splitOn ","
  match parseSTok (toks.length + 1) toks with
  | some (e, []) => some e
  | _ => none

def parseSStmt (t : String) : Option SStmt :=
  if t.startsWith "x" then (parseS (tl1 t)).map .expr
  else if t.startsWith "s" then
    match (tl1 t).splitOn "=" with
    | [i, e] => do pure (.set (← i.toNat?) (← parseS e))
    | _ => none
  else none

def parseSPiece (t : String) : Option SPiece :=
  match t.splitOn "@" with
  | [d, ss] => do
    let decls ← parseList d
    let stmts ← if ss == "-" then some [] else (ss.splitOn ";").mapM parseSStmt
    pure ⟨decls, stmts⟩
  | _ => none

def parseSlotVals (t : String) : Option Slots :=
  if t == "-" then some [] else (t.splitOn ".").mapM fun x => if x == "n" then some none else (parseIntTok x).map some

def showSlots (a : Slots) : String :=
  dots (a.map fun v => match v with | some x => toString x | none => "n")

def slotSnap (vs0 : List Int) (s : SSt) : String := showSlots s.1 ++ "/" ++ showInts (s.2.drop vs0.length)

def slotLog (reload : List Nat → Slots → Slots) : List Nat → SSt → List SPiece → List String
  | _, _, [] => []
  | names, (a, vs), p :: rest =>
    let s1 := execS p.stmts (reload (names ++ p.decls) a, vs)
    slotSnap vs s1 :: slotLog reload (names ++ p.decls) s1 rest

def slotSpecLog : SSt → List SPiece → List String
  | _, [] => []
  | (a, vs), p :: rest =>
    let s1 := execS p.stmts (a, vs)
    slotSnap vs s1 :: slotSpecLog s1 rest


/-! ### layer 8: `tabs <history>`
  history := piece ("|" piece)*   piece := top ("/" top)*   top := line (";" line)*   line := ["~"] stmt   ("~": compiled, not executed)
  stmt := "D" n "=" expr (top-level `n := e`) | "B" n "=" expr (block variable) | "S" n "=" expr (`n = e` through the root table) |
          "T" j "=" expr (`n = e`, block variable j) | "x" expr | "!" (rejected for another reason)
  expr := prefix tokens, "," separated: L<int> R<name> K<block variable> +
  answer: `ok <impl> <spec> <unguarded contrast> <whole>`; impl/spec/contrast per piece ("|"): `a`/`r` ":" root symbols ":" constants ":"
  Globals array (one entry per symbol, "n" = never stored) ":" values of the piece's expression statements (lists "." separated, "-" = empty);
  whole = the accepted pieces concatenated, compiled and run at once: `a`/`r` ":" symbols ":" constants ":" array ":" all values -/

def parseKTok : Nat → List String → Option (KExpr × List String)
  | 0, _ => none
  | fuel + 1, t :: rest =>
    if t == "+" then do
      let (a, r1) ← parseKTok fuel rest
      let (b, r2) ← parseKTok fuel r1
      pure (.add a b, r2)
    else if t.startsWith "L" then (parseIntTok (tl1 t)).map fun v => (.lit v, rest)
    else if t.startsWith "R" then (tl1 t).toNat?.map fun n => (.root n, rest)
    else if t.startsWith "K" then (tl1 t).toNat?.map fun j => (.blk j, rest)
    else none
  | _, [] => none

def parseK (t : String) : Option KExpr :=
  let toks := t.splitOn ","
  match parseKTok (toks.length + 1) toks with
  | some (e, []) => some e
  | _ => none

def parseKStmt (t : String) : Option KStmt :=
  if t == "!" then some .bad
  else if t.startsWith "x" then (parseK (tl1 t)).map .expr
  else match (tl1 t).splitOn "=" with
    | [a, b] => do
      let n ← a.toNat?
      let e ← parseK b
      if t.startsWith "D" then pure (.declRoot n e)
      else if t.startsWith "B" then pure (.declBlk n e)
      else if t.startsWith "S" then pure (.setRoot n e)
      else if t.startsWith "T" then pure (.setBlk n e)
      else none
    | _ => none

def parseKLine (t : String) : Option KLine :=
  if t.startsWith "~" then (parseKStmt (tl1 t)).map fun s => ⟨s, false⟩ else (parseKStmt t).map fun s => ⟨s, true⟩

def parseKPiece (t : String) : Option KPiece := (t.splitOn "/").mapM fun top => (top.splitOn ";").mapM parseKLine

def tabSnap (ok : Bool) (T : Tab) (r : KRun) (nvals : Nat) : String :=
  ":".intercalate [(if ok then "a" else "r"), dots (T.syms.map toString), showInts T.consts,
    dots ((List.range T.syms.length).map fun i => match r.1 i with | some x => toString x | none => "n"),
    showInts (r.2.drop nvals)]

def tabLog (feed : KSess → KPiece → KSess) : KSess → List KPiece → List String
  | _, [] => []
  | s, p :: rest =>
    let s1 := feed s p
    tabSnap (s1.acc.getLastD false) s1.tab s1.run s.run.2.length :: tabLog feed s1 rest

/-! ### layer 9: `decl <host names> <probe names> <history>`
  history := piece ("|" piece)*   piece := stmt (";" stmt)*
  stmt := "v" n "=" int (`n := v`) | "c" n "=" int (`const n = v`) | "f" n "=" int ":" refs (`func n() { … return v }`, refs "." separated or "-") |
          "s" n "=" int (`n = v`) | "u" n (`try(n)`)
  answer: `ok <impl> <spec>`; per piece ("|"): `a`/`r` ":" per probe name ("." separated) "-" (not in the table) or `c`/`v` followed by
  "n" (never stored) | "i" int | "f" int ":" all values of expression statements so far ("." separated, "n" = nil, "-" = none) -/

def parseDStmt (t : String) : Option DStmt :=
  if t.startsWith "u" then (tl1 t).toNat?.map .use
  else match (tl1 t).splitOn "=" with
    | [a, b] => do
      let n ← a.toNat?
      if t.startsWith "f" then
        match b.splitOn ":" with
        | [v, rs] => do pure (.fn n (← parseIntTok v) (← parseList rs))
        | _ => none
      else
        let v ← parseIntTok b
        if t.startsWith "v" then pure (.var n v)
        else if t.startsWith "c" then pure (.const n v)
        else if t.startsWith "s" then pure (.set n v)
        else none
    | _ => none

def declSnap (probes : List Nat) (s : DSess) : String :=
  let one (n : Nat) : String :=
    match s.env n with
    | none => "-"
    | some c => (if c then "c" else "v") ++
      (match s.run.1 n with
       | none => "n"
       | some (.int v) => "i" ++ toString v
       | some (.fn v) => "f" ++ toString v)
  let val (v : Option Int) : String := match v with | none => "n" | some x => toString x
  ":".intercalate [if s.acc.getLast? == some true then "a" else "r", dots (probes.map one), dots (s.run.2.map val)]

def declLogImpl (probes : List Nat) : DSess → List DPiece → List String
  | _, [] => []
  | s, p :: rest => let s1 := dFeed firstPassRuns s p; declSnap probes s1 :: declLogImpl probes s1 rest

def handleDecl (hs ps h : String) : String :=
  match parseList hs, parseList ps, (h.splitOn "|").mapM (fun t => (t.splitOn ";").mapM parseDStmt) with
  | some hosts, some probes, some pieces =>
    let E0 := hostEnv hosts
    let spec := (List.range pieces.length).map fun i => declSnap probes (declSpec E0 (pieces.take (i + 1)))
    "\t".intercalate ["ok", bar (declLogImpl probes { env := E0 } pieces), bar spec]
  | _, _, _ => "error\tbad-declaration-session"


def handle : List String → String
  | ["hist", h] =>
    match parseHist h with
    | none => "error\tbad-history"
    | some ps => answerHist [] ps
  | ["histh", host, h] =>
    match parseList host, parseHist h with
    | some hs, some ps => answerHist hs ps
    | _, _ => "error\tbad-history"
  | ["histc", host, ctxs, h] =>
    match parseList host, ctxs.toList.mapM ctxOf, parseHist h with
    | some hs, some cs, some ps =>
      if cs.length == ps.length then answerHistC hs cs ps else "error\tbad-contexts"
    | _, _, _ => "error\tbad-history"
  | ["marks", h] =>
    match (h.splitOn "|").mapM parseEvs with
    | none => "error\tbad-events"
    | some ps =>
      "\t".intercalate ["ok", bar (marksLog [] ps), bar ((marksSpec ps).map (showMOut [])), b01 (marksWf ps)]
  | ["bind", ng, h] =>
    match ng.toNat?, parseBindHist h with
    | some ng, some ps =>
      let il := bindLog ng {} (fun _ _ => 0) (some fun _ _ => true) ps
      let sl := bindSpecLog ng (fun _ => none) (fun _ _ => 0) ps
      let firstBad := (il.map (·.2.2)).idxOf "?"
      "\t".intercalate ["ok", bar (il.map (·.1)), bar (il.map (·.2.1)), bar (sl.map (·.1)), bar (sl.map (·.2)),
        bar (il.map (·.2.2)), (if firstBad < il.length then toString firstBad else "-")]
    | _, _ => "error\tbad-history"
  | ["imp", inits, deps, seed, nv, h] =>
    match parseIntList inits, parseList seed, nv.toNat?, parseImpHist h with
    | some is, some sd, some nv, some ps =>
      let ds := deps.toList.map (· == '1')
      let cfg : ModCfg := ⟨fun m => is.getD m 0, fun m => ds.getD m false⟩
      let nm := is.length
      "\t".intercalate ["ok", bar (impLog importCacheResetEveryRun cfg sd nm nv (ISt.start sd) ps),
        bar (impSpecLog cfg nm nv (ISt.start sd) ps), bar (impLog true cfg sd nm nv (ISt.start sd) ps)]
    | _, _, _, _ => "error\tbad-import-session"
  | ["slots", names, vals, h] =>
    match parseList names, parseSlotVals vals, (h.splitOn "|").mapM parseSPiece with
    | some ns, some a, some ps =>
      if a.length != ns.length then "error\tarray and table differ in length" else
      let whole0 : SSt := (a ++ List.replicate ((ns ++ allDecls ps).length - a.length) none, [])
      "\t".intercalate ["ok", bar (slotLog reloadBySlot ns (a, []) ps), bar (slotSpecLog whole0 ps),
        bar (slotLog reloadByName ns (a, []) ps), (let t := ns ++ allDecls ps; if t.isEmpty then "-" else dots (t.map toString)),
        b01 (scopedFrom ns.length ps)]
    | _, _, _ => "error\tbad-slot-session"
  | ["tabs", h] =>
    match (h.splitOn "|").mapM parseKPiece with
    | some ps =>
      let w := tabWhole {} (fun _ => none, []) ps
      "\t".intercalate ["ok", bar (tabLog (tabFeed truncateDeleteGuarded) {} ps), bar (tabLog tabSpecFeed {} ps),
        bar (tabLog (tabFeed false) {} ps), tabSnap w.1.ok w.1.tab w.2 0]
    | none => "error\tbad-table-session"
  | ["decl", hs, ps, h] => handleDecl hs ps h
  | ["frag", text] =>
    match C04.decode true text with
    | .error e => "error\t" ++ e
    | .ok c =>
      match C04.infer c with
      | .error e => "reject\t" ++ e
      | .ok cert =>
        if C04.check c cert then "accept\t" ++ toString (C04.maxCert cert)
        else "reject\tcertificate refused by the verified checker (the fragment does not end with exactly one value)"
  | _ => "error\tunknown-request"

end Risor.C18
