import RisorModel.Util
import RisorModel.C04.Model
import RisorModel.C18.Model
/-! Line-protocol front end of the C18 model.

`hist <history>` → `ok <impl outcomes> <impl registers> <impl trace> <spec outcomes> <spec trace> <violated guards>`
  history  := piece ("|" piece)*            piece := "X" (parse error) | stmt (";" stmt)*
  stmt     := id:flags:need:leak:pre:uses:asg:vdecl:cdecl:fdefs:calls
  flags    := subset of "elfnj" (isExpr, leaves, fails, inFn, junk) or "-";  lists := n.n.n or "-"
  outcomes := per piece `ok:<value id>` | `parse` | `compile` | `fail`
  registers:= per piece `<stack height>:<ip at end of code 1/0>:<code grew 1/0>:<compiler stuck 1/0>`
  trace    := per piece the statements executed by that piece's run, `id` or `id~` (stale globals view)
`histh <host names> <history>` → the same answer with the listed names (n.n.n or "-") defined as
  host-supplied variables before the first piece (`Repl.init`, `SpecSt.init`, `guardHost`)
`frag <instruction text>` → `accept <max height>` | `reject <why>`: the real fragment a piece added to
  the main code is position-independent (all jumps stay inside it), starts on an empty frame-relative
  stack, never reads below it and ends with exactly one value — C04's verified checker. -/
namespace Risor.C18

def parseList (s : String) : Option (List Nat) :=
  if s == "-" then some [] else (s.splitOn ".").mapM String.toNat?

def parseStmt (t : String) : Option Stmt :=
  match t.splitOn ":" with
  | [id, fl, need, leak, pre, uses, asg, vd, cd, fd, calls] => do
    let id ← id.toNat?
    let need ← need.toNat?
    let leak ← leak.toNat?
    let pre ← pre.toNat?
    let uses ← parseList uses
    let asg ← parseList asg
    let vd ← parseList vd
    let cd ← parseList cd
    let fd ← parseList fd
    let calls ← parseList calls
    let has (c : Char) : Bool := fl.toList.contains c
    pure { id := id, isExpr := has 'e', leaves := has 'l', fails := has 'f', inFn := has 'n', junk := has 'j',
           need := need, leak := leak, pre := pre, uses := uses, asg := asg, vdecl := vd, cdecl := cd,
           fdefs := fd, calls := calls }
  | _ => none

def parsePiece (t : String) : Option Piece :=
  if t == "X" then some .bad else (t.splitOn ";").mapM parseStmt |>.map .stmts

def parseHist (t : String) : Option (List Piece) := (t.splitOn "|").mapM parsePiece

def showOutcome : Outcome → String
  | .ok v => "ok:" ++ toString v
  | .parseRejected => "parse"
  | .compileRejected => "compile"
  | .failed => "fail"

def showTrace (l : List (Nat × Bool)) : String :=
  if l.isEmpty then "-" else ".".intercalate (l.map fun (i, st) => toString i ++ (if st then "~" else ""))

def b01 (b : Bool) : String := if b then "1" else "0"

/-- feed the pieces one by one, recording registers and the trace delta of each -/
def implLog : Repl → List Piece → List (String × String × String)
  | _, [] => []
  | r, p :: ps =>
    let (r1, o) := r.feed p
    let reg := toString r1.vm.stack.length ++ ":" ++ b01 (r1.vm.ip == r1.comp.code.length) ++ ":" ++
      b01 (r1.comp.code.length > r.comp.code.length) ++ ":" ++ b01 r1.comp.stuck
    (showOutcome o, reg, showTrace (r1.vm.trace.drop r.vm.trace.length)) :: implLog r1 ps

def specLog : SpecSt → List Piece → List (String × String)
  | _, [] => []
  | s, p :: ps =>
    let (s1, o) := s.feed p
    (showOutcome o, showTrace (s1.trace.drop s.trace.length)) :: specLog s1 ps

def bar (l : List String) : String := if l.isEmpty then "-" else "|".intercalate l

/-- the answer to a history request; `host` = the host-supplied global names the history mentions -/
def answerHist (host : List Nat) (ps : List Piece) : String :=
  let il := implLog (Repl.init host) ps
  let sl := specLog (SpecSt.init host) ps
  let gs := violatedGuardsFrom (GSt.init host) ps
  "\t".intercalate ["ok", bar (il.map (·.1)), bar (il.map (·.2.1)), bar (il.map (·.2.2)),
    bar (sl.map (·.1)), bar (sl.map (·.2)), (if gs.isEmpty then "-" else ",".intercalate gs),
    b01 (guardHost host ps)]


/-! ### layer 3: `marks <history>`
  history := piece ("|" piece)*   piece := "-" | ev ("," ev)*
  ev := "+" m (enter) | "-" … no: "<" (leave) | "e" k ":" letters-or-"-" (emit) | "!" (err);  m := p l b s f
  answer: `ok <impl> <spec> <guard 0/1>`, per piece `a|r : marks left set (letters or -) : code`, code := k or k~letters, "." separated -/

def markOf : Char → Option Mark
  | 'p' => some .pipe | 'l' => some .loop | 'b' => some .block | 's' => some .switchVal | 'f' => some .fn | _ => none

def markCh : Mark → Char
  | .pipe => 'p' | .loop => 'l' | .block => 'b' | .switchVal => 's' | .fn => 'f'

def showMarks (l : List Mark) : String := if l.isEmpty then "-" else String.ofList (l.map markCh)

def parseEv (t : String) : Option CEv :=
  match t.toList with
  | ['+', c] => (markOf c).map .enter
  | ['<'] => some .leave
  | ['!'] => some .err
  | 'e' :: rest =>
    match (String.ofList rest).splitOn ":" with
    | [k, ms] => do
      let k ← k.toNat?
      let ms ← if ms == "-" then some [] else ms.toList.mapM markOf
      pure (.emit k ms)
    | _ => none
  | _ => none

def parseEvs (t : String) : Option (List CEv) := if t == "-" then some [] else (t.splitOn ",").mapM parseEv

def showMOut (inh : List Mark) (r : MOut) : String :=
  (if r.ok then "a" else "r") ++ ":" ++ showMarks (r.own ++ inh) ++ ":" ++
    (if r.code.isEmpty then "-" else ".".intercalate (r.code.map fun (k, u) => toString k ++ (if u.isEmpty then "" else "~" ++ showMarks u)))

def marksLog (inh : List Mark) : List (List CEv) → List String
  | [] => []
  | evs :: rest =>
    let r := compileEvs inh [] evs
    showMOut inh r :: marksLog (r.own ++ inh) rest

/-! ### layer 4: `bind <number of globals> <history>`
  history := piece ("|" piece)*   piece := stmt (";" stmt)*
  stmt := "s" g "=" texpr | "d" f "=" body "@" fexpr | "x" texpr     body := "-" | g ":" fexpr ("&" g ":" fexpr)*
  texpr/fexpr := prefix token lists, "," separated: L<int> G<n> A + C<f>
  answer: `ok <impl values> <impl globals> <spec values> <spec globals> <valid> <first piece outside the guard or ->`,
  per piece ("|"): value `n` or an integer; globals/valid "." separated, valid = 1/0 per global of the current generation ("?" once outside the guard) -/

def tl1 (t : String) : String := String.ofList (t.toList.drop 1)

def parseIntTok (t : String) : Option Int :=
  if t.startsWith "-" then (tl1 t).toNat?.map (fun n => - (Int.ofNat n)) else t.toNat?.map Int.ofNat

def parseFTok : Nat → List String → Option (FExpr × List String)
  | 0, _ => none
  | fuel + 1, t :: rest =>
    if t == "A" then some (.arg, rest)
    else if t == "+" then do
      let (a, r1) ← parseFTok fuel rest
      let (b, r2) ← parseFTok fuel r1
      pure (.add a b, r2)
    else if t.startsWith "L" then (parseIntTok (tl1 t)).map fun v => (.lit v, rest)
    else if t.startsWith "G" then (tl1 t).toNat?.map fun g => (.glob g, rest)
    else none
  | _, [] => none

def parseTTok : Nat → List String → Option (TExpr × List String)
  | 0, _ => none
  | fuel + 1, t :: rest =>
    if t == "+" then do
      let (a, r1) ← parseTTok fuel rest
      let (b, r2) ← parseTTok fuel r1
      pure (.add a b, r2)
    else if t.startsWith "L" then (parseIntTok (tl1 t)).map fun v => (.lit v, rest)
    else if t.startsWith "G" then (tl1 t).toNat?.map fun g => (.glob g, rest)
    else if t.startsWith "C" then do
      let f ← (tl1 t).toNat?
      let (a, r1) ← parseTTok fuel rest
      pure (.call f a, r1)
    else none
  | _, [] => none

def parseF (t : String) : Option FExpr :=
  let toks := t.splitOn ","
  match parseFTok (toks.length + 1) toks with
  | some (e, []) => some e
  | _ => none

def parseT (t : String) : Option TExpr :=
  let toks := t.splitOn ","
  match parseTTok (toks.length + 1) toks with
  | some (e, []) => some e
  | _ => none

def parseBody (t : String) : Option (List (Nat × FExpr)) :=
  if t == "-" then some [] else (t.splitOn "&").mapM fun a =>
    match a.splitOn ":" with
    | [g, e] => do pure ((← g.toNat?), (← parseF e))
    | _ => none

def parseTStmt (t : String) : Option TStmt :=
  if t.startsWith "x" then (parseT (tl1 t)).map .expr
  else match (tl1 t).splitOn "=" with
    | [a, b] =>
      if t.startsWith "s" then do pure (.set (← a.toNat?) (← parseT b))
      else if t.startsWith "d" then
        match b.splitOn "@" with
        | [body, ret] => do pure (.defn (← a.toNat?) ⟨(← parseBody body), (← parseF ret)⟩)
        | _ => none
      else none
    | _ => none

def parseBindHist (t : String) : Option (List (List TStmt)) :=
  (t.splitOn "|").mapM fun p => (p.splitOn ";").mapM parseTStmt

def showVal : Option Int → String
  | none => "n"
  | some v => toString v

def dots (l : List String) : String := if l.isEmpty then "-" else ".".intercalate l

/-- Impl, piece by piece: value, the current generation's globals, and the guard's bookkeeping -/
def bindLog (ng : Nat) : BCtl → Gens → Option Valid → List (List TStmt) → List (String × String × String)
  | _, _, _, [] => []
  | c, G, V, l :: rest =>
    let c1 := c.next l
    let r := execPiece c1.env l (reloadGens c G) none
    let V1 := V.bind fun v => okPiece c1.env l (reloadValid c v)
    let snap := dots ((List.range ng).map fun g => toString (r.2 c1.cur g))
    let vs := match V1 with
      | some v => dots ((List.range ng).map fun g => b01 (v g c1.cur))
      | none => "?"
    (showVal r.1, snap, vs) :: bindLog ng c1 r.2 V1 rest

def bindSpecLog (ng : Nat) : (Nat → Option FnDef) → Gens → List (List TStmt) → List (String × String)
  | _, _, [] => []
  | defs, S, l :: rest =>
    let d1 := addDefs defs l
    let r := execPiece (specEnv d1) l S none
    (showVal r.1, dots ((List.range ng).map fun g => toString (r.2 0 g))) :: bindSpecLog ng d1 r.2 rest

/-! ### layer 5: `histc <host names> <contexts> <history>`: `histh` with one context letter per piece
  (b background, c cancellable, d done before the run ends); the answer of `histh` computed on the machine
  with the halt flag, plus the flag after every piece -/

def ctxOf : Char → Option Ctx
  | 'b' => some .background | 'c' => some .cancellable | 'd' => some .done | _ => none

def implLogC : HRepl → List (Ctx × Piece) → List (String × String × String × String)
  | _, [] => []
  | h, (c, p) :: ps =>
    let (h1, o) := h.feed c p
    let r := h.r
    let r1 := h1.r
    let reg := toString r1.vm.stack.length ++ ":" ++ b01 (r1.vm.ip == r1.comp.code.length) ++ ":" ++
      b01 (r1.comp.code.length > r.comp.code.length) ++ ":" ++ b01 r1.comp.stuck
    (showOutcome o, reg, showTrace (r1.vm.trace.drop r.vm.trace.length), b01 h1.halt) :: implLogC h1 ps

def answerHistC (host : List Nat) (cs : List Ctx) (ps : List Piece) : String :=
  let il := implLogC { r := Repl.init host } (cs.zip ps)
  let sl := specLog (SpecSt.init host) ps
  let gs := violatedGuardsFrom (GSt.init host) ps
  "\t".intercalate ["ok", bar (il.map (·.1)), bar (il.map (·.2.1)), bar (il.map (·.2.2.1)),
    bar (sl.map (·.1)), bar (sl.map (·.2)), (if gs.isEmpty then "-" else ",".intercalate gs),
    b01 (guardHost host ps), String.join (il.map (·.2.2.2))]

def handle : List String → String
  | ["hist", h] =>
    match parseHist h with
    | none => "error\tbad-history"
    | some ps => answerHist [] ps
  | ["histh", host, h] =>
    match parseList host, parseHist h with
    | some hs, some ps => answerHist hs ps
    | _, _ => "error\tbad-history"
  | ["histc", host, ctxs, h] =>
    match parseList host, ctxs.toList.mapM ctxOf, parseHist h with
    | some hs, some cs, some ps =>
      if cs.length == ps.length then answerHistC hs cs ps else "error\tbad-contexts"
    | _, _, _ => "error\tbad-history"
  | ["marks", h] =>
    match (h.splitOn "|").mapM parseEvs with
    | none => "error\tbad-events"
    | some ps =>
      "\t".intercalate ["ok", bar (marksLog [] ps), bar ((marksSpec ps).map (showMOut [])), b01 (marksGuard ps)]
  | ["bind", ng, h] =>
    match ng.toNat?, parseBindHist h with
    | some ng, some ps =>
      let il := bindLog ng {} (fun _ _ => 0) (some fun _ _ => true) ps
      let sl := bindSpecLog ng (fun _ => none) (fun _ _ => 0) ps
      let firstBad := (il.map (·.2.2)).idxOf "?"
      "\t".intercalate ["ok", bar (il.map (·.1)), bar (il.map (·.2.1)), bar (sl.map (·.1)), bar (sl.map (·.2)),
        bar (il.map (·.2.2)), (if firstBad < il.length then toString firstBad else "-")]
    | _, _ => "error\tbad-history"
  | ["frag", text] =>
    match C04.decode true text with
    | .error e => "error\t" ++ e
    | .ok c =>
      match C04.infer c with
      | .error e => "reject\t" ++ e
      | .ok cert =>
        if C04.check c cert then "accept\t" ++ toString (C04.maxCert cert)
        else "reject\tcertificate refused by the verified checker (the fragment does not end with exactly one value)"
  | _ => "error\tunknown-request"

end Risor.C18
