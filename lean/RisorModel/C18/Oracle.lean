import RisorModel.Util
import RisorModel.C04.Model
import RisorModel.C18.Model
/-! Line-protocol front end of the C18 model.

`hist <history>` → `ok <impl outcomes> <impl registers> <impl trace> <spec outcomes> <spec trace> <violated guards>`
  history  := piece ("|" piece)*            piece := "X" (parse error) | stmt (";" stmt)*
  stmt     := id:flags:need:leak:pre:uses:asg:vdecl:cdecl:fdefs:calls
  flags    := subset of "elfn" (isExpr, leaves, fails, inFn) or "-";  lists := n.n.n or "-"
  outcomes := per piece `ok:<value id>` | `parse` | `compile` | `fail`
  registers:= per piece `<stack height>:<ip at end of code 1/0>:<code grew 1/0>:<compiler stuck 1/0>`
  trace    := per piece the statements executed by that piece's run, `id` or `id~` (stale globals view)
`histh <host names> <history>` → the same answer with the listed names (n.n.n or "-") defined as
  host-supplied variables before the first piece (`Repl.init`, `SpecSt.init`, `guardHost`)
`frag <instruction text>` → `accept <max height>` | `reject <why>`: the real fragment a piece added to
  the main code is position-independent (all jumps stay inside it), starts on an empty frame-relative
  stack, never reads below it and ends with exactly one value — C04's verified checker. -/
namespace Risor.C18

def parseList (s : String) : Option (List Nat) :=
  if s == "-" then some [] else (s.splitOn ".").mapM String.toNat?

def parseStmt (t : String) : Option Stmt :=
  match t.splitOn ":" with
  | [id, fl, need, leak, pre, uses, asg, vd, cd, fd, calls] => do
    let id ← id.toNat?
    let need ← need.toNat?
    let leak ← leak.toNat?
    let pre ← pre.toNat?
    let uses ← parseList uses
    let asg ← parseList asg
    let vd ← parseList vd
    let cd ← parseList cd
    let fd ← parseList fd
    let calls ← parseList calls
    let has (c : Char) : Bool := fl.toList.contains c
    pure { id := id, isExpr := has 'e', leaves := has 'l', fails := has 'f', inFn := has 'n',
           need := need, leak := leak, pre := pre, uses := uses, asg := asg, vdecl := vd, cdecl := cd,
           fdefs := fd, calls := calls }
  | _ => none

def parsePiece (t : String) : Option Piece :=
  if t == "X" then some .bad else (t.splitOn ";").mapM parseStmt |>.map .stmts

def parseHist (t : String) : Option (List Piece) := (t.splitOn "|").mapM parsePiece

def showOutcome : Outcome → String
  | .ok v => "ok:" ++ toString v
  | .parseRejected => "parse"
  | .compileRejected => "compile"
  | .failed => "fail"

def showTrace (l : List (Nat × Bool)) : String :=
  if l.isEmpty then "-" else ".".intercalate (l.map fun (i, st) => toString i ++ (if st then "~" else ""))

def b01 (b : Bool) : String := if b then "1" else "0"

/-- feed the pieces one by one, recording registers and the trace delta of each -/
def implLog : Repl → List Piece → List (String × String × String)
  | _, [] => []
  | r, p :: ps =>
    let (r1, o) := r.feed p
    let reg := toString r1.vm.stack.length ++ ":" ++ b01 (r1.vm.ip == r1.comp.code.length) ++ ":" ++
      b01 (r1.comp.code.length > r.comp.code.length) ++ ":" ++ b01 r1.comp.stuck
    (showOutcome o, reg, showTrace (r1.vm.trace.drop r.vm.trace.length)) :: implLog r1 ps

def specLog : SpecSt → List Piece → List (String × String)
  | _, [] => []
  | s, p :: ps =>
    let (s1, o) := s.feed p
    (showOutcome o, showTrace (s1.trace.drop s.trace.length)) :: specLog s1 ps

def bar (l : List String) : String := if l.isEmpty then "-" else "|".intercalate l

/-- the answer to a history request; `host` = the host-supplied global names the history mentions -/
def answerHist (host : List Nat) (ps : List Piece) : String :=
  let il := implLog (Repl.init host) ps
  let sl := specLog (SpecSt.init host) ps
  let gs := violatedGuardsFrom (GSt.init host) ps
  "\t".intercalate ["ok", bar (il.map (·.1)), bar (il.map (·.2.1)), bar (il.map (·.2.2)),
    bar (sl.map (·.1)), bar (sl.map (·.2)), (if gs.isEmpty then "-" else ",".intercalate gs),
    b01 (guardHost host ps)]

def handle : List String → String
  | ["hist", h] =>
    match parseHist h with
    | none => "error\tbad-history"
    | some ps => answerHist [] ps
  | ["histh", host, h] =>
    match parseList host, parseHist h with
    | some hs, some ps => answerHist hs ps
    | _, _ => "error\tbad-history"
  | ["frag", text] =>
    match C04.decode true text with
    | .error e => "error\t" ++ e
    | .ok c =>
      match C04.infer c with
      | .error e => "reject\t" ++ e
      | .ok cert =>
        if C04.check c cert then "accept\t" ++ toString (C04.maxCert cert)
        else "reject\tcertificate refused by the verified checker (the fragment does not end with exactly one value)"
  | _ => "error\tunknown-request"

end Risor.C18
