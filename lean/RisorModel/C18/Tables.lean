import RisorModel.Util
/-
C18, layer 8 — the TABLES of the main code under rollback.

The pieces of a session share ONE compiler.  Besides instructions, the main code object owns two
tables that every piece extends and that compiled code addresses BY INDEX:

  * `Code.constants` — every literal a piece mentions is appended (`Compiler.constant`) and loaded by
    its slot (`LoadConst k`);
  * the ROOT symbol table — `SymbolTable.symbols` (slot → symbol; every `:=` and every loop variable of
    the main code claims the next slot, ALSO inside top-level blocks: `claimIndex` of a block delegates
    to its parent) and `SymbolTable.symbolsByName` (name → symbol; only symbols declared at top level:
    a block's variables are named in the block's own table).

When a piece is rejected, `Compile` undoes what the piece added: `Code.rollback` cuts the constants
back to the mark and `SymbolTable.truncate` cuts `symbols` back and deletes the names of the removed
symbols from `symbolsByName` — a name is deleted only when its entry IS the removed symbol, because a
removed BLOCK symbol may carry the name of a live global declared by an earlier piece.

`Impl` is that mechanism (mark, compile up to the error, truncate); `Spec` is what the property
demands: a rejected piece leaves the compiler exactly as it was (a snapshot), and the pieces that were
accepted evaluate like their concatenation compiled at once.  Values are integers; names are numbers.
Core Lean only (linked into the oracle).
-/
namespace Risor.C18

/-! ### what the model assumes about the sources (tied by `Ties.lean`) -/

/-- `(*SymbolTable).truncate` deletes the name of a removed symbol only under
    `if t.symbolsByName[s.name] == s` -/
def truncateDeleteGuarded : Bool := true

/-- every field of the compiler's three state-carrying structs, with what happens to it when a piece is
    rejected.  `rollback`: restored by Code.rollback / SymbolTable.truncate (this layer, `rollbackRestores`);
    `compile-only`: reset by a deferred function of the compile function that sets it (layer 3);
    `per-call`: assigned afresh by every Compile call before it is read; `fixed`: never assigned after
    construction; `root-unused`: only written for tables/codes of FUNCTIONS (the root table has no free
    variables), which a rejected piece's rollback removes as a whole (`c.children`, `t.children`) -/
def compilerStateReviewed : List (String × String) :=
  [("Code.children", "rollback"), ("Code.constants", "rollback"), ("Code.filename", "per-call"),
   ("Code.functionID", "fixed"), ("Code.id", "fixed"), ("Code.instructions", "rollback"),
   ("Code.isNamed", "fixed"), ("Code.loops", "compile-only"), ("Code.name", "fixed"),
   ("Code.names", "rollback"), ("Code.parent", "fixed"), ("Code.pipeActive", "compile-only"),
   ("Code.source", "rollback"), ("Code.symbols", "compile-only"),
   ("Compiler.current", "compile-only"), ("Compiler.failure", "per-call"), ("Compiler.filename", "fixed"),
   ("Compiler.funcIndex", "rollback"), ("Compiler.globalNames", "fixed"), ("Compiler.main", "fixed"),
   ("SymbolTable.children", "rollback"), ("SymbolTable.free", "root-unused"),
   ("SymbolTable.freeByName", "root-unused"), ("SymbolTable.id", "fixed"), ("SymbolTable.isBlock", "fixed"),
   ("SymbolTable.parent", "fixed"), ("SymbolTable.symbols", "rollback"),
   ("SymbolTable.symbolsByName", "rollback")]

/-! ### source and compiled forms -/

inductive KExpr where
  | lit (v : Int)          -- a literal: appended to Code.constants, loaded by its slot
  | root (n : Nat)         -- an identifier that resolves through the names of the ROOT table
  | blk (j : Nat)          -- an identifier that resolves to the j-th block variable declared so far by this top-level statement
  | add (a b : KExpr)
  deriving Repr, DecidableEq, Inhabited

inductive KStmt where
  | declRoot (n : Nat) (e : KExpr)   -- `n := e` at top level: claims a slot AND enters the name into the root table
  | declBlk (n : Nat) (e : KExpr)    -- `n := e` / a loop variable inside a top-level block: claims a slot of the root table, named in the block only
  | setRoot (n : Nat) (e : KExpr)    -- `n = e`, the name resolving through the root table
  | setBlk (j : Nat) (e : KExpr)     -- `n = e`, the name resolving to a block variable
  | expr (e : KExpr)
  | bad                              -- anything else the compiler rejects (constant reassignment, `break` outside a loop, …)
  deriving Repr, DecidableEq, Inhabited

/-- one statement as the compiler meets it; `live = false`: it sits in a branch that is compiled but not executed -/
structure KLine where
  stmt : KStmt
  live : Bool := true
  deriving Repr, DecidableEq, Inhabited

/-- a top-level statement (block variables are numbered per top-level statement) -/
abbrev KTop := List KLine
/-- a piece: top-level statements -/
abbrev KPiece := List KTop

inductive RExpr where
  | ldc (k : Nat)          -- LoadConst k
  | ldg (i : Nat)          -- LoadGlobal i
  | add (a b : RExpr)
  deriving Repr, DecidableEq, Inhabited

inductive RStmt where
  | stg (i : Nat) (e : RExpr)        -- … StoreGlobal i
  | expr (e : RExpr)
  deriving Repr, DecidableEq, Inhabited

/-- the tables of the main code -/
structure Tab where
  consts : List Int := []                        -- Code.constants
  syms   : List Nat := []                        -- root SymbolTable.symbols: slot i is called syms[i]
  byName : Nat → Option Nat := fun _ => none     -- root SymbolTable.symbolsByName (a symbol is identified by its slot)

/-! ### the compiler -/

/-- compile an expression: `none` = a compile error (the table is returned as it is at that point) -/
def KExpr.comp (blks : List Nat) : KExpr → Tab → Tab × Option RExpr
  | .lit v, T => ({ T with consts := T.consts ++ [v] }, some (.ldc T.consts.length))
  | .root n, T => (T, (T.byName n).map .ldg)
  | .blk j, T => (T, (blks[j]?).map .ldg)
  | .add a b, T =>
    match a.comp blks T with
    | (T1, some ra) =>
      match b.comp blks T1 with
      | (T2, some rb) => (T2, some (.add ra rb))
      | (T2, none) => (T2, none)
    | (T1, none) => (T1, none)

/-- the compiler in the middle of a piece -/
structure CSt where
  tab  : Tab
  blks : List Nat := []          -- slots of the block variables of the current top-level statement
  code : List RStmt := []        -- what the piece has emitted (live statements only)
  ok   : Bool := true

def CSt.emit (c : CSt) (live : Bool) (T : Tab) (r : RStmt) : CSt :=
  { c with tab := T, code := if live then c.code ++ [r] else c.code }

def CSt.fail (c : CSt) (T : Tab) : CSt := { c with tab := T, ok := false }

/-- one statement: compileVar (right-hand side first, then InsertVariable → claimIndex), compileAssign (Resolve first),
    compileIdent.  After an error nothing more is compiled. -/
def KLine.comp (l : KLine) (c : CSt) : CSt :=
  if !c.ok then c else
  match l.stmt with
  | .declRoot n e =>
    match e.comp c.blks c.tab with
    | (T1, some r) =>
      match T1.byName n with
      | some _ => c.fail T1                                  -- InsertVariable: the variable already exists
      | none =>
        let i := T1.syms.length
        c.emit l.live { T1 with syms := T1.syms ++ [n], byName := fun k => if k = n then some i else T1.byName k } (.stg i r)
    | (T1, none) => c.fail T1
  | .declBlk n e =>
    match e.comp c.blks c.tab with
    | (T1, some r) =>
      let i := T1.syms.length
      { c.emit l.live { T1 with syms := T1.syms ++ [n] } (.stg i r) with blks := c.blks ++ [i] }
    | (T1, none) => c.fail T1
  | .setRoot n e =>
    match c.tab.byName n with
    | none => c.fail c.tab                                   -- undefined variable
    | some i =>
      match e.comp c.blks c.tab with
      | (T1, some r) => c.emit l.live T1 (.stg i r)
      | (T1, none) => c.fail T1
  | .setBlk j e =>
    match c.blks[j]? with
    | none => c.fail c.tab
    | some i =>
      match e.comp c.blks c.tab with
      | (T1, some r) => c.emit l.live T1 (.stg i r)
      | (T1, none) => c.fail T1
  | .expr e =>
    match e.comp c.blks c.tab with
    | (T1, some r) => c.emit l.live T1 (.expr r)
    | (T1, none) => c.fail T1
  | .bad => c.fail c.tab

def compLines (t : List KLine) (c : CSt) : CSt := t.foldl (fun c l => l.comp c) c

/-- a top-level statement: its blocks' tables are new, and gone when it ends -/
def compTop (t : KTop) (c : CSt) : CSt := { compLines t { c with blks := [] } with blks := [] }

def compTops (p : List KTop) (c : CSt) : CSt := p.foldl (fun c t => compTop t c) c

/-- compileMain on one piece, from table `T` -/
def compPiece (p : KPiece) (T : Tab) : CSt := compTops p { tab := T }

/-! ### rollback -/

def delName (f : Nat → Option Nat) (n : Nat) : Nat → Option Nat := fun k => if k = n then none else f k

/-- the loop of `truncate` over the removed symbols (slot `i`, `i+1`, … with their names): with the guard
    (`g = true`, the code as it is) a name is deleted only when its entry is the removed symbol -/
def truncNames (g : Bool) (f : Nat → Option Nat) : Nat → List Nat → (Nat → Option Nat)
  | _, [] => f
  | i, n :: rest => truncNames g (if !g || f n == some i then delName f n else f) (i + 1) rest

/-- Code.rollback to the mark (number of constants, number of symbols) -/
def Tab.rollback (g : Bool) (cm sm : Nat) (T : Tab) : Tab :=
  { consts := T.consts.take cm, syms := T.syms.take sm, byName := truncNames g T.byName sm (T.syms.drop sm) }

/-! ### the VM -/

/-- the Globals array: slot → value (`none` = never stored) -/
abbrev KGlob := Nat → Option Int

def RExpr.eval (pool : List Int) (G : KGlob) : RExpr → Int
  | .ldc k => pool.getD k 0
  | .ldg i => (G i).getD 0
  | .add a b => a.eval pool G + b.eval pool G

/-- state of a run: the array and the values of the expression statements so far -/
abbrev KRun := KGlob × List Int

def RStmt.exec (pool : List Int) : RStmt → KRun → KRun
  | .stg i e, (G, vs) => (fun k => if k = i then some (e.eval pool G) else G k, vs)
  | .expr e, (G, vs) => (G, vs ++ [e.eval pool G])

def execR (pool : List Int) (code : List RStmt) (s : KRun) : KRun := code.foldl (fun s t => t.exec pool s) s

/-! ### sessions -/

structure KSess where
  tab  : Tab := {}
  run  : KRun := (fun _ => none, [])
  acc  : List Bool := []           -- per piece: accepted?

/-- Impl: mark, compile; on an error roll back to the mark (`g`: is the deletion of names guarded?), else run the
    piece's code against the constants as they are now -/
def tabFeed (g : Bool) (s : KSess) (p : KPiece) : KSess :=
  let c := compPiece p s.tab
  if c.ok then { tab := c.tab, run := execR c.tab.consts c.code s.run, acc := s.acc ++ [true] }
  else { s with tab := c.tab.rollback g s.tab.consts.length s.tab.syms.length, acc := s.acc ++ [false] }

def tabRun (g : Bool) (s : KSess) (h : List KPiece) : KSess := h.foldl (tabFeed g) s

/-- the session as the code runs it -/
def tabImpl (s : KSess) (h : List KPiece) : KSess := tabRun truncateDeleteGuarded s h

/-- Spec, piece by piece: a rejected piece leaves the compiler EXACTLY as it was -/
def tabSpecFeed (s : KSess) (p : KPiece) : KSess :=
  let c := compPiece p s.tab
  if c.ok then { tab := c.tab, run := execR c.tab.consts c.code s.run, acc := s.acc ++ [true] }
  else { s with acc := s.acc ++ [false] }

def tabSpec (s : KSess) (h : List KPiece) : KSess := h.foldl tabSpecFeed s

/-- the pieces of a history that are accepted when each is offered to a compiler that has seen only the
    accepted ones before it -/
def acceptedOf : Tab → List KPiece → List KPiece
  | _, [] => []
  | T, p :: rest =>
    let c := compPiece p T
    if c.ok then p :: acceptedOf c.tab rest else acceptedOf T rest

/-- Spec, whole program: the accepted pieces concatenated, compiled at once, run at once -/
def tabWhole (T : Tab) (r : KRun) (h : List KPiece) : CSt × KRun :=
  let c := compPiece (acceptedOf T h).flatten T
  (c, execR c.tab.consts c.code r)

/-! ### what a literal and a name MEAN (source level) -/

/-- the value of an expression in the scope it is compiled in: a literal denotes itself, a name the value
    of the slot it stands for -/
def KExpr.val (T : Tab) (blks : List Nat) (G : KGlob) : KExpr → Int
  | .lit v => v
  | .root n => ((T.byName n).bind G).getD 0
  | .blk j => ((blks[j]?).bind G).getD 0
  | .add a b => a.val T blks G + b.val T blks G

/-! ### well-formedness of the root table -/

/-- every name of the table stands for a slot that exists and is called so -/
def Tab.Wf (T : Tab) : Prop := ∀ n i, T.byName n = some i → i < T.syms.length ∧ T.syms[i]? = some n

/-! ### observations (for the oracle and for the witnesses of `Props`) -/

def RExpr.scoped (n : Nat) : RExpr → Bool
  | .ldc k => k < n
  | .ldg _ => true
  | .add a b => a.scoped n && b.scoped n

def RStmt.scoped (n : Nat) : RStmt → Bool
  | .stg _ e => e.scoped n
  | .expr e => e.scoped n

/-- vm.Get: the FIRST slot with that name -/
def getK (T : Tab) (G : KGlob) (nm : Nat) : Option Int :=
  match T.syms.idxOf? nm with
  | some i => G i
  | none => none

end Risor.C18
