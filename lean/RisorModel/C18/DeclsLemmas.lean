import RisorModel.C18.Decls
/-!
C18, layer 9 — helper lemmas about the two passes of `Decls.lean`: both passes only add names, a redeclaration stops
them, and pre-declaring the functions of a LATER input commutes with the second pass over an EARLIER one whose own
functions are already in the table (`comm_one`, `comm_all`) — the core of `whole_append` in `DeclsProps.lean`.
-/
namespace Risor.C18

theorem DEnv.has_ins (E : DEnv) (n : Nat) (c : Bool) (k : Nat) : (E.ins n c).has k = (decide (k = n) || E.has k) := by
  unfold DEnv.has DEnv.ins
  by_cases h : k = n <;> simp [h]

theorem DEnv.has_ins_of_has (E : DEnv) (n : Nat) (c : Bool) (k : Nat) (h : E.has k = true) : (E.ins n c).has k = true := by
  rw [DEnv.has_ins, h, Bool.or_true]

/-- the first pass only adds names -/
theorem dPass1_mono (p : DPiece) : ∀ (E E' : DEnv), dPass1 p E = some E' → ∀ k, E.has k = true → E'.has k = true := by
  induction p with
  | nil => intro E E' h k hk; simp only [dPass1, Option.some.injEq] at h; subst h; exact hk
  | cons s r ih =>
    intro E E' h k hk
    cases s with
    | fn n v refs =>
      simp only [dPass1] at h
      split at h
      · cases h
      · exact ih _ _ h k (DEnv.has_ins_of_has E n true k hk)
    | var n v => exact ih _ _ h k hk
    | const n v => exact ih _ _ h k hk
    | set n v => exact ih _ _ h k hk
    | use n => exact ih _ _ h k hk

/-- a named function whose name is already in the table stops the first pass — wherever it stands in the input -/
theorem dPass1_redefined (p : DPiece) : ∀ (E : DEnv) (n : Nat) (v : Int) (refs : List Nat),
    DStmt.fn n v refs ∈ p → E.has n = true → dPass1 p E = none := by
  induction p with
  | nil => intro E n v refs hm; cases hm
  | cons s r ih =>
    intro E n v refs hm hn
    rcases List.mem_cons.mp hm with heq | hin
    · subst heq; simp [dPass1, hn]
    · cases s with
      | fn m w rs =>
        simp only [dPass1]
        split
        · rfl
        · exact ih _ n v refs hin (DEnv.has_ins_of_has E m true n hn)
      | var m w => exact ih _ n v refs hin hn
      | const m w => exact ih _ n v refs hin hn
      | set m w => exact ih _ n v refs hin hn
      | use m => exact ih _ n v refs hin hn

/-- `n := v` / `const n = v` over a name that is in the table stops the second pass — wherever it stands -/
theorem dPass2_redeclared (p : DPiece) : ∀ (E : DEnv) (n : Nat) (v : Int),
    (DStmt.var n v ∈ p ∨ DStmt.const n v ∈ p) → E.has n = true → dPass2 p E = none := by
  induction p with
  | nil => intro E n v hm; rcases hm with hm | hm <;> cases hm
  | cons s r ih =>
    intro E n v hm hn
    have hrest : (s = .var n v ∨ s = .const n v) ∨ (DStmt.var n v ∈ r ∨ DStmt.const n v ∈ r) := by
      rcases hm with hm | hm
      · rcases List.mem_cons.mp hm with h | h
        · exact .inl (.inl h.symm)
        · exact .inr (.inl h)
      · rcases List.mem_cons.mp hm with h | h
        · exact .inl (.inr h.symm)
        · exact .inr (.inr h)
    rcases hrest with hhead | htail
    · rcases hhead with h | h <;> subst h <;> simp [dPass2, hn]
    · cases s with
      | var m w =>
        simp only [dPass2]
        split
        · rfl
        · exact ih _ n v htail (DEnv.has_ins_of_has E m false n hn)
      | const m w =>
        simp only [dPass2]
        split
        · rfl
        · exact ih _ n v htail (DEnv.has_ins_of_has E m true n hn)
      | fn m w rs =>
        simp only [dPass2]
        split
        · split
          · exact ih _ n v htail hn
          · exact ih _ n v htail (DEnv.has_ins_of_has E m true n hn)
        · rfl
      | set m w =>
        simp only [dPass2]
        split
        · exact ih _ n v htail hn
        · rfl
      | use m =>
        simp only [dPass2]
        split
        · exact ih _ n v htail hn
        · rfl

theorem dPass1_append (a b : DPiece) : ∀ E, dPass1 (a ++ b) E = (dPass1 a E).bind (dPass1 b) := by
  induction a with
  | nil => intro E; rfl
  | cons s r ih =>
    intro E
    cases s with
    | fn n v refs => simp only [List.cons_append, dPass1]; split <;> simp [ih]
    | var n v => exact ih E
    | const n v => exact ih E
    | set n v => exact ih E
    | use n => exact ih E

theorem dPass2_append (a b : DPiece) : ∀ E, dPass2 (a ++ b) E = (dPass2 a E).bind (dPass2 b) := by
  induction a with
  | nil => intro E; rfl
  | cons s r ih =>
    intro E
    cases s <;> simp only [List.cons_append, dPass2] <;> split <;> simp [ih]

theorem DEnv.ins_comm (E : DEnv) (n m : Nat) (c d : Bool) (h : n ≠ m) : (E.ins n c).ins m d = (E.ins m d).ins n c := by
  funext k
  unfold DEnv.ins
  by_cases h1 : k = m <;> by_cases h2 : k = n <;> simp [h1, h2]
  all_goals (intro e; first | exact absurd e h | exact absurd e.symm h)

theorem DEnv.has_ins_self (E : DEnv) (n : Nat) (c : Bool) : (E.ins n c).has n = true := by
  simp [DEnv.has_ins]

theorem DEnv.has_ins_ne (E : DEnv) (n k : Nat) (c : Bool) (h : k ≠ n) : (E.ins n c).has k = E.has k := by
  simp [DEnv.has_ins, h]

theorem DEnv.ins_ne (E : DEnv) (n k : Nat) (c : Bool) (h : k ≠ n) : (E.ins n c) k = E k := by
  simp [DEnv.ins, h]


/-- what one statement of the second pass does to the table, when it is accepted -/
theorem dPass2_one_mono (s : DStmt) (E E' : DEnv) (h : dPass2 [s] E = some E') : ∀ k, E.has k = true → E'.has k = true := by
  intro k hk
  cases s with
  | var n v => simp only [dPass2] at h; split at h; cases h; simp only [Option.some.injEq] at h; subst h; exact DEnv.has_ins_of_has E n false k hk
  | const n v => simp only [dPass2] at h; split at h; cases h; simp only [Option.some.injEq] at h; subst h; exact DEnv.has_ins_of_has E n true k hk
  | fn n v refs =>
    simp only [dPass2] at h
    split at h
    · split at h
      · simp only [Option.some.injEq] at h; subst h; exact hk
      · simp only [Option.some.injEq] at h; subst h; exact DEnv.has_ins_of_has E n true k hk
    · cases h
  | set n v => simp only [dPass2] at h; split at h; simp only [Option.some.injEq] at h; subst h; exact hk; cases h
  | use n => simp only [dPass2] at h; split at h; simp only [Option.some.injEq] at h; subst h; exact hk; cases h

theorem all_has_ins (refs : List Nat) (E : DEnv) (m : Nat) (c : Bool) (h : refs.all E.has = true) : refs.all (E.ins m c).has = true := by
  rw [List.all_eq_true] at h ⊢
  intro x hx
  exact DEnv.has_ins_of_has E m c x (h x hx)

theorem one_declares (s : DStmt) (E E' : DEnv) (m : Nat) (h : dPass2 [s] E = some E') (hm : E.has m = false) (hm' : E'.has m = true)
    (hs : ∀ n v refs, s = .fn n v refs → E.has n = true) : ∀ Eb : DEnv, Eb.has m = true → dPass2 [s] Eb = none := by
  intro Eb hb
  cases s with
  | var n v =>
    simp only [dPass2] at h; split at h; cases h
    simp only [Option.some.injEq] at h; subst h
    rw [DEnv.has_ins, hm, Bool.or_false, decide_eq_true_eq] at hm'; subst hm'
    simp [dPass2, hb]
  | const n v =>
    simp only [dPass2] at h; split at h; cases h
    simp only [Option.some.injEq] at h; subst h
    rw [DEnv.has_ins, hm, Bool.or_false, decide_eq_true_eq] at hm'; subst hm'
    simp [dPass2, hb]
  | fn n v refs =>
    have hn := hs n v refs rfl
    simp only [dPass2, hn, if_true] at h
    split at h
    · simp only [Option.some.injEq] at h; subst h; rw [hm] at hm'; cases hm'
    · cases h
  | set n v => simp only [dPass2] at h; split at h; simp only [Option.some.injEq] at h; subst h; rw [hm] at hm'; cases hm'; cases h
  | use n => simp only [dPass2] at h; split at h; simp only [Option.some.injEq] at h; subst h; rw [hm] at hm'; cases hm'; cases h

theorem one_commutes (s : DStmt) (E E' : DEnv) (m : Nat) (h : dPass2 [s] E = some E') (hm' : E'.has m = false) :
    dPass2 [s] (E.ins m true) = some (E'.ins m true) := by
  cases s with
  | var n v =>
    simp only [dPass2] at h; split at h; cases h
    rename_i hn
    simp only [Option.some.injEq] at h; subst h
    rw [DEnv.has_ins, Bool.or_eq_false_iff, decide_eq_false_iff_not] at hm'
    have hne : n ≠ m := fun e => hm'.1 e.symm
    simp only [dPass2, DEnv.has_ins_ne E m n true hne, hn, if_false, Bool.false_eq_true]
    rw [DEnv.ins_comm E n m false true hne]
  | const n v =>
    simp only [dPass2] at h; split at h; cases h
    rename_i hn
    simp only [Option.some.injEq] at h; subst h
    rw [DEnv.has_ins, Bool.or_eq_false_iff, decide_eq_false_iff_not] at hm'
    have hne : n ≠ m := fun e => hm'.1 e.symm
    simp only [dPass2, DEnv.has_ins_ne E m n true hne, hn, if_false, Bool.false_eq_true]
    rw [DEnv.ins_comm E n m true true hne]
  | fn n v refs =>
    simp only [dPass2] at h
    split at h
    · rename_i hr
      simp only [dPass2, all_has_ins refs E m true hr, if_true]
      split at h
      · rename_i hn
        simp only [Option.some.injEq] at h; subst h
        simp only [DEnv.has_ins_of_has E m true n hn, if_true]
      · rename_i hn
        simp only [Option.some.injEq] at h; subst h
        rw [DEnv.has_ins, Bool.or_eq_false_iff, decide_eq_false_iff_not] at hm'
        have hne : n ≠ m := fun e => hm'.1 e.symm
        simp only [DEnv.has_ins_ne E m n true hne, hn, if_false, Bool.false_eq_true]
        rw [DEnv.ins_comm E n m true true hne]
    · cases h
  | set n v =>
    simp only [dPass2] at h; split at h
    · rename_i hn
      simp only [Option.some.injEq] at h; subst h
      have hne : n ≠ m := by
        intro e; subst e; simp [DEnv.has, hn] at hm'
      simp only [dPass2, DEnv.ins_ne E m n true hne, hn, if_true]
    · cases h
  | use n =>
    simp only [dPass2] at h; split at h
    · rename_i hn
      simp only [Option.some.injEq] at h; subst h
      have hne : n ≠ m := by
        intro e; subst e; rw [hn] at hm'; cases hm'
      simp only [dPass2, DEnv.has_ins_ne E m n true hne, hn, if_true]
    · cases h

theorem comm_one (s : DStmt) (p : DPiece) : ∀ (E E' : DEnv), (∀ n v refs, s = .fn n v refs → E.has n = true) →
    dPass2 [s] E = some E' → (dPass1 p E).bind (dPass2 [s]) = dPass1 p E' := by
  induction p with
  | nil => intro E E' _ h; simpa [dPass1] using h
  | cons t r ih =>
    intro E E' hs h
    cases t with
    | var n v => exact ih E E' hs h
    | const n v => exact ih E E' hs h
    | set n v => exact ih E E' hs h
    | use n => exact ih E E' hs h
    | fn m w rs =>
      simp only [dPass1]
      by_cases hm : E.has m = true
      · simp only [hm, if_true, dPass2_one_mono s E E' h m hm, Option.bind_none]
      · have hm0 : E.has m = false := by simpa using hm
        simp only [hm0, if_false, Bool.false_eq_true]
        by_cases hm' : E'.has m = true
        · simp only [hm', if_true]
          cases h1 : dPass1 r (E.ins m true) with
          | none => rfl
          | some Eb =>
            simp only [Option.bind_some]
            exact one_declares s E E' m h hm0 hm' hs Eb (dPass1_mono r _ Eb h1 m (DEnv.has_ins_self E m true))
        · have hm1 : E'.has m = false := by simpa using hm'
          simp only [hm1, if_false, Bool.false_eq_true]
          exact ih (E.ins m true) (E'.ins m true)
            (fun n v refs e => DEnv.has_ins_of_has E m true n (hs n v refs e)) (one_commutes s E E' m h hm1)

theorem dPass2_cons (s : DStmt) (r : DPiece) (E : DEnv) : dPass2 (s :: r) E = (dPass2 [s] E).bind (dPass2 r) :=
  dPass2_append [s] r E

theorem comm_all (A : DPiece) : ∀ (Ea E1 : DEnv), (∀ n v refs, DStmt.fn n v refs ∈ A → Ea.has n = true) →
    dPass2 A Ea = some E1 → ∀ p : DPiece, (dPass1 p Ea).bind (dPass2 A) = dPass1 p E1 := by
  induction A with
  | nil =>
    intro Ea E1 _ h p
    simp only [dPass2, Option.some.injEq] at h; subst h
    cases dPass1 p Ea <;> rfl
  | cons s r ih =>
    intro Ea E1 hf h p
    rw [dPass2_cons] at h
    cases h1 : dPass2 [s] Ea with
    | none => rw [h1] at h; cases h
    | some E' =>
      rw [h1] at h
      simp only [Option.bind_some] at h
      have hs : ∀ n v refs, s = .fn n v refs → Ea.has n = true := fun n v refs e => hf n v refs (e ▸ List.mem_cons_self)
      have hr : ∀ n v refs, DStmt.fn n v refs ∈ r → E'.has n = true :=
        fun n v refs hm => dPass2_one_mono s Ea E' h1 n (hf n v refs (List.mem_cons_of_mem _ hm))
      have e1 : (dPass1 p Ea).bind (dPass2 (s :: r)) = ((dPass1 p Ea).bind (dPass2 [s])).bind (dPass2 r) := by
        cases dPass1 p Ea with
        | none => rfl
        | some Eb => simp only [Option.bind_some]; exact dPass2_cons s r Eb
      rw [e1, comm_one s p Ea E' hs h1]
      exact ih E' E1 hr h p

theorem dPass1_has_fns (A : DPiece) : ∀ (E Ea : DEnv), dPass1 A E = some Ea → ∀ n v refs, DStmt.fn n v refs ∈ A → Ea.has n = true := by
  induction A with
  | nil => intro E Ea _ n v refs hm; cases hm
  | cons s r ih =>
    intro E Ea h n v refs hm
    cases s with
    | fn m w rs =>
      simp only [dPass1] at h
      split at h
      · cases h
      · rcases List.mem_cons.mp hm with e | hin
        · cases e; exact dPass1_mono r _ Ea h n (DEnv.has_ins_self E n true)
        · exact ih _ Ea h n v refs hin
    | var m w => rcases List.mem_cons.mp hm with e | hin; cases e; exact ih E Ea h n v refs hin
    | const m w => rcases List.mem_cons.mp hm with e | hin; cases e; exact ih E Ea h n v refs hin
    | set m w => rcases List.mem_cons.mp hm with e | hin; cases e; exact ih E Ea h n v refs hin
    | use m => rcases List.mem_cons.mp hm with e | hin; cases e; exact ih E Ea h n v refs hin


end Risor.C18
