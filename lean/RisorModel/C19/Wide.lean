import RisorModel.C19.Model
/-!
C19, the wrappers OUTSIDE modules/strings and modules/regexp: the hand-written module functions
of modules/strconv, modules/math, modules/bytes, modules/filepath and modules/base64 (all
standard-library-wrapping modules of the root Go module in the property's scope).

Every wrapper is one row `WSig` of the inventory `wideSigs` (hand-written twin of the table the
extractor regenerates on every run, `Risor.Generated.C19Wide.wideSigs`, tie `wideSigs_tie`):
module, registered name, arity bounds (`arg.Require` / `arg.RequireRange` / a test on
`len(args)`), the Go function it forwards to (resolved with go/types: package path + name), the
converters applied to `args[0]`, `args[1]`, … in order, the order in which the converted values
are passed on, constants appended to the Go call (`strconv.ParseFloat(s, 64)`, `math.IsInf(x,
0)`), defaults of omitted optional arguments (`parse_int`: base 10, 64 bits; `math.inf`: sign 1),
whether the Go function's `error` result is handed back as an error VALUE, the result
constructor, and the `Shape` of the body.

Second part: decimal printing and parsing of ints — `string(n)` / `Int.Inspect` (`%d`) and
`strconv.atoi` (`strconv.Atoi`) — as byte-level models `itoa` / `atoi`.
-/
namespace Risor.C19

/-- how the body of a hand-written wrapper gets from its arguments to its result.
    `direct`: the arity test, the converters in argument order (each followed by the return of
    its type error; optional trailing ones inside `if len(args) > k`), exactly ONE call of a Go
    standard-library function on the converted values (and trailing constants), its `error`
    result (if any) returned as `object.NewError`, one constructor around its value — no other
    call, no loop, no switch, no branch on the data.
    `method m`: the bytes module — the arity test, `args[0]` must be a byte_slice, then
    `return b.m(args[1], …)`: the call is forwarded to the method `m` of the byte_slice.
    `other`: anything else (a switch on the argument's type, a loop, several library calls, a
    choice between encodings): the row is still regenerated — arity, converters in source order,
    every standard-library function called, every constructor used — but the glue theorems make
    no claim about its body. -/
inductive Shape where
  | direct
  | method (m : String)
  | other
  deriving Repr, DecidableEq

/-- one wrapper of the wider inventory.  `sig.go`: `"<package path>.<Func>"` for `direct`,
    `"<package path>.(<Recv>).<Method>"` for `method`, the list of all library functions called
    and constructors used (`"f g => NewX NewY"`) for `other`.  `sig.pass`: positions (in the
    converter list) of the values handed to the Go function, in call order; for `method`: the
    indices of the `args` handed to the method.  `defaults`: values of the optional trailing
    parameters when omitted (`max - min` of them).  `extra`: constants appended to the Go call. -/
structure WSig where
  mod : String
  sig : Sig
  min : Nat
  max : Nat
  defaults : List GoVal
  extra : List GoVal
  retErr : Bool
  shape : Shape
  deriving Repr, DecidableEq

/-- the converted argument list with omitted optional parameters filled in by their defaults -/
def WSig.complete (w : WSig) (gs : List GoVal) : List GoVal := gs ++ w.defaults.drop (gs.length - w.min)

/-- the same on script values (what the body works with after its `if len(args) > k` blocks) -/
def WSig.fill (w : WSig) (args : List Val) : List Val := args ++ (w.defaults.drop (args.length - w.min)).map inject

/-- Impl: a hand-written wrapper around the Go function `f`.  `meth m args` stands for the
    method `m` of the byte_slice `args[0]` applied to the rest; `alt` for whatever a body of
    shape `other` computes. -/
def wWrap (w : WSig) (f : GoFunE) (meth : String → List Val → Out) (alt : List Val → Out) (args : List Val) : Out :=
  if args.length < w.min ∨ w.max < args.length then .argsErr
  else match w.shape with
    | .direct =>
      match projectAll w.sig.args (w.fill args) with
      | none => .typeErr
      | some gs => outOfE (f (passed w.sig gs ++ w.extra))
    | .method m =>
      match args with
      | .bytes b :: rest => meth m (.bytes b :: rest)
      | _ => .typeErr
    | .other => alt args

/-- Spec ("returns exactly what the Go function returns, errors as script errors"): an args
    error outside the arity bounds, a type error when a converter refuses, otherwise the
    injection of what the Go function gives on the projected arguments (defaults filled in,
    constants appended); its `error` as an error value; a panic only if Go panics. -/
def wSpec (w : WSig) (f : GoFunE) (args : List Val) : Out :=
  wWrap { w with shape := .direct } f (fun _ _ => .panic) (fun _ => .panic) args

/-- the wrappers of modules/base64, bytes, filepath, math, strconv (hand-written twin of the
    regenerated inventory; modules in alphabetical order, functions in registration order) -/
def wideSigs : List WSig := [
  ⟨"base64", ⟨"decode", "(*encoding/base64.Encoding).DecodedLen (*encoding/base64.Encoding).Decode => NewByteSlice", [.str, .bool], [], .bytes, []⟩, 1, 2, [], [], false, .other⟩,
  ⟨"base64", ⟨"encode", "(*encoding/base64.Encoding).EncodedLen (*encoding/base64.Encoding).Encode => NewString", [.bytes, .bool], [], .str, []⟩, 1, 2, [], [], false, .other⟩,
  ⟨"base64", ⟨"url_decode", "(*encoding/base64.Encoding).DecodedLen (*encoding/base64.Encoding).Decode => NewByteSlice", [.str, .bool], [], .bytes, []⟩, 1, 2, [], [], false, .other⟩,
  ⟨"base64", ⟨"url_encode", "(*encoding/base64.Encoding).EncodedLen (*encoding/base64.Encoding).Encode => NewString", [.bytes, .bool], [], .str, []⟩, 1, 2, [], [], false, .other⟩,
  ⟨"bytes", ⟨"clone", "(*object.ByteSlice).Clone", [], [], .bool, []⟩, 1, 1, [], [], false, .method "Clone"⟩,
  ⟨"bytes", ⟨"contains_any", "(*object.ByteSlice).ContainsAny", [], [1], .bool, []⟩, 2, 2, [], [], false, .method "ContainsAny"⟩,
  ⟨"bytes", ⟨"contains_rune", "(*object.ByteSlice).ContainsRune", [], [1], .bool, []⟩, 2, 2, [], [], false, .method "ContainsRune"⟩,
  ⟨"bytes", ⟨"contains", "(*object.ByteSlice).Contains", [], [1], .bool, []⟩, 2, 2, [], [], false, .method "Contains"⟩,
  ⟨"bytes", ⟨"count", "(*object.ByteSlice).Count", [], [1], .bool, []⟩, 2, 2, [], [], false, .method "Count"⟩,
  ⟨"bytes", ⟨"equals", "(*object.ByteSlice).Equals", [], [1], .bool, []⟩, 2, 2, [], [], false, .method "Equals"⟩,
  ⟨"bytes", ⟨"has_prefix", "(*object.ByteSlice).HasPrefix", [], [1], .bool, []⟩, 2, 2, [], [], false, .method "HasPrefix"⟩,
  ⟨"bytes", ⟨"has_suffix", "(*object.ByteSlice).HasSuffix", [], [1], .bool, []⟩, 2, 2, [], [], false, .method "HasSuffix"⟩,
  ⟨"bytes", ⟨"index_any", "(*object.ByteSlice).IndexAny", [], [1], .bool, []⟩, 2, 2, [], [], false, .method "IndexAny"⟩,
  ⟨"bytes", ⟨"index_byte", "(*object.ByteSlice).IndexByte", [], [1], .bool, []⟩, 2, 2, [], [], false, .method "IndexByte"⟩,
  ⟨"bytes", ⟨"index_rune", "(*object.ByteSlice).IndexRune", [], [1], .bool, []⟩, 2, 2, [], [], false, .method "IndexRune"⟩,
  ⟨"bytes", ⟨"index", "(*object.ByteSlice).Index", [], [1], .bool, []⟩, 2, 2, [], [], false, .method "Index"⟩,
  ⟨"bytes", ⟨"repeat", "(*object.ByteSlice).Repeat", [], [1], .bool, []⟩, 2, 2, [], [], false, .method "Repeat"⟩,
  ⟨"bytes", ⟨"replace_all", "(*object.ByteSlice).ReplaceAll", [], [1, 2], .bool, []⟩, 3, 3, [], [], false, .method "ReplaceAll"⟩,
  ⟨"bytes", ⟨"replace", "(*object.ByteSlice).Replace", [], [1, 2, 3], .bool, []⟩, 4, 4, [], [], false, .method "Replace"⟩,
  ⟨"filepath", ⟨"abs", "path/filepath.IsAbs path/filepath.Clean path/filepath.Join => NewString NewString", [.str], [], .str, []⟩, 1, 1, [], [], false, .other⟩,
  ⟨"filepath", ⟨"base", "path/filepath.Base", [.str], [0], .str, []⟩, 1, 1, [], [], false, .direct⟩,
  ⟨"filepath", ⟨"clean", "path/filepath.Clean", [.str], [0], .str, []⟩, 1, 1, [], [], false, .direct⟩,
  ⟨"filepath", ⟨"dir", "path/filepath.Dir", [.str], [0], .str, []⟩, 1, 1, [], [], false, .direct⟩,
  ⟨"filepath", ⟨"ext", "path/filepath.Ext", [.str], [0], .str, []⟩, 1, 1, [], [], false, .direct⟩,
  ⟨"filepath", ⟨"is_abs", "path/filepath.IsAbs", [.str], [0], .bool, []⟩, 1, 1, [], [], false, .direct⟩,
  ⟨"filepath", ⟨"join", "path/filepath.Join => NewString", [.str], [], .str, []⟩, 0, 9223372036854775807, [], [], false, .other⟩,
  ⟨"filepath", ⟨"match", "path/filepath.Match", [.str, .str], [0, 1], .bool, []⟩, 2, 2, [], [], true, .direct⟩,
  ⟨"filepath", ⟨"rel", "path/filepath.Rel", [.str, .str], [0, 1], .str, []⟩, 2, 2, [], [], true, .direct⟩,
  ⟨"filepath", ⟨"split_list", "path/filepath.SplitList => NewString NewList", [.str], [], .str, []⟩, 1, 1, [], [], false, .other⟩,
  ⟨"filepath", ⟨"split", "path/filepath.Split => NewList NewString NewString", [.str], [], .str, []⟩, 1, 1, [], [], false, .other⟩,
  ⟨"filepath", ⟨"walk_dir", " => NewString NewDirEntry", [.str], [], .str, []⟩, 2, 2, [], [], false, .other⟩,
  ⟨"math", ⟨"abs", "math.Abs => NewInt NewFloat", [], [], .int, []⟩, 1, 1, [], [], false, .other⟩,
  ⟨"math", ⟨"atan2", "math.Atan2", [.float, .float], [0, 1], .float, []⟩, 2, 2, [], [], false, .direct⟩,
  ⟨"math", ⟨"ceil", "math.Ceil => NewFloat", [], [], .float, []⟩, 1, 1, [], [], false, .other⟩,
  ⟨"math", ⟨"cos", "math.Cos math.Cos => NewFloat NewFloat", [], [], .float, []⟩, 1, 1, [], [], false, .other⟩,
  ⟨"math", ⟨"floor", "math.Floor => NewFloat", [], [], .float, []⟩, 1, 1, [], [], false, .other⟩,
  ⟨"math", ⟨"inf", "math.Inf", [.int], [0], .float, []⟩, 0, 1, [.int 1], [], false, .direct⟩,
  ⟨"math", ⟨"is_inf", "math.IsInf", [.float], [0], .bool, []⟩, 1, 1, [], [.int 0], false, .direct⟩,
  ⟨"math", ⟨"log", "math.Log", [.float], [0], .float, []⟩, 1, 1, [], [], false, .direct⟩,
  ⟨"math", ⟨"log10", "math.Log10", [.float], [0], .float, []⟩, 1, 1, [], [], false, .direct⟩,
  ⟨"math", ⟨"log2", "math.Log2", [.float], [0], .float, []⟩, 1, 1, [], [], false, .direct⟩,
  ⟨"math", ⟨"max", "math.Max", [.float, .float], [0, 1], .float, []⟩, 2, 2, [], [], false, .direct⟩,
  ⟨"math", ⟨"min", "math.Min", [.float, .float], [0, 1], .float, []⟩, 2, 2, [], [], false, .direct⟩,
  ⟨"math", ⟨"mod", "math.Mod", [.float, .float], [0, 1], .float, []⟩, 2, 2, [], [], false, .direct⟩,
  ⟨"math", ⟨"pow", "math.Pow", [.float, .float], [0, 1], .float, []⟩, 2, 2, [], [], false, .direct⟩,
  ⟨"math", ⟨"pow10", "math.Pow10 math.Pow10 => NewFloat NewFloat", [.float], [], .float, []⟩, 1, 1, [], [], false, .other⟩,
  ⟨"math", ⟨"round", "math.Round", [.float], [0], .float, []⟩, 1, 1, [], [], false, .direct⟩,
  ⟨"math", ⟨"sin", "math.Sin math.Sin => NewFloat NewFloat", [], [], .float, []⟩, 1, 1, [], [], false, .other⟩,
  ⟨"math", ⟨"sqrt", "math.Sqrt math.Sqrt => NewFloat NewFloat", [], [], .float, []⟩, 1, 1, [], [], false, .other⟩,
  ⟨"math", ⟨"sum", " => NewFloat NewFloat", [], [], .float, []⟩, 1, 1, [], [], false, .other⟩,
  ⟨"math", ⟨"tan", "math.Tan", [.float], [0], .float, []⟩, 1, 1, [], [], false, .direct⟩,
  ⟨"strconv", ⟨"atoi", "strconv.Atoi", [.str], [0], .int, []⟩, 1, 1, [], [], true, .direct⟩,
  ⟨"strconv", ⟨"parse_bool", "strconv.ParseBool", [.str], [0], .bool, []⟩, 1, 1, [], [], true, .direct⟩,
  ⟨"strconv", ⟨"parse_float", "strconv.ParseFloat", [.str], [0], .float, []⟩, 1, 1, [], [.int 64], true, .direct⟩,
  ⟨"strconv", ⟨"parse_int", "strconv.ParseInt", [.str, .int, .int], [0, 1, 2], .int, []⟩, 1, 3, [.int 10, .int 64], [], true, .direct⟩ ]

def findWide (mod name : String) : Option WSig := wideSigs.find? fun w => w.mod == mod && w.sig.name == name

/-! ## decimal ints: `string(n)` (`fmt` `%d`) and `strconv.atoi` (`strconv.Atoi`) -/

/-- the decimal digits of `n`, most significant first (`fuel > n` suffices) -/
def natDigits : Nat → Nat → Bytes
  | 0, _ => []
  | f + 1, n => if n < 10 then [48 + n] else natDigits f (n / 10) ++ [48 + n % 10]

def itoaNat (n : Nat) : Bytes := natDigits (n + 1) n

/-- `fmt.Sprintf("%d", i)` = `strconv.Itoa`: a `-` for a negative number, then the digits of
    its magnitude without leading zeros -/
def itoa (i : Int) : Bytes := if i < 0 then 45 :: itoaNat i.natAbs else itoaNat i.natAbs

/-- the sign and the rest of the text: `strconv.Atoi` accepts one leading `+` or `-` -/
def splitSign : Bytes → Bool × Bytes
  | 45 :: r => (true, r)
  | 43 :: r => (false, r)
  | s => (false, s)

/-- the input language of `strconv.Atoi` before the range test: an optional sign, then at
    least one byte, all of them ASCII digits (no spaces, no underscores, no base prefix) -/
def atoiSyntax (s : Bytes) : Bool := (splitSign s).2 != [] && (splitSign s).2.all isDigitB

/-- the number the text denotes (leading zeros allowed) -/
def atoiValue (s : Bytes) : Int :=
  if (splitSign s).1 then -(natOfDigits (splitSign s).2 : Int) else (natOfDigits (splitSign s).2 : Int)

/-- `strconv.Atoi` on a 64-bit platform: a syntax error outside the language, a range error
    when the value does not fit an int64 (`none` for both: risor returns an error value) -/
def atoi (s : Bytes) : Option Int :=
  if atoiSyntax s then
    (if minInt64 ≤ atoiValue s ∧ atoiValue s ≤ maxInt64 then some (atoiValue s) else none)
  else none

end Risor.C19
