/-
C19 — executable model of risor's codecs (builtins/codecs.go, modules/base64) and of the
argument/result glue of the generated module wrappers (modules/strings/strings_gen.go,
object/typeconv.go), core Lean only.

Byte strings are `List Nat` (every element < 256; Go strings/[]byte are bytes).

* hex, base64 (std/url alphabet, padded/raw), base32 (std, padded), urlquery: the Impl
  model is Go's library function *as it is* (CR/LF skipped by the base64/base32 decoders,
  non-canonical trailing bits accepted, base32's unchecked bytes after the padding), since
  the property defines "right" for a wrapper as "what the Go function returns".
* json: modelled at the level of the JSON *document* (text layer = encoding/json, trusted):
  `encCodec` is `obj.Interface()` + json.Marshal, `encMarshal` is the `MarshalJSON`
  methods, `decDoc` is json.Unmarshal into `interface{}` + `object.FromGoType`.
* gzip: an abstract pair of functions (compress/gzip is trusted); see Props.
* glue: `project`/`inject` for the converters used by the wrappers, `wrap` for a wrapper
  (arity check, converters, the exported function's own tests `Sig.pre`, the Go call).
* regexp: the hand-written wrappers of modules/regexp (`RxSig`, `rxWrap`, the reviewed
  inventory `rxSigs` with the fact `Body.direct`: the body is ONE call into Go's package regexp
  and nothing else), Go's replacement-template expansion (`expand`) and ReplaceAllString on a
  literal pattern next to `strings.ReplaceAll` (`regexpReplaceAllLit`, `stringsReplaceAll`).
* sessions: several calls whose results are kept; Spec = immutable values (`runSpec`), Impl =
  references into a heap of buffers with the code's allocation policy (`runImpl fresh`).
-/
namespace Risor.C19

abbrev Bytes := List Nat

/-! ## hex (encoding/hex) -/

def hexDig (n : Nat) : Nat := if n < 10 then 48 + n else 87 + n

def hexVal (c : Nat) : Option Nat :=
  if 48 ≤ c ∧ c ≤ 57 then some (c - 48)
  else if 97 ≤ c ∧ c ≤ 102 then some (c - 87)
  else if 65 ≤ c ∧ c ≤ 70 then some (c - 55)
  else none

def hexEnc : Bytes → Bytes
  | [] => []
  | b :: r => hexDig (b / 16) :: hexDig (b % 16) :: hexEnc r

/-- `hex.Decode`: any non-hex character or an odd length is an error -/
def hexDec : Bytes → Option Bytes
  | [] => some []
  | [_] => none
  | a :: b :: r =>
    match hexVal a, hexVal b, hexDec r with
    | some x, some y, some t => some ((x * 16 + y) :: t)
    | _, _, _ => none

/-! ## base64 (encoding/base64: StdEncoding, RawStdEncoding, URLEncoding, RawURLEncoding) -/

def c62 (url : Bool) : Nat := if url then 45 else 43
def c63 (url : Bool) : Nat := if url then 95 else 47

def b64Char (url : Bool) (n : Nat) : Nat :=
  if n < 26 then 65 + n
  else if n < 52 then 71 + n
  else if n < 62 then n - 4
  else if n = 62 then c62 url
  else c63 url

def b64Val (url : Bool) (c : Nat) : Option Nat :=
  if 65 ≤ c ∧ c ≤ 90 then some (c - 65)
  else if 97 ≤ c ∧ c ≤ 122 then some (c - 71)
  else if 48 ≤ c ∧ c ≤ 57 then some (c + 4)
  else if c = c62 url then some 62
  else if c = c63 url then some 63
  else none

def padding (pad : Bool) (n : Nat) : Bytes := if pad then List.replicate n 61 else []

def b64Enc (url pad : Bool) : Bytes → Bytes
  | [] => []
  | [a] => b64Char url (a / 4) :: b64Char url (a % 4 * 16) :: padding pad 2
  | [a, b] =>
    b64Char url (a / 4) :: b64Char url (a % 4 * 16 + b / 16) :: b64Char url (b % 16 * 4) :: padding pad 1
  | a :: b :: c :: r =>
    b64Char url (a / 4) :: b64Char url (a % 4 * 16 + b / 16) :: b64Char url (b % 16 * 4 + c / 64)
      :: b64Char url (c % 64) :: b64Enc url pad r

/-- the quantum loop of `Encoding.Decode` on input from which CR and LF have been removed
    (non-strict: the unused low bits of the last character are not checked) -/
def b64Groups (url pad : Bool) : Bytes → Option Bytes
  | [] => some []
  | [_] => none
  | [a, b] =>
    if pad then none else
    match b64Val url a, b64Val url b with
    | some x, some y => some [x * 4 + y / 16]
    | _, _ => none
  | [a, b, c] =>
    if pad then none else
    match b64Val url a, b64Val url b, b64Val url c with
    | some x, some y, some z => some [x * 4 + y / 16, y % 16 * 16 + z / 4]
    | _, _, _ => none
  | a :: b :: c :: d :: r =>
    match b64Val url a, b64Val url b with
    | some x, some y =>
      match b64Val url c with
      | some z =>
        match b64Val url d with
        | some w =>
          match b64Groups url pad r with
          | some t => some ((x * 4 + y / 16) :: (y % 16 * 16 + z / 4) :: (z % 4 * 64 + w) :: t)
          | none => none
        | none =>
          if pad ∧ d = 61 ∧ r = [] then some [x * 4 + y / 16, y % 16 * 16 + z / 4] else none
      | none =>
        if pad ∧ c = 61 ∧ d = 61 ∧ r = [] then some [x * 4 + y / 16] else none
    | _, _ => none

def notNewline (c : Nat) : Bool := c != 10 && c != 13

def stripNL (s : Bytes) : Bytes := s.filter notNewline

/-- `Encoding.Decode`: CR and LF are ignored wherever they occur -/
def b64Dec (url pad : Bool) (s : Bytes) : Option Bytes := b64Groups url pad (stripNL s)

/-! ## base32 (encoding/base32 StdEncoding) -/

def b32Char (n : Nat) : Nat := if n < 26 then 65 + n else 24 + n

def b32Val (c : Nat) : Option Nat :=
  if 65 ≤ c ∧ c ≤ 90 then some (c - 65)
  else if 50 ≤ c ∧ c ≤ 55 then some (c - 24)
  else none

def pads (n : Nat) : Bytes := List.replicate n 61

def b32Enc : Bytes → Bytes
  | [] => []
  | [a] => b32Char (a / 8) :: b32Char (a % 8 * 4) :: pads 6
  | [a, b] =>
    b32Char (a / 8) :: b32Char (a % 8 * 4 + b / 64) :: b32Char (b / 2 % 32) :: b32Char (b % 2 * 16) :: pads 4
  | [a, b, c] =>
    b32Char (a / 8) :: b32Char (a % 8 * 4 + b / 64) :: b32Char (b / 2 % 32) :: b32Char (b % 2 * 16 + c / 16)
      :: b32Char (c % 16 * 2) :: pads 3
  | [a, b, c, d] =>
    b32Char (a / 8) :: b32Char (a % 8 * 4 + b / 64) :: b32Char (b / 2 % 32) :: b32Char (b % 2 * 16 + c / 16)
      :: b32Char (c % 16 * 2 + d / 128) :: b32Char (d / 4 % 32) :: b32Char (d % 4 * 8) :: pads 1
  | a :: b :: c :: d :: e :: r =>
    b32Char (a / 8) :: b32Char (a % 8 * 4 + b / 64) :: b32Char (b / 2 % 32) :: b32Char (b % 2 * 16 + c / 16)
      :: b32Char (c % 16 * 2 + d / 128) :: b32Char (d / 4 % 32) :: b32Char (d % 4 * 8 + e / 32)
      :: b32Char (e % 32) :: b32Enc r

/-- the five destination bytes of a quantum of eight 5-bit values (missing ones are 0) -/
def b32Bytes (q : List Nat) : Bytes :=
  let g := fun i => q.getD i 0
  [ g 0 * 8 + g 1 / 4,
    g 1 % 4 * 64 + g 2 * 2 + g 3 / 16,
    g 3 % 16 * 16 + g 4 / 2,
    g 4 % 2 * 128 + g 5 * 4 + g 6 / 8,
    g 6 % 8 * 32 + g 7 ]

/-- number of bytes produced by a quantum in which `j` characters were present -/
def b32Count (j : Nat) : Nat :=
  if j = 8 then 5 else if j = 7 then 4 else if j = 5 then 3 else if j = 4 then 2 else if j = 2 then 1 else 0

def b32Pack (j : Nat) (q : List Nat) : Bytes := (b32Bytes q).take (b32Count j)

/-- `Encoding.decode` (padded) after `stripNewlines`: `j` characters of the current quantum
    have been read into `q`.  As in Go, once a padding character is accepted decoding stops
    and what follows the required padding (fewer than 8 bytes) is not looked at. -/
def b32Loop : Bytes → Nat → List Nat → Option Bytes
  | [], j, _ => if j = 0 then some [] else none
  | c :: src, j, q =>
    if c = 61 ∧ 2 ≤ j ∧ src.length < 8 then
      if src.length + j < 7 then none
      else if !((src.take (7 - j)).all (· == 61)) then none
      else if j = 3 ∨ j = 6 then none
      else some (b32Pack j q)
    else
      match b32Val c with
      | none => none
      | some v =>
        if j = 7 then
          match b32Loop src 0 [] with
          | some t => some (b32Pack 8 (q ++ [v]) ++ t)
          | none => none
        else b32Loop src (j + 1) (q ++ [v])

def b32Dec (s : Bytes) : Option Bytes := b32Loop (stripNL s) 0 []

/-! ## urlquery (net/url QueryEscape / QueryUnescape) -/

def unreserved (c : Nat) : Bool :=
  (65 ≤ c && c ≤ 90) || (97 ≤ c && c ≤ 122) || (48 ≤ c && c ≤ 57) ||
  c == 45 || c == 95 || c == 46 || c == 126

def upHex (n : Nat) : Nat := if n < 10 then 48 + n else 55 + n

def qEsc : Bytes → Bytes
  | [] => []
  | c :: r =>
    if unreserved c then c :: qEsc r
    else if c = 32 then 43 :: qEsc r
    else 37 :: upHex (c / 16) :: upHex (c % 16) :: qEsc r

def qUnesc : Bytes → Option Bytes
  | [] => some []
  | c :: r =>
    if c = 37 then
      match r with
      | a :: b :: t =>
        match hexVal a, hexVal b, qUnesc t with
        | some x, some y, some u => some ((x * 16 + y) :: u)
        | _, _, _ => none
      | _ => none
    else
      match qUnesc r with
      | some u => some ((if c = 43 then 32 else c) :: u)
      | none => none

/-! ## codec registry (builtins/codecs.go) on the byte projection -/

inductive Codec where
  | hex | base64 | base32 | urlquery
  deriving Repr, DecidableEq

def Codec.enc : Codec → Bytes → Bytes
  | .hex => hexEnc
  | .base64 => b64Enc false true
  | .base32 => b32Enc
  | .urlquery => qEsc

def Codec.dec : Codec → Bytes → Option Bytes
  | .hex => hexDec
  | .base64 => b64Dec false true
  | .base32 => b32Dec
  | .urlquery => qUnesc

/-- what the property's "malformed input" means for the Spec: a byte that can never occur in
    an encoding (not in the alphabet, not padding, not an ignored CR/LF) -/
def Codec.alien : Codec → Nat → Bool
  | .hex => fun c => (hexVal c).isNone
  | .base64 => fun c => (b64Val false c).isNone && c != 61 && c != 10 && c != 13
  | .base32 => fun c => (b32Val c).isNone && c != 61 && c != 10 && c != 13
  | .urlquery => fun _ => false

/-! ## float64 ⇄ integer (what `json.Unmarshal` into `interface{}` does to a JSON integer) -/

def bitLen (n : Nat) : Nat := if n = 0 then 0 else Nat.log2 n + 1

/-- IEEE-754 binary64 bits of the natural number `m` rounded to nearest, ties to even -/
def f64OfNat (m : Nat) : Nat :=
  if m = 0 then 0 else
  let l := bitLen m
  if l ≤ 53 then
    (l - 1 + 1023) * 2 ^ 52 + (m * 2 ^ (53 - l) - 2 ^ 52)
  else
    let s := l - 53
    let q := m / 2 ^ s
    let r := m % 2 ^ s
    let half := 2 ^ (s - 1)
    let q' := if r > half ∨ (r = half ∧ q % 2 = 1) then q + 1 else q
    if q' = 2 ^ 53 then (l + 1023) * 2 ^ 52
    else (l - 1 + 1023) * 2 ^ 52 + (q' - 2 ^ 52)

def f64OfInt (i : Int) : Nat :=
  if i < 0 then 2 ^ 63 + f64OfNat i.natAbs else f64OfNat i.natAbs

/-- the integer a binary64 bit pattern denotes, if it denotes one (−0 denotes 0) -/
def f64IntVal (bits : Nat) : Option Int :=
  let neg := bits / 2 ^ 63 % 2 = 1
  let e := bits / 2 ^ 52 % 2048
  let m := bits % 2 ^ 52
  let sgn : Int → Int := fun x => if neg then -x else x
  if e = 0 then (if m = 0 then some 0 else none)
  else if e = 2047 then none
  else
    let mm := 2 ^ 52 + m
    if 1075 ≤ e then some (sgn (Int.ofNat (mm * 2 ^ (e - 1075))))
    else
      let d := 2 ^ (1075 - e)
      if mm % d = 0 then some (sgn (Int.ofNat (mm / d))) else none

/-- the integer survives the trip through float64 -/
def intExact (i : Int) : Bool := f64IntVal (f64OfInt i) == some i

def f64Finite (bits : Nat) : Bool := bits / 2 ^ 52 % 2048 != 2047

/-! ## UTF-8 as `encoding/json` sees it (utf8.DecodeRune: an invalid byte has width 1) -/

def cont (c : Nat) : Bool := 128 ≤ c && c ≤ 191

/-- width of the well-formed UTF-8 sequence at the head of `s`, 0 if there is none -/
def runeWidth : Bytes → Nat
  | [] => 0
  | a :: r =>
    if a < 128 then 1
    else if 194 ≤ a ∧ a ≤ 223 then
      match r with
      | b :: _ => if cont b then 2 else 0
      | _ => 0
    else if 224 ≤ a ∧ a ≤ 239 then
      match r with
      | b :: c :: _ =>
        let lo := if a = 224 then 160 else 128
        let hi := if a = 237 then 159 else 191
        if lo ≤ b ∧ b ≤ hi ∧ cont c then 3 else 0
      | _ => 0
    else if 240 ≤ a ∧ a ≤ 244 then
      match r with
      | b :: c :: d :: _ =>
        let lo := if a = 240 then 144 else 128
        let hi := if a = 244 then 143 else 191
        if lo ≤ b ∧ b ≤ hi ∧ cont c ∧ cont d then 4 else 0
      | _ => 0
    else 0

/-- what json.Marshal writes for a Go string and json.Unmarshal reads back: every byte that
    does not start a well-formed sequence becomes U+FFFD (EF BF BD).  `fuel` ≥ length. -/
def sanitizeF : Nat → Bytes → Bytes
  | 0, _ => []
  | _, [] => []
  | fuel + 1, a :: r =>
    let w := runeWidth (a :: r)
    if w = 0 then 239 :: 191 :: 189 :: sanitizeF fuel r
    else (a :: r).take w ++ sanitizeF fuel ((a :: r).drop w)

def sanitize (s : Bytes) : Bytes := sanitizeF s.length s

def validUtf8 (s : Bytes) : Bool := sanitize s == s

/-! ## three argument conventions outside the strings module, as repaired, and what they were

These wrappers are hand-written Go (object/byte_slice.go, modules/math/math.go); their agreement
with the Go library is established by correspondence.  The part of each that a defect was
recorded against is modelled here — the behaviour of the code as it is now, and, clearly named
`…PreFix`, what it was before the repair (statements in Props: `C19_fixed_*`). -/

/-- `bytes.contains_rune` / `bytes.index_rune` and the `byte_slice` methods: the argument must be
    exactly ONE well-formed UTF-8 sequence (`r, size := utf8.DecodeRuneInString(s)`; refused when
    `size == 0 || size != len(s) || (r == utf8.RuneError && size == 1)`) -/
def runeArgOK (s : Bytes) : Bool := s != [] && runeWidth s == s.length

/-- HISTORICAL (before "fix: bytes.contains_rune and bytes.index_rune accept a multi-byte
    character"): the test was `len(s) != 1` in BYTES, the rune `rune(s[0])` -/
def runeArgOKPreFix (s : Bytes) : Bool := s.length == 1

/-- `math.abs` of a float, on its IEEE-754 bits (< 2^64): `math.Abs` clears the sign bit -/
def absBits (b : Nat) : Nat := b % 2 ^ 63

/-- HISTORICAL (before "fix: math.abs(-0.0) returns +0.0"): `if v < 0 { v *= -1 }` — the
    comparison is false for -0.0 and for every NaN, which therefore kept their sign bit -/
def absBitsPreFix (b : Nat) : Nat :=
  if 2 ^ 63 < b ∧ b ≤ 2 ^ 63 + 0x7FF0000000000000 then b - 2 ^ 63 else b

/-- `math.pow10` of an int: the exponent handed to `math.Pow10` is the int itself -/
def pow10Exp (i : Int) : Int := i

/-- HISTORICAL (before "fix: math.pow10 passes an int argument to math.Pow10 unchanged"):
    `int(float64(i))` — rounded to binary64 and converted back; on amd64 a float that is not below
    2^63 converts to MinInt64 -/
def pow10ExpPreFix (i : Int) : Int :=
  match f64IntVal (f64OfInt i) with
  | some j => if j ≤ 2 ^ 63 - 1 then j else -(2 ^ 63)
  | none => -(2 ^ 63)

/-! ## script values and the JSON document model -/

mutual
  inductive Val where
    | nil
    | bool (b : Bool)
    | int (i : Int)
    | float (bits : Nat)
    | byte (n : Nat)
    | str (s : Bytes)
    | bytes (s : Bytes)
    | list (xs : Vals)
    | map (kvs : KVs)      -- in ascending order of the raw key (how encoding/json writes a Go map)
  inductive Vals where
    | nil
    | cons (v : Val) (r : Vals)
  inductive KVs where
    | nil
    | cons (k : Bytes) (v : Val) (r : KVs)
end

def KVs.hasKey (k : Bytes) : KVs → Bool
  | .nil => false
  | .cons k' _ r => k' == k || KVs.hasKey k r

/-- json.Unmarshal into a Go map: the last occurrence of a key wins -/
def KVs.dedupLast : KVs → KVs
  | .nil => .nil
  | .cons k v r => if KVs.hasKey k r then KVs.dedupLast r else .cons k v (KVs.dedupLast r)

/-- base64 text (what json.Marshal writes for a Go []byte) -/
def b64Text (s : Bytes) : Bytes := b64Enc false true s

mutual
  /-- `obj.Interface()` followed by `json.Marshal`, as a JSON document (numbers keep their
      token: an int stays an int).  `none`: the encoder returns an error. -/
  def encI : Val → Option Val
    | .nil => some .nil
    | .bool b => some (.bool b)
    | .int i => some (.int i)
    | .float f => if f64Finite f then some (.float f) else none
    | .byte n => some (.int n)
    | .str s => some (.str (sanitize s))
    | .bytes s => some (.str (b64Text s))        -- Interface() is []byte: base64 text
    | .list xs => match encIs xs with
      | some ys => some (.list ys)
      | none => none
    | .map kvs => match encIk kvs with
      | some ys => some (.map ys)
      | none => none
  def encIs : Vals → Option Vals
    | .nil => some .nil
    | .cons v r => match encI v, encIs r with
      | some a, some b => some (.cons a b)
      | _, _ => none
  def encIk : KVs → Option KVs
    | .nil => some .nil
    | .cons k v r => match encI v, encIk r with
      | some a, some b => some (.cons (sanitize k) a b)
      | _, _ => none
end

/-- `encodeJSON` (builtins/codecs.go): `Interface() == nil` (only the nil object) is refused -/
def encCodec : Val → Option Val
  | .nil => none
  | v => encI v

mutual
  /-- json.Marshal of the object itself: the `MarshalJSON` methods -/
  def encM : Val → Option Val
    | .nil => some .nil
    | .bool b => some (.bool b)
    | .int i => some (.int i)
    | .float f => if f64Finite f then some (.float f) else none
    | .byte n => some (.int n)
    | .str s => some (.str (sanitize s))
    | .bytes s => some (.str (sanitize s))       -- ByteSlice.MarshalJSON: json.Marshal(string(b))
    | .list xs => match encMs xs with
      | some ys => some (.list ys)
      | none => none
    | .map kvs => match encMk kvs with
      | some ys => some (.map ys)
      | none => none
  def encMs : Vals → Option Vals
    | .nil => some .nil
    | .cons v r => match encM v, encMs r with
      | some a, some b => some (.cons a b)
      | _, _ => none
  def encMk : KVs → Option KVs
    | .nil => some .nil
    | .cons k v r => match encM v, encMk r with
      | some a, some b => some (.cons (sanitize k) a b)
      | _, _ => none
end

mutual
  /-- json.Unmarshal into `interface{}` + `object.FromGoType`: every number is a float64 -/
  def decDoc : Val → Val
    | .int i => .float (f64OfInt i)
    | .byte n => .float (f64OfInt n)
    | .list xs => .list (decDocs xs)
    | .map kvs => .map (KVs.dedupLast (decDock kvs))
    | v => v
  def decDocs : Vals → Vals
    | .nil => .nil
    | .cons v r => .cons (decDoc v) (decDocs r)
  def decDock : KVs → KVs
    | .nil => .nil
    | .cons k v r => .cons k (decDoc v) (decDock r)
end

/-- `decode(encode(v, "json"), "json")` -/
def codecRoundtrip (v : Val) : Option Val := (encCodec v).map decDoc
/-- `json.unmarshal(json.marshal(v))` -/
def marshalRoundtrip (v : Val) : Option Val := (encM v).map decDoc

mutual
  /-- Spec equality between an original value and what came back: same shape, same bytes,
      numbers equal as *numbers* (an int may come back as the float that denotes exactly
      that integer; it may not come back as a neighbouring one) -/
  def jEq : Val → Val → Bool
    | .nil, .nil => true
    | .bool a, .bool b => a == b
    | .int i, .float f => f64IntVal f == some i
    | .int i, .int j => i == j
    | .byte n, .float f => f64IntVal f == some (Int.ofNat n)
    | .float a, .float b => a == b
    | .str a, .str b => a == b
    | .bytes a, .bytes b => a == b
    | .bytes a, .str b => a == b        -- script equality byte_slice == string compares the bytes
    | .list a, .list b => jEqs a b
    | .map a, .map b => jEqk a b
    | _, _ => false
  def jEqs : Vals → Vals → Bool
    | .nil, .nil => true
    | .cons a r, .cons b s => jEq a b && jEqs r s
    | _, _ => false
  def jEqk : KVs → KVs → Bool
    | .nil, .nil => true
    | .cons k a r, .cons l b s => k == l && jEq a b && jEqk r s
    | _, _ => false
end

/-- Spec verdict for the json codec on `v` (used by the harness through the oracle) -/
def codecOk (v : Val) : Bool :=
  match codecRoundtrip v with
  | some w => jEq v w
  | none => false

mutual
  /-- no byte_slice anywhere -/
  def noBytes : Val → Bool
    | .bytes _ => false
    | .list xs => noBytess xs
    | .map kvs => noBytesk kvs
    | _ => true
  def noBytess : Vals → Bool
    | .nil => true
    | .cons v r => noBytes v && noBytess r
  def noBytesk : KVs → Bool
    | .nil => true
    | .cons _ v r => noBytes v && noBytesk r
end

def KVs.distinct : KVs → Bool
  | .nil => true
  | .cons k _ r => !KVs.hasKey k r && KVs.distinct r

mutual
  /-- every int survives float64, every float is finite, every string and key is valid
      UTF-8, keys are distinct -/
  def jsonSafe : Val → Bool
    | .int i => intExact i
    | .byte n => intExact (Int.ofNat n)
    | .float f => f64Finite f
    | .str s => validUtf8 s
    | .bytes _ => false
    | .list xs => jsonSafes xs
    | .map kvs => jsonSafek kvs && KVs.distinct kvs
    | _ => true
  def jsonSafes : Vals → Bool
    | .nil => true
    | .cons v r => jsonSafe v && jsonSafes r
  def jsonSafek : KVs → Bool
    | .nil => true
    | .cons k v r => validUtf8 k && jsonSafe v && jsonSafek r
end

def isNil : Val → Bool
  | .nil => true
  | _ => false

/-! ## wrapper glue (object/typeconv.go + modules/strings/strings_gen.go) -/

inductive Conv where
  | str       -- object.AsString
  | int       -- object.AsInt (+ the int range check of the generated code)
  | strList   -- object.AsStringSlice
  | bool      -- object.AsBool
  | bytes     -- object.AsBytes
  | float     -- object.AsFloat (an int or a byte is converted: float64(i))
  deriving Repr, DecidableEq

inductive Inj where
  | bool      -- object.NewBool
  | int       -- object.NewInt(int64(result))
  | str       -- object.NewString
  | strList   -- object.NewStringList
  | float     -- object.NewFloat
  | bytes     -- object.NewByteSlice
  deriving Repr, DecidableEq

/-- a Go-side argument or result -/
inductive GoVal where
  | str (s : Bytes)
  | int (i : Int)
  | bool (b : Bool)
  | strs (l : List Bytes)
  | bytes (s : Bytes)
  | float (bits : Nat)     -- a float64, by its IEEE-754 bits
  deriving Repr, DecidableEq

/-- a test the exported function makes on its (converted) parameters BEFORE it calls the Go
    function; when one fires the function returns an error value and the Go function is not
    called.  `neg i`: `pᵢ < 0`;  `lenMulOverflows i j`: `len(pᵢ) > 0 && pⱼ > math.MaxInt/len(pᵢ)`
    (the product `len(pᵢ)·pⱼ` does not fit an `int`). -/
inductive Check where
  | neg (i : Nat)
  | lenMulOverflows (i j : Nat)
  deriving Repr, DecidableEq

/-- one generated wrapper: exported name, Go function it calls (with the order in which the
    parameters are passed on), converters of the arguments, constructor of the result, and the
    tests the exported function makes before the call (`pre`, in source order) -/
structure Sig where
  name : String
  go : String
  args : List Conv
  pass : List Nat
  res : Inj
  pre : List Check
  deriving Repr, DecidableEq

def Vals.toStrs : Vals → Option (List Bytes)
  | .nil => some []
  | .cons (.str s) r => (Vals.toStrs r).map (s :: ·)
  | .cons (.bytes s) r => (Vals.toStrs r).map (s :: ·)
  | .cons _ _ => none

def Vals.ofStrs : List Bytes → Vals
  | [] => .nil
  | s :: r => .cons (.str s) (Vals.ofStrs r)

def minInt64 : Int := -(2 ^ 63)
def maxInt64 : Int := 2 ^ 63 - 1

/-- the `As…` converters: defined exactly on the accepted object types -/
def project : Conv → Val → Option GoVal
  | .str, .str s => some (.str s)
  | .str, .bytes s => some (.str s)
  | .int, .int i => some (.int i)
  | .int, .byte n => some (.int n)
  | .bool, .bool b => some (.bool b)
  | .bytes, .bytes s => some (.bytes s)
  | .bytes, .str s => some (.bytes s)
  | .strList, .list xs => (Vals.toStrs xs).map .strs
  | .float, .float b => some (.float b)
  | .float, .int i => some (.float (f64OfInt i))
  | .float, .byte n => some (.float (f64OfInt n))
  | _, _ => none

def projectAll : List Conv → List Val → Option (List GoVal)
  | [], [] => some []
  | c :: cs, v :: vs =>
    match project c v, projectAll cs vs with
    | some g, some gs => some (g :: gs)
    | _, _ => none
  | _, _ => none

/-- the `New…` constructors -/
def inject : GoVal → Val
  | .str s => .str s
  | .int i => .int i
  | .bool b => .bool b
  | .strs l => .list (Vals.ofStrs l)
  | .bytes s => .bytes s
  | .float b => .float b

inductive Out where
  | val (v : Val)
  | argsErr
  | typeErr
  | err
  | panic

/-- a Go library function: `none` models a Go panic -/
abbrev GoFun := List GoVal → Option GoVal

/-- what the wrapper returns for the outcome of the Go call (`none` = the call panicked) -/
def outOf : Option GoVal → Out
  | none => .panic
  | some r => .val (inject r)

/-- the values handed to the Go function, in the order the exported function passes them on -/
def passed (sig : Sig) (gs : List GoVal) : List GoVal := sig.pass.map fun i => gs.getD i (.bool false)

/-- does the test fire on the converted parameters `gs` (as written in the Go source:
    integer division, `math.MaxInt` = 2^63-1) -/
def Check.fires : Check → List GoVal → Bool
  | .neg i, gs =>
    match gs.getD i (.bool false) with
    | .int n => decide (n < 0)
    | _ => false
  | .lenMulOverflows i j, gs =>
    match gs.getD i (.bool false), gs.getD j (.bool false) with
    | .str s, .int n => decide (0 < s.length) && decide (maxInt64 / (s.length : Int) < n)
    | _, _ => false

/-- the exported function returns an error value without calling the Go function -/
def refuses (sig : Sig) (gs : List GoVal) : Bool := sig.pre.any (·.fires gs)

/-- the exported function behind a generated wrapper, on converted parameters: its tests, then
    the Go function (`result, resultErr := inner(…); if resultErr != nil { return NewError }`) -/
def callInner (sig : Sig) (f : GoFun) (gs : List GoVal) : Out :=
  if refuses sig gs then .err else outOf (f (passed sig gs))

/-- a generated wrapper around `f` -/
def wrap (sig : Sig) (f : GoFun) (args : List Val) : Out :=
  if args.length ≠ sig.args.length then .argsErr
  else match projectAll sig.args args with
    | none => .typeErr
    | some gs => callInner sig f gs

/-- the wrappers of modules/strings (hand-written twin of the regenerated inventory) -/
def stringsSigs : List Sig := [
  ⟨"contains", "strings.Contains", [.str, .str], [0, 1], .bool, []⟩,
  ⟨"has_prefix", "strings.HasPrefix", [.str, .str], [0, 1], .bool, []⟩,
  ⟨"has_suffix", "strings.HasSuffix", [.str, .str], [0, 1], .bool, []⟩,
  ⟨"count", "strings.Count", [.str, .str], [0, 1], .int, []⟩,
  ⟨"compare", "strings.Compare", [.str, .str], [0, 1], .int, []⟩,
  ⟨"repeat", "strings.Repeat", [.str, .int], [0, 1], .str, [.neg 1, .lenMulOverflows 0 1]⟩,
  ⟨"join", "strings.Join", [.strList, .str], [0, 1], .str, []⟩,
  ⟨"split", "strings.Split", [.str, .str], [0, 1], .strList, []⟩,
  ⟨"fields", "strings.Fields", [.str], [0], .strList, []⟩,
  ⟨"index", "strings.Index", [.str, .str], [0, 1], .int, []⟩,
  ⟨"last_index", "strings.LastIndex", [.str, .str], [0, 1], .int, []⟩,
  ⟨"replace_all", "strings.ReplaceAll", [.str, .str, .str], [0, 1, 2], .str, []⟩,
  ⟨"to_lower", "strings.ToLower", [.str], [0], .str, []⟩,
  ⟨"to_upper", "strings.ToUpper", [.str], [0], .str, []⟩,
  ⟨"trim", "strings.Trim", [.str, .str], [0, 1], .str, []⟩,
  ⟨"trim_prefix", "strings.TrimPrefix", [.str, .str], [0, 1], .str, []⟩,
  ⟨"trim_suffix", "strings.TrimSuffix", [.str, .str], [0, 1], .str, []⟩,
  ⟨"trim_space", "strings.TrimSpace", [.str], [0], .str, []⟩ ]

def findSig (name : String) : Option Sig := stringsSigs.find? (·.name == name)

/-- HISTORICAL (before "fix: strings.repeat, bytes.repeat and byte_slice.repeat return an error
    …"): the inventory as it was — `repeat` made no test of its own and handed any count to
    `strings.Repeat`.  Kept so that the repaired defect stays a checked statement
    (`C19_fixed_repeat_panicked` in Props). -/
def preFixStringsSigs : List Sig := stringsSigs.map fun sig => { sig with pre := [] }

/-- the arguments on which Go's `strings.Repeat` panics (negative count, or a result length
    that overflows `int`); no other function of the inventory panics.  (A Go panic is no longer
    reachable through the wrapper: `repeat` tests exactly this domain first — `Sig.pre`.) -/
def goPanics (go : String) (gs : List GoVal) : Bool :=
  match go, gs with
  | "strings.Repeat", [.str s, .int n] => n < 0 || (maxInt64 < (s.length : Int) * n)
  | _, _ => false

/-! ## the hand-written wrappers of modules/regexp (regexp.go, regexp_object.go)

`regexp.compile`, `regexp.match` and the methods of a compiled pattern (`match`, `find`,
`find_all`, `find_submatch`, `replace_all`, `split`) are written by hand, not generated: an
arity test, `object.As…` converters on `args[i]` in order, ONE call into Go's package `regexp`
— a package function on the pattern string, or a method of the compiled pattern `r.value` —
and a constructor around its result.  The Go library is the reference by the property's own
wording, so it is a parameter here (`GoFunE`); what is modelled is the glue, and the fact that
matters for "returns exactly what the Go function returns": whether the body is that one call
and nothing else (`Body.direct`).

A compiled pattern is identified by its source text (`regexp.Compile` is a function of it):
the receiver of a method is the first converted value `.str source`, and `regexp.compile`
returns `.str source` standing for the regexp object. -/

/-- what a call into the Go library gives back: a value, an `error` result, or a panic -/
inductive GoOut where
  | val (g : GoVal)
  | error
  | panic
  deriving Repr, DecidableEq

/-- a Go library function that may report an error (`(T, error)`) -/
abbrev GoFunE := List GoVal → GoOut

/-- what a wrapper returns for the outcome of its Go call: the injected value, an error VALUE
    for an `error` result (`object.NewError(rErr)`), and a panic only if Go panicked -/
def outOfE : GoOut → Out
  | .val r => .val (inject r)
  | .error => .err
  | .panic => .panic

/-- a total Go function seen as one that never reports an error -/
def liftFun (f : GoFun) : GoFunE := fun gs =>
  match f gs with
  | some r => .val r
  | none => .panic

/-- how the body of a hand-written wrapper gets from its converted arguments to its result.
    `direct`: exactly ONE call of the library function/method, on the converted arguments in the
    recorded order, and its result goes into the constructor (element by element for a list) —
    no other call, no branch on the data, no second way to a result.
    `other`: anything else (a fast path, a second library call, a branch on the pattern or on
    an argument, a result that does not come from the call). -/
inductive Body where
  | direct
  | other
  deriving Repr, DecidableEq

/-- one hand-written wrapper of modules/regexp.  `sig`: registered name, Go function
    (`regexp.X` a package function, `Regexp.X` a method of the compiled pattern), converters in
    argument order — for a method the receiver comes first, as `.str` —, the order in which the
    converted values are passed on, result constructor, no tests of its own.  `recv`: method of a
    compiled pattern.  `optInt`: the last parameter may be omitted and is then this number
    (`n := -1`).  `retErr`: the Go function returns `(T, error)` and the error is handed back as
    `object.NewError`.  `compiled`: the result constructor is `NewRegexp` (a regexp object).
    `body`: see `Body`. -/
structure RxSig where
  sig : Sig
  recv : Bool
  optInt : Option Int
  retErr : Bool
  compiled : Bool
  body : Body
  deriving Repr, DecidableEq

/-- the argument list with an omitted optional last argument filled in -/
def RxSig.fill (w : RxSig) (args : List Val) : List Val :=
  match w.optInt with
  | some d => if args.length + 1 = w.sig.args.length then args ++ [.int d] else args
  | none => args

/-- Impl: a hand-written regexp wrapper around the Go function `f`, on its arguments (for a
    method: the receiver first).  `alt` stands for whatever a body that is NOT the direct call
    computes from the converted arguments. -/
def rxWrap (w : RxSig) (f : GoFunE) (alt : List GoVal → Out) (args : List Val) : Out :=
  if (w.fill args).length ≠ w.sig.args.length then .argsErr
  else match projectAll w.sig.args (w.fill args) with
    | none => .typeErr
    | some gs =>
      match w.body with
      | .direct => outOfE (f (passed w.sig gs))
      | .other => alt gs

/-- Spec ("returns exactly what the Go function returns, errors as script errors"): arity and
    type errors for ill-formed calls, otherwise the injection of what the Go function gives on
    the projected arguments -/
def rxSpec (w : RxSig) (f : GoFunE) (args : List Val) : Out :=
  rxWrap { w with body := .direct } f (fun _ => .panic) args

/-- the wrappers of modules/regexp (hand-written twin of the regenerated inventory) -/
def rxSigs : List RxSig := [
  ⟨⟨"regexp.compile", "regexp.Compile", [.str], [0], .str, []⟩, false, none, true, true, .direct⟩,
  ⟨⟨"regexp.match", "regexp.MatchString", [.str, .str], [0, 1], .bool, []⟩, false, none, true, false, .direct⟩,
  ⟨⟨"match", "Regexp.MatchString", [.str, .str], [0, 1], .bool, []⟩, true, none, false, false, .direct⟩,
  ⟨⟨"find", "Regexp.FindString", [.str, .str], [0, 1], .str, []⟩, true, none, false, false, .direct⟩,
  ⟨⟨"find_all", "Regexp.FindAllString", [.str, .str, .int], [0, 1, 2], .strList, []⟩, true, some (-1), false, false, .direct⟩,
  ⟨⟨"find_submatch", "Regexp.FindStringSubmatch", [.str, .str], [0, 1], .strList, []⟩, true, none, false, false, .direct⟩,
  ⟨⟨"replace_all", "Regexp.ReplaceAllString", [.str, .str, .str], [0, 1, 2], .str, []⟩, true, none, false, false, .direct⟩,
  ⟨⟨"split", "Regexp.Split", [.str, .str, .int], [0, 1, 2], .strList, []⟩, true, some (-1), false, false, .direct⟩ ]

def findRx (name : String) : Option RxSig := rxSigs.find? (·.sig.name == name)

/-! ### replacement templates (`Regexp.ReplaceAllString` / `Regexp.Expand`)

The second argument of `replace_all` is not text but a TEMPLATE: Go expands `$$` to `$`,
`$name` / `${name}` to the text of the group with that number or name (nothing if the group
does not exist or did not take part in the match), and leaves a `$` that starts no valid
reference as it is.  `expand` is Go's `(*Regexp).expand` with `extract`, for templates whose
bytes are ASCII (a name is a run of ASCII letters, digits and `_`; the harness asks only for
such templates — Go's `unicode.IsLetter` on other runes is outside this model).  Modelled by
hand and compared with the real `Regexp.ExpandString` / `ReplaceAllString` on every run. -/

def isDigitB (c : Nat) : Bool := 48 ≤ c && c ≤ 57

def isWordB (c : Nat) : Bool := isDigitB c || (65 ≤ c && c ≤ 90) || (97 ≤ c && c ≤ 122) || c == 95

/-- the longest prefix whose bytes satisfy `p`, and the rest -/
def cutWhile (p : Nat → Bool) : Bytes → Bytes × Bytes
  | [] => ([], [])
  | c :: t => if p c then ((cutWhile p t).1.cons c, (cutWhile p t).2) else ([], c :: t)

/-- Go's `extract`: the reference that starts right after a `$` — its name and the rest of the
    template — or `none` if there is none (`$` then stays text) -/
def extractRef (t : Bytes) : Option (Bytes × Bytes) :=
  match t with
  | [] => none
  | 123 :: t' =>
    match cutWhile isWordB t' with
    | ([], _) => none
    | (name, 125 :: rest) => some (name, rest)
    | _ => none
  | _ =>
    match cutWhile isWordB t with
    | ([], _) => none
    | (name, rest) => some (name, rest)

def natOfDigits (ds : Bytes) : Nat := ds.foldl (fun n c => n * 10 + (c - 48)) 0

/-- the group NUMBER a name denotes: all digits, no leading zero (except "0" itself), at most
    nine digits (Go gives up at 10^8 before reading a further digit); otherwise it is a NAME -/
def refNum (name : Bytes) : Option Nat :=
  if name.all isDigitB && !(name.head? == some 48 && 1 < name.length) && name.length ≤ 9
  then some (natOfDigits name) else none

/-- the first group called `name` that took part in the match -/
def namedGroup (name : Bytes) : List Bytes → List (Option Bytes) → Bytes
  | n :: ns, g :: gs =>
    match g with
    | some txt => if n == name then txt else namedGroup name ns gs
    | none => namedGroup name ns gs
  | _, _ => []

/-- the text a reference expands to: `groups` are the submatches of one match (0 = the whole
    match, `none` = took no part), `names` the names of the groups (`Regexp.SubexpNames`) -/
def refText (groups : List (Option Bytes)) (names : List Bytes) (name : Bytes) : Bytes :=
  match refNum name with
  | some k => (groups.getD k none).getD []
  | none => namedGroup name names groups

def expandF (look : Bytes → Bytes) : Nat → Bytes → Bytes
  | 0, t => t
  | fuel + 1, t =>
    match cutWhile (· != 36) t with
    | (before, []) => before
    | (before, _ :: 36 :: t2) => before ++ 36 :: expandF look fuel t2
    | (before, _ :: t1) =>
      match extractRef t1 with
      | none => before ++ 36 :: expandF look fuel t1
      | some (name, rest) => before ++ look name ++ expandF look fuel rest

/-- Go's template expansion for one match -/
def expand (groups : List (Option Bytes)) (names : List Bytes) (t : Bytes) : Bytes :=
  expandF (refText groups names) (t.length + 1) t

/-- does `lit` start here -/
def startsWith : Bytes → Bytes → Bool
  | [], _ => true
  | _ :: _, [] => false
  | a :: l, b :: s => a == b && startsWith l s

/-- every non-overlapping occurrence of the non-empty byte string `lit` in `s`, left to right,
    replaced by `sub` (`skip`: bytes of an occurrence still to be passed over):
    `strings.ReplaceAll(s, lit, sub)` -/
def replaceLit (lit sub : Bytes) : Nat → Bytes → Bytes
  | _, [] => []
  | skip + 1, _ :: s => replaceLit lit sub skip s
  | 0, c :: s =>
    if lit != [] && startsWith lit (c :: s) then sub ++ replaceLit lit sub (lit.length - 1) s
    else c :: replaceLit lit sub 0 s

/-- `strings.ReplaceAll(s, lit, repl)` for a non-empty `lit`: `repl` goes in VERBATIM -/
def stringsReplaceAll (s lit repl : Bytes) : Bytes := replaceLit lit repl 0 s

/-- `regexp.MustCompile(QuoteMeta(lit)).ReplaceAllString(s, repl)` for a non-empty literal
    pattern (no operator, no flag, no group): the matches are the occurrences of `lit`, there is
    one group (the whole match) and `repl` is EXPANDED for each -/
def regexpReplaceAllLit (s lit repl : Bytes) : Bytes := replaceLit lit (expand [some lit] [[]] repl) 0 s

/-! ## sessions: several calls whose results stay alive while later calls run

A script (or a host using the object API) keeps the value a call returned and goes on
calling: `a := encode(A, c); b := encode(B, c); decode(a, c)`.  The property speaks about
*values*, so the Spec is the pure one: slot `i` holds what call `i` returned, for ever.
The Impl model has the state the Go code has: values are *references* to byte buffers in a
heap, a call reads its argument's buffer, and an allocation policy says into which cell the
output is written.  The unchanged code allocates a new buffer for every output
(`var buf bytes.Buffer`, `make([]byte, n)`, a new Go string): policy `fresh`. -/

/-- one step of a session: a value supplied from outside, or a library call (an encoder
    `fun b => some (enc b)`, or a decoder) on the byte projection of the value in slot `src`;
    `none` = the call returns an error value -/
inductive Call where
  | lit (b : Bytes)
  | app (f : Bytes → Option Bytes) (src : Nat)

/-- Spec state: slot `i` = what step `i` returned (`none`: an error) -/
abbrev Store := List (Option Bytes)

def Call.eval (st : Store) : Call → Option Bytes
  | .lit b => some b
  | .app f src => (st.getD src none).bind f

/-- Spec: results are immutable values; a step only appends its own result -/
def runSpec (st : Store) : List Call → Store
  | [] => st
  | c :: r => runSpec (st ++ [c.eval st]) r

abbrev Heap := List Bytes

/-- Impl state: a heap of buffers, and per slot the buffer the returned object points to -/
structure Mem where
  heap : Heap
  slots : List (Option Nat)

/-- allocation policy of a call's output buffer: the cell written (an index beyond the heap
    means "a new cell") -/
abbrev Alloc := Heap → Nat

/-- the unchanged code: every output goes to a new buffer -/
def fresh : Alloc := fun h => h.length

/-- a pooled / cached output buffer: cell `k` is reused once it exists -/
def reuse (k : Nat) : Alloc := fun _ => k

def writeCell (h : Heap) (k : Nat) (b : Bytes) : Heap × Nat :=
  if k < h.length then (h.set k b, k) else (h ++ [b], h.length)

/-- what the object in a slot shows when it is looked at *now* -/
def Mem.read (m : Mem) (slot : Nat) : Option Bytes := (m.slots.getD slot none).bind (m.heap[·]?)

def Mem.step (al : Alloc) (m : Mem) : Call → Mem
  | .lit b => { heap := m.heap ++ [b], slots := m.slots ++ [some m.heap.length] }
  | .app f src =>
    match (m.read src).bind f with
    | none => { m with slots := m.slots ++ [none] }
    | some b =>
      let w := writeCell m.heap (al m.heap) b
      { heap := w.1, slots := m.slots ++ [some w.2] }

def runImpl (al : Alloc) (m : Mem) : List Call → Mem
  | [] => m
  | c :: r => runImpl al (m.step al c) r

/-- every slot as it looks at the end of the session -/
def Mem.observe (m : Mem) : Store := m.slots.map fun r => r.bind (m.heap[·]?)

def Mem.empty : Mem := ⟨[], []⟩

/-- every reference points into the heap -/
def Mem.WF (m : Mem) : Prop := ∀ k, some k ∈ m.slots → k < m.heap.length

/-! ## argument OBJECTS: every bytes-like kind, with the state the object has

`project` above speaks about immutable values.  The converters of object/typeconv.go are
handed *objects*, and three more kinds are accepted where bytes (or a string) are expected:

* `object.Buffer` (a `*bytes.Buffer`: the bytes written so far and a READ OFFSET; its
  contents are the unread part `buf[off:]`).  `AsString` returns `value.String()`, `AsBytes`
  has a dedicated case returning `value.Bytes()`: both only LOOK at the unread part.
* every other `io.Reader` (`object.File`): `AsBytes` falls back to `io.ReadAll(obj)`, which
  reads the stream to its end — the stream is advanced, as Go's `io.ReadAll(f)` advances an
  `*os.File`.  `AsString` refuses a file.

`Val` stays the universe of json value trees (a buffer has no faithful json model:
`Buffer.MarshalJSON` prints with fmt's `%q`); the stateful kinds live in `Obj`, which embeds
`Val`.  A wrapper call is modelled on a heap of objects so that the SAME object can be used
by several calls and by several parameters of one call. -/

inductive Obj where
  | val (v : Val)                       -- an immutable value object (string, byte_slice, int, list …)
  | buffer (buf : Bytes) (off : Nat)    -- object.Buffer: written bytes, read offset
  | file (data : Bytes) (pos : Nat)     -- object.File (an io.Reader that is not a Buffer): contents, read position

/-- what a buffer / stream still has to offer -/
def unread (b : Bytes) (off : Nat) : Bytes := b.drop off

/-- a stream: reading it is consuming it (by nature, in Go as well) -/
def Obj.isStream : Obj → Bool
  | .file _ _ => true
  | _ => false

/-- the contents an object shows to a script (`string(x)`, `x.bytes()`): for a value the value
    itself, for a buffer / file the unread part -/
def Obj.asVal : Obj → Val
  | .val v => v
  | .buffer b off => .bytes (unread b off)
  | .file d pos => .bytes (unread d pos)

/-- How `AsBytes` gets at the bytes of a Buffer.  `peek` is the unchanged code (the dedicated
    `case *Buffer: obj.value.Bytes()`); `drain` is the `io.Reader` fallback applied to a buffer
    (`io.ReadAll(obj)`: the same bytes, but the buffer is empty afterwards) — the model of the
    defect class, used only by the sensitivity theorem. -/
inductive BufRead where
  | peek | drain
  deriving Repr, DecidableEq

/-- one converter on one argument object: the Go value handed to the wrapped function and the
    object's state after the conversion; `none` = type error value -/
def convObj (m : BufRead) : Conv → Obj → Option (GoVal × Obj)
  | c, .val v => (project c v).map fun g => (g, .val v)
  | .str, .buffer b off => some (.str (unread b off), .buffer b off)          -- AsString: value.String()
  | .bytes, .buffer b off =>
    match m with
    | .peek => some (.bytes (unread b off), .buffer b off)                     -- AsBytes: value.Bytes()
    | .drain => some (.bytes (unread b off), .buffer b (max off b.length))     -- io.ReadAll(buffer)
  | .bytes, .file d pos => some (.bytes (unread d pos), .file d (max pos d.length))   -- io.ReadAll(file)
  | _, _ => none

/-- how a case of a converter's type switch gets at the bytes of its argument -/
inductive Access where
  | look      -- returns a field / `Bytes()` / `String()` of the object: nothing is read
  | readAll   -- reads the object as a stream (`io.ReadAll(obj)`)
  | reject    -- the default case: a type error value
  deriving Repr, DecidableEq

/-- does an object match the type listed in a case of the Go type switch (`*Buffer` and
    `*File` both implement `io.Reader`; everything matches `default`) -/
def Obj.matchesTy : Obj → String → Bool
  | _, "default" => true
  | .val (.str _), "*String" => true
  | .val (.bytes _), "*ByteSlice" => true
  | .buffer _ _, "*Buffer" => true
  | .buffer _ _, "io.Reader" => true
  | .file _ _, "*File" => true
  | .file _ _, "io.Reader" => true
  | _, _ => false

/-- a Go type switch takes the FIRST case whose type the value has -/
def caseOf : List (String × Access) → Obj → Access
  | [], _ => .reject
  | (ty, a) :: r, o => if o.matchesTy ty then a else caseOf r o

/-- `object.AsBytes` (hand-written twin of the regenerated table): the dedicated `*Buffer`
    case stands BEFORE the `io.Reader` fallback, so a buffer is looked at, not read -/
def asBytesCases : List (String × Access) :=
  [("*ByteSlice", .look), ("*Buffer", .look), ("*String", .look), ("io.Reader", .readAll), ("default", .reject)]

/-- `object.AsString` -/
def asStringCases : List (String × Access) :=
  [("*String", .look), ("*ByteSlice", .look), ("*Buffer", .look), ("default", .reject)]

abbrev Objs := List Obj

/-- the object an argument reference denotes (a dangling reference denotes nil) -/
def Objs.get (h : Objs) (r : Nat) : Obj := h.getD r (.val .nil)

/-- the converters of a generated wrapper run on `args[i]` in order; the first one that fails
    ends the call with its type error — the converters before it have run -/
def convRefs (m : BufRead) : List Conv → List Nat → Objs → Option (List GoVal) × Objs
  | [], [], h => (some [], h)
  | c :: cs, r :: rs, h =>
    match convObj m c (h.get r) with
    | none => (none, h)
    | some (g, o') =>
      match convRefs m cs rs (h.set r o') with
      | (some gs, h') => (some (g :: gs), h')
      | (none, h') => (none, h')
  | _, _, h => (none, h)

/-- a generated wrapper around `f`, called on references into a heap of argument objects:
    its outcome and the heap afterwards -/
def wrapObjs (m : BufRead) (sig : Sig) (f : GoFun) (refs : List Nat) (h : Objs) : Out × Objs :=
  if refs.length ≠ sig.args.length then (.argsErr, h)
  else match convRefs m sig.args refs h with
    | (none, h') => (.typeErr, h')
    | (some gs, h') => (callInner sig f gs, h')

/-- one use of argument objects: a wrapper, the Go function behind it, the objects it is given -/
structure Use where
  sig : Sig
  f : GoFun
  refs : List Nat

/-- a sequence of uses over the same objects: the outcome of every use, and the objects at the end -/
def runUses (m : BufRead) (h : Objs) : List Use → List Out × Objs
  | [] => ([], h)
  | u :: us =>
    let r := wrapObjs m u.sig u.f u.refs h
    let t := runUses m r.2 us
    (r.1 :: t.1, t.2)

/-- Spec: arguments are VALUES — every use, wherever it stands in the sequence, returns what the
    wrapper returns on the contents the objects had at the start, and the objects are untouched -/
def specUses (h : Objs) (us : List Use) : List Out × Objs :=
  (us.map fun u => wrap u.sig u.f (u.refs.map fun r => (h.get r).asVal), h)

end Risor.C19
