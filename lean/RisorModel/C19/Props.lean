import RisorModel.C19.Lemmas
/-!
C19 — property theorems.  "Standard-library wrappers agree with Go, and encoders invert
their decoders."

Everything is stated for ALL byte strings / value trees / argument lists (no bound on
length or depth).  Byte strings are lists of naturals below 256 (`IsBytes`).
The Impl model (`Model.lean`) is the code as it is, defects included; where the unchanged
code violates the property the full statement is kept as a `def … : Prop`, refuted by a
concrete witness, and the strongest true part is proved under a decidable guard (the json
statements of section 3).

Repaired in /repo and followed here (the guard is gone, the pre-fix behaviour is a named
historical definition with a checked statement, section 4):
* `repeat` tests its count before it calls `strings.Repeat` — `C19_no_panic` proves the full
  statement `C19_full_no_panic` (before: `C19_counterexample_repeat_panics`, guard `safeArgs`);
  `C19_fixed_repeat_panicked` keeps the old inventory's refutation;
* the rune argument of `bytes.contains_rune` / `index_rune` is one UTF-8 character
  (`C19_fixed_rune_arg_was_bytewise`), `math.abs` clears the sign bit
  (`C19_fixed_abs_kept_negzero`, `C19_fixed_abs_differs_iff`), `math.pow10` hands an int to
  `math.Pow10` unchanged (`C19_fixed_pow10_exponent_wrapped`).

Section 7 (added after a missed seeded change: a literal fast path in `replace_all`): the
hand-written wrappers of modules/regexp.  `C19_rx_agree` (Impl = Spec for every wrapper of the
regenerated inventory, every Go behaviour, every argument list), `C19_rx_glue` /
`C19_rx_glue_wrap` (result = inject (f (project args)); `glue_faithful` itself applies),
`rx_optional_default`, `C19_rx_no_panic`; the template model with
`literal_fast_path_agrees_without_dollar`, `C19_counterexample_literal_fast_path` and the
sensitivity statement `rx_second_path_breaks_glue`.
-/
namespace Risor.C19

/-- every element is a byte -/
def IsBytes (b : Bytes) : Prop := ∀ x ∈ b, x < 256

/-! ## 1. The lossless byte codecs invert: decode (encode b) = b -/

/-- hex: for every byte string `b`, `decode(encode(b,"hex"),"hex")` gives back `b`. -/
theorem hex_roundtrip (b : Bytes) (hb : IsBytes b) : hexDec (hexEnc b) = some b :=
  hexDec_hexEnc b hb

/-- base64, all four encodings used by risor (std/url alphabet, padded/raw; the `base64`
    codec is std+padded): for every byte string `b`, decoding the encoding gives back `b`. -/
theorem base64_roundtrip (url pad : Bool) (b : Bytes) (hb : IsBytes b) :
    b64Dec url pad (b64Enc url pad b) = some b := by
  unfold b64Dec
  rw [stripNL_b64Enc url pad b hb]
  exact b64Groups_enc url pad b hb

/-- base32 (std, padded): for every byte string `b`, decoding the encoding gives back `b`. -/
theorem base32_roundtrip (b : Bytes) (hb : IsBytes b) : b32Dec (b32Enc b) = some b := by
  unfold b32Dec
  rw [stripNL_b32Enc b hb]
  exact b32Loop_enc b hb

/-- urlquery (`url.QueryEscape` / `QueryUnescape`): for every byte string `b` (arbitrary
    Unicode, invalid UTF-8, `%`, `+`, spaces), unescaping the escaped text gives back `b`. -/
theorem urlquery_roundtrip (b : Bytes) (hb : IsBytes b) : qUnesc (qEsc b) = some b :=
  qUnesc_qEsc b hb

/-- The registry view: for every codec of the byte-projection registry and every byte
    string, `decode(encode(b, c), c)` is `b`. -/
theorem codec_roundtrip (c : Codec) (b : Bytes) (hb : IsBytes b) : c.dec (c.enc b) = some b := by
  cases c
  · exact hex_roundtrip b hb
  · exact base64_roundtrip false true b hb
  · exact base32_roundtrip b hb
  · exact urlquery_roundtrip b hb

/-- gzip: `compress/gzip` is trusted, not modelled.  Its inverse law is a *hypothesis*; given
    it, risor's codec (which feeds `AsBytes(x)` to the writer and returns what the reader
    yields) inverts for every byte string. -/
structure GzipLib where
  compress : Bytes → Bytes
  decompress : Bytes → Option Bytes

def gzipEnc (g : GzipLib) (b : Bytes) : Bytes := g.compress b
def gzipDec (g : GzipLib) (s : Bytes) : Option Bytes := g.decompress s

theorem gzip_roundtrip (g : GzipLib) (law : ∀ b, g.decompress (g.compress b) = some b) (b : Bytes) :
    gzipDec g (gzipEnc g b) = some b := law b

/-! ## 2. Malformed input is rejected -/

/-- hex: any input containing a byte that is not a hex digit, or of odd length, is an error. -/
theorem hex_rejects_malformed (s : Bytes) (h : (∃ c ∈ s, hexVal c = none) ∨ s.length % 2 = 1) :
    hexDec s = none := by
  rcases h with h | h
  · exact hexDec_alien s h
  · exact hexDec_odd s h

/-- base64 (every variant): any input containing a byte that is neither in the alphabet, nor
    `=`, nor CR/LF is an error, wherever the byte stands. -/
theorem base64_rejects_alien (url pad : Bool) (s : Bytes)
    (h : ∃ c ∈ s, b64Val url c = none ∧ c ≠ 61 ∧ c ≠ 10 ∧ c ≠ 13) : b64Dec url pad s = none := by
  obtain ⟨c, hc, hv, h61, h10, h13⟩ := h
  apply b64Groups_alien
  refine ⟨c, ?_, hv, h61⟩
  simp [stripNL, List.mem_filter, hc, notNewline, h10, h13]

/-- base64, padded encodings: if the number of bytes other than CR/LF is not a multiple of 4
    the input is an error (truncated text, missing padding). -/
theorem base64_rejects_length (url : Bool) (s : Bytes) (h : (stripNL s).length % 4 ≠ 0) :
    b64Dec url true s = none :=
  b64Groups_length url (stripNL s) h

/-- base32: a byte outside the alphabet (and not `=`, CR, LF) that stands before the first
    padding character makes the input an error.  (Behind the padding Go's decoder does not
    look at up to 7 bytes; the Impl model reproduces that, see `base32_trailing_ignored`.) -/
theorem base32_rejects_alien (pre suf : Bytes) (c : Nat) (hpre : 61 ∉ pre)
    (hc : b32Val c = none) (h61 : c ≠ 61) (h10 : c ≠ 10) (h13 : c ≠ 13) :
    b32Dec (pre ++ c :: suf) = none := by
  unfold b32Dec
  have hk : notNewline c = true := by simp [notNewline, h10, h13]
  have : stripNL (pre ++ c :: suf) = stripNL pre ++ c :: stripNL suf := by
    simp [stripNL, List.filter_append, List.filter, hk]
  rw [this]
  exact b32Loop_alien c hc h61 _ _ 0 [] (fun hm => hpre (List.mem_filter.1 hm).1)

/-- base32: an input without padding whose number of bytes other than CR/LF is not a
    multiple of 8 is an error. -/
theorem base32_rejects_length (s : Bytes) (hp : 61 ∉ s) (h : (stripNL s).length % 8 ≠ 0) :
    b32Dec s = none :=
  b32Loop_length (stripNL s) 0 [] (fun hm => hp (List.mem_filter.1 hm).1) (by omega) (by simpa using h)

/-- Observation about the Go library that risor inherits (not a risor defect): after the
    padding of the last quantum `encoding/base32` does not examine the remaining bytes. -/
theorem base32_trailing_ignored : b32Dec [77, 69, 61, 61, 61, 61, 61, 61, 102] = some [97] := by decide

/-- urlquery: a `%` that is not followed by two hex digits makes the input an error, wherever
    it stands. -/
theorem urlquery_rejects_malformed (pre suf : Bytes)
    (h : match suf with
      | a :: b :: _ => hexVal a = none ∨ hexVal b = none
      | _ => True) :
    qUnesc (pre ++ 37 :: suf) = none :=
  qUnesc_rejects suf h pre

/-! ## 3. json: the codec and json.marshal / json.unmarshal -/

/-- FULL STATEMENT (json round trip): for every value, `decode(encode(v,"json"),"json")`
    succeeds and gives back a value equal to `v` (`jEq`: same shape and bytes, numbers equal
    as numbers).  FALSE on the unchanged code — see the four counterexamples. -/
def C19_full_json_roundtrip : Prop :=
  ∀ v : Val, ∃ w, codecRoundtrip v = some w ∧ jEq v w = true

/-- FULL STATEMENT (agreement): `json.marshal(v)` and `encode(v,"json")` produce the same
    document (or both fail) for every value.  FALSE on the unchanged code. -/
def C19_full_json_agree : Prop := ∀ v : Val, encCodec v = encM v

theorem f64_2p53p1 : f64OfInt 9007199254740993 = 4845873199050653696 := by decide
theorem sanitize_ff : sanitize [255] = [239, 191, 189] := by decide

/-- nil: `encode(nil,"json")` is an error. -/
theorem C19_counterexample_json_nil : ¬ C19_full_json_roundtrip := by
  intro h
  obtain ⟨w, hw, _⟩ := h .nil
  simp [codecRoundtrip, encCodec] at hw

/-- byte_slice: `decode(encode(byte_slice("hi"),"json"),"json")` is the string "aGk=". -/
theorem C19_counterexample_json_bytes :
    codecRoundtrip (.bytes [104, 105]) = some (.str [97, 71, 107, 61]) ∧
    jEq (.bytes [104, 105]) (.str [97, 71, 107, 61]) = false := by
  constructor
  · simp only [codecRoundtrip, encCodec, encI, Option.map_some, decDoc]
    have : b64Text [104, 105] = [97, 71, 107, 61] := by decide
    rw [this]
  · decide

/-- int above 2^53: `decode(encode(9007199254740993,"json"),"json")` is the float
    9007199254740992.0, which does not denote the same number. -/
theorem C19_counterexample_json_int :
    codecRoundtrip (.int 9007199254740993) = some (.float 4845873199050653696) ∧
    jEq (.int 9007199254740993) (.float 4845873199050653696) = false := by
  constructor
  · simp only [codecRoundtrip, encCodec, encI, Option.map_some, decDoc]
    rw [f64_2p53p1]
  · decide

/-- invalid UTF-8: `decode(encode("\xff","json"),"json")` is "�". -/
theorem C19_counterexample_json_utf8 :
    codecRoundtrip (.str [255]) = some (.str [239, 191, 189]) ∧
    jEq (.str [255]) (.str [239, 191, 189]) = false := by
  constructor
  · simp only [codecRoundtrip, encCodec, encI, Option.map_some, decDoc]
    rw [sanitize_ff]
  · decide

/-- the two encoders disagree on nil (error vs `null`) … -/
theorem C19_counterexample_json_agree_nil : ¬ C19_full_json_agree := by
  intro h
  have := h .nil
  simp [encCodec, encM] at this

/-- … and on byte slices (base64 text vs the bytes as a string). -/
theorem C19_counterexample_json_agree_bytes :
    encCodec (.bytes [104, 105]) = some (.str [97, 71, 107, 61]) ∧
    encM (.bytes [104, 105]) = some (.str [104, 105]) := by
  constructor
  · simp only [encCodec, encI]
    have : b64Text [104, 105] = [97, 71, 107, 61] := by decide
    rw [this]
  · simp only [encM]
    have : sanitize [104, 105] = [104, 105] := by decide
    rw [this]

/-- The decidable guard of the round-trip theorem: not the nil object at top level, and
    `jsonSafe` — no byte_slice anywhere, every int survives float64 (`intExact`), every float
    is finite, every string and key is valid UTF-8, keys are distinct. -/
def jsonGuard (v : Val) : Bool := !isNil v && jsonSafe v

/-- PARTIAL (json round trip): for every value tree of any depth and width inside the guard,
    `decode(encode(v,"json"),"json")` succeeds and the result equals `v` (ints come back as
    the float that denotes exactly the same integer). -/
theorem C19_partial_json_roundtrip (v : Val) (h : jsonGuard v = true) :
    ∃ w, codecRoundtrip v = some w ∧ jEq v w = true := by
  simp only [jsonGuard, Bool.and_eq_true, Bool.not_eq_true'] at h
  obtain ⟨w, hw, he⟩ := encI_safe v h.2
  refine ⟨decDoc w, ?_, he⟩
  cases v <;> simp_all [codecRoundtrip, encCodec, isNil]

/-- The same for the json module: `json.unmarshal(json.marshal(v))` equals `v` for every value
    inside `jsonSafe` (nil included: the module handles it). -/
theorem C19_partial_json_module_roundtrip (v : Val) (h : jsonSafe v = true) :
    ∃ w, marshalRoundtrip v = some w ∧ jEq v w = true := by
  obtain ⟨w, hw, he⟩ := encI_safe v h
  have hb : noBytes v = true := jsonSafe_noBytes v h
  exact ⟨decDoc w, by simp [marshalRoundtrip, ← encI_eq_encM v hb, hw], he⟩

/-- PARTIAL (agreement): for every value that is not nil at top level and contains no
    byte_slice, `encode(v,"json")` and `json.marshal(v)` produce the same document (so also
    fail together, e.g. on a non-finite float). -/
theorem C19_partial_json_agree (v : Val) (hn : isNil v = false) (hb : noBytes v = true) :
    encCodec v = encM v := by
  rw [← encI_eq_encM v hb]
  cases v <;> simp_all [encCodec, isNil]

/-- every int `0 ≤ i < 2^53` survives float64 exactly, i.e. is inside the guard (`f64OfNat`
    is round-to-nearest-even and `f64IntVal` reads the bits back) -/
theorem intExact_nonneg (m : Nat) (h : m < 2 ^ 53) : intExact (Int.ofNat m) = true := by
  have hlt : ¬ ((m : Int) < 0) := by omega
  simp [intExact, f64OfInt, hlt, f64IntVal_f64OfNat m h]

/-- the boundary rows on both sides (negative ints: checked here on the boundary; 2^53 itself
    and −2^63 are exact, 2^53+1 and MaxInt64 are not) -/
example : intExact 9007199254740992 = true ∧ intExact (-9007199254740992) = true ∧
    intExact 9007199254740993 = false ∧ intExact 9223372036854775807 = false ∧
    intExact (-9223372036854775808) = true := by decide

/-- non-vacuity: a nested value with a map, a list, a negative int, a float, nil inside a
    list and non-ASCII text is inside the guard -/
example : jsonGuard (.map (.cons [97] (.list (.cons (.int (-5)) (.cons .nil (.cons (.float 4609434218613702656) .nil))))
    (.cons [195, 169] (.str [230, 151, 165]) .nil))) = true := by decide

/-! ## 4. Wrapper glue: `result = inject (goFunction (project args))`, errors are values -/

/-- a Go value has the type a converter produces -/
def fits : Conv → GoVal → Bool
  | .str, .str _ => true
  | .int, .int _ => true
  | .bool, .bool _ => true
  | .strList, .strs _ => true
  | .bytes, .bytes _ => true
  | .float, .float _ => true
  | _, _ => false

def fitsAll : List Conv → List GoVal → Bool
  | [], [] => true
  | c :: cs, g :: gs => fits c g && fitsAll cs gs
  | _, _ => false

/-- the object types each converter accepts (object/typeconv.go) -/
def accepts : Conv → Val → Bool
  | .str, .str _ => true
  | .str, .bytes _ => true
  | .int, .int _ => true
  | .int, .byte _ => true
  | .bool, .bool _ => true
  | .bytes, .bytes _ => true
  | .bytes, .str _ => true
  | .strList, .list xs => (Vals.toStrs xs).isSome
  | .float, .float _ => true
  | .float, .int _ => true
  | .float, .byte _ => true
  | _, _ => false

/-- `project` is defined exactly on the accepted object types: every other argument yields
    a type error value, never a panic. -/
theorem project_defined_iff (c : Conv) (v : Val) : (project c v).isSome = accepts c v := by
  cases c <;> cases v <;> simp [project, accepts]

theorem toStrs_ofStrs : ∀ l : List Bytes, Vals.toStrs (Vals.ofStrs l) = some l
  | [] => rfl
  | s :: r => by simp [Vals.ofStrs, Vals.toStrs, toStrs_ofStrs r]

/-- `project (inject x) = x` on every Go value of the converter's type: what the wrapper hands
    to the Go function is exactly the script value's content, and what it hands back is exactly
    the Go result. -/
theorem project_inject (c : Conv) (g : GoVal) (h : fits c g = true) : project c (inject g) = some g := by
  cases c <;> cases g <;> simp_all [fits, project, inject, toStrs_ofStrs]

theorem projectAll_inject : ∀ (cs : List Conv) (gs : List GoVal), fitsAll cs gs = true →
    projectAll cs (gs.map inject) = some gs
  | [], [], _ => rfl
  | [], _ :: _, h => by simp [fitsAll] at h
  | _ :: _, [], h => by simp [fitsAll] at h
  | c :: cs, g :: gs, h => by
    simp only [fitsAll, Bool.and_eq_true] at h
    simp [projectAll, project_inject c g h.1, projectAll_inject cs gs h.2]

theorem fitsAll_length : ∀ (cs : List Conv) (gs : List GoVal), fitsAll cs gs = true → gs.length = cs.length
  | [], [], _ => rfl
  | [], _ :: _, h => by simp [fitsAll] at h
  | _ :: _, [], h => by simp [fitsAll] at h
  | _ :: cs, _ :: gs, h => by
    simp only [fitsAll, Bool.and_eq_true] at h
    simp [fitsAll_length cs gs h.2]

/-- GLUE FAITHFUL: for every wrapper signature, every Go function `f` and every tuple of Go
    values of the signature's types, calling the wrapper on the injected tuple returns exactly
    what the exported function returns on that tuple: an error value if one of its own tests
    fires, and otherwise the injection of what `f` returns on the tuple (passed on in the
    recorded order). -/
theorem glue_faithful (sig : Sig) (f : GoFun) (gs : List GoVal) (h : fitsAll sig.args gs = true) :
    wrap sig f (gs.map inject) = if refuses sig gs then .err else outOf (f (passed sig gs)) := by
  unfold wrap callInner
  simp [fitsAll_length _ _ h, projectAll_inject _ _ h]

/-- the same for a wrapper whose exported function makes no test of its own (every wrapper of
    the inventory but `repeat`): the result is the injection of the Go result. -/
theorem glue_faithful_plain (sig : Sig) (hp : sig.pre = []) (f : GoFun) (gs : List GoVal)
    (h : fitsAll sig.args gs = true) : wrap sig f (gs.map inject) = outOf (f (passed sig gs)) := by
  rw [glue_faithful sig f gs h]; simp [refuses, hp]

/-- ERRORS ARE VALUES: whatever the arguments (any number, any types), a wrapper around a Go
    function that does not panic returns a value or an error value — never a panic. -/
theorem wrap_no_panic (sig : Sig) (f : GoFun) (hf : ∀ gs, f gs ≠ none) (args : List Val) :
    ∀ o, wrap sig f args = o → o ≠ .panic := by
  intro o ho
  unfold wrap at ho
  split at ho
  · subst ho; simp
  · split at ho
    · subst ho; simp
    · rename_i gs _
      unfold callInner at ho
      split at ho
      · subst ho; simp
      · cases hfg : f (passed sig gs) with
        | none => exact absurd hfg (hf _)
        | some r => rw [hfg] at ho; subst ho; simp [outOf]

/-- a Go library: one function per name; it panics exactly on `goPanics` (for the inventory:
    `strings.Repeat` with a negative count or an overflowing length) -/
def LibSpec (lib : String → GoFun) : Prop := ∀ go gs, lib go gs = none ↔ goPanics go gs = true

/-- FULL STATEMENT (errors, not panics): no wrapper of an inventory ever panics, for any
    library that behaves like Go's and any arguments. -/
def NoPanic (sigs : List Sig) : Prop :=
  ∀ lib, LibSpec lib → ∀ sig ∈ sigs, ∀ args, wrap sig (lib sig.go) args ≠ .panic

/-- the full statement for the strings module as it is -/
def C19_full_no_panic : Prop := NoPanic stringsSigs

def demoLib : String → GoFun := fun go gs => if goPanics go gs then none else some (.bool false)

theorem demoLib_spec : LibSpec demoLib := by
  intro go gs; unfold demoLib; split <;> simp_all

/-- what `projectAll` returns has the converters' types -/
theorem projectAll_fits : ∀ (cs : List Conv) (args : List Val) (gs : List GoVal),
    projectAll cs args = some gs → fitsAll cs gs = true
  | [], [], gs, h => by simp [projectAll] at h; subst h; rfl
  | [], _ :: _, _, h => by simp [projectAll] at h
  | _ :: _, [], _, h => by simp [projectAll] at h
  | c :: cs, v :: vs, gs, h => by
    simp only [projectAll] at h
    cases hp : project c v with
    | none => simp [hp] at h
    | some g =>
      cases hq : projectAll cs vs with
      | none => simp [hp, hq] at h
      | some gs' =>
        simp [hp, hq] at h
        subst h
        have hfit : fits c g = true := by
          cases c <;> cases v <;> simp [project] at hp <;> try (subst hp; rfl)
          rename_i xs
          cases hx : Vals.toStrs xs with
          | none => simp [hx] at hp
          | some l => simp [hx] at hp; subst hp; rfl
        simp [fitsAll, hfit, projectAll_fits cs vs gs' hq]

/-- the tests of an exported function COVER the panic domain of the Go function it calls: on
    every tuple of the signature's types on which the Go function would panic, a test fires
    (so the Go function is not called there) -/
def Covered (sig : Sig) : Prop :=
  ∀ gs, fitsAll sig.args gs = true → goPanics sig.go (passed sig gs) = true → refuses sig gs = true

/-- ERRORS, NOT PANICS, from coverage: a wrapper whose tests cover the panic domain of its Go
    function never panics — for every library behaving like Go's and every argument list (any
    number of arguments, any types). -/
theorem no_panic_of_covered (lib : String → GoFun) (hl : LibSpec lib) (sig : Sig) (hc : Covered sig)
    (args : List Val) : wrap sig (lib sig.go) args ≠ .panic := by
  unfold wrap
  split
  · simp
  · split
    · simp
    · rename_i gs hp
      unfold callInner
      split
      · simp
      · rename_i hr
        cases hfg : lib sig.go (passed sig gs) with
        | none =>
          have := hc gs (projectAll_fits _ _ _ hp) ((hl _ _).1 hfg)
          exact absurd this hr
        | some r => simp [outOf]

/-- `count > math.MaxInt/len(s)` (integer division, `len(s) > 0`) says exactly that the product
    `len(s)·count` exceeds `math.MaxInt` -/
theorem div_lt_iff_overflow (l n : Int) (hl : 0 < l) : maxInt64 / l < n ↔ maxInt64 < l * n := by
  rw [Int.ediv_lt_iff_lt_mul hl, Int.mul_comm]

/-- the two tests of the repaired `repeat` fire EXACTLY on the panic domain of `strings.Repeat`
    — on every string and every count: nothing Go computes is refused, nothing Go panics on
    is passed on -/
theorem repeat_tests_exact (s : Bytes) (n : Int) :
    refuses ⟨"repeat", "strings.Repeat", [.str, .int], [0, 1], .str, [.neg 1, .lenMulOverflows 0 1]⟩
        [.str s, .int n]
      = goPanics "strings.Repeat" [.str s, .int n] := by
  simp only [refuses, List.any_cons, List.any_nil, Bool.or_false, Check.fires, List.getD_cons_zero,
    List.getD_cons_succ, goPanics]
  by_cases hn : n < 0
  · simp [hn]
  · cases hs : s.length with
    | zero => simp [hn]; unfold maxInt64; omega
    | succ k =>
      have := div_lt_iff_overflow ((k : Int) + 1) n (by omega)
      simp [hn, this]

/-- every wrapper of the strings module is covered: `repeat` by its two tests, the others
    because their Go functions do not panic -/
theorem stringsSigs_covered : ∀ sig ∈ stringsSigs, Covered sig := by
  intro sig hs gs hf hg
  simp only [stringsSigs, List.mem_cons, List.not_mem_nil, or_false] at hs
  rcases hs with h | h | h | h | h | h | h | h | h | h | h | h | h | h | h | h | h | h <;>
    subst h <;> try (simp [goPanics, passed] at hg; done)
  -- repeat
  match gs, hf with
  | [.str s, .int n], _ =>
    rw [repeat_tests_exact]
    simpa [passed] using hg

/-- **ERRORS, NOT PANICS (the full statement, proved since the repair of `repeat`).**  No
    wrapper of the strings module as regenerated on this run ever panics: for every library
    that behaves like Go's (panicking exactly on `goPanics`), every wrapper of the inventory
    and every argument list — any number of arguments, of any types, any string, any count —
    the wrapper returns a value or an error value. -/
theorem C19_no_panic : C19_full_no_panic := fun lib hl sig hs args =>
  no_panic_of_covered lib hl sig (stringsSigs_covered sig hs) args

/-- AGREEMENT WITH GO for `repeat`, on every string and every count: where `strings.Repeat`
    is defined the wrapper returns its result, where it panics the wrapper returns an error
    value. -/
theorem repeat_agrees_with_go (lib : String → GoFun) (hl : LibSpec lib) (s : Bytes) (n : Int) :
    wrap ⟨"repeat", "strings.Repeat", [.str, .int], [0, 1], .str, [.neg 1, .lenMulOverflows 0 1]⟩
        (lib "strings.Repeat") [.str s, .int n]
      = match lib "strings.Repeat" [.str s, .int n] with
        | some r => .val (inject r)
        | none => .err := by
  have hg := glue_faithful ⟨"repeat", "strings.Repeat", [.str, .int], [0, 1], .str, [.neg 1, .lenMulOverflows 0 1]⟩
    (lib "strings.Repeat") [.str s, .int n] rfl
  simp only [List.map_cons, List.map_nil, inject] at hg
  rw [hg, repeat_tests_exact]
  cases hlib : lib "strings.Repeat" [.str s, .int n] with
  | none => simp [(hl _ _).1 hlib]
  | some r =>
    have : goPanics "strings.Repeat" [.str s, .int n] ≠ true := fun h => by
      have := (hl _ _).2 h; rw [hlib] at this; cases this
    simp [this, passed, hlib, outOf]

/-! ### the repaired defect, kept as checked statements -/

/-- BEFORE the repair ("fix: strings.repeat, bytes.repeat and byte_slice.repeat return an error
    instead of panicking") the full statement was FALSE: `strings.repeat("a", -1)` handed the
    count straight to `strings.Repeat`, which panics (recorded as C19-repeat-panics). -/
theorem C19_fixed_repeat_panicked : ¬ NoPanic preFixStringsSigs := by
  intro h
  have := h demoLib demoLib_spec ⟨"repeat", "strings.Repeat", [.str, .int], [0, 1], .str, []⟩ (by decide)
    [.str [97], .int (-1)]
  exact this rfl

/-- the repair is what separates the two inventories: they differ in `repeat`'s tests and in
    nothing else -/
theorem C19_fixed_repeat_repair :
    preFixStringsSigs = stringsSigs.map (fun sig => { sig with pre := [] })
      ∧ (stringsSigs.filter (fun sig => sig.pre != [])).map (·.name) = ["repeat"] := by
  constructor <;> decide

/-- the pre-fix guard, kept for the record: the converted arguments are not in the panic
    domain of the Go function.  Under it the OLD wrapper did not panic either
    (`C19_fixed_partial_no_panic`); the repaired code needs no guard (`C19_no_panic`). -/
def safeArgs (sig : Sig) (args : List Val) : Bool :=
  match projectAll sig.args args with
  | some gs => !goPanics sig.go (passed sig gs)
  | none => true

/-- HISTORICAL PARTIAL statement: any wrapper (with or without tests of its own), any library
    behaving like Go's, any argument list outside the panic domain: no panic. -/
theorem C19_fixed_partial_no_panic (lib : String → GoFun) (hl : LibSpec lib) (sig : Sig) (args : List Val)
    (hs : safeArgs sig args = true) : wrap sig (lib sig.go) args ≠ .panic := by
  unfold wrap
  split
  · simp
  · unfold safeArgs at hs
    split
    · simp
    · rename_i gs hp
      rw [hp] at hs
      simp only [Bool.not_eq_true'] at hs
      unfold callInner
      split
      · simp
      · cases hfg : lib sig.go (passed sig gs) with
        | none =>
          have := (hl _ _).1 hfg
          rw [this] at hs
          exact absurd hs (by simp)
        | some r => simp [outOf]

/-- non-vacuity: `LibSpec` is satisfiable (`demoLib`); `strings.repeat("ab", 3)` reaches the Go
    function, `strings.repeat("a", -1)` and `strings.repeat("ab", MaxInt64)` are refused with an
    error value, `strings.repeat("", MaxInt64)` is not refused (Go returns ""); `strings.split("a,b", ",")`
    is a tuple of the signature's types -/
example : LibSpec demoLib := demoLib_spec
example : (findSig "repeat").map (fun sig => refuses sig [.str [97, 98], .int 3]) = some false := by decide
example : (findSig "repeat").map (fun sig => refuses sig [.str [97], .int (-1)]) = some true := by decide
example : (findSig "repeat").map (fun sig => refuses sig [.str [97, 98], .int 9223372036854775807]) = some true := by decide
example : (findSig "repeat").map (fun sig => refuses sig [.str [], .int 9223372036854775807]) = some false := by decide
example : fitsAll [.str, .str] [.str [97, 44, 98], .str [44]] = true := by decide

/-! ### three more repaired defects (hand-written wrappers), kept as checked statements -/

/-- the rune argument as repaired: a single byte is accepted exactly when it is ASCII -/
theorem runeArg_single_byte (a : Nat) : runeArgOK [a] = decide (a < 128) := by
  unfold runeArgOK runeWidth
  by_cases h : a < 128
  · simp [h]
  · by_cases h2 : 194 ≤ a ∧ a ≤ 223
    · simp [h, h2]
    · by_cases h3 : 224 ≤ a ∧ a ≤ 239
      · simp [h, h2, h3]
      · by_cases h4 : 240 ≤ a ∧ a ≤ 244 <;> simp [h, h2, h3, h4]

/-- … and every accepted argument is 1 to 4 bytes long -/
theorem runeArg_length (s : Bytes) (h : runeArgOK s = true) : 1 ≤ s.length ∧ s.length ≤ 4 := by
  unfold runeArgOK at h
  simp only [Bool.and_eq_true, bne_iff_ne, ne_eq, beq_iff_eq] at h
  obtain ⟨hne, hw⟩ := h
  cases s with
  | nil => exact absurd rfl hne
  | cons a r =>
    have : runeWidth (a :: r) ≤ 4 := by
      unfold runeWidth
      dsimp only
      repeat' split
      all_goals omega
    rw [hw] at this
    exact ⟨by simp, this⟩

/-- BEFORE the repair ("fix: bytes.contains_rune and bytes.index_rune accept a multi-byte
    character"; recorded as C19-bytes-rune-multibyte) the argument was measured in bytes: "é"
    (C3 A9) and "日" were refused although `bytes.ContainsRune` is defined on them, and the lone
    byte E9 — not a character — was accepted; now it is the other way round. -/
theorem C19_fixed_rune_arg_was_bytewise :
    runeArgOKPreFix [195, 169] = false ∧ runeArgOK [195, 169] = true ∧
    runeArgOKPreFix [230, 151, 165] = false ∧ runeArgOK [230, 151, 165] = true ∧
    runeArgOKPreFix [233] = true ∧ runeArgOK [233] = false ∧
    runeArgOKPreFix [] = false ∧ runeArgOK [] = false ∧
    runeArgOK [195, 169, 195, 169] = false := by decide

/-- on arguments of one byte the two tests agree exactly on ASCII -/
theorem C19_fixed_rune_arg_agree_ascii (a : Nat) (h : a < 128) :
    runeArgOKPreFix [a] = true ∧ runeArgOK [a] = true := by
  refine ⟨rfl, ?_⟩; rw [runeArg_single_byte]; simp [h]

/-- `math.abs` as repaired: for every binary64 bit pattern the result has a clear sign bit and
    the same magnitude bits -/
theorem abs_clears_sign (b : Nat) (h : b < 2 ^ 64) :
    absBits b < 2 ^ 63 ∧ (absBits b = b ∨ absBits b + 2 ^ 63 = b) := by
  unfold absBits; omega

/-- BEFORE the repair ("fix: math.abs(-0.0) returns +0.0"; recorded as C19-math-abs-negzero)
    `math.abs(-0.0)` was -0.0 … -/
theorem C19_fixed_abs_kept_negzero : absBitsPreFix (2 ^ 63) = 2 ^ 63 ∧ absBits (2 ^ 63) = 0 := by decide

/-- … and the old and the repaired `math.abs` differ on EXACTLY -0.0 and the NaNs with the sign
    bit set (every other bit pattern, ±Inf included, was already right) -/
theorem C19_fixed_abs_differs_iff (b : Nat) (h : b < 2 ^ 64) :
    absBitsPreFix b ≠ absBits b ↔ (b = 2 ^ 63 ∨ 2 ^ 63 + 0x7FF0000000000000 < b) := by
  unfold absBitsPreFix absBits
  split <;> omega

/-- BEFORE the repair ("fix: math.pow10 passes an int argument to math.Pow10 unchanged";
    recorded as C19-math-pow10-maxint) the exponent went through float64: for the 512 ints up to
    MaxInt64 the float is 2^63 and the conversion back wrapped to MinInt64 (so the result was 0
    instead of +Inf); one below that range it only lost its low bits, which `math.Pow10` does
    not see.  Now the exponent is the argument. -/
theorem C19_fixed_pow10_exponent_wrapped :
    pow10ExpPreFix (2 ^ 63 - 1) = -(2 ^ 63) ∧ pow10ExpPreFix (2 ^ 63 - 512) = -(2 ^ 63) ∧
    pow10ExpPreFix (2 ^ 63 - 513) = 2 ^ 63 - 1024 ∧ pow10ExpPreFix 308 = 308 ∧
    pow10ExpPreFix (-(2 ^ 63)) = -(2 ^ 63) ∧ ∀ i, pow10Exp i = i := by
  refine ⟨by decide, by decide, by decide, by decide, by decide, fun _ => rfl⟩

/-! ## 5. Sessions: a result stays what it was while later calls run -/

/-- IMPL ⊑ SPEC for sessions: for every sequence of literals and library calls (any
    functions, any slots, any length), looking at ALL slots at the end of the session in the
    heap model with the unchanged code's allocation policy (`fresh`: every output in a new
    buffer) shows exactly the values of the pure Spec. -/
theorem session_impl_refines_spec (cs : List Call) :
    (runImpl fresh Mem.empty cs).observe = runSpec [] cs :=
  runImpl_fresh Mem.empty (by intro k hk; cases hk) cs

/-- RESULTS ARE STABLE: for every session `cs` and every continuation `more`, the slots
    filled by `cs` show the same values after `more` has run as they did before: no later
    call changes what an earlier call returned. -/
theorem session_results_stable (cs more : List Call) :
    ((runImpl fresh Mem.empty (cs ++ more)).observe).take ((runImpl fresh Mem.empty cs).observe).length
      = (runImpl fresh Mem.empty cs).observe := by
  simp only [session_impl_refines_spec, runSpec_append]
  obtain ⟨ext, h⟩ := runSpec_extends (runSpec [] cs) more
  rw [h]; simp

/-- ROUND TRIP ACROSS LATER CALLS: for every encoder/decoder pair with the inverse law on
    the inputs satisfying `P`, every prefix `pre`, every slot `i` holding a `P`-value `b`, and
    every sequence `mid` of further calls (other encodes with the same codec included): if
    `enc` is applied to slot `i` and, after `mid`, `dec` is applied to the slot that encode
    filled, the decode returns `b`. -/
theorem session_roundtrip (enc : Bytes → Bytes) (dec : Bytes → Option Bytes) (P : Bytes → Prop)
    (law : ∀ b, P b → dec (enc b) = some b) (pre mid : List Call) (i : Nat) (b : Bytes)
    (hb : (runSpec [] pre).getD i none = some b) (hP : P b) :
    (runImpl fresh Mem.empty
        (pre ++ [.app (fun x => some (enc x)) i] ++ mid ++ [.app dec (runSpec [] pre).length])).observe
      = (runImpl fresh Mem.empty (pre ++ [.app (fun x => some (enc x)) i] ++ mid)).observe ++ [some b] := by
  simp only [session_impl_refines_spec, runSpec_append, runSpec, Call.eval, hb]
  obtain ⟨ext, h⟩ := runSpec_extends (runSpec [] pre ++ [some (enc b)]) mid
  simp [h, law b hP]

/-- the codec registry (hex, base64, base32, urlquery) in a session -/
theorem session_codec_roundtrip (c : Codec) (pre mid : List Call) (i : Nat) (b : Bytes)
    (hb : (runSpec [] pre).getD i none = some b) (hP : IsBytes b) :
    (runImpl fresh Mem.empty
        (pre ++ [.app (fun x => some (c.enc x)) i] ++ mid ++ [.app c.dec (runSpec [] pre).length])).observe
      = (runImpl fresh Mem.empty (pre ++ [.app (fun x => some (c.enc x)) i] ++ mid)).observe ++ [some b] :=
  session_roundtrip c.enc c.dec IsBytes (codec_roundtrip c) pre mid i b hb hP

/-- gzip in a session, under the library's inverse law -/
theorem session_gzip_roundtrip (g : GzipLib) (law : ∀ b, g.decompress (g.compress b) = some b)
    (pre mid : List Call) (i : Nat) (b : Bytes) (hb : (runSpec [] pre).getD i none = some b) :
    (runImpl fresh Mem.empty
        (pre ++ [.app (fun x => some (gzipEnc g x)) i] ++ mid ++ [.app (gzipDec g) (runSpec [] pre).length])).observe
      = (runImpl fresh Mem.empty (pre ++ [.app (fun x => some (gzipEnc g x)) i] ++ mid)).observe ++ [some b] :=
  session_roundtrip (gzipEnc g) (gzipDec g) (fun _ => True) (fun b _ => law b) pre mid i b hb trivial

/-- SENSITIVITY (why the allocation policy is part of the model): with an output buffer that
    is reused (`reuse 2`: the cell of the first encode is handed out again), after
    `a := hex(A); b := hex(B)` slot `a` shows `hex(B)` and `decode(a)` gives `B`, whereas the
    Spec keeps `hex(A)` in slot `a`, which decodes to `A`. -/
theorem session_pooled_buffer_breaks :
    let cs : List Call := [.lit [1], .lit [2], .app (fun b => some (hexEnc b)) 0, .app (fun b => some (hexEnc b)) 1]
    (runImpl (reuse 2) Mem.empty cs).observe = [some [1], some [2], some [48, 50], some [48, 50]] ∧
    ((runImpl (reuse 2) Mem.empty cs).read 2).bind hexDec = some [2] ∧
    runSpec [] cs = [some [1], some [2], some [48, 49], some [48, 50]] ∧
    ((runSpec [] cs).getD 2 none).bind hexDec = some [1] := by
  decide

/-- non-vacuity of `session_roundtrip`'s hypotheses: slot 0 of `[lit "hi"]` holds bytes -/
example : (runSpec [] [.lit [104, 105]]).getD 0 none = some [104, 105] ∧ IsBytes [104, 105] := by
  constructor
  · rfl
  · intro x hx; simp at hx; omega

/-! ## 6. Argument objects: every bytes-like kind, used any number of times

The wrapped Go functions take VALUES (`string`, `[]byte`); the wrappers are handed OBJECTS,
some of which have state (a buffer's read offset, a file's position).  "Returns exactly what
the Go function returns for every argument" therefore has a second half: taking the Go value
out of the object must not change the object, or the next use of the same object — a second
`encode`, the `decode(encode(x)) == x` comparison itself — is a call on a different value. -/

/-- no object of the heap is a stream (a file); strings, byte_slices, buffers (with any read
    offset), ints, lists … are all allowed -/
def valueObjs (h : Objs) : Prop := ∀ o ∈ h, o.isStream = false

/-- the unchanged code's converters, on every object that is not a stream, are the pure
    `project` applied to the object's contents, and hand the object back as it was -/
theorem convObj_peek (c : Conv) (o : Obj) (hs : o.isStream = false) :
    convObj .peek c o = (project c o.asVal).map fun g => (g, o) := by
  cases o with
  | val v => rfl
  | buffer b off => cases c <;> simp [convObj, project, Obj.asVal]
  | file d pos => simp [Obj.isStream] at hs

/-- ASBYTES IS READ-ONLY (and so is every other converter): for every converter, every
    argument object of every kind other than a stream — string, byte_slice, buffer with any
    contents and any read offset, any other value — if the conversion succeeds the object is
    afterwards exactly what it was before. -/
theorem asBytes_readonly (c : Conv) (o : Obj) (hs : o.isStream = false) (g : GoVal) (o' : Obj)
    (h : convObj .peek c o = some (g, o')) : o' = o := by
  rw [convObj_peek c o hs] at h
  cases hp : project c o.asVal with
  | none => simp [hp] at h
  | some g' => simp [hp] at h; exact h.2.symm

/-- what the wrapped function is handed for a buffer is exactly the buffer's unread bytes,
    whether the parameter is a `string` (`AsString`) or a `[]byte` (`AsBytes`) -/
theorem buffer_projects_unread (b : Bytes) (off : Nat) :
    convObj .peek .bytes (.buffer b off) = some (.bytes (b.drop off), .buffer b off) ∧
    convObj .peek .str (.buffer b off) = some (.str (b.drop off), .buffer b off) := ⟨rfl, rfl⟩

/-- THE MODEL FOLLOWS THE TYPE SWITCH (what ties `convObj` to object/typeconv.go through the
    regenerated tables, see `asBytesCases_tie`): for every argument object, `AsBytes` refuses
    it exactly when the switch reaches the default case, hands back the very same object when
    it reaches a case that only looks, and only a stream reaches the `io.ReadAll` fallback. -/
theorem asBytes_follows_cases (o : Obj) :
    match caseOf asBytesCases o with
    | .reject => convObj .peek .bytes o = none
    | .look => ∃ g, convObj .peek .bytes o = some (g, o)
    | .readAll => o.isStream = true := by
  cases o with
  | val v => cases v <;> simp [caseOf, asBytesCases, Obj.matchesTy, convObj, project]
  | buffer b off => simp [caseOf, asBytesCases, Obj.matchesTy, convObj]
  | file d pos => simp [caseOf, asBytesCases, Obj.matchesTy, Obj.isStream]

/-- the same for `AsString`, which has no stream case at all -/
theorem asString_follows_cases (o : Obj) :
    match caseOf asStringCases o with
    | .reject => convObj .peek .str o = none
    | .look => ∃ g, convObj .peek .str o = some (g, o)
    | .readAll => False := by
  cases o with
  | val v => cases v <;> simp [caseOf, asStringCases, Obj.matchesTy, convObj, project]
  | buffer b off => simp [caseOf, asStringCases, Obj.matchesTy, convObj]
  | file d pos => simp [caseOf, asStringCases, Obj.matchesTy, convObj]

theorem Objs.set_get : ∀ (h : Objs) (r : Nat), h.set r (h.get r) = h
  | [], _ => rfl
  | o :: h, 0 => rfl
  | o :: h, r + 1 => by
    have := Objs.set_get h r
    simp only [Objs.get, List.getD_cons_succ, List.set_cons_succ] at this ⊢
    rw [this]

theorem valueObjs_get (h : Objs) (hv : valueObjs h) (r : Nat) : (h.get r).isStream = false := by
  unfold Objs.get
  rw [List.getD_eq_getElem?_getD]
  cases hr : h[r]? with
  | none => rfl
  | some o => exact hv o (List.mem_of_getElem? hr)

/-- all converters of a call: the pure `projectAll` on the contents; the heap is unchanged -/
theorem convRefs_peek (h : Objs) (hv : valueObjs h) : ∀ (cs : List Conv) (rs : List Nat),
    convRefs .peek cs rs h = (projectAll cs (rs.map fun r => (h.get r).asVal), h)
  | [], [] => rfl
  | [], _ :: _ => rfl
  | _ :: _, [] => rfl
  | c :: cs, r :: rs => by
    simp only [convRefs, List.map_cons, projectAll]
    rw [convObj_peek c _ (valueObjs_get h hv r)]
    cases hp : project c (h.get r).asVal with
    | none => simp
    | some g =>
      simp only [Option.map_some, Objs.set_get, convRefs_peek h hv cs rs]
      cases projectAll cs (rs.map fun r => (h.get r).asVal) <;> rfl

/-- WRAPPERS ON OBJECTS = WRAPPERS ON CONTENTS, ARGUMENTS UNTOUCHED: for every wrapper
    signature, every Go function, every heap of argument objects without streams and every
    tuple of references into it (the same object may occur several times): the wrapper
    returns exactly what the value-level wrapper `wrap` returns on the objects' contents — so
    `glue_faithful`, `wrap_no_panic`, `C19_no_panic` hold for buffers as they do for
    strings and byte_slices — and every object is afterwards what it was before. -/
theorem wrapObjs_peek (sig : Sig) (f : GoFun) (refs : List Nat) (h : Objs) (hv : valueObjs h) :
    wrapObjs .peek sig f refs h = (wrap sig f (refs.map fun r => (h.get r).asVal), h) := by
  unfold wrapObjs wrap
  simp only [List.length_map]
  split
  · rfl
  · rw [convRefs_peek h hv]
    cases projectAll sig.args (refs.map fun r => (h.get r).asVal) <;> rfl

/-- the heap half of `wrapObjs_peek` on its own: a wrapper call changes none of its arguments -/
theorem wrapObjs_readonly (sig : Sig) (f : GoFun) (refs : List Nat) (h : Objs) (hv : valueObjs h) :
    (wrapObjs .peek sig f refs h).2 = h := by rw [wrapObjs_peek sig f refs h hv]

/-- WRAPPER IDEMPOTENT ON ITS ARGUMENTS: calling any wrapper a second time on the same
    argument objects (in the state the first call left them in) gives the same outcome and
    the same objects as the first call — for every signature, Go function, heap without
    streams and reference tuple. -/
theorem wrapper_idempotent_on_args (sig : Sig) (f : GoFun) (refs : List Nat) (h : Objs) (hv : valueObjs h) :
    wrapObjs .peek sig f refs (wrapObjs .peek sig f refs h).2 = wrapObjs .peek sig f refs h := by
  rw [wrapObjs_readonly sig f refs h hv]

/-- IMPL ⊑ SPEC FOR USE SEQUENCES: for every sequence of wrapper calls of any length over the
    same heap of argument objects (any wrappers, any functions, any reference tuples, objects
    reused at will), every call returns what it returns on the contents the objects had at the
    START of the sequence, and at the end every object is what it was at the start. -/
theorem uses_impl_refines_spec (h : Objs) (hv : valueObjs h) : ∀ us : List Use,
    runUses .peek h us = specUses h us
  | [] => rfl
  | u :: us => by
    simp only [runUses, wrapObjs_peek u.sig u.f u.refs h hv, uses_impl_refines_spec h hv us, specUses,
      List.map_cons]

/-- the k-th use of an object sees what the first use saw: in any sequence, two uses with the
    same wrapper, function and references have equal outcomes, wherever they stand -/
theorem uses_repeat_equal (h : Objs) (hv : valueObjs h) (us : List Use) (i j : Nat) (u : Use)
    (hi : us[i]? = some u) (hj : us[j]? = some u) :
    (runUses .peek h us).1[i]? = (runUses .peek h us).1[j]? := by
  simp [uses_impl_refines_spec h hv us, specUses, hi, hj]

/-- GLUE FAITHFUL ON OBJECTS: if the contents of the referenced objects are the injections of
    the Go values `gs` (a buffer whose unread bytes are `b` stands for the Go `[]byte`/`string`
    `b`), the wrapper returns what the exported function returns on `gs`: an error value if one
    of its tests fires, the injection of `f gs` otherwise. -/
theorem glue_faithful_objs (sig : Sig) (f : GoFun) (gs : List GoVal) (refs : List Nat) (h : Objs)
    (hv : valueObjs h) (hc : (refs.map fun r => (h.get r).asVal) = gs.map inject)
    (hf : fitsAll sig.args gs = true) :
    (wrapObjs .peek sig f refs h).1 = if refuses sig gs then .err else outOf (f (passed sig gs)) := by
  rw [wrapObjs_peek sig f refs h hv, hc]
  exact glue_faithful sig f gs hf

/-- ROUND TRIP AGAINST THE LIVE ARGUMENT: for every codec of the registry and every argument
    object that is not a stream, if `AsBytes` hands the encoder the bytes `b`, then
    `decode(encode(x))` is `b` AND reading the argument again after the call gives the same `b`
    from the same object: the comparison `decode(encode(x)) == x` is a comparison with the
    value that was encoded. -/
theorem codec_roundtrip_on_object (c : Codec) (o : Obj) (hs : o.isStream = false) (b : Bytes) (o' : Obj)
    (h : convObj .peek .bytes o = some (.bytes b, o')) (hb : IsBytes b) :
    c.dec (c.enc b) = some b ∧ convObj .peek .bytes o' = some (.bytes b, o') := by
  have := asBytes_readonly .bytes o hs _ _ h
  subst this
  exact ⟨codec_roundtrip c b hb, h⟩

/-- STREAMS (not a defect; stated so that the model's treatment of `object.File` is explicit):
    `AsBytes` on a file returns what is left of the stream and leaves the stream at its end —
    what `io.ReadAll` does to an `*os.File` in Go; a second read returns no bytes.  `AsString`
    refuses a file. -/
theorem stream_read_advances (m : BufRead) (d : Bytes) (pos : Nat) :
    convObj m .bytes (.file d pos) = some (.bytes (d.drop pos), .file d (max pos d.length)) ∧
    convObj m .bytes (.file d (max pos d.length)) = some (.bytes [], .file d (max pos d.length)) ∧
    convObj m .str (.file d pos) = none := by
  refine ⟨rfl, ?_, rfl⟩
  simp [convObj, unread, Nat.max_def]
  split <;> simp_all <;> omega

/-- SENSITIVITY (why the buffer case of `AsBytes` is part of the model): if a buffer is read
    through the `io.Reader` fallback (`drain`) the first use is right and every later one is
    not — `encode(buf)` twice gives the encoding of "hi" and then of "", and a two-parameter
    call on the same buffer (`x.replace_all(buf, buf)`) hands the function "hi" and "" —
    whereas the unchanged code (`peek`) hands over "hi" every time. -/
theorem drain_breaks_reuse :
    let h : Objs := [.buffer [104, 105] 0]
    (convRefs .drain [.bytes] [0] h).1 = some [.bytes [104, 105]] ∧
    (convRefs .drain [.bytes] [0] (convRefs .drain [.bytes] [0] h).2).1 = some [.bytes []] ∧
    (convRefs .drain [.bytes, .bytes] [0, 0] h).1 = some [.bytes [104, 105], .bytes []] ∧
    (convRefs .peek [.bytes] [0] (convRefs .peek [.bytes] [0] h).2).1 = some [.bytes [104, 105]] ∧
    (convRefs .peek [.bytes, .bytes] [0, 0] h).1 = some [.bytes [104, 105], .bytes [104, 105]] := by
  decide

/-- non-vacuity: a heap with a string, a byte_slice, a half-read buffer and an int is a heap
    without streams; the half-read buffer "xhi" (offset 1) shows the contents "hi" -/
example : valueObjs [.val (.str [104]), .val (.bytes [105]), .buffer [120, 104, 105] 1, .val (.int 3)] := by
  intro o ho
  simp at ho
  rcases ho with rfl | rfl | rfl | rfl <;> rfl
example : (Obj.buffer [120, 104, 105] 1).asVal = .bytes [104, 105] := rfl

/-! ## 7. The hand-written wrappers of modules/regexp: one library call, its result injected

The Go package `regexp` is the reference (the property's own wording), so it is a parameter
(`GoFunE`: value, `error` result or panic).  What the theorems establish for EVERY wrapper of
the inventory `rxSigs` — tied to modules/regexp/regexp.go and regexp_object.go by `rxSigs_tie` —
is that the wrapper adds nothing of its own: because its body is the ONE library call
(`Body.direct`), its result is `inject (f (project args))`, a Go `error` comes back as an error
value, and it panics only if Go does.  Agreement with Go therefore rests on the tie (the body is
that one call) and on the correspondence (the harness calls the same Go function directly). -/

/-- a complete argument list is left as it is by the filling-in of the optional argument -/
theorem RxSig.fill_full (w : RxSig) (args : List Val) (h : args.length = w.sig.args.length) :
    w.fill args = args := by
  unfold RxSig.fill
  split
  · rw [if_neg]; omega
  · rfl

/-- a Go function without an error result gives the same outcome through `outOfE` as through `outOf` -/
theorem outOfE_lift (f : GoFun) (gs : List GoVal) : outOfE (liftFun f gs) = outOf (f gs) := by
  unfold liftFun
  cases f gs <;> rfl

/-- a wrapper whose body is the direct call does not depend on what another body would do -/
theorem rxWrap_direct_alt (w : RxSig) (hd : w.body = .direct) (f : GoFunE) (alt alt' : List GoVal → Out)
    (args : List Val) : rxWrap w f alt args = rxWrap w f alt' args := by
  unfold rxWrap
  simp [hd]

/-- RX GLUE FAITHFUL: for every regexp wrapper whose body is the direct call, every Go function
    `f` (value, error or panic), and every tuple of Go values of the wrapper's types (for a method:
    the compiled pattern first), the wrapper called on the injected tuple returns exactly what
    `f` returns on that tuple — the injected value, an error value for a Go `error`. -/
theorem rx_glue_faithful (w : RxSig) (hd : w.body = .direct) (f : GoFunE) (alt : List GoVal → Out)
    (gs : List GoVal) (h : fitsAll w.sig.args gs = true) :
    rxWrap w f alt (gs.map inject) = outOfE (f (passed w.sig gs)) := by
  have hl : (gs.map inject).length = w.sig.args.length := by simp [fitsAll_length _ _ h]
  unfold rxWrap
  rw [RxSig.fill_full w _ hl]
  simp [hl, projectAll_inject _ _ h, hd]

/-- THE OMITTED OPTIONAL ARGUMENT: a wrapper with an optional last parameter (`find_all`,
    `split`: `n := -1`) called without it hands the Go function the default. -/
theorem rx_optional_default (w : RxSig) (hd : w.body = .direct) (d : Int) (ho : w.optInt = some d)
    (f : GoFunE) (alt : List GoVal → Out) (gs : List GoVal)
    (h : fitsAll w.sig.args (gs ++ [.int d]) = true) :
    rxWrap w f alt (gs.map inject) = outOfE (f (passed w.sig (gs ++ [.int d]))) := by
  have hl := fitsAll_length _ _ h
  have hf : w.fill (gs.map inject) = (gs ++ [GoVal.int d]).map inject := by
    unfold RxSig.fill
    rw [ho]
    simp only [List.length_map, List.length_append, List.length_cons, List.length_nil] at hl ⊢
    rw [if_pos (by omega)]
    simp [inject]
  have hl' : ((gs ++ [GoVal.int d]).map inject).length = w.sig.args.length := by simpa using hl
  unfold rxWrap
  rw [hf]
  simp only [hl', ne_eq, not_true_eq_false, if_false, projectAll_inject _ _ h, hd]

/-- REDUCTION TO THE GENERATED-WRAPPER GLUE: a direct regexp wrapper around a Go function that
    has no error result IS the glue `wrap` of section 4 on the filled-in argument list — so
    `glue_faithful`, `wrap_no_panic` and the argument-object theorems of section 6 apply to it
    as they stand. -/
theorem rx_wrap_eq_wrap (w : RxSig) (hd : w.body = .direct) (hp : w.sig.pre = []) (f : GoFun)
    (alt : List GoVal → Out) (args : List Val) :
    rxWrap w (liftFun f) alt args = wrap w.sig f (w.fill args) := by
  unfold rxWrap wrap callInner refuses
  simp only [hd, hp, List.any_nil, outOfE_lift]
  rfl

/-- hence `glue_faithful` literally: result = inject (f (project args)) -/
theorem rx_glue_faithful_via_wrap (w : RxSig) (hd : w.body = .direct) (hp : w.sig.pre = []) (f : GoFun)
    (alt : List GoVal → Out) (gs : List GoVal) (h : fitsAll w.sig.args gs = true) :
    rxWrap w (liftFun f) alt (gs.map inject) = outOf (f (passed w.sig gs)) := by
  rw [rx_wrap_eq_wrap w hd hp, RxSig.fill_full w _ (by simp [fitsAll_length _ _ h])]
  exact glue_faithful_plain w.sig hp f gs h

/-- ERRORS ARE VALUES (regexp): whatever the arguments (any number, any types, any pattern), a
    direct wrapper around a Go function that does not panic returns a value or an error value;
    in particular an invalid pattern (`regexp.Compile` / `MatchString` report an `error`) is an
    error value. -/
theorem rx_no_panic (w : RxSig) (hd : w.body = .direct) (f : GoFunE) (hf : ∀ gs, f gs ≠ .panic)
    (alt : List GoVal → Out) (args : List Val) : rxWrap w f alt args ≠ .panic := by
  unfold rxWrap
  split
  · simp
  · split
    · simp
    · rename_i gs _
      simp only [hd]
      cases hfg : f (passed w.sig gs) with
      | val r => simp [outOfE]
      | error => simp [outOfE]
      | panic => exact absurd hfg (hf _)

/-- an `error` result of the Go function (an invalid pattern) comes back as an error value -/
theorem rx_invalid_pattern_is_error (w : RxSig) (hd : w.body = .direct) (f : GoFunE)
    (alt : List GoVal → Out) (gs : List GoVal) (h : fitsAll w.sig.args gs = true)
    (he : f (passed w.sig gs) = .error) : rxWrap w f alt (gs.map inject) = .err := by
  rw [rx_glue_faithful w hd f alt gs h, he]; rfl

/-- the reviewed fact of the inventory: EVERY wrapper of modules/regexp has the direct body and
    makes no test of its own (decided over the table; `rxSigs_tie` ties the table to the source) -/
theorem rxSigs_direct : ∀ w ∈ rxSigs, w.body = .direct ∧ w.sig.pre = [] := by decide

/-- FULL STATEMENT (wrapped-function agreement, regexp): every wrapper of modules/regexp, for
    every Go library behaviour, whatever any other body would compute, and for every argument
    list, returns what the Spec demands: arity/type errors for ill-formed calls, otherwise the
    injection of the Go function's result on the projected arguments, a Go `error` as an error
    value. -/
def C19_full_rx_agree : Prop :=
  ∀ w ∈ rxSigs, ∀ (f : GoFunE) (alt : List GoVal → Out) (args : List Val),
    rxWrap w f alt args = rxSpec w f args

theorem C19_rx_agree : C19_full_rx_agree := by
  intro w hw f alt args
  have hd := (rxSigs_direct w hw).1
  have hw' : { w with body := Body.direct } = w := by
    cases w; simp only at hd; subst hd; rfl
  unfold rxSpec
  rw [hw']
  exact rxWrap_direct_alt w hd f alt _ args

/-- for every inventoried wrapper the glue theorem applies: result = inject (f (project args)) -/
theorem C19_rx_glue : ∀ w ∈ rxSigs, ∀ (f : GoFunE) (alt : List GoVal → Out) (gs : List GoVal),
    fitsAll w.sig.args gs = true → rxWrap w f alt (gs.map inject) = outOfE (f (passed w.sig gs)) :=
  fun w hw f alt gs h => rx_glue_faithful w (rxSigs_direct w hw).1 f alt gs h

/-- … and `glue_faithful` of section 4 itself, for a library function without an error result
    (every method of a compiled pattern) -/
theorem C19_rx_glue_wrap : ∀ w ∈ rxSigs, ∀ (f : GoFun) (alt : List GoVal → Out) (gs : List GoVal),
    fitsAll w.sig.args gs = true → rxWrap w (liftFun f) alt (gs.map inject) = outOf (f (passed w.sig gs)) :=
  fun w hw f alt gs h => rx_glue_faithful_via_wrap w (rxSigs_direct w hw).1 (rxSigs_direct w hw).2 f alt gs h

/-- … and no wrapper of modules/regexp panics unless the Go library does -/
theorem C19_rx_no_panic : ∀ w ∈ rxSigs, ∀ (f : GoFunE), (∀ gs, f gs ≠ .panic) →
    ∀ (alt : List GoVal → Out) (args : List Val), rxWrap w f alt args ≠ .panic :=
  fun w hw f hf alt args => rx_no_panic w (rxSigs_direct w hw).1 f hf alt args

/-! ### replacement templates: why a second path (a literal fast path) is not the Go function -/

/-- a template without `$` has no reference to cut at -/
theorem cutWhile_no_dollar : ∀ t : Bytes, 36 ∉ t → cutWhile (· != 36) t = (t, [])
  | [], _ => rfl
  | c :: t, h => by
    have hc : c ≠ 36 := fun e => h (by simp [e])
    have ht : 36 ∉ t := fun e => h (by simp [e])
    simp [cutWhile, hc, cutWhile_no_dollar t ht]

/-- a template without `$` expands to itself, whatever the match -/
theorem expand_no_dollar (groups : List (Option Bytes)) (names : List Bytes) (t : Bytes) (h : 36 ∉ t) :
    expand groups names t = t := by
  unfold expand expandF
  rw [cutWhile_no_dollar t h]

/-- `$$` is one `$`; `$0` / `${0}` is the match; a group that does not exist is empty; a `$` that
    starts no reference (at the end, before a space, `${` unclosed) stays; `$1x` is the NAME
    `1x`, not group 1 followed by `x`; `$01` is a name as well -/
theorem expand_examples :
    expand [some [97]] [[]] [36, 36] = [36] ∧
    expand [some [97]] [[]] [60, 36, 48, 62] = [60, 97, 62] ∧
    expand [some [97]] [[]] [60, 36, 123, 48, 125, 62] = [60, 97, 62] ∧
    expand [some [97]] [[]] [60, 36, 49, 62] = [60, 62] ∧
    expand [some [97]] [[]] [120, 36] = [120, 36] ∧
    expand [some [97]] [[]] [36, 32, 36, 123, 48] = [36, 32, 36, 123, 48] ∧
    expand [some [97, 98], some [97], some [98]] [[], [], []] [36, 49, 120] = [] ∧
    expand [some [97, 98], some [97], some [98]] [[], [], []] [36, 123, 49, 125, 120] = [97, 120] ∧
    expand [some [97, 98], some [97], some [98]] [[], [110], []] [36, 110, 45, 36, 50, 45, 36, 48, 49] = [97, 45, 98, 45] ∧
    expand [some [97], none, some [97]] [[], [110], [110]] [36, 110] = [97] := by decide

/-- WHERE A LITERAL FAST PATH IS RIGHT: for a non-empty literal pattern the matches are the
    occurrences of the literal, so `strings.ReplaceAll` and `ReplaceAllString` agree for every
    subject — PROVIDED the replacement contains no `$` … -/
theorem literal_fast_path_agrees_without_dollar (s lit repl : Bytes) (h : 36 ∉ repl) :
    stringsReplaceAll s lit repl = regexpReplaceAllLit s lit repl := by
  unfold stringsReplaceAll regexpReplaceAllLit
  rw [expand_no_dollar _ _ repl h]

/-- … AND WHERE IT IS NOT: the full statement fails on `"10 USD"`, pattern `USD`, template `$$`
    (Go: `"10 $"`; verbatim: `"10 $$"`). -/
def C19_full_literal_fast_path : Prop :=
  ∀ s lit repl : Bytes, lit ≠ [] → stringsReplaceAll s lit repl = regexpReplaceAllLit s lit repl

theorem C19_counterexample_literal_fast_path : ¬ C19_full_literal_fast_path := by
  intro h
  have := h [49, 48, 32, 85, 83, 68] [85, 83, 68] [36, 36] (by decide)
  revert this
  decide

/-- SENSITIVITY (why `Body.direct` is part of the inventory): give `replace_all` a body with a
    second path — `strings.ReplaceAll` for a literal pattern — and the glue statement fails, for
    the Go behaviour on literal patterns modelled above: on (`USD`, `"10 USD"`, `$$`) the wrapper
    returns `"10 $$"`, the Go function `"10 $"`. -/
theorem rx_second_path_breaks_glue :
    let w : RxSig := ⟨⟨"replace_all", "Regexp.ReplaceAllString", [.str, .str, .str], [0, 1, 2], .str, []⟩, true, none, false, false, .other⟩
    let f : GoFunE := fun gs => match gs with
      | [.str lit, .str s, .str repl] => .val (.str (regexpReplaceAllLit s lit repl))
      | _ => .panic
    let alt : List GoVal → Out := fun gs => match gs with
      | [.str lit, .str s, .str repl] => .val (.str (stringsReplaceAll s lit repl))
      | _ => .panic
    let gs : List GoVal := [.str [85, 83, 68], .str [49, 48, 32, 85, 83, 68], .str [36, 36]]
    fitsAll w.sig.args gs = true ∧
    rxWrap w f alt (gs.map inject) = .val (.str [49, 48, 32, 36, 36]) ∧
    outOfE (f (passed w.sig gs)) = .val (.str [49, 48, 32, 36]) := by
  refine ⟨by decide, ?_, ?_⟩ <;> rfl

/-- non-vacuity: the inventory is not empty, `replace_all` is in it with the direct body, the
    hypotheses of the glue theorem are satisfiable, and the optional argument has a default -/
example : (findRx "replace_all").map (·.body) = some .direct := by decide
example : (findRx "find_all").map (·.optInt) = some (some (-1)) := by decide
example : (findRx "replace_all").map (fun w => fitsAll w.sig.args [.str [97, 43], .str [98, 97, 97, 98], .str [36, 48]]) = some true := by decide
example : (findRx "split").map (fun w => rxWrap w (fun gs => .val (.strs (gs.map fun _ => []))) (fun _ => .panic) [.str [97], .str [98]])
    = some (.val (.list (.cons (.str []) (.cons (.str []) (.cons (.str []) .nil))))) := rfl

end Risor.C19
