import RisorModel.C19.Lemmas
/-!
C19 — property theorems.  "Standard-library wrappers agree with Go, and encoders invert
their decoders."

Everything is stated for ALL byte strings / value trees / argument lists (no bound on
length or depth).  Byte strings are lists of naturals below 256 (`IsBytes`).
The Impl model (`Model.lean`) is the code as it is, defects included; where the unchanged
code violates the property the full statement is kept as a `def … : Prop`, refuted by a
concrete witness, and the strongest true part is proved under a decidable guard.
-/
namespace Risor.C19

/-- every element is a byte -/
def IsBytes (b : Bytes) : Prop := ∀ x ∈ b, x < 256

/-! ## 1. The lossless byte codecs invert: decode (encode b) = b -/

/-- hex: for every byte string `b`, `decode(encode(b,"hex"),"hex")` gives back `b`. -/
theorem hex_roundtrip (b : Bytes) (hb : IsBytes b) : hexDec (hexEnc b) = some b :=
  hexDec_hexEnc b hb

/-- base64, all four encodings used by risor (std/url alphabet, padded/raw; the `base64`
    codec is std+padded): for every byte string `b`, decoding the encoding gives back `b`. -/
theorem base64_roundtrip (url pad : Bool) (b : Bytes) (hb : IsBytes b) :
    b64Dec url pad (b64Enc url pad b) = some b := by
  unfold b64Dec
  rw [stripNL_b64Enc url pad b hb]
  exact b64Groups_enc url pad b hb

/-- base32 (std, padded): for every byte string `b`, decoding the encoding gives back `b`. -/
theorem base32_roundtrip (b : Bytes) (hb : IsBytes b) : b32Dec (b32Enc b) = some b := by
  unfold b32Dec
  rw [stripNL_b32Enc b hb]
  exact b32Loop_enc b hb

/-- urlquery (`url.QueryEscape` / `QueryUnescape`): for every byte string `b` (arbitrary
    Unicode, invalid UTF-8, `%`, `+`, spaces), unescaping the escaped text gives back `b`. -/
theorem urlquery_roundtrip (b : Bytes) (hb : IsBytes b) : qUnesc (qEsc b) = some b :=
  qUnesc_qEsc b hb

/-- The registry view: for every codec of the byte-projection registry and every byte
    string, `decode(encode(b, c), c)` is `b`. -/
theorem codec_roundtrip (c : Codec) (b : Bytes) (hb : IsBytes b) : c.dec (c.enc b) = some b := by
  cases c
  · exact hex_roundtrip b hb
  · exact base64_roundtrip false true b hb
  · exact base32_roundtrip b hb
  · exact urlquery_roundtrip b hb

/-- gzip: `compress/gzip` is trusted, not modelled.  Its inverse law is a *hypothesis*; given
    it, risor's codec (which feeds `AsBytes(x)` to the writer and returns what the reader
    yields) inverts for every byte string. -/
structure GzipLib where
  compress : Bytes → Bytes
  decompress : Bytes → Option Bytes

def gzipEnc (g : GzipLib) (b : Bytes) : Bytes := g.compress b
def gzipDec (g : GzipLib) (s : Bytes) : Option Bytes := g.decompress s

theorem gzip_roundtrip (g : GzipLib) (law : ∀ b, g.decompress (g.compress b) = some b) (b : Bytes) :
    gzipDec g (gzipEnc g b) = some b := law b

/-! ## 2. Malformed input is rejected -/

/-- hex: any input containing a byte that is not a hex digit, or of odd length, is an error. -/
theorem hex_rejects_malformed (s : Bytes) (h : (∃ c ∈ s, hexVal c = none) ∨ s.length % 2 = 1) :
    hexDec s = none := by
  rcases h with h | h
  · exact hexDec_alien s h
  · exact hexDec_odd s h

/-- base64 (every variant): any input containing a byte that is neither in the alphabet, nor
    `=`, nor CR/LF is an error, wherever the byte stands. -/
theorem base64_rejects_alien (url pad : Bool) (s : Bytes)
    (h : ∃ c ∈ s, b64Val url c = none ∧ c ≠ 61 ∧ c ≠ 10 ∧ c ≠ 13) : b64Dec url pad s = none := by
  obtain ⟨c, hc, hv, h61, h10, h13⟩ := h
  apply b64Groups_alien
  refine ⟨c, ?_, hv, h61⟩
  simp [stripNL, List.mem_filter, hc, notNewline, h10, h13]

/-- base64, padded encodings: if the number of bytes other than CR/LF is not a multiple of 4
    the input is an error (truncated text, missing padding). -/
theorem base64_rejects_length (url : Bool) (s : Bytes) (h : (stripNL s).length % 4 ≠ 0) :
    b64Dec url true s = none :=
  b64Groups_length url (stripNL s) h

/-- base32: a byte outside the alphabet (and not `=`, CR, LF) that stands before the first
    padding character makes the input an error.  (Behind the padding Go's decoder does not
    look at up to 7 bytes; the Impl model reproduces that, see `base32_trailing_ignored`.) -/
theorem base32_rejects_alien (pre suf : Bytes) (c : Nat) (hpre : 61 ∉ pre)
    (hc : b32Val c = none) (h61 : c ≠ 61) (h10 : c ≠ 10) (h13 : c ≠ 13) :
    b32Dec (pre ++ c :: suf) = none := by
  unfold b32Dec
  have hk : notNewline c = true := by simp [notNewline, h10, h13]
  have : stripNL (pre ++ c :: suf) = stripNL pre ++ c :: stripNL suf := by
    simp [stripNL, List.filter_append, List.filter, hk]
  rw [this]
  exact b32Loop_alien c hc h61 _ _ 0 [] (fun hm => hpre (List.mem_filter.1 hm).1)

/-- base32: an input without padding whose number of bytes other than CR/LF is not a
    multiple of 8 is an error. -/
theorem base32_rejects_length (s : Bytes) (hp : 61 ∉ s) (h : (stripNL s).length % 8 ≠ 0) :
    b32Dec s = none :=
  b32Loop_length (stripNL s) 0 [] (fun hm => hp (List.mem_filter.1 hm).1) (by omega) (by simpa using h)

/-- Observation about the Go library that risor inherits (not a risor defect): after the
    padding of the last quantum `encoding/base32` does not examine the remaining bytes. -/
theorem base32_trailing_ignored : b32Dec [77, 69, 61, 61, 61, 61, 61, 61, 102] = some [97] := by decide

/-- urlquery: a `%` that is not followed by two hex digits makes the input an error, wherever
    it stands. -/
theorem urlquery_rejects_malformed (pre suf : Bytes)
    (h : match suf with
      | a :: b :: _ => hexVal a = none ∨ hexVal b = none
      | _ => True) :
    qUnesc (pre ++ 37 :: suf) = none :=
  qUnesc_rejects suf h pre

/-! ## 3. json: the codec and json.marshal / json.unmarshal -/

/-- FULL STATEMENT (json round trip): for every value, `decode(encode(v,"json"),"json")`
    succeeds and gives back a value equal to `v` (`jEq`: same shape and bytes, numbers equal
    as numbers).  FALSE on the unchanged code — see the four counterexamples. -/
def C19_full_json_roundtrip : Prop :=
  ∀ v : Val, ∃ w, codecRoundtrip v = some w ∧ jEq v w = true

/-- FULL STATEMENT (agreement): `json.marshal(v)` and `encode(v,"json")` produce the same
    document (or both fail) for every value.  FALSE on the unchanged code. -/
def C19_full_json_agree : Prop := ∀ v : Val, encCodec v = encM v

theorem f64_2p53p1 : f64OfInt 9007199254740993 = 4845873199050653696 := by decide
theorem sanitize_ff : sanitize [255] = [239, 191, 189] := by decide

/-- nil: `encode(nil,"json")` is an error. -/
theorem C19_counterexample_json_nil : ¬ C19_full_json_roundtrip := by
  intro h
  obtain ⟨w, hw, _⟩ := h .nil
  simp [codecRoundtrip, encCodec] at hw

/-- byte_slice: `decode(encode(byte_slice("hi"),"json"),"json")` is the string "aGk=". -/
theorem C19_counterexample_json_bytes :
    codecRoundtrip (.bytes [104, 105]) = some (.str [97, 71, 107, 61]) ∧
    jEq (.bytes [104, 105]) (.str [97, 71, 107, 61]) = false := by
  constructor
  · simp only [codecRoundtrip, encCodec, encI, Option.map_some, decDoc]
    have : b64Text [104, 105] = [97, 71, 107, 61] := by decide
    rw [this]
  · decide

/-- int above 2^53: `decode(encode(9007199254740993,"json"),"json")` is the float
    9007199254740992.0, which does not denote the same number. -/
theorem C19_counterexample_json_int :
    codecRoundtrip (.int 9007199254740993) = some (.float 4845873199050653696) ∧
    jEq (.int 9007199254740993) (.float 4845873199050653696) = false := by
  constructor
  · simp only [codecRoundtrip, encCodec, encI, Option.map_some, decDoc]
    rw [f64_2p53p1]
  · decide

/-- invalid UTF-8: `decode(encode("\xff","json"),"json")` is "�". -/
theorem C19_counterexample_json_utf8 :
    codecRoundtrip (.str [255]) = some (.str [239, 191, 189]) ∧
    jEq (.str [255]) (.str [239, 191, 189]) = false := by
  constructor
  · simp only [codecRoundtrip, encCodec, encI, Option.map_some, decDoc]
    rw [sanitize_ff]
  · decide

/-- the two encoders disagree on nil (error vs `null`) … -/
theorem C19_counterexample_json_agree_nil : ¬ C19_full_json_agree := by
  intro h
  have := h .nil
  simp [encCodec, encM] at this

/-- … and on byte slices (base64 text vs the bytes as a string). -/
theorem C19_counterexample_json_agree_bytes :
    encCodec (.bytes [104, 105]) = some (.str [97, 71, 107, 61]) ∧
    encM (.bytes [104, 105]) = some (.str [104, 105]) := by
  constructor
  · simp only [encCodec, encI]
    have : b64Text [104, 105] = [97, 71, 107, 61] := by decide
    rw [this]
  · simp only [encM]
    have : sanitize [104, 105] = [104, 105] := by decide
    rw [this]

/-- The decidable guard of the round-trip theorem: not the nil object at top level, and
    `jsonSafe` — no byte_slice anywhere, every int survives float64 (`intExact`), every float
    is finite, every string and key is valid UTF-8, keys are distinct. -/
def jsonGuard (v : Val) : Bool := !isNil v && jsonSafe v

/-- PARTIAL (json round trip): for every value tree of any depth and width inside the guard,
    `decode(encode(v,"json"),"json")` succeeds and the result equals `v` (ints come back as
    the float that denotes exactly the same integer). -/
theorem C19_partial_json_roundtrip (v : Val) (h : jsonGuard v = true) :
    ∃ w, codecRoundtrip v = some w ∧ jEq v w = true := by
  simp only [jsonGuard, Bool.and_eq_true, Bool.not_eq_true'] at h
  obtain ⟨w, hw, he⟩ := encI_safe v h.2
  refine ⟨decDoc w, ?_, he⟩
  cases v <;> simp_all [codecRoundtrip, encCodec, isNil]

/-- The same for the json module: `json.unmarshal(json.marshal(v))` equals `v` for every value
    inside `jsonSafe` (nil included: the module handles it). -/
theorem C19_partial_json_module_roundtrip (v : Val) (h : jsonSafe v = true) :
    ∃ w, marshalRoundtrip v = some w ∧ jEq v w = true := by
  obtain ⟨w, hw, he⟩ := encI_safe v h
  have hb : noBytes v = true := jsonSafe_noBytes v h
  exact ⟨decDoc w, by simp [marshalRoundtrip, ← encI_eq_encM v hb, hw], he⟩

/-- PARTIAL (agreement): for every value that is not nil at top level and contains no
    byte_slice, `encode(v,"json")` and `json.marshal(v)` produce the same document (so also
    fail together, e.g. on a non-finite float). -/
theorem C19_partial_json_agree (v : Val) (hn : isNil v = false) (hb : noBytes v = true) :
    encCodec v = encM v := by
  rw [← encI_eq_encM v hb]
  cases v <;> simp_all [encCodec, isNil]

/-- every int `0 ≤ i < 2^53` survives float64 exactly, i.e. is inside the guard (`f64OfNat`
    is round-to-nearest-even and `f64IntVal` reads the bits back) -/
theorem intExact_nonneg (m : Nat) (h : m < 2 ^ 53) : intExact (Int.ofNat m) = true := by
  have hlt : ¬ ((m : Int) < 0) := by omega
  simp [intExact, f64OfInt, hlt, f64IntVal_f64OfNat m h]

/-- the boundary rows on both sides (negative ints: checked here on the boundary; 2^53 itself
    and −2^63 are exact, 2^53+1 and MaxInt64 are not) -/
example : intExact 9007199254740992 = true ∧ intExact (-9007199254740992) = true ∧
    intExact 9007199254740993 = false ∧ intExact 9223372036854775807 = false ∧
    intExact (-9223372036854775808) = true := by decide

/-- non-vacuity: a nested value with a map, a list, a negative int, a float, nil inside a
    list and non-ASCII text is inside the guard -/
example : jsonGuard (.map (.cons [97] (.list (.cons (.int (-5)) (.cons .nil (.cons (.float 4609434218613702656) .nil))))
    (.cons [195, 169] (.str [230, 151, 165]) .nil))) = true := by decide

/-! ## 4. Wrapper glue: `result = inject (goFunction (project args))`, errors are values -/

/-- a Go value has the type a converter produces -/
def fits : Conv → GoVal → Bool
  | .str, .str _ => true
  | .int, .int _ => true
  | .bool, .bool _ => true
  | .strList, .strs _ => true
  | .bytes, .bytes _ => true
  | _, _ => false

def fitsAll : List Conv → List GoVal → Bool
  | [], [] => true
  | c :: cs, g :: gs => fits c g && fitsAll cs gs
  | _, _ => false

/-- the object types each converter accepts (object/typeconv.go) -/
def accepts : Conv → Val → Bool
  | .str, .str _ => true
  | .str, .bytes _ => true
  | .int, .int _ => true
  | .int, .byte _ => true
  | .bool, .bool _ => true
  | .bytes, .bytes _ => true
  | .bytes, .str _ => true
  | .strList, .list xs => (Vals.toStrs xs).isSome
  | _, _ => false

/-- `project` is defined exactly on the accepted object types: every other argument yields
    a type error value, never a panic. -/
theorem project_defined_iff (c : Conv) (v : Val) : (project c v).isSome = accepts c v := by
  cases c <;> cases v <;> simp [project, accepts]

theorem toStrs_ofStrs : ∀ l : List Bytes, Vals.toStrs (Vals.ofStrs l) = some l
  | [] => rfl
  | s :: r => by simp [Vals.ofStrs, Vals.toStrs, toStrs_ofStrs r]

/-- `project (inject x) = x` on every Go value of the converter's type: what the wrapper hands
    to the Go function is exactly the script value's content, and what it hands back is exactly
    the Go result. -/
theorem project_inject (c : Conv) (g : GoVal) (h : fits c g = true) : project c (inject g) = some g := by
  cases c <;> cases g <;> simp_all [fits, project, inject, toStrs_ofStrs]

theorem projectAll_inject : ∀ (cs : List Conv) (gs : List GoVal), fitsAll cs gs = true →
    projectAll cs (gs.map inject) = some gs
  | [], [], _ => rfl
  | [], _ :: _, h => by simp [fitsAll] at h
  | _ :: _, [], h => by simp [fitsAll] at h
  | c :: cs, g :: gs, h => by
    simp only [fitsAll, Bool.and_eq_true] at h
    simp [projectAll, project_inject c g h.1, projectAll_inject cs gs h.2]

theorem fitsAll_length : ∀ (cs : List Conv) (gs : List GoVal), fitsAll cs gs = true → gs.length = cs.length
  | [], [], _ => rfl
  | [], _ :: _, h => by simp [fitsAll] at h
  | _ :: _, [], h => by simp [fitsAll] at h
  | _ :: cs, _ :: gs, h => by
    simp only [fitsAll, Bool.and_eq_true] at h
    simp [fitsAll_length cs gs h.2]

/-- GLUE FAITHFUL: for every wrapper signature, every Go function `f` and every tuple of Go
    values of the signature's types, calling the wrapper on the injected tuple returns exactly
    the injection of what `f` returns on that tuple (passed on in the recorded order). -/
theorem glue_faithful (sig : Sig) (f : GoFun) (gs : List GoVal) (h : fitsAll sig.args gs = true) :
    wrap sig f (gs.map inject) = outOf (f (passed sig gs)) := by
  unfold wrap
  simp [fitsAll_length _ _ h, projectAll_inject _ _ h]

/-- ERRORS ARE VALUES: whatever the arguments (any number, any types), a wrapper around a Go
    function that does not panic returns a value or an error value — never a panic. -/
theorem wrap_no_panic (sig : Sig) (f : GoFun) (hf : ∀ gs, f gs ≠ none) (args : List Val) :
    ∀ o, wrap sig f args = o → o ≠ .panic := by
  intro o ho
  unfold wrap at ho
  split at ho
  · subst ho; simp
  · split at ho
    · subst ho; simp
    · rename_i gs _
      cases hfg : f (passed sig gs) with
      | none => exact absurd hfg (hf _)
      | some r => rw [hfg] at ho; subst ho; simp [outOf]

/-- a Go library: one function per name; it panics exactly on `goPanics` (for the inventory:
    `strings.Repeat` with a negative count or an overflowing length) -/
def LibSpec (lib : String → GoFun) : Prop := ∀ go gs, lib go gs = none ↔ goPanics go gs = true

/-- FULL STATEMENT (errors, not panics): no wrapper of the strings module ever panics, for
    any library that behaves like Go's and any arguments.  FALSE on the unchanged code. -/
def C19_full_no_panic : Prop :=
  ∀ lib, LibSpec lib → ∀ sig ∈ stringsSigs, ∀ args, wrap sig (lib sig.go) args ≠ .panic

def demoLib : String → GoFun := fun go gs => if goPanics go gs then none else some (.bool false)

/-- `strings.repeat("a", -1)`: the count is passed straight to `strings.Repeat`, which panics. -/
theorem C19_counterexample_repeat_panics : ¬ C19_full_no_panic := by
  intro h
  have hspec : LibSpec demoLib := by
    intro go gs; unfold demoLib; split <;> simp_all
  have := h demoLib hspec ⟨"repeat", "strings.Repeat", [.str, .int], [0, 1], .str⟩ (by decide)
    [.str [97], .int (-1)]
  exact this rfl

/-- the decidable guard: the converted arguments are not in the panic domain of the Go function -/
def safeArgs (sig : Sig) (args : List Val) : Bool :=
  match projectAll sig.args args with
  | some gs => !goPanics sig.go (passed sig gs)
  | none => true

/-- PARTIAL (errors, not panics): for every wrapper of the regenerated inventory, every
    library behaving like Go's and every argument list outside the panic domain, the wrapper
    returns a value or an error value. -/
theorem C19_partial_no_panic (lib : String → GoFun) (hl : LibSpec lib) (sig : Sig) (args : List Val)
    (hs : safeArgs sig args = true) : wrap sig (lib sig.go) args ≠ .panic := by
  unfold wrap
  split
  · simp
  · unfold safeArgs at hs
    split
    · simp
    · rename_i gs hp
      rw [hp] at hs
      simp only [Bool.not_eq_true'] at hs
      cases hfg : lib sig.go (passed sig gs) with
      | none =>
        have := (hl _ _).1 hfg
        rw [this] at hs
        exact absurd hs (by simp)
      | some r => simp [outOf]

/-- every function of the inventory other than `repeat` is outside the guard's reach: it
    never panics, whatever the arguments -/
theorem C19_only_repeat_panics (lib : String → GoFun) (hl : LibSpec lib) (sig : Sig)
    (hs : sig ∈ stringsSigs) (hn : sig.name ≠ "repeat") (args : List Val) :
    wrap sig (lib sig.go) args ≠ .panic := by
  apply C19_partial_no_panic lib hl
  unfold safeArgs
  split
  · simp only [stringsSigs, List.mem_cons, List.not_mem_nil, or_false] at hs
    rcases hs with h | h | h | h | h | h | h | h | h | h | h | h | h | h | h | h | h | h <;>
      subst h <;> first | (exact absurd rfl hn) | simp [goPanics, passed]
  · rfl

/-- non-vacuity: `strings.repeat("ab", 3)` is inside the guard; `strings.split("a,b", ",")`
    returns the injected Go result -/
example : safeArgs ⟨"repeat", "strings.Repeat", [.str, .int], [0, 1], .str⟩ [.str [97, 98], .int 3] = true := by decide
example : fitsAll [.str, .str] [.str [97, 44, 98], .str [44]] = true := by decide

/-! ## 5. Sessions: a result stays what it was while later calls run -/

/-- IMPL ⊑ SPEC for sessions: for every sequence of literals and library calls (any
    functions, any slots, any length), looking at ALL slots at the end of the session in the
    heap model with the unchanged code's allocation policy (`fresh`: every output in a new
    buffer) shows exactly the values of the pure Spec. -/
theorem session_impl_refines_spec (cs : List Call) :
    (runImpl fresh Mem.empty cs).observe = runSpec [] cs :=
  runImpl_fresh Mem.empty (by intro k hk; cases hk) cs

/-- RESULTS ARE STABLE: for every session `cs` and every continuation `more`, the slots
    filled by `cs` show the same values after `more` has run as they did before: no later
    call changes what an earlier call returned. -/
theorem session_results_stable (cs more : List Call) :
    ((runImpl fresh Mem.empty (cs ++ more)).observe).take ((runImpl fresh Mem.empty cs).observe).length
      = (runImpl fresh Mem.empty cs).observe := by
  simp only [session_impl_refines_spec, runSpec_append]
  obtain ⟨ext, h⟩ := runSpec_extends (runSpec [] cs) more
  rw [h]; simp

/-- ROUND TRIP ACROSS LATER CALLS: for every encoder/decoder pair with the inverse law on
    the inputs satisfying `P`, every prefix `pre`, every slot `i` holding a `P`-value `b`, and
    every sequence `mid` of further calls (other encodes with the same codec included): if
    `enc` is applied to slot `i` and, after `mid`, `dec` is applied to the slot that encode
    filled, the decode returns `b`. -/
theorem session_roundtrip (enc : Bytes → Bytes) (dec : Bytes → Option Bytes) (P : Bytes → Prop)
    (law : ∀ b, P b → dec (enc b) = some b) (pre mid : List Call) (i : Nat) (b : Bytes)
    (hb : (runSpec [] pre).getD i none = some b) (hP : P b) :
    (runImpl fresh Mem.empty
        (pre ++ [.app (fun x => some (enc x)) i] ++ mid ++ [.app dec (runSpec [] pre).length])).observe
      = (runImpl fresh Mem.empty (pre ++ [.app (fun x => some (enc x)) i] ++ mid)).observe ++ [some b] := by
  simp only [session_impl_refines_spec, runSpec_append, runSpec, Call.eval, hb]
  obtain ⟨ext, h⟩ := runSpec_extends (runSpec [] pre ++ [some (enc b)]) mid
  simp [h, law b hP]

/-- the codec registry (hex, base64, base32, urlquery) in a session -/
theorem session_codec_roundtrip (c : Codec) (pre mid : List Call) (i : Nat) (b : Bytes)
    (hb : (runSpec [] pre).getD i none = some b) (hP : IsBytes b) :
    (runImpl fresh Mem.empty
        (pre ++ [.app (fun x => some (c.enc x)) i] ++ mid ++ [.app c.dec (runSpec [] pre).length])).observe
      = (runImpl fresh Mem.empty (pre ++ [.app (fun x => some (c.enc x)) i] ++ mid)).observe ++ [some b] :=
  session_roundtrip c.enc c.dec IsBytes (codec_roundtrip c) pre mid i b hb hP

/-- gzip in a session, under the library's inverse law -/
theorem session_gzip_roundtrip (g : GzipLib) (law : ∀ b, g.decompress (g.compress b) = some b)
    (pre mid : List Call) (i : Nat) (b : Bytes) (hb : (runSpec [] pre).getD i none = some b) :
    (runImpl fresh Mem.empty
        (pre ++ [.app (fun x => some (gzipEnc g x)) i] ++ mid ++ [.app (gzipDec g) (runSpec [] pre).length])).observe
      = (runImpl fresh Mem.empty (pre ++ [.app (fun x => some (gzipEnc g x)) i] ++ mid)).observe ++ [some b] :=
  session_roundtrip (gzipEnc g) (gzipDec g) (fun _ => True) (fun b _ => law b) pre mid i b hb trivial

/-- SENSITIVITY (why the allocation policy is part of the model): with an output buffer that
    is reused (`reuse 2`: the cell of the first encode is handed out again), after
    `a := hex(A); b := hex(B)` slot `a` shows `hex(B)` and `decode(a)` gives `B`, whereas the
    Spec keeps `hex(A)` in slot `a`, which decodes to `A`. -/
theorem session_pooled_buffer_breaks :
    let cs : List Call := [.lit [1], .lit [2], .app (fun b => some (hexEnc b)) 0, .app (fun b => some (hexEnc b)) 1]
    (runImpl (reuse 2) Mem.empty cs).observe = [some [1], some [2], some [48, 50], some [48, 50]] ∧
    ((runImpl (reuse 2) Mem.empty cs).read 2).bind hexDec = some [2] ∧
    runSpec [] cs = [some [1], some [2], some [48, 49], some [48, 50]] ∧
    ((runSpec [] cs).getD 2 none).bind hexDec = some [1] := by
  decide

/-- non-vacuity of `session_roundtrip`'s hypotheses: slot 0 of `[lit "hi"]` holds bytes -/
example : (runSpec [] [.lit [104, 105]]).getD 0 none = some [104, 105] ∧ IsBytes [104, 105] := by
  constructor
  · rfl
  · intro x hx; simp at hx; omega

end Risor.C19
