import RisorModel.C19.Model
import RisorModel.Generated.C19
/-!
C19 ties: the wrapper inventory regenerated from `modules/strings/strings.go` and
`strings_gen.go` on this run (exported name, Go function called and the order in which the
parameters are passed on, argument converters, result constructor) equals the hand-written
table `stringsSigs` that the theorems in `Props.lean` are stated over.
-/
namespace Risor.C19

theorem stringsSigs_tie : Risor.Generated.C19.stringsSigs = stringsSigs := by decide

end Risor.C19
