import RisorModel.C19.Model
import RisorModel.Generated.C19
import RisorModel.C19.Wide
import RisorModel.Generated.C19Wide
/-!
C19 ties: the wrapper inventory regenerated from `modules/strings/strings.go` and
`strings_gen.go` on this run (exported name, Go function called and the order in which the
parameters are passed on, argument converters, result constructor, the tests the exported
function makes on its parameters before the call) equals the hand-written
table `stringsSigs` that the theorems in `Props.lean` are stated over; and the type switches
of `object.AsBytes` / `object.AsString` regenerated from `object/typeconv.go` send every
argument object to the same kind of case (look / read as a stream / refuse) as the tables
`asBytesCases` / `asStringCases` of the model; and the inventory of the hand-written wrappers
of `modules/regexp` (regexp.go, regexp_object.go) regenerated on this run — per wrapper: name, Go
function, converters, order of the passed values, result constructor, optional argument and its
default, error result handed back as an error value, and the fact `Body.direct`: the body is
ONE call into package regexp on the converted arguments, its result put into the constructor,
and nothing else — equals the reviewed table `rxSigs`.
-/
namespace Risor.C19

theorem stringsSigs_tie : Risor.Generated.C19.stringsSigs = stringsSigs := by decide

/-- every wrapper of modules/regexp as it is in the source on this run is the wrapper of the
    reviewed table — in particular each body is the direct call (`direct_call` fact): a second
    path to a result (a fast path, another library call, a branch on the pattern or on an
    argument) makes the regenerated entry `Body.other` and this tie fail. -/
theorem rxSigs_tie : Risor.Generated.C19.rxSigs = rxSigs := by decide

/-- the inventory of the hand-written wrappers of modules/base64, bytes, filepath, math and
    strconv as regenerated from the source on this run (go/ast + go/types; per wrapper: module,
    name, Go function by package path, converters in argument order, order of the passed values,
    result constructor, arity bounds, defaults of optional arguments, trailing constants of the
    call, error result as an error value, shape of the body) equals the reviewed table `wideSigs`
    that `C19_wide_agree` / `C19_wide_glue` / `C19_wide_no_panic` are stated over.  A wrapper that
    forwards to another Go function, swaps two arguments, drops or changes a converter, changes
    an arity bound, a default or a constant, or grows a second path to a result (its shape
    becomes `.other`) breaks this tie even if no test calls it. -/
theorem wideSigs_tie : Risor.Generated.C19Wide.wideSigs = wideSigs := by decide

/-- `object.AsBytes` as regenerated from object/typeconv.go on this run treats EVERY argument
    object — every value, every buffer, every file — the way the table `asBytesCases` does that
    the argument-object theorems of `Props.lean` are stated over: looked at, read as a stream,
    or refused.  (Stated on the case each object reaches, so the order of cases that cannot
    both match is free; a `*Buffer` reaching the `io.Reader` fallback is not.) -/
theorem asBytesCases_tie : ∀ o : Obj, caseOf Risor.Generated.C19.asBytesCases o = caseOf asBytesCases o := by
  intro o
  cases o with
  | val v => cases v <;> rfl
  | buffer b off => rfl
  | file d pos => rfl

/-- the same for `object.AsString` -/
theorem asStringCases_tie : ∀ o : Obj, caseOf Risor.Generated.C19.asStringCases o = caseOf asStringCases o := by
  intro o
  cases o with
  | val v => cases v <;> rfl
  | buffer b off => rfl
  | file d pos => rfl

end Risor.C19
