import RisorModel.C19.Wide
import RisorModel.C19.Props
/-!
C19, theorems about the wrappers outside modules/strings and modules/regexp (the regenerated
inventory `wideSigs`: modules/base64, bytes, filepath, math, strconv) and about decimal ints.

* `wide_glue_faithful` — for EVERY wrapper row of shape `direct`, every Go function (value,
  error or panic), every list of Go values of the converters' types within the arity bounds: the
  wrapper on the injected values returns `outOfE (f (passed (defaults filled in) ++ constants))`.
* `wide_arity_error`, `wide_type_error`, `wide_no_panic`, `wide_method_forwards`.
* `C19_wide_agree`, `C19_wide_glue`, `C19_wide_no_panic` — the same for every row of the
  regenerated table (tie `wideSigs_tie`).
* `atoi_itoa` — `strconv.atoi(string(i)) = i` for every int64; `atoi_defined_iff`,
  `atoi_rejects_*` — the exact input language of `strconv.Atoi`.
-/
namespace Risor.C19

/-! ## 1. the glue of a hand-written wrapper -/

theorem WSig.fill_inject (w : WSig) (gs : List GoVal) : w.fill (gs.map inject) = (w.complete gs).map inject := by
  simp [WSig.fill, WSig.complete]

/-- WRONG NUMBER OF ARGUMENTS: outside the arity bounds every wrapper (any shape) returns an
    args error, whatever the arguments are. -/
theorem wide_arity_error (w : WSig) (f : GoFunE) (meth : String → List Val → Out) (alt : List Val → Out)
    (args : List Val) (h : args.length < w.min ∨ w.max < args.length) : wWrap w f meth alt args = .argsErr := by
  unfold wWrap; simp [h]

/-- GLUE, all wrappers of shape `direct`, all Go functions, all arguments of the right types:
    called with between `min` and `max` arguments that are the injections of Go values `gs`
    fitting the converters (omitted optional ones taken from the defaults), the wrapper returns
    exactly what the Go function gives on those values in the recorded order followed by the
    recorded constants — its value injected, its `error` as an error value, a panic only if Go
    panics. -/
theorem wide_glue_faithful (w : WSig) (hd : w.shape = .direct) (f : GoFunE) (meth : String → List Val → Out)
    (alt : List Val → Out) (gs : List GoVal) (hmin : w.min ≤ gs.length) (hmax : gs.length ≤ w.max)
    (h : fitsAll w.sig.args (w.complete gs) = true) :
    wWrap w f meth alt (gs.map inject) = outOfE (f (passed w.sig (w.complete gs) ++ w.extra)) := by
  unfold wWrap
  have ha : ¬ ((gs.map inject).length < w.min ∨ w.max < (gs.map inject).length) := by
    simp only [List.length_map]; omega
  rw [if_neg ha, hd]
  simp only [WSig.fill_inject, projectAll_inject _ _ h]

/-- the special case of a call with all `max` arguments: no default is used. -/
theorem wide_glue_faithful_full (w : WSig) (hd : w.shape = .direct) (f : GoFunE) (meth : String → List Val → Out)
    (alt : List Val → Out) (gs : List GoVal) (hmin : w.min ≤ w.max) (hlen : gs.length = w.max)
    (hdef : w.defaults.length + w.min = w.max) (h : fitsAll w.sig.args gs = true) :
    wWrap w f meth alt (gs.map inject) = outOfE (f (passed w.sig gs ++ w.extra)) := by
  have hc : w.complete gs = gs := by
    unfold WSig.complete
    have : w.defaults.length ≤ gs.length - w.min := by omega
    simp [List.drop_eq_nil_of_le this]
  have := wide_glue_faithful w hd f meth alt gs (by omega) (by omega) (by rw [hc]; exact h)
  rw [hc] at this; exact this

/-- TYPE ERRORS ARE VALUES: within the arity bounds, a `direct` wrapper whose converters do not
    all accept their arguments returns a type error, and the Go function is not called. -/
theorem wide_type_error (w : WSig) (hd : w.shape = .direct) (f : GoFunE) (meth : String → List Val → Out)
    (alt : List Val → Out) (args : List Val) (hmin : w.min ≤ args.length) (hmax : args.length ≤ w.max)
    (h : projectAll w.sig.args (w.fill args) = none) : wWrap w f meth alt args = .typeErr := by
  unfold wWrap
  have ha : ¬ (args.length < w.min ∨ w.max < args.length) := by omega
  rw [if_neg ha, hd]
  simp only [h]

/-- ERRORS, NOT PANICS: a `direct` wrapper around a Go function that does not panic never
    panics — for any number and any types of arguments. -/
theorem wide_no_panic (w : WSig) (hd : w.shape = .direct) (f : GoFunE) (hf : ∀ gs, f gs ≠ .panic)
    (meth : String → List Val → Out) (alt : List Val → Out) (args : List Val) :
    wWrap w f meth alt args ≠ .panic := by
  unfold wWrap
  split
  · simp
  · rw [hd]
    simp only
    split
    · simp
    · rename_i gs _
      cases hfg : f (passed w.sig gs ++ w.extra) with
      | val r => simp [outOfE]
      | error => simp [outOfE]
      | panic => exact absurd hfg (hf _)

/-- THE BYTES MODULE FORWARDS: a wrapper of shape `method m` called with the right number of
    arguments and a byte_slice first returns exactly what the method `m` of that byte_slice
    returns on the remaining arguments; with anything else first, a type error. -/
theorem wide_method_forwards (w : WSig) (m : String) (hs : w.shape = .method m) (f : GoFunE)
    (meth : String → List Val → Out) (alt : List Val → Out) (b : Bytes) (rest : List Val)
    (hmin : w.min ≤ rest.length + 1) (hmax : rest.length + 1 ≤ w.max) :
    wWrap w f meth alt (.bytes b :: rest) = meth m (.bytes b :: rest) := by
  unfold wWrap
  have ha : ¬ ((Val.bytes b :: rest).length < w.min ∨ w.max < (Val.bytes b :: rest).length) := by
    simp only [List.length_cons]; omega
  rw [if_neg ha, hs]

theorem wide_method_type_error (w : WSig) (m : String) (hs : w.shape = .method m) (f : GoFunE)
    (meth : String → List Val → Out) (alt : List Val → Out) (s : Bytes) (rest : List Val)
    (hmin : w.min ≤ rest.length + 1) (hmax : rest.length + 1 ≤ w.max) :
    wWrap w f meth alt (.str s :: rest) = .typeErr := by
  unfold wWrap
  have ha : ¬ ((Val.str s :: rest).length < w.min ∨ w.max < (Val.str s :: rest).length) := by
    simp only [List.length_cons]; omega
  rw [if_neg ha, hs]

/-! ## 2. the regenerated inventory -/

/-- every `direct` row of the inventory is well-formed: as many converters as the upper arity
    bound, one default per optional argument and each default of its converter's type, every
    passed position inside the converter list -/
theorem wideSigs_wf : ∀ w ∈ wideSigs, w.shape = .direct →
    w.min ≤ w.max ∧ w.defaults.length + w.min = w.max ∧ w.sig.args.length = w.max ∧
    w.sig.pass.all (· < w.sig.args.length) = true ∧ fitsAll (w.sig.args.drop w.min) w.defaults = true ∧
    w.sig.pre = [] := by decide

/-- FULL STATEMENT for the wrappers of modules/filepath, math, strconv whose body is the direct
    call: for every Go behaviour (value, error, panic), whatever a method or any other body would
    compute, and every argument list, the wrapper returns what the Spec demands. -/
def C19_full_wide_agree : Prop :=
  ∀ w ∈ wideSigs, w.shape = .direct → ∀ (f : GoFunE) (meth : String → List Val → Out) (alt : List Val → Out)
    (args : List Val), wWrap w f meth alt args = wSpec w f args

theorem C19_wide_agree : C19_full_wide_agree := by
  intro w _ hd f meth alt args
  unfold wSpec wWrap
  simp only [hd, WSig.fill]

/-- every `direct` row of the regenerated inventory satisfies the glue statement: called with
    all its arguments, the injections of Go values of the converters' types, it returns
    `outOfE (f (those values in the recorded order ++ the recorded constants))`. -/
theorem C19_wide_glue : ∀ w ∈ wideSigs, w.shape = .direct → ∀ (f : GoFunE) (meth : String → List Val → Out)
    (alt : List Val → Out) (gs : List GoVal), gs.length = w.max → fitsAll w.sig.args gs = true →
    wWrap w f meth alt (gs.map inject) = outOfE (f (passed w.sig gs ++ w.extra)) := by
  intro w hw hd f meth alt gs hlen h
  have wf := wideSigs_wf w hw hd
  exact wide_glue_faithful_full w hd f meth alt gs wf.1 hlen wf.2.1 h

/-- and with optional arguments omitted: the defaults recorded in the row are what the Go
    function receives (`strconv.parse_int(s)` is `strconv.ParseInt(s, 10, 64)`, `math.inf()` is
    `math.Inf(1)`). -/
theorem C19_wide_glue_defaults : ∀ w ∈ wideSigs, w.shape = .direct → ∀ (f : GoFunE) (meth : String → List Val → Out)
    (alt : List Val → Out) (gs : List GoVal), w.min ≤ gs.length → gs.length ≤ w.max →
    fitsAll w.sig.args (w.complete gs) = true →
    wWrap w f meth alt (gs.map inject) = outOfE (f (passed w.sig (w.complete gs) ++ w.extra)) :=
  fun w _ hd f meth alt gs h1 h2 h => wide_glue_faithful w hd f meth alt gs h1 h2 h

/-- no `direct` wrapper of the inventory panics unless the Go function does. -/
theorem C19_wide_no_panic : ∀ w ∈ wideSigs, w.shape = .direct → ∀ (f : GoFunE), (∀ gs, f gs ≠ .panic) →
    ∀ (meth : String → List Val → Out) (alt : List Val → Out) (args : List Val), wWrap w f meth alt args ≠ .panic :=
  fun w _ hd f hf meth alt args => wide_no_panic w hd f hf meth alt args

/-- SENSITIVITY: a wrapper that hands its two converted arguments to the Go function in the
    other order does not satisfy the glue statement of its row (`math.atan2(y, x)`). -/
theorem wide_swapped_arguments_break_glue :
    let w : WSig := ⟨"math", ⟨"atan2", "math.Atan2", [.float, .float], [0, 1], .float, []⟩, 2, 2, [], [], false, .direct⟩
    let w' : WSig := { w with sig := { w.sig with pass := [1, 0] } }
    let f : GoFunE := fun gs => .val (gs.headD (.bool false))
    let gs : List GoVal := [.float 1, .float 2]
    findWide "math" "atan2" = some w ∧ fitsAll w.sig.args gs = true ∧
    wWrap w' f (fun _ _ => .panic) (fun _ => .panic) (gs.map inject) = .val (.float 2) ∧
    outOfE (f (passed w.sig gs ++ w.extra)) = .val (.float 1) := by
  refine ⟨by decide, by decide, ?_, ?_⟩ <;> rfl

example : (findWide "strconv" "parse_int").map (fun w => w.complete [.str [55]]) = some [.str [55], .int 10, .int 64] := by decide
example : (findWide "strconv" "parse_float").map (fun w =>
    wWrap w (fun gs => .val (.strs (gs.map fun _ => []))) (fun _ _ => .panic) (fun _ => .panic) [.str [49]])
    = some (.val (.list (.cons (.str []) (.cons (.str []) .nil)))) := by rfl
example : (findWide "math" "max").map (fun w => fitsAll w.sig.args [.float 0, .float 1]) = some true := by decide
example : (findWide "bytes" "replace").map (·.shape) = some (.method "Replace") := by decide
example : (wideSigs.filter (·.shape == .direct)).length = 23 ∧ wideSigs.length = 55 := by decide

/-! ## 3. decimal ints: `strconv.atoi(string(i)) = i` -/

theorem natOfDigits_snoc (ds : Bytes) (d : Nat) : natOfDigits (ds ++ [d]) = natOfDigits ds * 10 + (d - 48) := by
  simp [natOfDigits, List.foldl_append]

theorem natDigits_spec : ∀ (f n : Nat), n < f →
    natOfDigits (natDigits f n) = n ∧ (natDigits f n).all isDigitB = true ∧ natDigits f n ≠ []
  | 0, n, h => by omega
  | f + 1, n, h => by
    unfold natDigits
    split
    · rename_i hn
      refine ⟨by simp [natOfDigits], ?_, by simp⟩
      simp [isDigitB]; omega
    · rename_i hn
      have ih := natDigits_spec f (n / 10) (by omega)
      refine ⟨?_, ?_, by simp⟩
      · rw [natOfDigits_snoc, ih.1]; omega
      · rw [List.all_append, ih.2.1]
        simp [isDigitB]; omega

/-- the first digit printed is never a sign character (so `splitSign` leaves the text alone) -/
theorem natDigits_head : ∀ (f n : Nat), n < f → ∃ c r, natDigits f n = c :: r ∧ 48 ≤ c
  | 0, n, h => by omega
  | f + 1, n, h => by
    unfold natDigits
    split
    · exact ⟨48 + n, [], rfl, by omega⟩
    · obtain ⟨c, r, hc, h48⟩ := natDigits_head f (n / 10) (by omega)
      exact ⟨c, r ++ [48 + n % 10], by rw [hc]; rfl, h48⟩

theorem splitSign_digits (n : Nat) : splitSign (itoaNat n) = (false, itoaNat n) := by
  obtain ⟨c, r, hc, h48⟩ := natDigits_head (n + 1) n (by omega)
  unfold itoaNat
  rw [hc]
  unfold splitSign
  split
  · rename_i heq; injection heq with h1 _; omega
  · rename_i heq; injection heq with h1 _; omega
  · rfl

/-- ROUND TRIP, every int64 (negative, zero, positive, both boundaries): parsing the decimal
    text that `string(i)` prints gives back `i`.  The 64-bit range is the explicit hypothesis
    (an `*object.Int` holds an int64; outside it `strconv.Atoi` reports `value out of range`,
    `atoi_rejects_range`). -/
theorem atoi_itoa (i : Int) (hlo : minInt64 ≤ i) (hhi : i ≤ maxInt64) : atoi (itoa i) = some i := by
  have spec := natDigits_spec (i.natAbs + 1) i.natAbs (by omega)
  unfold itoa
  split
  · rename_i hneg
    have hs : splitSign (45 :: itoaNat i.natAbs) = (true, itoaNat i.natAbs) := rfl
    have hv : atoiValue (45 :: itoaNat i.natAbs) = i := by
      unfold atoiValue; rw [hs]; simp only [if_true]
      unfold itoaNat; rw [spec.1]; omega
    unfold atoi atoiSyntax
    rw [hs, hv]
    simp [itoaNat, spec.2.1, spec.2.2, hlo, hhi]
  · rename_i hpos
    have hs := splitSign_digits i.natAbs
    have hv : atoiValue (itoaNat i.natAbs) = i := by
      unfold atoiValue; rw [hs]; simp only [Bool.false_eq_true, if_false]
      unfold itoaNat; rw [spec.1]; omega
    unfold atoi atoiSyntax
    rw [hs, hv]
    simp [itoaNat, spec.2.1, spec.2.2, hlo, hhi]

/-- the text `string(i)` prints is inside atoi's syntax: digits only after an optional `-` -/
theorem itoa_syntax (i : Int) : atoiSyntax (itoa i) = true := by
  have spec := natDigits_spec (i.natAbs + 1) i.natAbs (by omega)
  unfold itoa
  split
  · have hs : splitSign (45 :: itoaNat i.natAbs) = (true, itoaNat i.natAbs) := rfl
    unfold atoiSyntax; rw [hs]
    simp [itoaNat, spec.2.1, spec.2.2]
  · unfold atoiSyntax; rw [splitSign_digits]
    simp [itoaNat, spec.2.1, spec.2.2]

/-- EXACT INPUT LANGUAGE: `strconv.atoi` answers with a number exactly on the texts that are an
    optional sign followed by at least one ASCII digit and nothing else, and whose value fits an
    int64; the number is then that value.  Everything else is an error value. -/
theorem atoi_defined_iff (s : Bytes) (i : Int) :
    atoi s = some i ↔ (atoiSyntax s = true ∧ minInt64 ≤ atoiValue s ∧ atoiValue s ≤ maxInt64 ∧ i = atoiValue s) := by
  unfold atoi
  constructor
  · intro h
    split at h
    · rename_i hs
      split at h
      · rename_i hr; injection h with h; exact ⟨hs, hr.1, hr.2, h.symm⟩
      · cases h
    · cases h
  · intro ⟨hs, hlo, hhi, hi⟩
    rw [if_pos hs, if_pos ⟨hlo, hhi⟩, hi]

/-- the empty text and a lone sign are rejected -/
theorem atoi_rejects_empty : atoi [] = none ∧ atoi [43] = none ∧ atoi [45] = none := by decide

/-- a byte that is not an ASCII digit anywhere after the optional sign — a space, an
    underscore, a second sign, a letter, a non-ASCII byte — makes atoi reject -/
theorem atoi_rejects_nondigit (s : Bytes) (c : Nat) (hc : c ∈ (splitSign s).2) (hd : isDigitB c = false) :
    atoi s = none := by
  unfold atoi
  have : atoiSyntax s = false := by
    unfold atoiSyntax
    have : (splitSign s).2.all isDigitB = false := by
      rw [Bool.eq_false_iff]; intro h
      rw [List.all_eq_true] at h
      have := h c hc; rw [hd] at this; cases this
    simp [this]
  simp [this]

/-- a well-formed text whose value does not fit an int64 is rejected (Go: `value out of range`) -/
theorem atoi_rejects_range (s : Bytes) (h : atoiValue s < minInt64 ∨ maxInt64 < atoiValue s) : atoi s = none := by
  unfold atoi
  split
  · have : ¬ (minInt64 ≤ atoiValue s ∧ atoiValue s ≤ maxInt64) := by omega
    rw [if_neg this]
  · rfl

/-- leading zeros are accepted and do not change the value: atoi is NOT injective, so the
    other composition `string(atoi(s)) = s` does not hold (`"+7"`, `"007"`, `"-0"` all parse) -/
theorem atoi_not_injective :
    atoi [48, 48, 55] = some 7 ∧ atoi [43, 55] = some 7 ∧ atoi [45, 48] = some 0 ∧ itoa 7 = [55] ∧ itoa 0 = [48] := by decide

/-- the boundaries: the smallest and the largest int64 round-trip, one beyond either is rejected -/
theorem atoi_boundaries :
    atoi (itoa minInt64) = some minInt64 ∧ atoi (itoa maxInt64) = some maxInt64 ∧
    atoi [57, 50, 50, 51, 51, 55, 50, 48, 51, 54, 56, 53, 52, 55, 55, 53, 56, 48, 56] = none ∧
    atoi [45, 57, 50, 50, 51, 51, 55, 50, 48, 51, 54, 56, 53, 52, 55, 55, 53, 56, 48, 57] = none :=
  ⟨atoi_itoa _ (by decide) (by decide), atoi_itoa _ (by decide) (by decide),
   atoi_rejects_range _ (by decide), atoi_rejects_range _ (by decide)⟩

example : itoa (-120) = [45, 49, 50, 48] := by decide
example : atoi [45, 49, 50, 48] = some (-120) := by decide
example : minInt64 ≤ (-5 : Int) ∧ (-5 : Int) ≤ maxInt64 := by decide

end Risor.C19
