import RisorModel.Util
/-! Line-protocol front end of the C19 model (stub until the model exists). -/
namespace Risor.C19

def handle : List String → String
  | _ => "error\tnot-implemented"

end Risor.C19
