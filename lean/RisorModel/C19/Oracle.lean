import RisorModel.Util
import RisorModel.C19.Model
import RisorModel.C19.Wide
/-!
Line-protocol front end of the C19 model (requests after the leading `C19` field).

Values travel as space-separated tokens in prefix notation:
`n` nil, `t`/`f` bool, `i<decimal>` int, `d<decimal>` float (IEEE bits), `y<n>` byte,
`s<hex>` string, `b<hex>` byte_slice (`-` for empty), `l<count>` list (items follow),
`m<count>` map (`s<hex>` key and value pairs follow, ascending raw keys).

`session` requests carry space-separated steps `L<hex>` / `E:<codec>:<slot>` / `D:<codec>:<slot>`;
the reply is every slot (hex of its bytes, or `err`) as it looks at the end in the heap model.
-/
namespace Risor.C19
open Risor.Util

def natOfChars (cs : List Char) : Option Nat :=
  if cs.isEmpty then none else
  cs.foldl (fun acc c => match acc with
    | none => none
    | some n => if c.isDigit then some (n * 10 + (c.toNat - 48)) else none) (some 0)

def intOfChars : List Char → Option Int
  | '-' :: cs => (natOfChars cs).map fun n => -(Int.ofNat n)
  | cs => (natOfChars cs).map Int.ofNat

mutual
  def parseVal : Nat → List String → Option (Val × List String)
    | 0, _ => none
    | _, [] => none
    | fuel + 1, tok :: rest =>
      match tok.toList with
      | ['n'] => some (.nil, rest)
      | ['t'] => some (.bool true, rest)
      | ['f'] => some (.bool false, rest)
      | 'i' :: cs => (intOfChars cs).map fun i => (.int i, rest)
      | 'd' :: cs => (natOfChars cs).map fun n => (.float n, rest)
      | 'y' :: cs => (natOfChars cs).map fun n => (.byte n, rest)
      | 's' :: cs => (fromHex (String.ofList cs)).map fun b => (.str b, rest)
      | 'b' :: cs => (fromHex (String.ofList cs)).map fun b => (.bytes b, rest)
      | 'l' :: cs =>
        match natOfChars cs with
        | some n => (parseVals fuel n rest).map fun (xs, r) => (.list xs, r)
        | none => none
      | 'm' :: cs =>
        match natOfChars cs with
        | some n => (parseKVs fuel n rest).map fun (xs, r) => (.map xs, r)
        | none => none
      | _ => none
  def parseVals : Nat → Nat → List String → Option (Vals × List String)
    | 0, _, _ => none
    | _, 0, rest => some (.nil, rest)
    | fuel + 1, n + 1, rest =>
      match parseVal fuel rest with
      | some (v, r) => (parseVals fuel n r).map fun (vs, r') => (.cons v vs, r')
      | none => none
  def parseKVs : Nat → Nat → List String → Option (KVs × List String)
    | 0, _, _ => none
    | _, 0, rest => some (.nil, rest)
    | fuel + 1, n + 1, rest =>
      match rest with
      | ktok :: rest' =>
        match ktok.toList with
        | 's' :: cs =>
          match fromHex (String.ofList cs), parseVal fuel rest' with
          | some k, some (v, r) => (parseKVs fuel n r).map fun (kvs, r') => (.cons k v kvs, r')
          | _, _ => none
        | _ => none
      | [] => none
end

def parseField (s : String) : Option Val :=
  let toks := (s.splitOn " ").filter (· ≠ "")
  match parseVal (2 * toks.length + 4) toks with
  | some (v, []) => some v
  | _ => none

def Vals.length : Vals → Nat
  | .nil => 0
  | .cons _ r => Vals.length r + 1
def KVs.length : KVs → Nat
  | .nil => 0
  | .cons _ _ r => KVs.length r + 1

def showInt (i : Int) : String := if i < 0 then "-" ++ toString i.natAbs else toString i.natAbs

mutual
  def showVal : Val → String
    | .nil => "n"
    | .bool true => "t"
    | .bool false => "f"
    | .int i => "i" ++ showInt i
    | .float b => "d" ++ toString b
    | .byte n => "y" ++ toString n
    | .str s => "s" ++ toHexField s
    | .bytes s => "b" ++ toHexField s
    | .list xs => "l" ++ toString (Vals.length xs) ++ showVals xs
    | .map kvs => "m" ++ toString (KVs.length kvs) ++ showKVs kvs
  def showVals : Vals → String
    | .nil => ""
    | .cons v r => " " ++ showVal v ++ showVals r
  def showKVs : KVs → String
    | .nil => ""
    | .cons k v r => " s" ++ toHexField k ++ " " ++ showVal v ++ showKVs r
end

def showOpt : Option Val → String
  | some v => showVal v
  | none => "err"

def Vals.toList : Vals → List Val
  | .nil => []
  | .cons v r => v :: Vals.toList r

mutual
  def anyNonExactInt : Val → Bool
    | .int i => !intExact i
    | .list xs => anyNonExactInts xs
    | .map kvs => anyNonExactIntk kvs
    | _ => false
  def anyNonExactInts : Vals → Bool
    | .nil => false
    | .cons v r => anyNonExactInt v || anyNonExactInts r
  def anyNonExactIntk : KVs → Bool
    | .nil => false
    | .cons _ v r => anyNonExactInt v || anyNonExactIntk r
end

mutual
  def anyBadUtf8 : Val → Bool
    | .str s => !validUtf8 s
    | .bytes s => !validUtf8 s
    | .list xs => anyBadUtf8s xs
    | .map kvs => anyBadUtf8k kvs
    | _ => false
  def anyBadUtf8s : Vals → Bool
    | .nil => false
    | .cons v r => anyBadUtf8 v || anyBadUtf8s r
  def anyBadUtf8k : KVs → Bool
    | .nil => false
    | .cons k v r => !validUtf8 k || anyBadUtf8 v || anyBadUtf8k r
end

def flags (v : Val) : String :=
  let fs := (if isNil v then ["nil"] else []) ++ (if noBytes v then [] else ["bytes"]) ++
    (if anyNonExactInt v then ["int"] else []) ++ (if anyBadUtf8 v then ["utf8"] else [])
  if fs.isEmpty then "-" else ",".intercalate fs

def parseCodec (s : String) : Option (Bytes → Bytes) × Option (Bytes → Option Bytes) :=
  match s with
  | "hex" => (some hexEnc, some hexDec)
  | "base64" => (some (b64Enc false true), some (b64Dec false true))
  | "base32" => (some b32Enc, some b32Dec)
  | "urlquery" => (some qEsc, some qUnesc)
  | "b64-std-pad" => (some (b64Enc false true), some (b64Dec false true))
  | "b64-std-raw" => (some (b64Enc false false), some (b64Dec false false))
  | "b64-url-pad" => (some (b64Enc true true), some (b64Dec true true))
  | "b64-url-raw" => (some (b64Enc true false), some (b64Dec true false))
  | _ => (none, none)

def showOut : Out → String
  | .val v => "val\t" ++ showVal v
  | .argsErr => "argsErr"
  | .typeErr => "typeErr"
  | .err => "err"
  | .panic => "panic"

def goValOf : Val → Option GoVal
  | .str s => some (.str s)
  | .int i => some (.int i)
  | .bool b => some (.bool b)
  | .list xs => (Vals.toStrs xs).map .strs
  | .bytes s => some (.bytes s)
  | .float b => some (.float b)
  | _ => none

/-- one step of a session: `L<hex>` literal, `E:<codec>:<slot>` encode, `D:<codec>:<slot>` decode -/
def parseCall (tok : String) : Option Call :=
  match tok.toList with
  | 'L' :: cs => (fromHex (String.ofList cs)).map .lit
  | 'E' :: ':' :: _ =>
    match tok.splitOn ":" with
    | [_, c, i] =>
      match (parseCodec c).1, natOfChars i.toList with
      | some f, some n => some (.app (fun b => some (f b)) n)
      | _, _ => none
    | _ => none
  | 'D' :: ':' :: _ =>
    match tok.splitOn ":" with
    | [_, c, i] =>
      match (parseCodec c).2, natOfChars i.toList with
      | some f, some n => some (.app f n)
      | _, _ => none
    | _ => none
  | _ => none

def parseCalls : List String → Option (List Call)
  | [] => some []
  | t :: r =>
    match parseCall t, parseCalls r with
    | some c, some cs => some (c :: cs)
    | _, _ => none

def showSlot : Option Bytes → String
  | some b => toHexField b
  | none => "err"


/-! ### argument objects (`uses` requests)

Objects are separated by `|`: a value in the token notation above, `B<hex>:<off>` a buffer
(all bytes written, read offset), `F<hex>:<pos>` a file.  Steps are separated by `|`:
`<convs>:<refs>` with one converter letter per parameter (`s` AsString, `b` AsBytes, `i` AsInt,
`o` AsBool, `l` AsStringSlice) and comma-separated object indices.  The reply is, per step, the
Go values the wrapped function is handed (`s<hex>`/`b<hex>`/… separated by spaces) or
`typeErr`, then a TAB, then the CONTENTS of every object at the end (`B<hex>`/`F<hex>` = the
unread part). -/

def parseStateful (mk : Bytes → Nat → Obj) (cs : List Char) : Option Obj :=
  match (String.ofList cs).splitOn ":" with
  | [hx, n] =>
    match fromHex hx, natOfChars n.toList with
    | some b, some k => some (mk b k)
    | _, _ => none
  | _ => none

def parseObj (s : String) : Option Obj :=
  match s.toList with
  | 'B' :: cs => parseStateful .buffer cs
  | 'F' :: cs => parseStateful .file cs
  | _ => (parseField s).map .val

def parseAll {α : Type} (f : String → Option α) : List String → Option (List α)
  | [] => some []
  | t :: r =>
    match f t, parseAll f r with
    | some c, some cs => some (c :: cs)
    | _, _ => none

def convOfChar : Char → Option Conv
  | 's' => some .str
  | 'b' => some .bytes
  | 'i' => some .int
  | 'o' => some .bool
  | 'l' => some .strList
  | _ => none

def parseStep (s : String) : Option (List Conv × List Nat) :=
  match s.splitOn ":" with
  | [cs, rs] =>
    match parseAll (fun c => convOfChar (c.toList.headD ' ')) (cs.toList.map fun c => String.singleton c),
          parseAll (fun r => natOfChars r.toList) (rs.splitOn ",") with
    | some cs, some rs => some (cs, rs)
    | _, _ => none
  | _ => none

def showGoVal : GoVal → String
  | .str s => "s" ++ toHexField s
  | .bytes s => "b" ++ toHexField s
  | .int i => "i" ++ showInt i
  | .bool b => if b then "t" else "f"
  | .strs l => "l" ++ toString l.length ++ String.join (l.map fun s => " s" ++ toHexField s)
  | .float b => "d" ++ toString b

def showContents : Obj → String
  | .val v => showVal v
  | .buffer b off => "B" ++ toHexField (unread b off)
  | .file d pos => "F" ++ toHexField (unread d pos)

/-- a sequence of converter tuples over one heap of objects, with the unchanged code's `AsBytes` -/
def runConvs (h : Objs) : List (List Conv × List Nat) → List String × Objs
  | [] => ([], h)
  | st :: r =>
    let c := convRefs .peek st.1 st.2 h
    let t := runConvs c.2 r
    ((match c.1 with
      | some gs => " ".intercalate (gs.map showGoVal)
      | none => "typeErr") :: t.1, t.2)

def handle : List String → String
  | ["session", calls] =>
    -- the Impl heap model with the unchanged code's allocation policy; every slot as it looks
    -- at the END of the session
    match parseCalls ((calls.splitOn " ").filter (· ≠ "")) with
    | some cs => " ".intercalate ((runImpl fresh Mem.empty cs).observe.map showSlot)
    | none => "error\tbad-session"
  | ["uses", objs, steps] =>
    match parseAll parseObj (objs.splitOn "|"), parseAll parseStep (steps.splitOn "|") with
    | some h, some ss =>
      let r := runConvs h ss
      "|".intercalate r.1 ++ "\t" ++ "|".intercalate (r.2.map showContents)
    | _, _ => "error\tbad-uses"
  | ["enc", c, x] =>
    match (parseCodec c).1, fromHex x with
    | some f, some b => toHexField (f b)
    | _, _ => "error\tbad-request"
  | ["dec", c, x] =>
    match (parseCodec c).2, fromHex x with
    | some f, some b =>
      match f b with
      | some r => "ok\t" ++ toHexField r
      | none => "reject"
    | _, _ => "error\tbad-request"
  | ["json", v] =>
    match parseField v with
    | some v =>
      showOpt (codecRoundtrip v) ++ "\t" ++ showOpt (marshalRoundtrip v) ++ "\t" ++
        toString (showOpt (encCodec v) == showOpt (encM v)) ++ "\t" ++ toString (codecOk v) ++ "\t" ++ flags v
    | none => "error\tbad-value"
  | ["glue", name, args, res] =>
    match findSig name, parseField args with
    | some sig, some (.list xs) =>
      let f : GoFun := fun _ =>
        if res = "panic" then none else (parseField res).bind goValOf
      showOut (wrap sig f (Vals.toList xs))
    | none, _ => "nosig"
    | _, _ => "error\tbad-value"
  | ["rxglue", name, args, res] =>
    -- a wrapper of modules/regexp (for a method the receiver — the source of the compiled
    -- pattern — is the first argument) around a Go call whose outcome is `res`:
    -- `panic`, `error`, or a value
    match findRx name, parseField args with
    | some w, some (.list xs) =>
      let f : GoFunE := fun _ =>
        if res = "panic" then .panic
        else if res = "error" then .error
        else match (parseField res).bind goValOf with
          | some g => .val g
          | none => .panic
      showOut (rxWrap w f (fun _ => .panic) (Vals.toList xs))
    | none, _ => "nosig"
    | _, _ => "error\tbad-value"
  | ["expand", tmpl, groups, names] =>
    -- Go's template expansion for one match: groups `n` (took no part) / `s<hex>`, names `s<hex>`
    let grp : String → Option (Option Bytes) := fun t =>
      match t.toList with
      | ['n'] => some none
      | 's' :: cs => (fromHex (String.ofList cs)).map some
      | _ => none
    let nm : String → Option Bytes := fun t =>
      match t.toList with
      | 's' :: cs => fromHex (String.ofList cs)
      | _ => none
    match fromHex tmpl, parseAll grp ((groups.splitOn " ").filter (· ≠ "")), parseAll nm ((names.splitOn " ").filter (· ≠ "")) with
    | some t, some gs, some ns => toHexField (expand gs ns t)
    | _, _, _ => "error\tbad-request"
  | ["replit", subj, lit, repl] =>
    -- ReplaceAllString for a non-empty literal pattern, and strings.ReplaceAll beside it
    match fromHex subj, fromHex lit, fromHex repl with
    | some s, some l, some r => toHexField (regexpReplaceAllLit s l r) ++ "\t" ++ toHexField (stringsReplaceAll s l r)
    | _, _, _ => "error\tbad-request"
  | ["wglue", mod, name, args, res] =>
    -- a hand-written wrapper of the wider inventory around a Go call whose outcome is `res`
    -- (`panic`, `error`, or a value); a byte_slice method and a body of shape `other` are
    -- not modelled further: they answer `val n` here and the reply names the shape
    match findWide mod name, parseField args with
    | some w, some (.list xs) =>
      let f : GoFunE := fun _ =>
        if res = "panic" then .panic
        else if res = "error" then .error
        else match (parseField res).bind goValOf with
          | some g => .val g
          | none => .panic
      let tag := match w.shape with
        | .direct => "direct"
        | .method m => "method:" ++ m
        | .other => "other"
      tag ++ "\t" ++ showOut (wWrap w f (fun _ _ => .val .nil) (fun _ => .val .nil) (Vals.toList xs))
    | none, _ => "nosig"
    | _, _ => "error\tbad-value"
  | ["winv"] =>
    " ".intercalate (wideSigs.map fun w => w.mod ++ "." ++ w.sig.name ++ ":" ++
      (match w.shape with | .direct => "direct" | .method _ => "method" | .other => "other"))
  | ["itoa", i] =>
    match intOfChars i.toList with
    | some i => toHexField (itoa i)
    | none => "error\tbad-int"
  | ["atoi", x] =>
    match fromHex x with
    | some b =>
      match atoi b with
      | some i => "ok\t" ++ showInt i
      | none => "reject"
    | none => "error\tbad-hex"
  | ["panics", name, args] =>
    match findSig name, parseField args with
    | some sig, some (.list xs) =>
      match projectAll sig.args (Vals.toList xs) with
      | some gs => toString (goPanics sig.go gs)
      | none => "false"
    | _, _ => "error\tbad-value"
  | ["runearg", x] =>
    match fromHex x with
    | some b => toString (runeArgOK b)
    | none => "error\tbad-hex"
  | ["absbits", n] =>
    match natOfChars n.toList with
    | some b => toString (absBits b)
    | none => "error\tbad-nat"
  | ["f64", i] =>
    match intOfChars i.toList with
    | some i => toString (f64OfInt i) ++ "\t" ++ toString (intExact i)
    | none => "error\tbad-int"
  | ["sanitize", x] =>
    match fromHex x with
    | some b => toHexField (sanitize b)
    | none => "error\tbad-hex"
  | _ => "error\tunknown-request"

end Risor.C19
