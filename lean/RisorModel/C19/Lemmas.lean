import RisorModel.C19.Model
/-!
C19 — helper lemmas: digit tables (by exhaustive `decide` over the finite alphabets), the
quantum-by-quantum inversion lemmas of the codecs, rejection lemmas, and the mutual
inductions over script values used by the json theorems.  The property statements
themselves are in `Props.lean`.
-/
namespace Risor.C19


theorem hexVal_hexDig : ∀ n, n < 16 → hexVal (hexDig n) = some n := by decide

theorem hexDec_hexEnc : ∀ (b : Bytes), (∀ x ∈ b, x < 256) → hexDec (hexEnc b) = some b
  | [], _ => rfl
  | a :: r, h => by
    have ih := hexDec_hexEnc r (fun x hx => h x (by simp [hx]))
    have ha : a < 256 := h a (by simp)
    simp only [hexEnc, hexDec, hexVal_hexDig (a / 16) (by omega), hexVal_hexDig (a % 16) (by omega), ih]
    congr 2
    omega

theorem b64Val_b64Char (url : Bool) : ∀ n, n < 64 → b64Val url (b64Char url n) = some n := by
  cases url <;> decide

theorem b64Val_pad (url : Bool) : b64Val url 61 = none := by cases url <;> decide

theorem notNewline_b64Char (url : Bool) : ∀ n, n < 64 → notNewline (b64Char url n) = true := by
  cases url <;> decide

theorem b64Groups_enc (url pad : Bool) :
    ∀ (b : Bytes), (∀ x ∈ b, x < 256) → b64Groups url pad (b64Enc url pad b) = some b
  | [], _ => by simp [b64Enc, b64Groups]
  | [a], h => by
    have ha : a < 256 := h a (by simp)
    cases pad
    · simp [b64Enc, b64Groups, padding, b64Val_b64Char url (a / 4) (by omega), b64Val_b64Char url (a % 4 * 16) (by omega)]
      omega
    · simp [b64Enc, b64Groups, padding, List.replicate, b64Val_pad, b64Val_b64Char url (a / 4) (by omega), b64Val_b64Char url (a % 4 * 16) (by omega)]
      omega
  | [a, b], h => by
    have ha : a < 256 := h a (by simp)
    have hb : b < 256 := h b (by simp)
    cases pad
    · simp [b64Enc, b64Groups, padding, b64Val_b64Char url (a / 4) (by omega), b64Val_b64Char url (a % 4 * 16 + b / 16) (by omega),
        b64Val_b64Char url (b % 16 * 4) (by omega)]
      omega
    · simp [b64Enc, b64Groups, padding, List.replicate, b64Val_pad, b64Val_b64Char url (a / 4) (by omega), b64Val_b64Char url (a % 4 * 16 + b / 16) (by omega),
        b64Val_b64Char url (b % 16 * 4) (by omega)]
      omega
  | a :: b :: c :: r, h => by
    have ih := b64Groups_enc url pad r (fun x hx => h x (by simp [hx]))
    have ha : a < 256 := h a (by simp)
    have hb : b < 256 := h b (by simp)
    have hc : c < 256 := h c (by simp)
    simp [b64Enc, b64Groups, ih, b64Val_b64Char url (a / 4) (by omega), b64Val_b64Char url (a % 4 * 16 + b / 16) (by omega),
        b64Val_b64Char url (b % 16 * 4 + c / 64) (by omega), b64Val_b64Char url (c % 64) (by omega)]
    omega


theorem stripNL_cons_keep (c : Nat) (s : Bytes) (h : notNewline c = true) :
    stripNL (c :: s) = c :: stripNL s := by
  simp [stripNL, List.filter, h]

theorem stripNL_padding (pad : Bool) (n : Nat) : stripNL (padding pad n) = padding pad n := by
  cases pad
  · rfl
  · simp only [padding, stripNL, if_true]
    exact List.filter_eq_self.2 (fun c hc => by rw [List.eq_of_mem_replicate hc]; rfl)

theorem stripNL_b64Enc (url pad : Bool) :
    ∀ (b : Bytes), (∀ x ∈ b, x < 256) → stripNL (b64Enc url pad b) = b64Enc url pad b
  | [], _ => by simp [b64Enc, stripNL]
  | [a], h => by
    have ha : a < 256 := h a (by simp)
    simp only [b64Enc]
    rw [stripNL_cons_keep _ _ (notNewline_b64Char url _ (by omega)), stripNL_cons_keep _ _ (notNewline_b64Char url _ (by omega)),
      stripNL_padding]
  | [a, b], h => by
    have ha : a < 256 := h a (by simp)
    have hb : b < 256 := h b (by simp)
    simp only [b64Enc]
    rw [stripNL_cons_keep _ _ (notNewline_b64Char url _ (by omega)), stripNL_cons_keep _ _ (notNewline_b64Char url _ (by omega)),
      stripNL_cons_keep _ _ (notNewline_b64Char url _ (by omega)), stripNL_padding]
  | a :: b :: c :: r, h => by
    have ih := stripNL_b64Enc url pad r (fun x hx => h x (by simp [hx]))
    have ha : a < 256 := h a (by simp)
    have hb : b < 256 := h b (by simp)
    have hc : c < 256 := h c (by simp)
    simp only [b64Enc]
    rw [stripNL_cons_keep _ _ (notNewline_b64Char url _ (by omega)), stripNL_cons_keep _ _ (notNewline_b64Char url _ (by omega)),
      stripNL_cons_keep _ _ (notNewline_b64Char url _ (by omega)), stripNL_cons_keep _ _ (notNewline_b64Char url _ (by omega)), ih]

/-- a byte that is neither in the alphabet nor the padding character makes the quantum loop fail -/
theorem b64Groups_alien (url pad : Bool) (s : Bytes)
    (h : ∃ c ∈ s, b64Val url c = none ∧ c ≠ 61) : b64Groups url pad s = none := by
  fun_induction b64Groups url pad s <;> simp_all
  obtain ⟨a, ha, hn, h61⟩ := h
  rename_i ih
  exact h61 (ih a ha hn)

theorem b64Groups_length (url : Bool) (s : Bytes) (h : s.length % 4 ≠ 0) :
    b64Groups url true s = none := by
  fun_induction b64Groups url true s <;> simp_all <;> omega


theorem hexDec_alien (s : Bytes) (h : ∃ c ∈ s, hexVal c = none) : hexDec s = none := by
  fun_induction hexDec s <;> simp_all
  obtain ⟨a, ha, hn⟩ := h
  rename_i ih
  exact ih a ha hn

theorem hexDec_odd (s : Bytes) (h : s.length % 2 = 1) : hexDec s = none := by
  fun_induction hexDec s <;> simp_all <;> omega


theorem hexVal_upHex : ∀ n, n < 16 → hexVal (upHex n) = some n := by decide
theorem hexVal_percent : hexVal 37 = none := by decide

theorem unreserved_ne (c : Nat) (h : unreserved c = true) : c ≠ 37 ∧ c ≠ 43 := by
  simp [unreserved] at h
  omega

theorem qUnesc_cons_ne (c : Nat) (r : Bytes) (h : c ≠ 37) :
    qUnesc (c :: r) = (qUnesc r).map fun u => (if c = 43 then 32 else c) :: u := by
  rw [qUnesc.eq_def]
  simp only [h, if_false]
  cases qUnesc r <;> rfl

theorem qUnesc_pct_ok (a b x y : Nat) (t : Bytes) (ha : hexVal a = some x) (hb : hexVal b = some y) :
    qUnesc (37 :: a :: b :: t) = (qUnesc t).map fun u => (x * 16 + y) :: u := by
  rw [qUnesc.eq_def]
  simp only [if_true, ha, hb]
  cases qUnesc t <;> rfl

theorem qUnesc_pct_bad (a b : Nat) (t : Bytes) (h : hexVal a = none ∨ hexVal b = none ∨ qUnesc t = none) :
    qUnesc (37 :: a :: b :: t) = none := by
  rw [qUnesc.eq_def]
  simp only [if_true]
  rcases h with h | h | h
  · simp [h]
  · cases hexVal a <;> simp [h]
  · cases hexVal a <;> cases hexVal b <;> simp [h]

theorem qUnesc_pct_nil : qUnesc [37] = none := by rw [qUnesc.eq_def]; rfl
theorem qUnesc_pct_one (a : Nat) : qUnesc [37, a] = none := by rw [qUnesc.eq_def]; rfl

theorem qUnesc_qEsc : ∀ (b : Bytes), (∀ x ∈ b, x < 256) → qUnesc (qEsc b) = some b
  | [], _ => rfl
  | c :: r, h => by
    have ih := qUnesc_qEsc r (fun x hx => h x (by simp [hx]))
    have hc : c < 256 := h c (by simp)
    simp only [qEsc]
    split
    · rename_i hu
      have := unreserved_ne c hu
      rw [qUnesc_cons_ne _ _ this.1, ih]
      simp [this.2]
    · split
      · rename_i h32
        subst h32
        rw [qUnesc_cons_ne _ _ (by decide), ih]
        rfl
      · rw [qUnesc_pct_ok _ _ _ _ _ (hexVal_upHex (c / 16) (by omega)) (hexVal_upHex (c % 16) (by omega)), ih]
        simp only [Option.map_some, Option.some.injEq, List.cons.injEq, and_true]
        omega

/-- an incomplete or non-hexadecimal percent escape anywhere makes `QueryUnescape` fail -/
theorem qUnesc_rejects (suf : Bytes)
    (h : match suf with
      | a :: b :: _ => hexVal a = none ∨ hexVal b = none
      | _ => True) :
    ∀ (pre : Bytes), qUnesc (pre ++ 37 :: suf) = none
  | [] => by
    match suf, h with
    | [], _ => exact qUnesc_pct_nil
    | [a], _ => exact qUnesc_pct_one a
    | a :: b :: t, h =>
      rcases h with h | h
      · exact qUnesc_pct_bad _ _ _ (Or.inl h)
      · exact qUnesc_pct_bad _ _ _ (Or.inr (Or.inl h))
  | [c] => by
    by_cases hc : c = 37
    · subst hc
      match suf with
      | [] => exact qUnesc_pct_one 37
      | x :: t => exact qUnesc_pct_bad _ _ _ (Or.inl hexVal_percent)
    · have ih := qUnesc_rejects suf h []
      simp only [List.nil_append] at ih
      simp [qUnesc_cons_ne _ _ hc, ih]
  | [c, a] => by
    by_cases hc : c = 37
    · subst hc
      exact qUnesc_pct_bad _ _ _ (Or.inr (Or.inl hexVal_percent))
    · have ih := qUnesc_rejects suf h [a]
      simp only [List.cons_append, List.nil_append] at ih
      simp [qUnesc_cons_ne _ _ hc, ih]
  | c :: a :: b :: t => by
    by_cases hc : c = 37
    · subst hc
      have ih := qUnesc_rejects suf h t
      exact qUnesc_pct_bad _ _ _ (Or.inr (Or.inr ih))
    · have ih := qUnesc_rejects suf h (a :: b :: t)
      simp only [List.cons_append] at ih
      simp [qUnesc_cons_ne _ _ hc, ih]



theorem b32Val_b32Char : ∀ n, n < 32 → b32Val (b32Char n) = some n := by decide
theorem b32Char_ne_pad : ∀ n, n < 32 → b32Char n ≠ 61 := by decide
theorem notNewline_b32Char : ∀ n, n < 32 → notNewline (b32Char n) = true := by decide

theorem b32Loop_char (n j : Nat) (q : List Nat) (src : Bytes) (hn : n < 32) (hj : j < 7) :
    b32Loop (b32Char n :: src) j q = b32Loop src (j + 1) (q ++ [n]) := by
  rw [b32Loop]
  simp only [b32Char_ne_pad n hn, false_and, if_false, b32Val_b32Char n hn]
  have : j ≠ 7 := by omega
  simp [this]

theorem b32Loop_char7 (n : Nat) (q : List Nat) (src : Bytes) (hn : n < 32) :
    b32Loop (b32Char n :: src) 7 q = (b32Loop src 0 []).map fun t => b32Pack 8 (q ++ [n]) ++ t := by
  rw [b32Loop]
  simp only [b32Char_ne_pad n hn, false_and, if_false, b32Val_b32Char n hn, if_true]
  cases b32Loop src 0 [] <;> rfl

theorem b32Loop_block (a b c d e : Nat) (rest : Bytes)
    (ha : a < 256) (hb : b < 256) (hc : c < 256) (hd : d < 256) (he : e < 256) :
    b32Loop (b32Char (a / 8) :: b32Char (a % 8 * 4 + b / 64) :: b32Char (b / 2 % 32) :: b32Char (b % 2 * 16 + c / 16)
      :: b32Char (c % 16 * 2 + d / 128) :: b32Char (d / 4 % 32) :: b32Char (d % 4 * 8 + e / 32)
      :: b32Char (e % 32) :: rest) 0 [] = (b32Loop rest 0 []).map fun t => a :: b :: c :: d :: e :: t := by
  rw [b32Loop_char _ _ _ _ (by omega) (by omega), b32Loop_char _ _ _ _ (by omega) (by omega),
    b32Loop_char _ _ _ _ (by omega) (by omega), b32Loop_char _ _ _ _ (by omega) (by omega),
    b32Loop_char _ _ _ _ (by omega) (by omega), b32Loop_char _ _ _ _ (by omega) (by omega),
    b32Loop_char _ _ _ _ (by omega) (by omega), b32Loop_char7 _ _ _ (by omega)]
  have : b32Pack 8 ([] ++ [a / 8] ++ [a % 8 * 4 + b / 64] ++ [b / 2 % 32] ++ [b % 2 * 16 + c / 16]
      ++ [c % 16 * 2 + d / 128] ++ [d / 4 % 32] ++ [d % 4 * 8 + e / 32] ++ [e % 32]) = [a, b, c, d, e] := by
    simp [b32Pack, b32Bytes, b32Count]
    omega
  rw [this]
  rfl

theorem b32Loop_tail1 (a : Nat) (ha : a < 256) :
    b32Loop (b32Char (a / 8) :: b32Char (a % 8 * 4) :: pads 6) 0 [] = some [a] := by
  rw [b32Loop_char _ _ _ _ (by omega) (by omega), b32Loop_char _ _ _ _ (by omega) (by omega)]
  simp [pads, List.replicate, b32Loop, b32Pack, b32Bytes, b32Count]
  omega

theorem b32Loop_tail2 (a b : Nat) (ha : a < 256) (hb : b < 256) :
    b32Loop (b32Char (a / 8) :: b32Char (a % 8 * 4 + b / 64) :: b32Char (b / 2 % 32) :: b32Char (b % 2 * 16) :: pads 4) 0 []
      = some [a, b] := by
  rw [b32Loop_char _ _ _ _ (by omega) (by omega), b32Loop_char _ _ _ _ (by omega) (by omega),
    b32Loop_char _ _ _ _ (by omega) (by omega), b32Loop_char _ _ _ _ (by omega) (by omega)]
  simp [pads, List.replicate, b32Loop, b32Pack, b32Bytes, b32Count]
  omega

theorem b32Loop_tail3 (a b c : Nat) (ha : a < 256) (hb : b < 256) (hc : c < 256) :
    b32Loop (b32Char (a / 8) :: b32Char (a % 8 * 4 + b / 64) :: b32Char (b / 2 % 32) :: b32Char (b % 2 * 16 + c / 16)
      :: b32Char (c % 16 * 2) :: pads 3) 0 [] = some [a, b, c] := by
  rw [b32Loop_char _ _ _ _ (by omega) (by omega), b32Loop_char _ _ _ _ (by omega) (by omega),
    b32Loop_char _ _ _ _ (by omega) (by omega), b32Loop_char _ _ _ _ (by omega) (by omega),
    b32Loop_char _ _ _ _ (by omega) (by omega)]
  simp [pads, List.replicate, b32Loop, b32Pack, b32Bytes, b32Count]
  omega

theorem b32Loop_tail4 (a b c d : Nat) (ha : a < 256) (hb : b < 256) (hc : c < 256) (hd : d < 256) :
    b32Loop (b32Char (a / 8) :: b32Char (a % 8 * 4 + b / 64) :: b32Char (b / 2 % 32) :: b32Char (b % 2 * 16 + c / 16)
      :: b32Char (c % 16 * 2 + d / 128) :: b32Char (d / 4 % 32) :: b32Char (d % 4 * 8) :: pads 1) 0 [] = some [a, b, c, d] := by
  rw [b32Loop_char _ _ _ _ (by omega) (by omega), b32Loop_char _ _ _ _ (by omega) (by omega),
    b32Loop_char _ _ _ _ (by omega) (by omega), b32Loop_char _ _ _ _ (by omega) (by omega),
    b32Loop_char _ _ _ _ (by omega) (by omega), b32Loop_char _ _ _ _ (by omega) (by omega),
    b32Loop_char _ _ _ _ (by omega) (by omega)]
  simp [pads, List.replicate, b32Loop, b32Pack, b32Bytes, b32Count]
  omega

theorem b32Loop_enc : ∀ (b : Bytes), (∀ x ∈ b, x < 256) → b32Loop (b32Enc b) 0 [] = some b
  | [], _ => by simp [b32Enc, b32Loop]
  | [a], h => by
    simp only [b32Enc]
    exact b32Loop_tail1 a (h a (by simp))
  | [a, b], h => by
    simp only [b32Enc]
    exact b32Loop_tail2 a b (h a (by simp)) (h b (by simp))
  | [a, b, c], h => by
    simp only [b32Enc]
    exact b32Loop_tail3 a b c (h a (by simp)) (h b (by simp)) (h c (by simp))
  | [a, b, c, d], h => by
    simp only [b32Enc]
    exact b32Loop_tail4 a b c d (h a (by simp)) (h b (by simp)) (h c (by simp)) (h d (by simp))
  | a :: b :: c :: d :: e :: r, h => by
    have ih := b32Loop_enc r (fun x hx => h x (by simp [hx]))
    simp only [b32Enc]
    rw [b32Loop_block a b c d e _ (h a (by simp)) (h b (by simp)) (h c (by simp)) (h d (by simp)) (h e (by simp)), ih]
    rfl

theorem stripNL_pads (n : Nat) : stripNL (pads n) = pads n :=
  List.filter_eq_self.2 (fun c hc => by rw [List.eq_of_mem_replicate hc]; rfl)

theorem stripNL_b32Enc : ∀ (b : Bytes), (∀ x ∈ b, x < 256) → stripNL (b32Enc b) = b32Enc b
  | [], _ => by simp [b32Enc, stripNL]
  | [a], h => by
    have ha := h a (by simp)
    simp only [b32Enc]
    rw [stripNL_cons_keep _ _ (notNewline_b32Char _ (by omega)), stripNL_cons_keep _ _ (notNewline_b32Char _ (by omega)), stripNL_pads]
  | [a, b], h => by
    have ha := h a (by simp)
    have hb := h b (by simp)
    simp only [b32Enc]
    rw [stripNL_cons_keep _ _ (notNewline_b32Char _ (by omega)), stripNL_cons_keep _ _ (notNewline_b32Char _ (by omega)),
      stripNL_cons_keep _ _ (notNewline_b32Char _ (by omega)), stripNL_cons_keep _ _ (notNewline_b32Char _ (by omega)), stripNL_pads]
  | [a, b, c], h => by
    have ha := h a (by simp)
    have hb := h b (by simp)
    have hc := h c (by simp)
    simp only [b32Enc]
    rw [stripNL_cons_keep _ _ (notNewline_b32Char _ (by omega)), stripNL_cons_keep _ _ (notNewline_b32Char _ (by omega)),
      stripNL_cons_keep _ _ (notNewline_b32Char _ (by omega)), stripNL_cons_keep _ _ (notNewline_b32Char _ (by omega)),
      stripNL_cons_keep _ _ (notNewline_b32Char _ (by omega)), stripNL_pads]
  | [a, b, c, d], h => by
    have ha := h a (by simp)
    have hb := h b (by simp)
    have hc := h c (by simp)
    have hd := h d (by simp)
    simp only [b32Enc]
    rw [stripNL_cons_keep _ _ (notNewline_b32Char _ (by omega)), stripNL_cons_keep _ _ (notNewline_b32Char _ (by omega)),
      stripNL_cons_keep _ _ (notNewline_b32Char _ (by omega)), stripNL_cons_keep _ _ (notNewline_b32Char _ (by omega)),
      stripNL_cons_keep _ _ (notNewline_b32Char _ (by omega)), stripNL_cons_keep _ _ (notNewline_b32Char _ (by omega)),
      stripNL_cons_keep _ _ (notNewline_b32Char _ (by omega)), stripNL_pads]
  | a :: b :: c :: d :: e :: r, h => by
    have ih := stripNL_b32Enc r (fun x hx => h x (by simp [hx]))
    have ha := h a (by simp)
    have hb := h b (by simp)
    have hc := h c (by simp)
    have hd := h d (by simp)
    have he := h e (by simp)
    simp only [b32Enc]
    rw [stripNL_cons_keep _ _ (notNewline_b32Char _ (by omega)), stripNL_cons_keep _ _ (notNewline_b32Char _ (by omega)),
      stripNL_cons_keep _ _ (notNewline_b32Char _ (by omega)), stripNL_cons_keep _ _ (notNewline_b32Char _ (by omega)),
      stripNL_cons_keep _ _ (notNewline_b32Char _ (by omega)), stripNL_cons_keep _ _ (notNewline_b32Char _ (by omega)),
      stripNL_cons_keep _ _ (notNewline_b32Char _ (by omega)), stripNL_cons_keep _ _ (notNewline_b32Char _ (by omega)), ih]

/-- a byte outside the alphabet that comes before any padding character makes the decoder fail -/
theorem b32Loop_alien (c : Nat) (hc : b32Val c = none) (h61 : c ≠ 61) (suf : Bytes) :
    ∀ (pre : Bytes) (j : Nat) (q : List Nat), 61 ∉ pre → b32Loop (pre ++ c :: suf) j q = none
  | [], j, q, _ => by
    rw [List.nil_append, b32Loop]
    simp [h61, hc]
  | x :: pre, j, q, hp => by
    have hx : x ≠ 61 := fun e => hp (by simp [e])
    have hp' : 61 ∉ pre := fun e => hp (by simp [e])
    rw [List.cons_append, b32Loop]
    simp only [hx, false_and, if_false]
    cases hv : b32Val x with
    | none => rfl
    | some v =>
      simp only
      split
      · rw [b32Loop_alien c hc h61 suf pre 0 [] hp']
      · exact b32Loop_alien c hc h61 suf pre (j + 1) (q ++ [v]) hp'


theorem b32Loop_length : ∀ (s : Bytes) (j : Nat) (q : List Nat), 61 ∉ s → j < 8 → (j + s.length) % 8 ≠ 0 →
    b32Loop s j q = none
  | [], j, q, _, hj, hl => by
    have : j ≠ 0 := by simp at hl; omega
    simp [b32Loop, this]
  | x :: s, j, q, hp, hj, hl => by
    have hx : x ≠ 61 := fun e => hp (by simp [e])
    have hp' : 61 ∉ s := fun e => hp (by simp [e])
    rw [b32Loop]
    simp only [hx, false_and, if_false]
    cases hv : b32Val x with
    | none => rfl
    | some v =>
      simp only
      split
      · rename_i h7
        subst h7
        rw [b32Loop_length s 0 [] hp' (by omega) (by simp only [List.length_cons] at hl; omega)]
      · exact b32Loop_length s (j + 1) (q ++ [v]) hp' (by omega) (by simp only [List.length_cons] at hl; omega)


def KVs.keys : KVs → List Bytes
  | .nil => []
  | .cons k _ r => k :: KVs.keys r

theorem hasKey_keys (k : Bytes) : ∀ (a b : KVs), KVs.keys a = KVs.keys b → KVs.hasKey k a = KVs.hasKey k b
  | .nil, .nil, _ => rfl
  | .nil, .cons _ _ _, h => by simp [KVs.keys] at h
  | .cons _ _ _, .nil, h => by simp [KVs.keys] at h
  | .cons k1 _ r1, .cons k2 _ r2, h => by
    simp only [KVs.keys, List.cons.injEq] at h
    simp [KVs.hasKey, h.1, hasKey_keys k r1 r2 h.2]

theorem dedupLast_distinct : ∀ (a : KVs), KVs.distinct a = true → KVs.dedupLast a = a
  | .nil, _ => rfl
  | .cons k v r, h => by
    simp only [KVs.distinct, Bool.and_eq_true, Bool.not_eq_true'] at h
    simp [KVs.dedupLast, h.1, dedupLast_distinct r h.2]

theorem distinct_keys : ∀ (a b : KVs), KVs.keys a = KVs.keys b → KVs.distinct a = KVs.distinct b
  | .nil, .nil, _ => rfl
  | .nil, .cons _ _ _, h => by simp [KVs.keys] at h
  | .cons _ _ _, .nil, h => by simp [KVs.keys] at h
  | .cons k1 _ r1, .cons k2 _ r2, h => by
    simp only [KVs.keys, List.cons.injEq] at h
    simp [KVs.distinct, h.1, hasKey_keys k2 r1 r2 h.2, distinct_keys r1 r2 h.2]

theorem keys_decDock : ∀ (a : KVs), KVs.keys (decDock a) = KVs.keys a
  | .nil => rfl
  | .cons k v r => by simp [decDock, KVs.keys, keys_decDock r]

theorem sanitize_valid (s : Bytes) (h : validUtf8 s = true) : sanitize s = s := by
  simpa [validUtf8] using h

mutual
theorem encI_safe : ∀ (v : Val), jsonSafe v = true → ∃ w, encI v = some w ∧ jEq v (decDoc w) = true
  | .nil, _ => ⟨.nil, rfl, rfl⟩
  | .bool b, _ => ⟨.bool b, rfl, by simp [decDoc, jEq]⟩
  | .int i, h => ⟨.int i, rfl, by simpa [decDoc, jEq, jsonSafe, intExact] using h⟩
  | .float f, h => ⟨.float f, by simp [jsonSafe] at h; simp [encI, h], by simp [decDoc, jEq]⟩
  | .byte n, h => ⟨.int n, rfl, by simpa [decDoc, jEq, jsonSafe, intExact] using h⟩
  | .str s, h => ⟨.str (sanitize s), rfl, by
      simp only [jsonSafe] at h
      simp [decDoc, jEq, sanitize_valid s h]⟩
  | .bytes _, h => by simp [jsonSafe] at h
  | .list xs, h => by
    obtain ⟨ys, hy, he⟩ := encIs_safe xs (by simpa [jsonSafe] using h)
    exact ⟨.list ys, by simp [encI, hy], by simp [decDoc, jEq, he]⟩
  | .map kvs, h => by
    simp only [jsonSafe, Bool.and_eq_true] at h
    obtain ⟨ys, hy, he, hk⟩ := encIk_safe kvs h.1
    refine ⟨.map ys, by simp [encI, hy], ?_⟩
    have hd : KVs.distinct (decDock ys) = true := by
      rw [distinct_keys (decDock ys) kvs (by rw [keys_decDock, hk])]; exact h.2
    simp [decDoc, jEq, dedupLast_distinct _ hd, he]
theorem encIs_safe : ∀ (xs : Vals), jsonSafes xs = true → ∃ ys, encIs xs = some ys ∧ jEqs xs (decDocs ys) = true
  | .nil, _ => ⟨.nil, rfl, rfl⟩
  | .cons v r, h => by
    simp only [jsonSafes, Bool.and_eq_true] at h
    obtain ⟨w, hw, he⟩ := encI_safe v h.1
    obtain ⟨ys, hy, hes⟩ := encIs_safe r h.2
    exact ⟨.cons w ys, by simp [encIs, hw, hy], by simp [decDocs, jEqs, he, hes]⟩
theorem encIk_safe : ∀ (kvs : KVs), jsonSafek kvs = true →
    ∃ ys, encIk kvs = some ys ∧ jEqk kvs (decDock ys) = true ∧ KVs.keys ys = KVs.keys kvs
  | .nil, _ => ⟨.nil, rfl, rfl, rfl⟩
  | .cons k v r, h => by
    simp only [jsonSafek, Bool.and_eq_true] at h
    obtain ⟨w, hw, he⟩ := encI_safe v h.1.2
    obtain ⟨ys, hy, hes, hk⟩ := encIk_safe r h.2
    exact ⟨.cons (sanitize k) w ys, by simp [encIk, hw, hy],
      by simp [decDock, jEqk, he, hes, sanitize_valid k h.1.1],
      by simp [KVs.keys, hk, sanitize_valid k h.1.1]⟩
end

mutual
theorem encI_eq_encM : ∀ (v : Val), noBytes v = true → encI v = encM v
  | .nil, _ | .bool _, _ | .int _, _ | .float _, _ | .byte _, _ | .str _, _ => by simp [encI, encM]
  | .bytes _, h => by simp [noBytes] at h
  | .list xs, h => by simp [encI, encM, encIs_eq_encMs xs (by simpa [noBytes] using h)]
  | .map kvs, h => by simp [encI, encM, encIk_eq_encMk kvs (by simpa [noBytes] using h)]
theorem encIs_eq_encMs : ∀ (xs : Vals), noBytess xs = true → encIs xs = encMs xs
  | .nil, _ => rfl
  | .cons v r, h => by
    simp only [noBytess, Bool.and_eq_true] at h
    simp [encIs, encMs, encI_eq_encM v h.1, encIs_eq_encMs r h.2]
theorem encIk_eq_encMk : ∀ (kvs : KVs), noBytesk kvs = true → encIk kvs = encMk kvs
  | .nil, _ => rfl
  | .cons k v r, h => by
    simp only [noBytesk, Bool.and_eq_true] at h
    simp [encIk, encMk, encI_eq_encM v h.1, encIk_eq_encMk r h.2]
end


mutual
theorem jsonSafe_noBytes : ∀ (v : Val), jsonSafe v = true → noBytes v = true
  | .nil, _ | .bool _, _ | .int _, _ | .float _, _ | .byte _, _ | .str _, _ => by simp [noBytes]
  | .bytes _, h => by simp [jsonSafe] at h
  | .list xs, h => by simpa [noBytes] using jsonSafes_noBytess xs (by simpa [jsonSafe] using h)
  | .map kvs, h => by
    simp only [jsonSafe, Bool.and_eq_true] at h
    simpa [noBytes] using jsonSafek_noBytesk kvs h.1
theorem jsonSafes_noBytess : ∀ (xs : Vals), jsonSafes xs = true → noBytess xs = true
  | .nil, _ => rfl
  | .cons v r, h => by
    simp only [jsonSafes, Bool.and_eq_true] at h
    simp [noBytess, jsonSafe_noBytes v h.1, jsonSafes_noBytess r h.2]
theorem jsonSafek_noBytesk : ∀ (kvs : KVs), jsonSafek kvs = true → noBytesk kvs = true
  | .nil, _ => rfl
  | .cons _ v r, h => by
    simp only [jsonSafek, Bool.and_eq_true] at h
    simp [noBytesk, jsonSafe_noBytes v h.1.2, jsonSafek_noBytesk r h.2]
end

theorem bitLen_bounds (m : Nat) (hm : m ≠ 0) : 2 ^ (bitLen m - 1) ≤ m ∧ m < 2 ^ bitLen m ∧ 1 ≤ bitLen m := by
  simp only [bitLen, hm, if_false, Nat.add_sub_cancel]
  exact ⟨Nat.log2_self_le hm, Nat.lt_log2_self, by omega⟩

set_option maxRecDepth 4000 in
theorem f64IntVal_f64OfNat (m : Nat) (h : m < 2 ^ 53) : f64IntVal (f64OfNat m) = some (Int.ofNat m) := by
  by_cases hm : m = 0
  · subst hm; decide
  obtain ⟨hlo, hhi, hl1⟩ := bitLen_bounds m hm
  have hl : bitLen m ≤ 53 := by
    apply Nat.le_of_not_lt
    intro hc
    have : 2 ^ 53 ≤ 2 ^ (bitLen m - 1) := Nat.pow_le_pow_right (by omega) (by omega)
    omega
  generalize hL : bitLen m = l at *
  have hP : 0 < 2 ^ (53 - l) := Nat.pow_pos (by omega)
  have h52 : 2 ^ 52 ≤ m * 2 ^ (53 - l) := by
    calc 2 ^ 52 = 2 ^ (l - 1) * 2 ^ (53 - l) := by rw [← Nat.pow_add]; congr 1; omega
      _ ≤ m * 2 ^ (53 - l) := Nat.mul_le_mul_right _ hlo
  have h53 : m * 2 ^ (53 - l) < 2 ^ 53 := by
    calc m * 2 ^ (53 - l) < 2 ^ l * 2 ^ (53 - l) := Nat.mul_lt_mul_of_pos_right hhi hP
      _ = 2 ^ 53 := by rw [← Nat.pow_add]; congr 1; omega
  have hmod : m * 2 ^ (53 - l) % 2 ^ (53 - l) = 0 := Nat.mul_mod_left _ _
  have hdiv : m * 2 ^ (53 - l) / 2 ^ (53 - l) = m := Nat.mul_div_cancel _ hP
  simp only [f64OfNat, hm, if_false, hL, hl, if_true]
  generalize hmm : m * 2 ^ (53 - l) = mm at *
  have hbits : (l - 1 + 1023) * 2 ^ 52 + (mm - 2 ^ 52) = (l + 1022) * 2 ^ 52 + (mm - 2 ^ 52) := by
    congr 2; omega
  rw [hbits]
  unfold f64IntVal
  have p52 : (2 : Nat) ^ 52 = 4503599627370496 := by decide
  have p53 : (2 : Nat) ^ 53 = 9007199254740992 := by decide
  have p63 : (2 : Nat) ^ 63 = 9223372036854775808 := by decide
  rw [p52] at h52 ⊢
  rw [p53] at h53
  rw [p63]
  have e1 : ((l + 1022) * 4503599627370496 + (mm - 4503599627370496)) / 9223372036854775808 % 2 = 0 := by omega
  have e2 : ((l + 1022) * 4503599627370496 + (mm - 4503599627370496)) / 4503599627370496 % 2048 = l + 1022 := by omega
  have e3 : ((l + 1022) * 4503599627370496 + (mm - 4503599627370496)) % 4503599627370496 = mm - 4503599627370496 := by omega
  simp only [e1, e2, e3]
  have e4 : 4503599627370496 + (mm - 4503599627370496) = mm := by omega
  have e5 : l + 1022 ≠ 0 := by omega
  have e6 : l + 1022 ≠ 2047 := by omega
  simp only [e4, e5, e6, if_false]
  by_cases h53' : l = 53
  · subst h53'
    simp at hdiv
    simp [hdiv]
  · have e7 : ¬ (1075 ≤ l + 1022) := by omega
    have e8 : 1075 - (l + 1022) = 53 - l := by omega
    simp [e7, e8, hmod, hdiv]

/-! ## sessions (results that stay alive while later calls run) -/

theorem runSpec_append (st : Store) (a b : List Call) :
    runSpec st (a ++ b) = runSpec (runSpec st a) b := by
  induction a generalizing st with
  | nil => rfl
  | cons c r ih => simp [runSpec, ih]

theorem runSpec_extends (st : Store) (cs : List Call) : ∃ ext, runSpec st cs = st ++ ext := by
  induction cs generalizing st with
  | nil => exact ⟨[], by simp [runSpec]⟩
  | cons c r ih =>
    obtain ⟨ext, h⟩ := ih (st ++ [c.eval st])
    exact ⟨c.eval st :: ext, by simp [runSpec, h]⟩

theorem Mem.read_eq (m : Mem) (i : Nat) : m.read i = m.observe.getD i none := by
  unfold Mem.read Mem.observe
  by_cases h : i < m.slots.length
  · simp [List.getD, h]
  · simp [List.getD, h]

theorem observe_grow (h : Heap) (b : Bytes) (slots : List (Option Nat))
    (wf : ∀ k, some k ∈ slots → k < h.length) :
    slots.map (fun r => r.bind ((h ++ [b])[·]?)) = slots.map (fun r => r.bind (h[·]?)) := by
  apply List.map_congr_left
  intro r hr
  cases r with
  | none => rfl
  | some k =>
    have := wf k hr
    simp [List.getElem?_append_left this]

theorem step_fresh (m : Mem) (wf : m.WF) (c : Call) :
    (m.step fresh c).WF ∧ (m.step fresh c).observe = m.observe ++ [c.eval m.observe] := by
  have grow : ∀ b, ({ heap := m.heap ++ [b], slots := m.slots ++ [some m.heap.length] } : Mem).WF ∧
      ({ heap := m.heap ++ [b], slots := m.slots ++ [some m.heap.length] } : Mem).observe = m.observe ++ [some b] := by
    intro b
    constructor
    · intro k hk
      simp only [List.mem_append, List.mem_singleton, Option.some.injEq] at hk
      rcases hk with hk | hk
      · have := wf k hk; simp; omega
      · simp [hk]
    · simp only [Mem.observe, List.map_append, observe_grow m.heap b m.slots wf]
      simp
  cases c with
  | lit b => exact grow b
  | app f src =>
    simp only [Mem.step, Call.eval, ← Mem.read_eq]
    cases hres : (m.read src).bind f with
    | none =>
      constructor
      · intro k hk
        simp only [List.mem_append, List.mem_singleton] at hk
        rcases hk with hk | hk
        · exact wf k hk
        · cases hk
      · simp [Mem.observe]
    | some b =>
      have : writeCell m.heap (fresh m.heap) b = (m.heap ++ [b], m.heap.length) := by
        simp [writeCell, fresh]
      simp only [this]
      exact grow b

theorem runImpl_fresh (m : Mem) (wf : m.WF) (cs : List Call) :
    (runImpl fresh m cs).observe = runSpec m.observe cs := by
  induction cs generalizing m with
  | nil => rfl
  | cons c r ih =>
    obtain ⟨wf', ho⟩ := step_fresh m wf c
    simp only [runImpl, runSpec, ih _ wf', ho]

end Risor.C19
