/-!
C02 — closures capture variables lexically, at any depth and from any call path.

Two layers, both executable and core-only:

* the **activation model**: a call stack of activation ids and, for every activation, its
  lexical parent (the activation that executed the function literal whose closure is being
  run).  `resolvePositional` is what `vm.eval`'s `MakeCell` does (`frames[fp - framesBack]`),
  `resolveLexical` is what the property demands (`parent^d(current)`).  An abstract machine
  over `makeClosure / call / ret / spawn` operations (`AOp`) is defined on it.

* a **closure language** (`RTm`, programs after name resolution; `Tm` before) with one
  evaluator `eval (m : Mode)` that is the model of compiler + VM for this fragment.  The
  only place where the mode is consulted is `capture`, i.e. the `MakeCell` instruction:
  `Mode.positional` is the code as it IS (Impl), `Mode.lexical` is what the property
  demands (Spec).  The name resolver `resolveProg` models `compiler/symbol_table.go`
  (`Resolve`: free variables recorded in the innermost function only, with their depth; the
  body of a function is a block table, so every reference creates a fresh free entry) and
  `compileFunc` (`MakeCell(symbol index, depth-1)`; parameters, then the function's own
  name, then the locals in declaration order).

* **block scopes** (section 2b): `if`/`else` bodies, `switch` cases, the loop forms (loop table +
  body table).  A block table claims its indexes from the enclosing FUNCTION table and never
  gives them back (`SymbolTable.claimIndex`: `len(t.symbols)` of the function table, then
  append), so a variable declared in a block that has been closed keeps its slot for good.
  `FScope.applyOp`/`FScope.claims` is that allocator on its own (the subject of
  `block_slots_never_reused`); the resolver below uses the same `FScope.declare`.
  A variable declared in a loop body is ONE slot for all iterations in both modes (recorded
  finding C01-loop-body-variable-shared); the harness generates loop-body captures only where
  that cannot be told from a fresh variable per iteration.

* **recursion**: the conditional return `if c { return e }` (`Tm.retif`, a statement of a function
  body) makes functions that call themselves terminate.  A call is one operation in every layer
  (`AOp.call`, `FOp.call`, `callVal` → `St.enter`): the callee may be the running function and
  the call may stand in tail position — the code as it is activates a new frame either way.
  `recChain` is a recursion as a sequence of frame operations.
-/
namespace Risor.C02

/-! ## 1. Activation model -/

/-- `MakeCell symbolIndex framesBack`: the frame `framesBack` below the top of the call
    stack (stack is top-first, so `frames[fp - d]` is `stack[d]`). -/
def resolvePositional (stack : List Nat) (d : Nat) : Option Nat := stack[d]?

/-- what the property demands: the `d`-th lexical ancestor of the current activation -/
def resolveLexical (parent : Nat → Option Nat) : Nat → Nat → Option Nat
  | cur, 0 => some cur
  | cur, d + 1 => (parent cur).bind fun p => resolveLexical parent p d

inductive Mode | positional | lexical
  deriving Repr, DecidableEq, Inhabited

/-- which activation a `MakeCell _ d` executed now would point into -/
def captureAct (m : Mode) (parent : Nat → Option Nat) (stack : List Nat) (d : Nat) : Option Nat :=
  match m with
  | .positional => resolvePositional stack d
  | .lexical => match stack with
    | [] => none
    | cur :: _ => resolveLexical parent cur d

/-- the top `d` frames form a lexical chain: each frame's lexical parent is the frame
    directly below it (`∀ j < d, parent(stack[fp-j]) = stack[fp-j-1]`) -/
def lexChain (parent : Nat → Option Nat) : List Nat → Nat → Prop
  | _, 0 => True
  | a :: b :: rest, d + 1 => parent a = some b ∧ lexChain parent (b :: rest) d
  | _, _ + 1 => False

/-- abstract closure: where it was made (its lexical parent-to-be) and the activations its
    cells point into (`none`: the VM raised "no frame at depth") -/
structure AClo where
  definer : Nat
  captured : List (Option Nat)
  deriving Repr, DecidableEq

/-- abstract machine state.  `parents[i]` is the lexical parent of activation `i` (`none`
    for the main frame of a VM).  `stacks` is the stack of VM call stacks: the head is the
    running VM's frame stack (top-first); `spawn`/Clone pushes a new VM. -/
structure AState where
  parents : List (Option Nat)
  closures : List AClo
  stacks : List (List Nat)
  deriving Repr, DecidableEq

def AState.parentOf (s : AState) (a : Nat) : Option Nat := (s.parents[a]?).bind id

def AState.init : AState := { parents := [none], closures := [], stacks := [[0]] }

/-- operations: execute a function literal with the given `framesBack` operands; call closure
    `c` on the running VM (from script code, from inside a builtin, or from Go through
    `vm.Call`: all push a frame on top of the current stack); call closure `c` in a fresh
    clone of the VM (`spawn`, `go`); return. -/
inductive AOp
  | makeClosure (ds : List Nat)
  | call (c : Nat)
  | spawn (c : Nat)
  | ret
  /-- the running function ends by an ERROR (raised in it or below it and not handled there):
      its frame is popped without a return; whoever handles the error (`try`, the host that
      made the `vm.Call`) goes on with the frames below -/
  | abort
  deriving Repr, DecidableEq

def AState.step (m : Mode) (s : AState) : AOp → Option AState
  | .makeClosure ds =>
    match s.stacks with
    | (cur :: rest) :: _ =>
      some { s with closures := s.closures ++ [⟨cur, ds.map (captureAct m s.parentOf (cur :: rest))⟩] }
    | _ => none
  | .call c =>
    match s.closures[c]?, s.stacks with
    | some clo, stk :: vms =>
      some { s with parents := s.parents ++ [some clo.definer], stacks := (s.parents.length :: stk) :: vms }
    | _, _ => none
  | .spawn c =>
    match s.closures[c]? with
    | some clo =>
      -- fresh main frame (activation n) and the callee's frame (activation n+1) on a new VM
      some { s with parents := s.parents ++ [none, some clo.definer],
                    stacks := [s.parents.length + 1, s.parents.length] :: s.stacks }
    | none => none
  | .ret =>
    match s.stacks with
    | [_, _] :: vm :: vms => some { s with stacks := vm :: vms }     -- a thread finishes: its VM goes away
    | (_ :: b :: rest) :: vms => some { s with stacks := (b :: rest) :: vms }
    | _ => none
  | .abort =>
    match s.stacks with
    | [_, _] :: vm :: vms => some { s with stacks := vm :: vms }     -- the error ends the thread
    | (_ :: b :: rest) :: vms => some { s with stacks := (b :: rest) :: vms }
    | _ => none

def AState.run (m : Mode) : AState → List AOp → Option AState
  | s, [] => some s
  | s, op :: ops => (s.step m op).bind fun s' => AState.run m s' ops

/-- guard of the known finding on operation sequences: every capture is of the literal's
    own frame (`MakeCell _ 0`, resolution depth 1) -/
def AOp.depth1 : AOp → Bool
  | .makeClosure ds => ds.all (· == 0)
  | _ => true

/-! ## 1b. Frame slots and the storage of local variables (model of vm/frame.go)

`vm.frames` is an array of frame SLOTS that are re-used: the call at depth `k` always runs in
`frames[k]`.  A slot has an inline array (`storage`, 8 entries), and its `locals` slice points
either there or to a heap slice (`extendedLocals` for more than 8 locals; the copy
`CaptureLocals` makes the first time a cell is taken).  `ActivateCode` resets the slot
(`capturedLocals = nil`, storage zeroed, `locals` re-pointed) — that reset is the ONLY thing
that separates a new activation from the previous user of the slot, and it happens at the
start of the new activation, so it does not matter how the previous one ended: by
`ReturnValue` (`FOp.ret`) or because an error propagated out of it (`FOp.abort`:
`callFunction`'s deferred `resumeFrame` just moves `fp` back).  `LoadFast`/`StoreFast` go
through `vm.activeFrame.Locals()` each time, i.e. through the slot's CURRENT `locals`.

Heap addresses are allocation numbers (`make` never returns a slice that is still reachable),
values are integers (0 = nil).  Fields marked ghost are not in the code. -/

/-- function update (`vm.frames[k] = …`, `slice[i] = …`) -/
def upd {α : Type} (f : Nat → α) (k : Nat) (v : α) : Nat → α := fun j => if j = k then v else f j

/-- one entry of `vm.frames` -/
structure FFrame where
  /-- ghost: the activation that was last started in this slot -/
  act : Nat
  /-- `f.locals` is the heap slice at this address (`extendedLocals`, or the copy made by
      `CaptureLocals`); `none`: it is the slot's inline `f.storage` -/
  heapLoc : Option Nat
  /-- `f.capturedLocals` (`none` = nil) -/
  captured : Option Nat
  deriving Repr, DecidableEq, Inhabited

/-- `object.NewCell(&locals[idx])` -/
structure FCell where
  addr : Nat
  idx : Nat
  /-- ghost: the activation whose frame was captured -/
  act : Nat
  deriving Repr, DecidableEq, Inhabited

structure FM where
  /-- `frames[k].storage[i]` -/
  inl : Nat → Nat → Int
  /-- the heap slices, by address -/
  heap : Nat → Nat → Int
  /-- the next address `make` returns -/
  next : Nat
  /-- ghost: the activation a heap slice was allocated for -/
  owner : Nat → Nat
  frames : Nat → FFrame
  fp : Nat
  /-- ghost: activations started so far -/
  nacts : Nat
  /-- every cell made so far (`MakeCell` results, in order) -/
  cells : List FCell
  /-- the values loaded so far, most recent first -/
  out : List Int

inductive FOp
  /-- `callFunction` → `ActivateFunction` on slot `fp+1` (`wide`: `LocalsCount > DefaultFrameLocals`) -/
  | call (wide : Bool)
  /-- `ReturnValue`: `resumeFrame(fp-1, …)` -/
  | ret
  /-- an error leaves the function (raised in it or below it): the frame is popped without a return -/
  | abort
  /-- `MakeCell idx back`: `frames[fp-back].CaptureLocals()`, `NewCell(&locals[idx])` -/
  | makeCell (idx back : Nat)
  | storeFast (idx : Nat) (v : Int)
  | loadFast (idx : Nat)
  | storeFree (cell : Nat) (v : Int)
  | loadFree (cell : Nat)
  deriving Repr, DecidableEq

def FM.init : FM :=
  { inl := fun _ _ => 0, heap := fun _ _ => 0, next := 0, owner := fun _ => 0,
    frames := fun _ => { act := 0, heapLoc := none, captured := none }, fp := 0, nacts := 1, cells := [], out := [] }

/-- `frames[k].locals[i]`: through the slot's current `locals` slice -/
def FM.frameVal (s : FM) (k i : Nat) : Int :=
  match (s.frames k).heapLoc with
  | some a => s.heap a i
  | none => s.inl k i

/-- `vm.activeFrame.Locals()[idx]` -/
def FM.readFast (s : FM) (idx : Nat) : Int := s.frameVal s.fp idx

/-- `cell.Value()` -/
def FM.readCell (s : FM) (c : FCell) : Int := s.heap c.addr c.idx

def FM.step (s : FM) : FOp → Option FM
  | .call wide =>
    some { s with
      frames := upd s.frames (s.fp + 1) { act := s.nacts, heapLoc := if wide then some s.next else none, captured := none },
      inl := upd s.inl (s.fp + 1) (fun _ => 0),
      heap := if wide then upd s.heap s.next (fun _ => 0) else s.heap,
      owner := if wide then upd s.owner s.next s.nacts else s.owner,
      next := if wide then s.next + 1 else s.next,
      fp := s.fp + 1, nacts := s.nacts + 1 }
  | .ret => if s.fp = 0 then none else some { s with fp := s.fp - 1 }
  | .abort => if s.fp = 0 then none else some { s with fp := s.fp - 1 }
  | .makeCell idx back =>
    if back > s.fp then none
    else
      match (s.frames (s.fp - back)).captured, (s.frames (s.fp - back)).heapLoc with
      | some a, _ => some { s with cells := s.cells ++ [⟨a, idx, (s.frames (s.fp - back)).act⟩] }
      | none, some a =>
        some { s with frames := upd s.frames (s.fp - back) { s.frames (s.fp - back) with captured := some a },
                      cells := s.cells ++ [⟨a, idx, (s.frames (s.fp - back)).act⟩] }
      | none, none =>
        some { s with heap := upd s.heap s.next (s.inl (s.fp - back)),
                      owner := upd s.owner s.next (s.frames (s.fp - back)).act,
                      next := s.next + 1,
                      frames := upd s.frames (s.fp - back) { s.frames (s.fp - back) with heapLoc := some s.next, captured := some s.next },
                      cells := s.cells ++ [⟨s.next, idx, (s.frames (s.fp - back)).act⟩] }
  | .storeFast idx v =>
    match (s.frames s.fp).heapLoc with
    | some a => some { s with heap := upd s.heap a (upd (s.heap a) idx v) }
    | none => some { s with inl := upd s.inl s.fp (upd (s.inl s.fp) idx v) }
  | .loadFast idx => some { s with out := s.readFast idx :: s.out }
  | .storeFree c v =>
    match s.cells[c]? with
    | some cl => some { s with heap := upd s.heap cl.addr (upd (s.heap cl.addr) cl.idx v) }
    | none => none
  | .loadFree c =>
    match s.cells[c]? with
    | some cl => some { s with out := s.readCell cl :: s.out }
    | none => none

def FM.run : FM → List FOp → Option FM
  | s, [] => some s
  | s, op :: ops => (s.step op).bind fun s' => FM.run s' ops


/-! ### what the storage discipline must implement: one variable per (activation, slot)

The same operations on a machine that has no frame slots, no inline storage and no heap
slices, only VARIABLES: `vars a i` is local `i` of activation `a`, created by the call that
starts `a` and never shared with another activation.  A cell is the pair (activation, slot).
This is the store the closure-language evaluator of section 2 uses (`St.acts`, `readCell`,
`writeCell`); `frames_refine_variables` (Props) proves that the frame machine above shows
exactly the same loads for every sequence of operations. -/

structure VarM where
  vars : Nat → Nat → Int
  /-- frame index ↦ activation running there -/
  stackf : Nat → Nat
  fp : Nat
  nacts : Nat
  cells : List (Nat × Nat)
  out : List Int

def VarM.init : VarM :=
  { vars := fun _ _ => 0, stackf := fun _ => 0, fp := 0, nacts := 1, cells := [], out := [] }

def VarM.step (t : VarM) : FOp → Option VarM
  | .call _ =>
    some { t with stackf := upd t.stackf (t.fp + 1) t.nacts, vars := upd t.vars t.nacts (fun _ => 0),
                  fp := t.fp + 1, nacts := t.nacts + 1 }
  | .ret => if t.fp = 0 then none else some { t with fp := t.fp - 1 }
  | .abort => if t.fp = 0 then none else some { t with fp := t.fp - 1 }
  | .makeCell idx back =>
    if back > t.fp then none else some { t with cells := t.cells ++ [(t.stackf (t.fp - back), idx)] }
  | .storeFast idx v =>
    some { t with vars := upd t.vars (t.stackf t.fp) (upd (t.vars (t.stackf t.fp)) idx v) }
  | .loadFast idx => some { t with out := t.vars (t.stackf t.fp) idx :: t.out }
  | .storeFree c v =>
    match t.cells[c]? with
    | some cl => some { t with vars := upd t.vars cl.1 (upd (t.vars cl.1) cl.2 v) }
    | none => none
  | .loadFree c =>
    match t.cells[c]? with
    | some cl => some { t with out := t.vars cl.1 cl.2 :: t.out }
    | none => none

def VarM.run : VarM → List FOp → Option VarM
  | t, [] => some t
  | t, op :: ops => (t.step op).bind fun t' => VarM.run t' ops

/-! ### recursion as a sequence of frame operations

A function that calls itself — in tail position (`return f(…)`) or not — is, for the VM as it is,
a call like any other: `op.Call` → `callObject` → `callFunction` → `activateFunction(fp+1, …)` and
a nested `eval`.  There is ONE call operation (`FOp.call`); nothing in the machine looks at who
the callee is or at what follows the call. -/

/-- one level of a recursion: the call (few / many locals), the level stores its value in
    local 0 and makes a closure over it (`MakeCell 0 0`) -/
def recLevel (v : Int) (wide : Bool) : List FOp := [.call wide, .storeFast 0 v, .makeCell 0 0]

/-- the descent: level after level, each inside the previous one -/
def recDescent : List (Int × Bool) → List FOp
  | [] => []
  | p :: rest => recLevel p.1 p.2 ++ recDescent rest

/-- a whole recursion: the descent, every level returns, then the closure of every level is
    read, in the order the closures were made -/
def recChain (vs : List (Int × Bool)) : List FOp :=
  recDescent vs ++ (List.replicate vs.length FOp.ret ++ (List.range vs.length).map FOp.loadFree)

/-! ## 2. The closure language -/

inductive Route | map | filter | each | sorted | try_ | spawn | gospawn
  deriving Repr, DecidableEq, Inhabited

/-- the loop forms:
    `for3`   `for x := 0; x < n; x++ { body }`      (loop table declares `x`; body table)
    `cond`   `for x < n { body }`                    (`x` declared before; the body increments it)
    `range1` `for x := range n { body }`
    `range2` `for i, x := range [items] { body }`
    `forin`  `for x in [items] { body }`
    `once`   `for { body; break }` -/
inductive LoopK | for3 | cond | range1 | range2 | forin | once
  deriving Repr, DecidableEq, Inhabited

/-- source terms (expressions and statements in one type) -/
inductive Tm
  | int (n : Int)
  | nil
  | fail                                       -- `error("boom")`
  | mkchan                                     -- `chan(1)` (only used by the `go` rendering)
  | var (x : String)
  | add (a b : Tm)
  | fn (name : String) (params : List String) (body : List Tm)   -- name "_" = anonymous
  | call (f : Tm) (args : List Tm)
  | list (es : List Tm)
  | idx (e : Tm) (i : Nat)
  | mapLit (es : List Tm)                      -- `{"k0": e0, "k1": e1, …}`
  | key (e : Tm) (i : Nat)                     -- `e["k<i>"]`
  | route (k : Route) (args : List Tm)
  | decl (x : String) (e : Tm)                 -- `x := e`
  | assign (x : String) (e : Tm)               -- `x = e`
  | opassign (x : String) (sub : Bool) (e : Tm) -- `x += e` / `x -= e`  (compileAssign, compound arm)
  | postfix (x : String) (dec : Bool)          -- `x++` / `x--`        (compilePostfix)
  | massign (xs : List String) (e : Tm)        -- `a, b = e`           (compileMultiVar, plain)
  | mdecl (xs : List String) (e : Tm)          -- `a, b := e`          (compileMultiVar, walrus)
  | ret (e : Tm)
  /-- `if c { return e }`: a CONDITIONAL return, a statement of a function body (not inside a block
      statement).  It is what makes terminating recursion expressible: `if n { return f(n + -1, …) }`
      is a self call in tail position, `if isz(n) { return acc }` a base case. -/
  | retif (c e : Tm)
  -- block scopes (statements; only inside functions; `ret` is not allowed inside them)
  | ifte (c : Tm) (t e : List Tm)              -- `if c { t }` / `if c { t } else { e }` (e ≠ [])
  | switch (subj : Tm) (cases : List Tm)       -- `switch subj { case k: … default: … }`, cases are `scase`s, the default last
  | scase (k : Option Int) (body : List Tm)    -- one case (`none` = default): its body is a block
  | loop (k : LoopK) (xs : List String) (n : Nat) (items : List Int) (body : List Tm)
  deriving Repr, Inhabited

inductive Ref | glob (i : Nat) | loc (i : Nat) | free (i : Nat)
  deriving Repr, DecidableEq, Inhabited

/-- resolved terms: what the compiler emits, structurally -/
inductive RTm
  | int (n : Int)
  | nil
  | fail
  | mkchan
  | load (r : Ref)
  | add (a b : RTm)
  | sub (a b : RTm)
  | mkfn (lit : Nat)                           -- MakeCell* ; LoadClosure  /  LoadConst
  | call (f : RTm) (args : List RTm)
  | list (es : List RTm)
  | idx (e : RTm) (i : Nat)
  | mapLit (es : List RTm)
  | key (e : RTm) (i : Nat)
  | route (k : Route) (args : List RTm)
  | store (r : Ref) (e : RTm)
  /-- `e ; Unpack n ; Store* r_{n-1} … Store* r_0`: the refs in the order of the names -/
  | unpack (rs : List Ref) (e : RTm)
  | ret (e : RTm)
  /-- `c ; JumpIfFalse … ; e ; ReturnValue` (the `return` sits in the block of the `if`) -/
  | retif (c e : RTm)
  | ifte (c : RTm) (t e : List RTm)
  | switch (subj : RTm) (cases : List RTm)
  | scase (k : Option Int) (body : List RTm)
  /-- `rs`: the loop's own names (`for3`, `range*`, `forin`) or the counter it tests (`cond`) -/
  | loop (k : LoopK) (rs : List Ref) (n : Nat) (items : List Int) (body : List RTm)
  deriving Repr, Inhabited

/-- one function literal after compilation -/
structure Lit where
  nparams : Nat
  named : Bool
  nlocals : Nat
  /-- the `MakeCell symbolIndex framesBack` operands emitted where the literal appears -/
  frees : List (Nat × Nat)
  body : List RTm
  deriving Repr, Inhabited

structure Prog where
  lits : List Lit
  main : List RTm
  nglobals : Nat
  /-- `LocalsCount` of the main code object: size of frame 0's (never initialised) locals -/
  mainLocals : Nat
  /-- budget of function calls of a run (the model gives up with `fuel` beyond it) -/
  maxCalls : Nat := 5000
  deriving Repr, Inhabited

/-- guard of the known finding: no capture reaches further than the frame executing the
    literal (every `MAKE_CELL`'s second operand is 0) -/
def Lit.depth1 (l : Lit) : Bool := l.frees.all fun p => p.2 == 0
def depth1Only (lits : List Lit) : Bool := lits.all Lit.depth1

/-! ### name resolution (model of symbol_table.go / compileFunc) -/

structure FScope where
  fnTab : List (String × Nat)      -- parameters and the function's own name
  bodyTab : List (String × Nat)    -- the body's block table
  count : Nat                      -- `len(symbols)` of the function table: the next index `claimIndex` hands out
  frees : List (Nat × Nat)
  /-- the block tables open inside the body, innermost first (`NewBlock` … `symbols = symbols.parent`) -/
  blocks : List (List (String × Nat)) := []
  deriving Repr, Inhabited

structure RS where
  lits : List Lit
  scopes : List FScope             -- innermost first
  globals : List String
  deriving Repr, Inhabited

def lookupTab (t : List (String × Nat)) (x : String) : Option Nat :=
  (t.find? fun p => p.1 == x).map (·.2)

/-- the innermost open block that declares `x` -/
def lookupBlocks : List (List (String × Nat)) → String → Option Nat
  | [], _ => none
  | b :: bs, x =>
    match lookupTab b x with
    | some i => some i
    | none => lookupBlocks bs x

def FScope.lookup (s : FScope) (x : String) : Option Nat :=
  match lookupBlocks s.blocks x with
  | some i => some i
  | none =>
    match lookupTab s.bodyTab x with
    | some i => some i
    | none => lookupTab s.fnTab x

/-! ### 2b. block tables and the slot allocator (model of `NewBlock`, `claimIndex`, `InsertVariable`) -/

/-- `code.symbols = code.symbols.NewBlock()` -/
def FScope.openBlock (s : FScope) : FScope := { s with blocks := [] :: s.blocks }

/-- `code.symbols = code.symbols.parent`: the table is dropped, `count` (the function table's
    `symbols`) is NOT touched — the indexes of the closed block stay claimed -/
def FScope.closeBlock (s : FScope) : FScope := { s with blocks := s.blocks.tail }

/-- `InsertVariable(x)` in the current table (innermost open block, else the body table):
    a new name claims index `count` of the function table (`claimIndex` walks up through the
    block tables to the function table: `idx := len(t.symbols)`, append).  Returns the slot and
    whether it was newly claimed. -/
def FScope.declare (s : FScope) (x : String) : Nat × Bool × FScope :=
  match s.blocks with
  | [] =>
    match lookupTab s.bodyTab x with
    | some i => (i, false, s)
    | none => (s.count, true, { s with bodyTab := (x, s.count) :: s.bodyTab, count := s.count + 1 })
  | b :: bs =>
    match lookupTab b x with
    | some i => (i, false, s)
    | none => (s.count, true, { s with blocks := ((x, s.count) :: b) :: bs, count := s.count + 1 })

/-- what the compiler does to one function's tables between the function's `{` and `}` -/
inductive BOp
  | openB                 -- a block begins (if/else body, switch case, loop table, loop body)
  | closeB                -- it ends
  | decl (x : String)     -- `x := …`, a loop variable, a named function statement
  deriving Repr, DecidableEq

def FScope.applyOp (s : FScope) : BOp → FScope × List Nat
  | .openB => (s.openBlock, [])
  | .closeB => (s.closeBlock, [])
  | .decl x =>
    match s.declare x with
    | (i, true, s') => (s', [i])
    | (_, false, s') => (s', [])

/-- the tables after a sequence of operations -/
def FScope.runOps : FScope → List BOp → FScope
  | s, [] => s
  | s, op :: ops => FScope.runOps (s.applyOp op).1 ops

/-- the slots claimed by the NEW variables of a sequence of operations, in declaration order -/
def FScope.claims : FScope → List BOp → List Nat
  | _, [] => []
  | s, op :: ops => (s.applyOp op).2 ++ FScope.claims (s.applyOp op).1 ops

/-- search the enclosing functions (1 level up = index 0 of `outer`) -/
def lookupOuter : List FScope → String → Nat → Option (Nat × Nat)
  | [], _, _ => none
  | s :: rest, x, k =>
    match s.lookup x with
    | some i => some (i, k)
    | none => lookupOuter rest x (k + 1)

def indexOfStr : List String → String → Nat → Option Nat
  | [], _, _ => none
  | y :: ys, x, i => if x == y then some i else indexOfStr ys x (i + 1)

/-- `SymbolTable.Resolve` -/
def resolveName (rs : RS) (x : String) : Except String (Ref × RS) :=
  match rs.scopes with
  | [] =>
    match indexOfStr rs.globals x 0 with
    | some i => .ok (.glob i, rs)
    | none => .error ("undefined " ++ x)
  | s :: outer =>
    match s.lookup x with
    | some i => .ok (.loc i, rs)
    | none =>
      match lookupOuter outer x 1 with
      | some (slot, depth) =>
        -- a fresh free entry on every reference (the body is a block table, whose own
        -- freeByName is never filled)
        .ok (.free s.frees.length, { rs with scopes := { s with frees := s.frees ++ [(slot, depth - 1)] } :: outer })
      | none =>
        match indexOfStr rs.globals x 0 with
        | some i => .ok (.glob i, rs)
        | none => .error ("undefined " ++ x)

/-- `InsertVariable` in the current block (or the globals) -/
def declareName (rs : RS) (x : String) : Ref × RS :=
  match rs.scopes with
  | [] =>
    match indexOfStr rs.globals x 0 with
    | some i => (.glob i, rs)
    | none => (.glob rs.globals.length, { rs with globals := rs.globals ++ [x] })
  | s :: outer =>
    match s.declare x with
    | (i, _, s') => (.loc i, { rs with scopes := s' :: outer })

/-- a block begins: only modelled inside functions -/
def RS.openB (rs : RS) : Except String RS :=
  match rs.scopes with
  | [] => .error "block at global scope"
  | s :: outer => .ok { rs with scopes := s.openBlock :: outer }

def RS.closeB (rs : RS) : RS :=
  match rs.scopes with
  | [] => rs
  | s :: outer => { rs with scopes := s.closeBlock :: outer }

def RS.inBlock (rs : RS) : Bool :=
  match rs.scopes with
  | [] => false
  | s :: _ => !s.blocks.isEmpty

/-- `Resolve` for a list of names, in list order (each reference of a free variable claims
    the next free index of the innermost function) -/
def resolveNames : List String → RS → Except String (List Ref × RS)
  | [], rs => .ok ([], rs)
  | x :: xs, rs =>
    match resolveName rs x with
    | .error e => .error e
    | .ok (r, rs) =>
      match resolveNames xs rs with
      | .error e => .error e
      | .ok (rl, rs) => .ok (r :: rl, rs)

/-- `InsertVariable` for a list of names, in list order (each new name claims the next slot) -/
def declareNames : List String → RS → List Ref × RS
  | [], rs => ([], rs)
  | x :: xs, rs =>
    let (r, rs) := declareName rs x
    let (rl, rs) := declareNames xs rs
    (r :: rl, rs)

def insertParams : List String → Nat → List (String × Nat)
  | [], _ => []
  | p :: ps, i => insertParams ps (i + 1) ++ [(p, i)]   -- later duplicates win in `find?`

mutual
def resolveTm : Nat → Tm → RS → Except String (RTm × RS)
  | 0, _, _ => .error "fuel"
  | _ + 1, .int n, rs => .ok (.int n, rs)
  | _ + 1, .nil, rs => .ok (.nil, rs)
  | _ + 1, .fail, rs => .ok (.fail, rs)
  | _ + 1, .mkchan, rs => .ok (.mkchan, rs)
  | _ + 1, .var x, rs => do
    let (r, rs) ← resolveName rs x
    pure (.load r, rs)
  | n + 1, .add a b, rs => do
    let (a, rs) ← resolveTm n a rs
    let (b, rs) ← resolveTm n b rs
    pure (.add a b, rs)
  | n + 1, .fn name params body, rs => do
    let named := name != "_"
    let fnTab := (if named then [(name, params.length)] else []) ++ insertParams params 0
    let cnt := params.length + (if named then 1 else 0)
    let rs1 : RS := { rs with scopes := { fnTab := fnTab, bodyTab := [], count := cnt, frees := [] } :: rs.scopes }
    let (body, rs2) ← resolveList n body rs1
    match rs2.scopes with
    | [] => .error "scope"
    | s :: outer =>
      let lit : Lit := { nparams := params.length, named := named, nlocals := s.count, frees := s.frees, body := body }
      let id := rs2.lits.length
      let rs3 : RS := { rs2 with lits := rs2.lits ++ [lit], scopes := outer }
      if named then
        let (r, rs4) := declareName rs3 name
        pure (.store r (.mkfn id), rs4)
      else pure (.mkfn id, rs3)
  | n + 1, .call f args, rs => do
    let (f, rs) ← resolveTm n f rs
    let (args, rs) ← resolveList n args rs
    pure (.call f args, rs)
  | n + 1, .list es, rs => do
    let (es, rs) ← resolveList n es rs
    pure (.list es, rs)
  | n + 1, .idx e i, rs => do
    let (e, rs) ← resolveTm n e rs
    pure (.idx e i, rs)
  | n + 1, .mapLit es, rs => do
    let (es, rs) ← resolveList n es rs
    pure (.mapLit es, rs)
  | n + 1, .key e i, rs => do
    let (e, rs) ← resolveTm n e rs
    pure (.key e i, rs)
  | n + 1, .route k args, rs => do
    let (args, rs) ← resolveList n args rs
    pure (.route k args, rs)
  | n + 1, .decl x e, rs => do
    let (e, rs) ← resolveTm n e rs
    let (r, rs) := declareName rs x
    pure (.store r e, rs)
  | n + 1, .assign x e, rs => do
    let (r, rs) ← resolveName rs x
    let (e, rs) ← resolveTm n e rs
    pure (.store r e, rs)
  -- compileAssign, compound operator: ONE Resolve, whose free index serves both the
  -- LoadFree before the value and the StoreFree after it
  | n + 1, .opassign x sub e, rs => do
    let (r, rs) ← resolveName rs x
    let (e, rs) ← resolveTm n e rs
    pure (.store r (if sub then .sub (.load r) e else .add (.load r) e), rs)
  -- compilePostfix: one Resolve; Load, LoadConst ±1, Add, Store
  | _ + 1, .postfix x dec, rs => do
    let (r, rs) ← resolveName rs x
    pure (.store r (.add (.load r) (.int (if dec then -1 else 1))), rs)
  -- compileMultiVar: the value first, then the names from the LAST to the first
  | n + 1, .massign xs e, rs => do
    let (e, rs) ← resolveTm n e rs
    let (refs, rs) ← resolveNames xs.reverse rs
    pure (.unpack refs.reverse e, rs)
  | n + 1, .mdecl xs e, rs => do
    let (e, rs) ← resolveTm n e rs
    let (refs, rs) := declareNames xs.reverse rs
    pure (.unpack refs.reverse e, rs)
  | n + 1, .ret e, rs => do
    if rs.inBlock then .error "return inside a block"
    let (e, rs) ← resolveTm n e rs
    pure (.ret e, rs)
  -- `if c { return e }`: compileIf, the body is a block table that declares nothing
  | n + 1, .retif c e, rs => do
    if rs.inBlock then .error "return inside a block"
    let (c, rs) ← resolveTm n c rs
    let rs ← rs.openB
    let (e, rs) ← resolveTm n e rs
    pure (.retif c e, rs.closeB)
  -- compileIf: the condition, then each body is a block (compileBlock: NewBlock … parent)
  | n + 1, .ifte c t e, rs => do
    let (c, rs) ← resolveTm n c rs
    let rs ← rs.openB
    let (t, rs) ← resolveList n t rs
    let rs := rs.closeB
    if e.isEmpty then pure (.ifte c t [], rs)
    else
      let rs ← rs.openB
      let (e, rs) ← resolveList n e rs
      pure (.ifte c t e, rs.closeB)
  -- compileSwitch: the subject, the case expressions (integer literals), then the case
  -- blocks in order, the default block last
  | n + 1, .switch subj cases, rs => do
    let (subj, rs) ← resolveTm n subj rs
    let (cs, rs) ← resolveList n cases rs
    pure (.switch subj cs, rs)
  | n + 1, .scase k body, rs => do
    let rs ← rs.openB
    let (b, rs) ← resolveList n body rs
    pure (.scase k b, rs.closeB)
  -- the loops: a block table for the loop itself (init / range variables), and the body is a
  -- block of its own
  | n + 1, .loop k xs cnt items body, rs => do
    let rs ← rs.openB
    let (refs, rs) ←
      match k with
      | .cond => resolveNames xs rs                              -- the condition `x < n`
      | _ => (pure (declareNames xs rs) : Except String (List Ref × RS))   -- `x := 0` / the range names, in order
    let rs ← rs.openB
    let (b, rs) ← resolveList n body rs
    pure (.loop k refs cnt items b, rs.closeB.closeB)
def resolveList : Nat → List Tm → RS → Except String (List RTm × RS)
  | 0, _, _ => .error "fuel"
  | _ + 1, [], rs => .ok ([], rs)
  -- the parser reads `x++` as the expression statement `x` (LoadX; PopTop: one more reference
  -- of `x`) followed by the postfix statement on the previous token
  | n + 1, .postfix x dec :: ts, rs => do
    let (r0, rs) ← resolveName rs x
    let (t, rs) ← resolveTm n (.postfix x dec) rs
    let (ts, rs) ← resolveList n ts rs
    pure (.load r0 :: t :: ts, rs)
  | n + 1, t :: ts, rs => do
    let (t, rs) ← resolveTm n t rs
    let (ts, rs) ← resolveList n ts rs
    pure (t :: ts, rs)
end

def resolveProg (main : List Tm) (mainLocals : Nat) : Except String Prog := do
  let (body, rs) ← resolveList 100000 main { lits := [], scopes := [], globals := [] }
  pure { lits := rs.lits, main := body, nglobals := rs.globals.length, mainLocals := mainLocals }

/-! ### values, state, errors -/

inductive Val
  | int (n : Int)
  | clo (lit : Nat) (cells : List (Nat × Nat)) (definer : Nat)   -- cells: (activation, slot)
  | list (vs : List Val)
  | map (vs : List Val)          -- keys "k0", "k1", … in order
  | nil
  | undef        -- Go nil: a local slot that was never written
  | opaque       -- a value the model does not look into (error value, channel)
  deriving Repr, Inhabited

inductive ErrK
  | type | args | eval | user | index
  | panic        -- a Go panic in flight: nothing in the script catches it
  | panicErr     -- the error value a thread boundary makes out of a panic ("panic: …")
  | undef        -- the run read a never-written slot (Go nil): outcome not modelled
  | fuel | bad
  deriving Repr, DecidableEq, Inhabited

structure Err where
  kind : ErrK
  fatal : Bool
  deriving Repr, DecidableEq, Inhabited

/-- errors no script construct can intercept -/
def Err.hard (e : Err) : Bool :=
  match e.kind with
  | .panic | .undef | .fuel | .bad => true
  | _ => false

structure Act where
  locals : List Val
  parent : Option Nat            -- ghost: lexical parent
  cells : List (Nat × Nat)       -- the running closure's free-variable cells
  deriving Repr, Inhabited

structure St where
  acts : List Act
  globals : List Val
  stack : List Nat               -- running VM's frames, top first
  calls : Nat := 5000           -- remaining budget of function calls
  deriving Repr, Inhabited

def St.parentOf (s : St) (a : Nat) : Option Nat := (s.acts[a]?).bind (·.parent)

abbrev M (α : Type) := St → Except Err α × St

instance : Monad M where
  pure a := fun s => (.ok a, s)
  bind x f := fun s =>
    match x s with
    | (.ok a, s') => f a s'
    | (.error e, s') => (.error e, s')

def throwE {α} (k : ErrK) (fatal : Bool := false) : M α := fun s => (.error ⟨k, fatal⟩, s)
def rethrow {α} (e : Err) : M α := fun s => (.error e, s)
def getSt : M St := fun s => (.ok s, s)
def setSt (s : St) : M Unit := fun _ => (.ok (), s)
def modSt (f : St → St) : M Unit := fun s => (.ok (), f s)
/-- run `x`; on error hand the error (and the state at the point of failure) to `h` -/
def catchE {α} (x : M α) (h : Err → M α) : M α := fun s =>
  match x s with
  | (.error e, s') => h e s'
  | r => r

def Val.truthy : Val → Bool
  | .int n => n != 0
  | .list vs => !vs.isEmpty
  | .map vs => !vs.isEmpty
  | .nil => false
  | _ => true

def readCell (s : St) (c : Nat × Nat) : Option Val := (s.acts[c.1]?).bind fun a => a.locals[c.2]?

def writeCell (s : St) (c : Nat × Nat) (v : Val) : St :=
  match s.acts[c.1]? with
  | some a => { s with acts := s.acts.set c.1 { a with locals := a.locals.set c.2 v } }
  | none => s

def curAct (s : St) : Nat := s.stack.headD 0

def loadRef (r : Ref) : M Val := fun s =>
  let v : Option Val := match r with
    | .glob i => s.globals[i]?
    | .loc i => readCell s (curAct s, i)
    | .free i => ((s.acts[curAct s]?).bind fun a => a.cells[i]?).bind (readCell s)
  match v with
  | some .undef => (.error ⟨.undef, true⟩, s)
  | some v => (.ok v, s)
  | none => (.error ⟨.bad, true⟩, s)

def storeRef (r : Ref) (v : Val) : M Unit := fun s =>
  match r with
  | .glob i => (.ok (), { s with globals := s.globals.set i v })
  | .loc i => (.ok (), writeCell s (curAct s, i) v)
  | .free i =>
    match (s.acts[curAct s]?).bind fun a => a.cells[i]? with
    | some c => (.ok (), writeCell s c v)
    | none => (.error ⟨.bad, true⟩, s)

/-- `MakeCell slot d` for every free entry of the literal: the ONLY place the mode matters -/
def makeCells (m : Mode) (s : St) : List (Nat × Nat) → Except Err (List (Nat × Nat))
  | [] => .ok []
  | (slot, d) :: rest =>
    match captureAct m s.parentOf s.stack d with
    | none => .error ⟨.eval, true⟩                      -- "no frame at depth"
    | some a =>
      match (s.acts[a]?).map (·.locals.length) with
      | none => .error ⟨.bad, true⟩
      | some len =>
        if slot < len then
          match makeCells m s rest with
          | .ok cs => .ok ((a, slot) :: cs)
          | .error e => .error e
        else .error ⟨.panic, true⟩                      -- &locals[symbolIndex] out of range

/-- Go's int64 addition wraps around -/
def wrap64 (x : Int) : Int := (x + 9223372036854775808) % 18446744073709551616 - 9223372036854775808

def addVals : Val → Val → M Val
  | .int a, .int b => pure (.int (wrap64 (a + b)))
  | .list a, .list b => pure (.list (a ++ b))
  | .opaque, _ => throwE .undef true
  | _, .opaque => throwE .undef true
  | _, _ => throwE .type

def subVals : Val → Val → M Val
  | .int a, .int b => pure (.int (wrap64 (a - b)))
  | .opaque, _ => throwE .undef true
  | _, .opaque => throwE .undef true
  | _, _ => throwE .type

/-- the `Store*` instructions after an `Unpack`, in the order given -/
def storeRefs : List (Ref × Val) → M Unit
  | [] => pure ()
  | (r, v) :: rest => do
    storeRef r v
    storeRefs rest

/-- the locals of a fresh frame: arguments, the function itself if it is named, Go nil -/
def initLocals (l : Lit) (self : Val) (args : List Val) : List Val :=
  let base := args ++ (if l.named then [self] else [])
  base ++ List.replicate (l.nlocals - base.length) Val.undef

def swapAt (xs : List Val) (i j : Nat) : List Val :=
  match xs[i]?, xs[j]? with
  | some a, some b => (xs.set i b).set j a
  | _, _ => xs

/-- errors coming back through `list.map/filter/each` (`Errorf(err.Error())`) and `sorted`
    (`TypeErrorf(err.Error())`) keep their text but lose their fatality -/
def softened (e : Err) : Err := if e.hard then e else { e with fatal := false }

/-- `switch`: the body of the first case whose literal equals the subject, else the default's -/
def pickCase : List RTm → Int → Option (List RTm) → List RTm
  | [], _, dflt => dflt.getD []
  | .scase (some k) body :: rest, v, dflt => if k == v then body else pickCase rest v dflt
  | .scase none body :: rest, v, _ => pickCase rest v (some body)
  | _ :: rest, v, dflt => pickCase rest v dflt

/-- what the iterator of a range loop yields: (key, value) pairs -/
def loopItems (k : LoopK) (n : Nat) (items : List Int) : List (Int × Int) :=
  match k with
  | .range1 => (List.range n).map fun (i : Nat) => (Int.ofNat i, Int.ofNat i)
  | .range2 | .forin => ((List.range items.length).zip items).map fun (p : Nat × Int) => (Int.ofNat p.1, p.2)
  | _ => []

mutual
def eval (m : Mode) (lits : List Lit) : Nat → RTm → M Val
  | 0, _ => throwE .fuel true
  | _ + 1, .int n => pure (.int n)
  | _ + 1, .nil => pure .nil
  | _ + 1, .fail => throwE .user
  | _ + 1, .mkchan => pure .opaque
  | _ + 1, .load r => loadRef r
  | n + 1, .add a b => do
    let x ← eval m lits n a
    let y ← eval m lits n b
    addVals x y
  | n + 1, .sub a b => do
    let x ← eval m lits n a
    let y ← eval m lits n b
    subVals x y
  | _ + 1, .mkfn i => fun s =>
    match lits[i]? with
    | none => (.error ⟨.bad, true⟩, s)
    | some l =>
      match makeCells m s l.frees with
      | .ok cs => (.ok (.clo i cs (curAct s)), s)
      | .error e => (.error e, s)
  | n + 1, .call f args => do
    let fv ← eval m lits n f
    let as ← evalList m lits n args
    callVal m lits n fv as
  | n + 1, .list es => do
    let vs ← evalList m lits n es
    pure (.list vs)
  | n + 1, .idx e i => do
    let v ← eval m lits n e
    match v with
    | .list vs => match vs[i]? with
      | some x => pure x
      | none => throwE .index
    | .opaque => throwE .undef true
    | _ => throwE .type
  | n + 1, .mapLit es => do
    let vs ← evalList m lits n es
    pure (.map vs)
  | n + 1, .key e i => do
    let v ← eval m lits n e
    match v with
    | .map vs => match vs[i]? with
      | some x => pure x
      | none => throwE .index
    | .opaque => throwE .undef true
    | _ => throwE .type
  | n + 1, .store r e => do
    let v ← eval m lits n e
    storeRef r v
    pure .nil
  -- `Unpack n`: the value must be a container of exactly n items ("type error: object is not
  -- a container" / "unpack count mismatch", a plain error); the items are pushed first to last,
  -- so the stores run from the last name to the first
  | n + 1, .unpack rs e => do
    let v ← eval m lits n e
    match v with
    | .list vs =>
      if vs.length != rs.length then throwE .user
      else do
        storeRefs (rs.zip vs).reverse
        pure .nil
    | .map _ => throwE .undef true                               -- unpacks the keys: not modelled
    | .opaque => throwE .undef true
    | _ => throwE .type
  | n + 1, .ret e => eval m lits n e
  | _ + 1, .retif _ _ => throwE .bad true                        -- a statement of a function body: see `execBody`
  -- block statements: their value (popped by the statement list) is not modelled: nil
  | n + 1, .ifte c t e => do
    let cv ← eval m lits n c
    let _ ← execBody m lits n (if cv.truthy then t else e)
    pure .nil
  | n + 1, .switch subj cases => do
    let sv ← eval m lits n subj
    match sv with
    | .int v =>
      let _ ← execBody m lits n (pickCase cases v none)
      pure .nil
    | _ => throwE .undef true                                    -- a subject that is not an int: not modelled
  | _ + 1, .scase _ _ => throwE .bad true
  | n + 1, .loop k rs cnt items body => do
    match k, rs with
    | .for3, [r] => storeRef r (.int 0)                          -- the init clause `x := 0`
    | _, _ => pure ()
    loopRun m lits n k rs cnt (loopItems k cnt items) body
  | n + 1, .route k args => do
    match k, args with
    | .map, [l, f] | .filter, [l, f] | .each, [l, f] =>
      let lv ← eval m lits n l
      match lv with
      | .list items =>
        let fv ← eval m lits n f
        match fv with
        | .clo i _ _ =>
          let np := (lits[i]?).map (·.nparams) |>.getD 0
          if k == .map && np == 2 then throwE .undef true       -- shared index object (C16 defect): not modelled
          else if k == .map && np != 1 then throwE .type
          else
            let rs ← mapItems m lits n fv items
            match k with
            | .map => pure (.list (rs.map (·.2)))
            | .filter => pure (.list ((rs.filter fun p => p.2.truthy).map (·.1)))
            | _ => pure .nil
        | .opaque => throwE .undef true
        | _ => throwE .type
      | .opaque => throwE .undef true
      | _ => throwE .type                                        -- attribute not found
    | .sorted, [l, f] =>
      let lv ← eval m lits n l
      let fv ← eval m lits n f
      match lv, fv with
      | .opaque, _ => throwE .undef true
      | _, .opaque => throwE .undef true
      | .map _, _ => throwE .undef true                          -- sorts the keys: not modelled
      | .list items, .clo _ _ _ =>
        if items.length > 12 then throwE .undef true
        else
          let (items, err) ← sortLoop m lits n fv items 1 1 none
          match err with
          | some e => rethrow (softened e)
          | none => pure (.list items)
      | _, _ => throwE .type
    | .try_, _ =>
      let vs ← evalList m lits n args
      tryLoop m lits n vs false
    | .spawn, f :: as =>
      let fv ← eval m lits n f
      let avs ← evalList m lits n as
      threadCall m lits n fv avs none
    | .gospawn, c :: f :: as =>
      let cv ← eval m lits n c
      let fv ← eval m lits n f
      let avs ← evalList m lits n as
      match cv with
      | .opaque =>
        let r ← threadCall m lits n fv avs (some cv)
        -- the statement after `go …` is `x := <-c`: the channel variable is read again
        let cv2 ← eval m lits n c
        match cv2 with
        | .opaque => pure r
        | _ => throwE .type                                      -- "object is not a channel"
      | _ => throwE .undef true                                  -- the goroutine's send fails: the receive blocks
    | _, _ => throwE .bad true
def evalList (m : Mode) (lits : List Lit) : Nat → List RTm → M (List Val)
  | 0, _ => throwE .fuel true
  | _ + 1, [] => pure []
  | n + 1, t :: ts => do
    let v ← eval m lits n t
    let vs ← evalList m lits n ts
    pure (v :: vs)
/-- statements of a function body; `ret` ends it, `retif` ends it when its condition holds -/
def execBody (m : Mode) (lits : List Lit) : Nat → List RTm → M Val
  | 0, _ => throwE .fuel true
  | _ + 1, [] => pure .nil
  | n + 1, .ret e :: _ => eval m lits n e
  | n + 1, .retif c e :: rest => do
    let cv ← eval m lits n c
    if cv.truthy then eval m lits n e else execBody m lits n rest
  | n + 1, [t] => eval m lits n t
  | n + 1, t :: ts => do
    let _ ← eval m lits n t
    execBody m lits n ts
/-- the iterations of a loop.  `for3`/`cond`: test `x < n` on the variable's CURRENT value (the
    body, or a closure it calls, may have written it), run the body block, then (`for3`) the post
    clause `x++`.  Range forms: store the next key/value into the loop's names, run the body.
    `once`: `for { body; break }`.  Every iteration re-enters the same body block: same slots. -/
def loopRun (m : Mode) (lits : List Lit) : Nat → LoopK → List Ref → Nat → List (Int × Int) → List RTm → M Val
  | 0, _, _, _, _, _ => throwE .fuel true
  | n + 1, k, rs, cnt, its, body =>
    match k, rs, its with
    | .once, _, _ => do
      let _ ← execBody m lits n body
      pure .nil
    | .for3, [r], _ => do
      let v ← loadRef r
      match v with
      | .int x =>
        if x < (cnt : Int) then do
          let _ ← execBody m lits n body
          let v2 ← loadRef r
          let nv ← addVals v2 (.int 1)
          storeRef r nv
          loopRun m lits n .for3 [r] cnt its body
        else pure .nil
      | _ => throwE .undef true
    | .cond, [r], _ => do
      let v ← loadRef r
      match v with
      | .int x =>
        if x < (cnt : Int) then do
          let _ ← execBody m lits n body
          loopRun m lits n .cond [r] cnt its body
        else pure .nil
      | _ => throwE .undef true
    | .range1, [_], [] => pure .nil
    | .range1, [r], (key, _) :: rest => do
      storeRef r (.int key)
      let _ ← execBody m lits n body
      loopRun m lits n .range1 [r] cnt rest body
    | .range2, [_, _], [] => pure .nil
    | .range2, [ri, rx], (key, val) :: rest => do
      storeRef ri (.int key)
      storeRef rx (.int val)
      let _ ← execBody m lits n body
      loopRun m lits n .range2 [ri, rx] cnt rest body
    | .forin, [_], [] => pure .nil
    | .forin, [r], (_, val) :: rest => do
      storeRef r (.int val)
      let _ ← execBody m lits n body
      loopRun m lits n .forin [r] cnt rest body
    | _, _, _ => throwE .bad true
/-- `callFunction`: push a frame on top of the running VM's stack, run, pop -/
def callVal (m : Mode) (lits : List Lit) : Nat → Val → List Val → M Val
  | 0, _, _ => throwE .fuel true
  | n + 1, .clo i cells definer, args => do
    match lits[i]? with
    | none => throwE .bad true
    | some l =>
      if args.length != l.nparams then throwE .args true
      else
        let s ← getSt
        if s.calls == 0 then throwE .fuel true
        else
        let id := s.acts.length
        setSt { s with calls := s.calls - 1, acts := s.acts ++ [{ locals := initLocals l (.clo i cells definer) args, parent := some definer, cells := cells }],
                       stack := id :: s.stack }
        let r ← catchE (execBody m lits n l.body) (fun e => do
          modSt fun s' => { s' with stack := s.stack }
          rethrow e)
        modSt fun s' => { s' with stack := s.stack }
        pure r
  | _ + 1, .opaque, _ => throwE .undef true
  | _ + 1, _, _ => throwE .type
/-- the callback loop of list.map / filter / each: (item, result) pairs -/
def mapItems (m : Mode) (lits : List Lit) : Nat → Val → List Val → M (List (Val × Val))
  | 0, _, _ => throwE .fuel true
  | _ + 1, _, [] => pure []
  | n + 1, f, x :: xs => do
    let r ← catchE (callVal m lits n f [x]) (fun e => rethrow (softened e))
    let rest ← mapItems m lits n f xs
    pure ((x, r) :: rest)
/-- sort.SliceStable on fewer than 20 elements: insertion sort, `less(j, j-1)` calls the
    comparator with (items[j], items[j-1]); after a failed call the sort goes on (treating
    it as false) and the last error is reported at the end -/
def sortLoop (m : Mode) (lits : List Lit) : Nat → Val → List Val → Nat → Nat → Option Err → M (List Val × Option Err)
  | 0, _, _, _, _, _ => throwE .fuel true
  | n + 1, f, items, i, j, err =>
    if i ≥ items.length then pure (items, err)
    else if j > 0 then do
      let r ← catchE (do let v ← callVal m lits n f [items.getD j .nil, items.getD (j - 1) .nil]; pure (Except.ok v))
                (fun e => if e.hard then rethrow e else pure (Except.error e))
      match r with
      | .ok v =>
        if v.truthy then sortLoop m lits n f (swapAt items j (j - 1)) i (j - 1) err
        else sortLoop m lits n f items (i + 1) (i + 1) err
      | .error e => sortLoop m lits n f items (i + 1) (i + 1) (some e)
    else sortLoop m lits n f items (i + 1) (i + 1) err
/-- builtin `try(a1, a2, …)` -/
def tryLoop (m : Mode) (lits : List Lit) : Nat → List Val → Bool → M Val
  | 0, _, _ => throwE .fuel true
  | _ + 1, [], _ => pure .nil
  | n + 1, v :: rest, hadErr =>
    match v with
    | .clo i _ _ =>
      let np := (lits[i]?).map (·.nparams) |>.getD 0
      let args := if np > 0 && hadErr then [Val.opaque] else []
      catchE (callVal m lits n v args) (fun e =>
        if e.hard || e.fatal then rethrow e else tryLoop m lits n rest true)
    | v => pure v
/-- `spawn(f, args…).wait()` and `go`: the function runs on a clone whose stack holds only a
    fresh main frame (plus, for the `go` rendering, the frame of the wrapper function
    `func(c, f, a…) { c <- f(a…) }`) -/
def threadCall (m : Mode) (lits : List Lit) : Nat → Val → List Val → Option Val → M Val
  | 0, _, _, _ => throwE .fuel true
  | n + 1, f, args, wrap => do
    match f, wrap with
    | .clo _ _ _, _ =>
      let s ← getSt
      let mainLocals := (s.acts[0]?).map (·.locals.length) |>.getD 0
      let mainId := s.acts.length
      let s1 : St := { s with acts := s.acts ++ [{ locals := List.replicate mainLocals .undef, parent := none, cells := [] }],
                              stack := [mainId] }
      let s2 : St := match wrap with
        | some cv => { s1 with acts := s1.acts ++ [{ locals := cv :: f :: args, parent := some (curAct s), cells := [] }],
                               stack := [mainId + 1, mainId] }
        | none => s1
      setSt s2
      let r ← catchE (callVal m lits n f args) (fun e => do
        modSt fun s' => { s' with stack := s.stack }
        match wrap, e.kind with
        | some _, .fuel => rethrow e
        | some _, _ => throwE .undef true            -- the goroutine died: the receive never completes
        | none, .panic => throwE .panicErr false     -- recovered at the thread boundary
        | none, _ => rethrow e)
      modSt fun s' => { s' with stack := s.stack }
      pure r
    | .opaque, _ => throwE .undef true
    | _, some _ => throwE .undef true
    | _, none => throwE .type
end

/-- the state in which the body of a called closure starts: a NEW activation (the next
    activation number) with its own locals, on top of the running VM's stack -/
def St.enter (s : St) (l : Lit) (self : Val) (args : List Val) (definer : Nat) (cells : List (Nat × Nat)) : St :=
  { s with calls := s.calls - 1,
           acts := s.acts ++ [{ locals := initLocals l self args, parent := some definer, cells := cells }],
           stack := s.acts.length :: s.stack }

def Prog.initSt (p : Prog) : St :=
  { acts := [{ locals := List.replicate p.mainLocals .undef, parent := none, cells := [] }],
    globals := List.replicate p.nglobals .undef, stack := [0], calls := p.maxCalls }

/-- evaluate the main code: the value of the last statement -/
def runProg (m : Mode) (fuel : Nat) (p : Prog) : Except Err Val × St :=
  execBody m p.lits fuel p.main p.initSt

def Impl := runProg Mode.positional
def Spec := runProg Mode.lexical

/-! ### rendering of outcomes (what the harness compares) -/

mutual
def showVal : Val → String
  | .int n => toString n
  | .clo _ _ _ => "fn"
  | .list vs => "[" ++ showVals vs ++ "]"
  | .map vs => "{" ++ showVals vs ++ "}"
  | .nil => "nil"
  | .undef => "GONIL"
  | .opaque => "opaque"
def showVals : List Val → String
  | [] => ""
  | [v] => showVal v
  | v :: vs => showVal v ++ "," ++ showVals vs
end

def ErrK.cls : ErrK → String
  | .type => "type" | .args => "args" | .eval => "eval" | .user => "error" | .index => "index"
  | .panic => "panic" | .panicErr => "panic" | .undef => "undef" | .fuel => "fuel" | .bad => "bad"

def showOutcome : Except Err Val × St → String
  | (.ok v, _) => "ok " ++ showVal v
  | (.error e, _) =>
    match e.kind with
    | .undef => "undef"
    | .fuel => "undef"
    | k => "err " ++ k.cls

/-! ## 3. The source text the model was written from (frozen at the pinned commit)

The extractor regenerates the same tables from /repo on every run (`Generated/C02.lean`);
`Ties.lean` compares them.  Each table backs one clause of the model:
`compileFuncEmits`/`resolveFree` → `resolveName` (a free entry `(slot, depth-1)` per reference,
recorded in the innermost function only) and `RTm.mkfn`; `armMakeCell` → `captureAct
.positional` (`stack[d]`, "no frame at depth", the slot range check) ; `armLoadFree`/
`armStoreFree` → `loadRef`/`storeRef` on `Ref.free`; `callFunctionFrame` → `initLocals` (self
slot) and `callVal` (a new frame on top of the running stack); `captureLocals` → cells are
(activation, slot) pairs that alias the frame's own locals; `claimIndex`/`newBlock`/
`compileBlockTables` → `FScope.declare`, `FScope.openBlock`, `FScope.closeBlock`;
`activateCode`/`captureLocals`/`armLoadFast`/`armStoreFast` → the frame machine `FM` (section 1b). -/
namespace Src

def compileFuncEmits : List String := [
  "c.emit(op.MakeCell, resolution.symbol.Index(), uint16(resolution.depth-1))",
  "c.emit(op.LoadClosure, c.constant(fn), freeCount)"
]

def resolveFree : List String := [
  "depth := t.FunctionDepth() - ancestor.FunctionDepth()",
  "freeIndex := len(activeFunc.free)",
  "rs := &Resolution{symbol: sym, scope: Free, depth: depth, freeIndex: freeIndex}",
  "activeFunc.freeByName[name] = rs",
  "activeFunc.free = append(activeFunc.free, rs)"
]

def armMakeCell : List String := [
  "symbolIndex := vm.fetch()",
  "framesBack := int(vm.fetch())",
  "frameIndex := vm.fp - framesBack",
  "if frameIndex < 0 { return errz.EvalErrorf(\"eval error: no frame at depth %d\", framesBack) }",
  "frame := &vm.frames[frameIndex]",
  "locals := frame.CaptureLocals()",
  "vm.push(object.NewCell(&locals[symbolIndex]))"
]

def armLoadFree : List String := [
  "idx := vm.fetch()",
  "freeVars := vm.activeFrame.fn.FreeVars()",
  "obj := freeVars[idx].Value()",
  "vm.push(obj)"
]

def armStoreFree : List String := [
  "idx := vm.fetch()",
  "obj := vm.pop()",
  "freeVars := vm.activeFrame.fn.FreeVars()",
  "freeVars[idx].Set(obj)"
]

def callFunctionFrame : List String := [
  "if code.IsNamed() { vm.tmp[paramsCount] = fn argc++ }",
  "vm.activateFunction(vm.fp+1, 0, fn, vm.tmp[:argc])"
]

def captureLocals : List String := [
  "if f.capturedLocals != nil { return f.capturedLocals }",
  "if f.extendedLocals != nil { f.capturedLocals = f.extendedLocals return f.capturedLocals }",
  "newStorage := make([]object.Object, len(f.locals))",
  "copy(newStorage, f.locals)",
  "f.capturedLocals = newStorage",
  "f.locals = newStorage",
  "return newStorage"
]

/-- `RTm.call` / `callVal`: the `Call` instruction hands EVERY callee to `callObject` — there is
    no other way out of the arm, whoever the callee is and whatever instruction follows -/
def armCall : List String := [
  "argc := int(vm.fetch())",
  "if argc > MaxArgs { return errz.EvalErrorf(\"eval error: max args limit of %d exceeded (got %d)\", MaxArgs, argc) }",
  "args := make([]object.Object, argc)",
  "for argIndex := argc - 1; argIndex >= 0; argIndex-- { args[argIndex] = vm.pop() }",
  "obj := vm.pop()",
  "if err := vm.callObject(ctx, obj, args); err != nil { return err }"
]

/-- … and `callObject` runs a function object through `callFunction` (a new frame, `FOp.call`) -/
def callObjectFunction : List String := [
  "result, err := vm.callFunction(ctx, fn, args)",
  "if err != nil { return err }",
  "vm.push(result)",
  "return nil"
]

/-- `FM.step (.call wide)`: the slot is reset when an activation STARTS in it — whatever the
    previous user of the slot did and however it ended -/
def activateCode : List String := [
  "f.code = code",
  "f.fn = nil",
  "f.returnAddr = 0",
  "f.localsCount = uint16(code.LocalsCount())",
  "f.capturedLocals = nil",
  "f.defers = nil",
  "for i := 0; i < DefaultFrameLocals; i++ { f.storage[i] = nil }",
  "if f.localsCount > DefaultFrameLocals { f.extendedLocals = make([]object.Object, f.localsCount) f.locals = f.extendedLocals } else { f.extendedLocals = nil f.locals = f.storage[:f.localsCount] }"
]

/-- `FM.readFast`: through the active frame's CURRENT `locals` -/
def armLoadFast : List String := [
  "vm.push(vm.activeFrame.Locals()[vm.fetch()])"
]

/-- `FM.step (.storeFast idx v)` -/
def armStoreFast : List String := [
  "idx := vm.fetch()",
  "obj := vm.pop()",
  "vm.activeFrame.Locals()[idx] = obj"
]

/-- `FScope.declare`: a block table passes the claim up to the function table, whose next index
    is `len(t.symbols)`; nothing removes from `symbols` -/
def claimIndex : List String := [
  "if t.isBlock { return t.parent.claimIndex(s) }",
  "idx := len(t.symbols)",
  "if idx >= math.MaxUint16 { return 0, errors.New(\"compile error: too many symbols\") }",
  "uidx := uint16(idx)",
  "t.symbols = append(t.symbols, s)",
  "s.index = uidx",
  "return uidx, nil"
]

def newBlock : List String := [
  "child := t.NewChild()",
  "child.isBlock = true",
  "return child"
]

/-- `FScope.openBlock` / `FScope.closeBlock` -/
def compileBlockTables : List String := [
  "code.symbols = code.symbols.NewBlock()",
  "code.symbols = code.symbols.parent"
]

end Src

end Risor.C02
