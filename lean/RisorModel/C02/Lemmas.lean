import RisorModel.C02.Model
/-!
C02 — helper lemmas: the mode of the evaluator matters only through `captureAct`, and
`captureAct _ _ _ 0` does not depend on the mode.
-/
namespace Risor.C02

theorem captureAct_zero (parent : Nat → Option Nat) (stack : List Nat) :
    captureAct .positional parent stack 0 = captureAct .lexical parent stack 0 := by
  cases stack with
  | nil => rfl
  | cons a t => rfl

theorem makeCells_depth1 (s : St) (frees : List (Nat × Nat))
    (h : (frees.all fun p => p.2 == 0) = true) :
    makeCells .positional s frees = makeCells .lexical s frees := by
  induction frees with
  | nil => rfl
  | cons p rest ih =>
    obtain ⟨slot, d⟩ := p
    simp only [List.all_cons, Bool.and_eq_true, beq_iff_eq] at h
    obtain ⟨hd, hr⟩ := h
    have hd' : d = 0 := hd
    subst hd'
    simp only [makeCells, captureAct_zero, ih hr]

theorem lit_depth1_of_mem {lits : List Lit} (h : depth1Only lits = true) {i : Nat} {l : Lit}
    (hl : lits[i]? = some l) : (l.frees.all fun p => p.2 == 0) = true := by
  have hm : l ∈ lits := List.mem_of_getElem? hl
  simp only [depth1Only, List.all_eq_true] at h
  exact h l hm

/-- `Resolve` over a list of names yields one reference per name -/
theorem resolveNames_length : ∀ (xs : List String) (rs rs' : RS) (refs : List Ref),
    resolveNames xs rs = .ok (refs, rs') → refs.length = xs.length := by
  intro xs
  induction xs with
  | nil =>
    intro rs rs' refs h
    simp only [resolveNames, Except.ok.injEq, Prod.mk.injEq] at h
    rw [← h.1]
    rfl
  | cons x xs ih =>
    intro rs rs' refs h
    simp only [resolveNames] at h
    split at h
    · cases h
    · rename_i r rs1 _
      split at h
      · cases h
      · rename_i rl rs2 h2
        simp only [Except.ok.injEq, Prod.mk.injEq] at h
        rw [← h.1, List.length_cons, List.length_cons, ih rs1 rs2 rl h2]

end Risor.C02

namespace Risor.C02

/-- at recursion budget `n` none of the evaluator's functions depends on the mode -/
structure ModeIrrelevant (lits : List Lit) (n : Nat) : Prop where
  eval : eval .positional lits n = eval .lexical lits n
  evalList : evalList .positional lits n = evalList .lexical lits n
  execBody : execBody .positional lits n = execBody .lexical lits n
  callVal : callVal .positional lits n = callVal .lexical lits n
  mapItems : mapItems .positional lits n = mapItems .lexical lits n
  sortLoop : sortLoop .positional lits n = sortLoop .lexical lits n
  tryLoop : tryLoop .positional lits n = tryLoop .lexical lits n
  threadCall : threadCall .positional lits n = threadCall .lexical lits n
  loopRun : loopRun .positional lits n = loopRun .lexical lits n

theorem mode_irrelevant_zero (lits : List Lit) : ModeIrrelevant lits 0 := by
  constructor
  · funext t; simp only [eval]
  · funext t; simp only [evalList]
  · funext t; simp only [execBody]
  · funext a b; simp only [callVal]
  · funext a b; simp only [mapItems]
  · funext a b c d e; simp only [sortLoop]
  · funext a b; simp only [tryLoop]
  · funext a b c; simp only [threadCall]
  · funext a b c d e; simp only [loopRun]

end Risor.C02

namespace Risor.C02

theorem mode_irrelevant_succ (lits : List Lit) (h : depth1Only lits = true) (n : Nat)
    (ih : ModeIrrelevant lits n) : ModeIrrelevant lits (n + 1) := by
  obtain ⟨h1, h2, h3, h4, h5, h6, h7, h8, h9⟩ := ih
  constructor
  · funext t
    cases t with
    | mkfn i =>
      funext s
      simp only [eval]
      cases hl : lits[i]? with
      | none => rfl
      | some l => simp only [makeCells_depth1 s l.frees (lit_depth1_of_mem h hl)]
    | _ => simp only [eval, h1, h2, h3, h4, h5, h6, h7, h8, h9]
  · funext ts
    cases ts <;> simp only [evalList, h1, h2]
  · funext ts
    cases ts with
    | nil => simp only [execBody]
    | cons t rest => cases t <;> cases rest <;> simp only [execBody, h1, h3]
  · funext f args
    cases f <;> simp only [callVal, h3]
  · funext f xs
    cases xs <;> simp only [mapItems, h4, h5]
  · funext f items i j err
    simp only [sortLoop, h4, h6]
  · funext vs b
    cases vs with
    | nil => simp only [tryLoop]
    | cons v rest => cases v <;> simp only [tryLoop, h4, h7]
  · funext f args w
    simp only [threadCall, h4]
  · funext k rs cnt its body
    simp only [loopRun, h3, h9]

end Risor.C02

namespace Risor.C02

/-- **the evaluator does not depend on the mode when every capture is of the literal's own
    frame**, for every recursion budget -/
theorem mode_irrelevant (lits : List Lit) (h : depth1Only lits = true) : ∀ n, ModeIrrelevant lits n
  | 0 => mode_irrelevant_zero lits
  | n + 1 => mode_irrelevant_succ lits h n (mode_irrelevant lits h n)

end Risor.C02

namespace Risor.C02

/-! ## the slot allocator of block tables -/

/-- one operation either claims nothing and leaves `count`, or claims exactly `count` and
    moves it up by one -/
theorem FScope.applyOp_cases (s : FScope) (op : BOp) :
    ((s.applyOp op).2 = [] ∧ (s.applyOp op).1.count = s.count) ∨
    ((s.applyOp op).2 = [s.count] ∧ (s.applyOp op).1.count = s.count + 1) := by
  cases op with
  | openB => exact .inl ⟨rfl, rfl⟩
  | closeB => exact .inl ⟨rfl, rfl⟩
  | decl x =>
    unfold FScope.applyOp FScope.declare
    cases hb : s.blocks with
    | nil =>
      simp only
      cases hl : lookupTab s.bodyTab x with
      | some i => exact .inl ⟨rfl, rfl⟩
      | none => exact .inr ⟨rfl, rfl⟩
    | cons b bs =>
      simp only
      cases hl : lookupTab b x with
      | some i => exact .inl ⟨rfl, rfl⟩
      | none => exact .inr ⟨rfl, rfl⟩

/-- the claimed slots of any sequence are strictly increasing and lie in
    `[count before, count after)` -/
theorem FScope.claims_sorted : ∀ (ops : List BOp) (s : FScope),
    (s.claims ops).Pairwise (· < ·) ∧ s.count ≤ (s.runOps ops).count ∧
      ∀ i ∈ s.claims ops, s.count ≤ i ∧ i < (s.runOps ops).count := by
  intro ops
  induction ops with
  | nil =>
    intro s
    refine ⟨List.Pairwise.nil, Nat.le_refl _, ?_⟩
    intro i hi
    simp [FScope.claims] at hi
  | cons op ops ih =>
    intro s
    obtain ⟨hp, hc, hall⟩ := ih (s.applyOp op).1
    rcases FScope.applyOp_cases s op with ⟨h2, h1⟩ | ⟨h2, h1⟩
    · simp only [FScope.claims, FScope.runOps, h2, List.nil_append]
      rw [h1] at hc hall
      exact ⟨hp, hc, hall⟩
    · simp only [FScope.claims, FScope.runOps, h2, List.singleton_append]
      rw [h1] at hc hall
      refine ⟨List.Pairwise.cons ?_ hp, by omega, ?_⟩
      · intro j hj
        have := (hall j hj).1
        omega
      · intro i hi
        rcases List.mem_cons.1 hi with rfl | hi
        · exact ⟨Nat.le_refl _, by omega⟩
        · have := hall i hi
          exact ⟨by omega, this.2⟩

end Risor.C02

namespace Risor.C02

/-! ## the frame machine: what every reachable state satisfies -/


theorem upd_same {α : Type} (f : Nat → α) (k : Nat) (v : α) : upd f k v k = v := by simp [upd]
theorem upd_other {α : Type} (f : Nat → α) (k j : Nat) (v : α) (h : j ≠ k) : upd f k v j = f j := by simp [upd, h]

structure FM.Inv (s : FM) : Prop where
  acts_lt : ∀ k, k ≤ s.fp → (s.frames k).act < s.nacts
  acts_mono : ∀ k1 k2, k1 < k2 → k2 ≤ s.fp → (s.frames k1).act < (s.frames k2).act
  cap_loc : ∀ k a, k ≤ s.fp → (s.frames k).captured = some a → (s.frames k).heapLoc = some a
  loc_owner : ∀ k a, k ≤ s.fp → (s.frames k).heapLoc = some a → a < s.next ∧ s.owner a = (s.frames k).act
  cell_owner : ∀ c, c ∈ s.cells → c.addr < s.next ∧ s.owner c.addr = c.act ∧ c.act < s.nacts
  cell_live : ∀ c k, c ∈ s.cells → k ≤ s.fp → (s.frames k).act = c.act → (s.frames k).heapLoc = some c.addr
  cell_same : ∀ c1 c2, c1 ∈ s.cells → c2 ∈ s.cells → c1.act = c2.act → c1.addr = c2.addr

theorem FM.inv_init : FM.init.Inv := by
  constructor <;> simp [FM.init]
  intro k1 k2 h; omega

/-- two live frames with the same activation are the same frame -/
theorem FM.Inv.frame_unique {s : FM} (h : s.Inv) (k1 k2 : Nat) (h1 : k1 ≤ s.fp) (h2 : k2 ≤ s.fp)
    (he : (s.frames k1).act = (s.frames k2).act) : k1 = k2 := by
  rcases Nat.lt_trichotomy k1 k2 with hlt | heq | hgt
  · have := h.acts_mono k1 k2 hlt h2; omega
  · exact heq
  · have := h.acts_mono k2 k1 hgt h1; omega

theorem FM.inv_call (s : FM) (h : s.Inv) (wide : Bool) :
    ({ s with
      frames := upd s.frames (s.fp + 1) { act := s.nacts, heapLoc := if wide then some s.next else none, captured := none },
      inl := upd s.inl (s.fp + 1) (fun _ => 0),
      heap := if wide then upd s.heap s.next (fun _ => 0) else s.heap,
      owner := if wide then upd s.owner s.next s.nacts else s.owner,
      next := if wide then s.next + 1 else s.next,
      fp := s.fp + 1, nacts := s.nacts + 1 } : FM).Inv := by
  constructor
  · intro k hk
    dsimp only at hk ⊢
    by_cases hkk : k = s.fp + 1
    · subst hkk; simp [upd_same]
    · rw [upd_other _ _ _ _ hkk]
      have := h.acts_lt k (by omega); omega
  · intro k1 k2 h12 hk2
    dsimp only at hk2 ⊢
    have hk1 : k1 ≠ s.fp + 1 := by omega
    rw [upd_other _ _ _ _ hk1]
    by_cases hkk : k2 = s.fp + 1
    · subst hkk; rw [upd_same]; exact h.acts_lt k1 (by omega)
    · rw [upd_other _ _ _ _ hkk]; exact h.acts_mono k1 k2 h12 (by omega)
  · intro k a hk hc
    dsimp only at hk hc ⊢
    by_cases hkk : k = s.fp + 1
    · subst hkk; rw [upd_same] at hc; simp at hc
    · rw [upd_other _ _ _ _ hkk] at hc ⊢
      exact h.cap_loc k a (by omega) hc
  · intro k a hk hl
    dsimp only at hk hl ⊢
    by_cases hkk : k = s.fp + 1
    · subst hkk
      rw [upd_same] at hl ⊢
      cases wide with
      | false => simp at hl
      | true =>
        simp only [if_true, Option.some.injEq] at hl
        subst hl
        simp [upd_same]
    · rw [upd_other _ _ _ _ hkk] at hl ⊢
      obtain ⟨h1, h2⟩ := h.loc_owner k a (by omega) hl
      cases wide with
      | false => exact ⟨h1, h2⟩
      | true =>
        refine ⟨by simp; omega, ?_⟩
        simp only [if_true]
        rw [upd_other _ _ _ _ (by omega)]
        exact h2
  · intro c hc
    dsimp only at hc ⊢
    obtain ⟨h1, h2, h3⟩ := h.cell_owner c hc
    cases wide with
    | false => exact ⟨h1, h2, by omega⟩
    | true =>
      refine ⟨by simp; omega, ?_, by omega⟩
      simp only [if_true]
      rw [upd_other _ _ _ _ (by omega)]
      exact h2
  · intro c k hc hk hact
    dsimp only at hc hk hact ⊢
    by_cases hkk : k = s.fp + 1
    · subst hkk
      rw [upd_same] at hact
      have := (h.cell_owner c hc).2.2
      simp at hact
      omega
    · rw [upd_other _ _ _ _ hkk] at hact ⊢
      exact h.cell_live c k hc (by omega) hact
  · intro c1 c2 h1 h2 he
    exact h.cell_same c1 c2 h1 h2 he


/-- the invariant only speaks about frames, cells, allocation and ghost ownership: an operation
    that leaves them alone (stores, loads) keeps it -/
theorem FM.Inv.of_same {s t : FM} (h : s.Inv) (h1 : t.frames = s.frames) (h2 : t.fp = s.fp) (h3 : t.nacts = s.nacts)
    (h4 : t.next = s.next) (h5 : t.owner = s.owner) (h6 : t.cells = s.cells) : t.Inv := by
  constructor
  · intro k hk; rw [h1, h3]; rw [h2] at hk; exact h.acts_lt k hk
  · intro k1 k2 h12 hk; rw [h1]; rw [h2] at hk; exact h.acts_mono k1 k2 h12 hk
  · intro k a hk hc; rw [h1] at hc ⊢; rw [h2] at hk; exact h.cap_loc k a hk hc
  · intro k a hk hl; rw [h1] at hl ⊢; rw [h2] at hk; rw [h4, h5]; exact h.loc_owner k a hk hl
  · intro c hc; rw [h6] at hc; rw [h3, h4, h5]; exact h.cell_owner c hc
  · intro c k hc hk ha; rw [h6] at hc; rw [h2] at hk; rw [h1] at ha ⊢; exact h.cell_live c k hc hk ha
  · intro c1 c2 hc1 hc2 he; rw [h6] at hc1 hc2; exact h.cell_same c1 c2 hc1 hc2 he

/-- a frame is popped — by a return or by an error, the slot itself is left as it is -/
theorem FM.inv_pop (s : FM) (h : s.Inv) : ({ s with fp := s.fp - 1 } : FM).Inv := by
  constructor
  · intro k hk; exact h.acts_lt k (by dsimp only at hk; omega)
  · intro k1 k2 h12 hk; exact h.acts_mono k1 k2 h12 (by dsimp only at hk; omega)
  · intro k a hk hc; exact h.cap_loc k a (by dsimp only at hk; omega) hc
  · intro k a hk hl; exact h.loc_owner k a (by dsimp only at hk; omega) hl
  · intro c hc; exact h.cell_owner c hc
  · intro c k hc hk ha; exact h.cell_live c k hc (by dsimp only at hk; omega) ha
  · intro c1 c2 hc1 hc2 he; exact h.cell_same c1 c2 hc1 hc2 he

/-- `MakeCell` on a frame whose locals are on the heap already (captured before, or more than 8 locals) -/
theorem FM.inv_cell_heap (s : FM) (h : s.Inv) (k : Nat) (hk : k ≤ s.fp) (a idx : Nat)
    (hl : (s.frames k).heapLoc = some a) :
    ({ s with frames := upd s.frames k { s.frames k with captured := some a },
              cells := s.cells ++ [⟨a, idx, (s.frames k).act⟩] } : FM).Inv := by
  have hfr : ∀ j, (upd s.frames k { s.frames k with captured := some a } j).act = (s.frames j).act ∧
      (upd s.frames k { s.frames k with captured := some a } j).heapLoc = (s.frames j).heapLoc := by
    intro j
    by_cases hj : j = k
    · subst hj; simp [upd_same]
    · simp [upd_other _ _ _ _ hj]
  obtain ⟨ho1, ho2⟩ := h.loc_owner k a hk hl
  constructor
  · intro j hj; dsimp only at hj ⊢; rw [(hfr j).1]; exact h.acts_lt j hj
  · intro k1 k2 h12 hk2; dsimp only at hk2 ⊢; rw [(hfr k1).1, (hfr k2).1]; exact h.acts_mono k1 k2 h12 hk2
  · intro j b hj hc
    dsimp only at hj hc ⊢
    rw [(hfr j).2]
    by_cases hjk : j = k
    · subst hjk
      rw [upd_same] at hc
      simp only [Option.some.injEq] at hc
      subst hc; exact hl
    · rw [upd_other _ _ _ _ hjk] at hc; exact h.cap_loc j b hj hc
  · intro j b hj hlb
    dsimp only at hj hlb ⊢
    rw [(hfr j).2] at hlb; rw [(hfr j).1]
    exact h.loc_owner j b hj hlb
  · intro c hc
    dsimp only at hc ⊢
    rcases List.mem_append.1 hc with hc | hc
    · exact h.cell_owner c hc
    · simp only [List.mem_singleton] at hc
      subst hc
      exact ⟨ho1, ho2, h.acts_lt k hk⟩
  · intro c j hc hj hact
    dsimp only at hc hj hact ⊢
    rw [(hfr j).1] at hact; rw [(hfr j).2]
    rcases List.mem_append.1 hc with hc | hc
    · exact h.cell_live c j hc hj hact
    · simp only [List.mem_singleton] at hc
      subst hc
      have : j = k := h.frame_unique j k hj hk hact
      subst this; exact hl
  · intro c1 c2 hc1 hc2 he
    dsimp only at hc1 hc2
    rcases List.mem_append.1 hc1 with hc1 | hc1 <;> rcases List.mem_append.1 hc2 with hc2 | hc2
    · exact h.cell_same c1 c2 hc1 hc2 he
    · simp only [List.mem_singleton] at hc2
      subst hc2
      have := h.cell_live c1 k hc1 hk he.symm
      rw [hl] at this
      exact (Option.some.inj this).symm
    · simp only [List.mem_singleton] at hc1
      subst hc1
      have := h.cell_live c2 k hc2 hk he
      rw [hl] at this
      exact Option.some.inj this
    · simp only [List.mem_singleton] at hc1 hc2
      subst hc1 hc2; rfl

/-- `MakeCell` on a frame whose locals are still inline: `CaptureLocals` moves them to a fresh heap slice -/
theorem FM.inv_cell_move (s : FM) (h : s.Inv) (k : Nat) (hk : k ≤ s.fp) (idx : Nat)
    (hl : (s.frames k).heapLoc = none) :
    ({ s with heap := upd s.heap s.next (s.inl k),
              owner := upd s.owner s.next (s.frames k).act,
              next := s.next + 1,
              frames := upd s.frames k { s.frames k with heapLoc := some s.next, captured := some s.next },
              cells := s.cells ++ [⟨s.next, idx, (s.frames k).act⟩] } : FM).Inv := by
  have hact : ∀ j, (upd s.frames k { s.frames k with heapLoc := some s.next, captured := some s.next } j).act = (s.frames j).act := by
    intro j
    by_cases hj : j = k
    · subst hj; simp [upd_same]
    · simp [upd_other _ _ _ _ hj]
  constructor
  · intro j hj; dsimp only at hj ⊢; rw [hact j]; exact h.acts_lt j hj
  · intro k1 k2 h12 hk2; dsimp only at hk2 ⊢; rw [hact k1, hact k2]; exact h.acts_mono k1 k2 h12 hk2
  · intro j b hj hc
    dsimp only at hj hc ⊢
    by_cases hjk : j = k
    · subst hjk
      rw [upd_same] at hc ⊢
      exact hc
    · rw [upd_other _ _ _ _ hjk] at hc ⊢; exact h.cap_loc j b hj hc
  · intro j b hj hlb
    dsimp only at hj hlb ⊢
    rw [hact j]
    by_cases hjk : j = k
    · subst hjk
      rw [upd_same] at hlb
      simp only [Option.some.injEq] at hlb
      subst hlb
      exact ⟨by omega, upd_same _ _ _⟩
    · rw [upd_other _ _ _ _ hjk] at hlb
      obtain ⟨h1, h2⟩ := h.loc_owner j b hj hlb
      exact ⟨by omega, by rw [upd_other _ _ _ _ (by omega)]; exact h2⟩
  · intro c hc
    dsimp only at hc ⊢
    rcases List.mem_append.1 hc with hc | hc
    · obtain ⟨h1, h2, h3⟩ := h.cell_owner c hc
      exact ⟨by omega, by rw [upd_other _ _ _ _ (by omega)]; exact h2, h3⟩
    · simp only [List.mem_singleton] at hc
      subst hc
      exact ⟨by dsimp only; omega, upd_same _ _ _, h.acts_lt k hk⟩
  · intro c j hc hj hcact
    dsimp only at hc hj hcact ⊢
    rw [hact j] at hcact
    rcases List.mem_append.1 hc with hc' | hc'
    · by_cases hjk : j = k
      · subst hjk
        have := h.cell_live c j hc' hj hcact
        rw [hl] at this; cases this
      · rw [upd_other _ _ _ _ hjk]; exact h.cell_live c j hc' hj hcact
    · simp only [List.mem_singleton] at hc'
      subst hc'
      have : j = k := h.frame_unique j k hj hk hcact
      subst this; rw [upd_same]
  · intro c1 c2 hc1 hc2 he
    dsimp only at hc1 hc2
    rcases List.mem_append.1 hc1 with hc1 | hc1 <;> rcases List.mem_append.1 hc2 with hc2 | hc2
    · exact h.cell_same c1 c2 hc1 hc2 he
    · simp only [List.mem_singleton] at hc2
      subst hc2
      have := h.cell_live c1 k hc1 hk he.symm
      rw [hl] at this; cases this
    · simp only [List.mem_singleton] at hc1
      subst hc1
      have := h.cell_live c2 k hc2 hk he
      rw [hl] at this; cases this
    · simp only [List.mem_singleton] at hc1 hc2
      subst hc1 hc2; rfl

/-- `MakeCell` on a frame that has been captured before: no change to the frame -/
theorem FM.inv_cell_again (s : FM) (h : s.Inv) (k : Nat) (hk : k ≤ s.fp) (a idx : Nat)
    (hc : (s.frames k).captured = some a) :
    ({ s with cells := s.cells ++ [⟨a, idx, (s.frames k).act⟩] } : FM).Inv := by
  have hl := h.cap_loc k a hk hc
  have h' := FM.inv_cell_heap s h k hk a idx hl
  have hfr : upd s.frames k { s.frames k with captured := some a } = s.frames := by
    funext j
    by_cases hj : j = k
    · subst hj; rw [upd_same]; rw [← hc]
    · exact upd_other _ _ _ _ hj
  exact FM.Inv.of_same h' (by dsimp only; rw [hfr]) rfl rfl rfl rfl rfl

/-- **every operation keeps the invariant** -/
theorem FM.inv_step (s s' : FM) (op : FOp) (h : s.Inv) (hs : s.step op = some s') : s'.Inv := by
  cases op with
  | call wide =>
    simp only [FM.step, Option.some.injEq] at hs
    subst hs
    exact FM.inv_call s h wide
  | ret =>
    simp only [FM.step] at hs
    split at hs
    · cases hs
    · simp only [Option.some.injEq] at hs; subst hs; exact FM.inv_pop s h
  | abort =>
    simp only [FM.step] at hs
    split at hs
    · cases hs
    · simp only [Option.some.injEq] at hs; subst hs; exact FM.inv_pop s h
  | makeCell idx back =>
    simp only [FM.step] at hs
    split at hs
    · cases hs
    · rename_i hb
      have hk : s.fp - back ≤ s.fp := Nat.sub_le _ _
      split at hs
      · rename_i _ a hc
        simp only [Option.some.injEq] at hs; subst hs
        exact FM.inv_cell_again s h _ hk a idx hc
      · rename_i a hc hl
        simp only [Option.some.injEq] at hs; subst hs
        exact FM.inv_cell_heap s h _ hk a idx hl
      · rename_i hc hl
        simp only [Option.some.injEq] at hs; subst hs
        exact FM.inv_cell_move s h _ hk idx hl
  | storeFast idx v =>
    simp only [FM.step] at hs
    split at hs <;> (simp only [Option.some.injEq] at hs; subst hs; exact FM.Inv.of_same h rfl rfl rfl rfl rfl rfl)
  | loadFast idx =>
    simp only [FM.step, Option.some.injEq] at hs
    subst hs; exact FM.Inv.of_same h rfl rfl rfl rfl rfl rfl
  | storeFree c v =>
    simp only [FM.step] at hs
    split at hs
    · simp only [Option.some.injEq] at hs; subst hs; exact FM.Inv.of_same h rfl rfl rfl rfl rfl rfl
    · cases hs
  | loadFree c =>
    simp only [FM.step] at hs
    split at hs
    · simp only [Option.some.injEq] at hs; subst hs; exact FM.Inv.of_same h rfl rfl rfl rfl rfl rfl
    · cases hs

theorem FM.inv_run : ∀ (ops : List FOp) (s s' : FM), s.Inv → FM.run s ops = some s' → s'.Inv := by
  intro ops
  induction ops with
  | nil => intro s s' h hr; simp only [FM.run, Option.some.injEq] at hr; subst hr; exact h
  | cons op ops ih =>
    intro s s' h hr
    simp only [FM.run] at hr
    cases hst : s.step op with
    | none => rw [hst] at hr; cases hr
    | some s1 =>
      rw [hst] at hr
      exact ih s1 s' (FM.inv_step s s1 op h hst) hr


end Risor.C02

namespace Risor.C02

/-! ## the frame machine shows the variables of the variable machine (simulation) -/

/-- the frame machine `s` shows the variables of `t` -/
structure FM.Sim (s : FM) (t : VarM) : Prop where
  fp_eq : t.fp = s.fp
  nacts_eq : t.nacts = s.nacts
  out_eq : t.out = s.out
  stack_eq : ∀ k, k ≤ s.fp → t.stackf k = (s.frames k).act
  cells_eq : t.cells = s.cells.map fun c => (c.act, c.idx)
  frame_content : ∀ k i, k ≤ s.fp → s.frameVal k i = t.vars (s.frames k).act i
  cell_content : ∀ c i, c ∈ s.cells → s.heap c.addr i = t.vars c.act i

theorem FM.sim_init : FM.init.Sim VarM.init := by
  constructor <;> simp [FM.init, VarM.init, FM.frameVal]

theorem FM.sim_call (s : FM) (t : VarM) (h : s.Inv) (hs : s.Sim t) (wide : Bool) (s' : FM) (t' : VarM)
    (h1 : s.step (.call wide) = some s') (h2 : t.step (.call wide) = some t') : s'.Sim t' := by
  simp only [FM.step, Option.some.injEq] at h1
  simp only [VarM.step, Option.some.injEq] at h2
  subst h1 h2
  constructor
  · dsimp only; rw [hs.fp_eq]
  · dsimp only; rw [hs.nacts_eq]
  · exact hs.out_eq
  · intro k hk
    dsimp only at hk ⊢
    rw [hs.fp_eq, hs.nacts_eq]
    by_cases hkk : k = s.fp + 1
    · subst hkk; rw [upd_same, upd_same]
    · rw [upd_other _ _ _ _ hkk, upd_other _ _ _ _ hkk]; exact hs.stack_eq k (by omega)
  · exact hs.cells_eq
  · intro k i hk
    dsimp only at hk
    simp only [FM.frameVal]
    rw [hs.nacts_eq]
    by_cases hkk : k = s.fp + 1
    · subst hkk
      rw [upd_same]
      cases wide <;> simp [upd_same]
    · rw [upd_other _ _ _ _ hkk]
      have hact := h.acts_lt k (by omega)
      have hne : (s.frames k).act ≠ s.nacts := by omega
      have := hs.frame_content k i (by omega)
      simp only [FM.frameVal] at this
      cases hl : (s.frames k).heapLoc with
      | none => rw [hl] at this; simpa [upd, hkk, hne] using this
      | some a =>
        rw [hl] at this
        have ha := (h.loc_owner k a (by omega) hl).1
        have hne2 : a ≠ s.next := by omega
        cases wide <;> simpa [upd, hne, hne2] using this
  · intro c i hc
    dsimp only at hc ⊢
    obtain ⟨ha, _, hact⟩ := h.cell_owner c hc
    have hne : c.act ≠ s.nacts := by omega
    have hne2 : c.addr ≠ s.next := by omega
    have := hs.cell_content c i hc
    rw [hs.nacts_eq]
    cases wide <;> simpa [upd, hne, hne2] using this

theorem FM.sim_pop (s : FM) (t : VarM) (hs : s.Sim t) : ({ s with fp := s.fp - 1 } : FM).Sim { t with fp := t.fp - 1 } := by
  constructor
  · dsimp only; rw [hs.fp_eq]
  · exact hs.nacts_eq
  · exact hs.out_eq
  · intro k hk; exact hs.stack_eq k (by dsimp only at hk; omega)
  · exact hs.cells_eq
  · intro k i hk; exact hs.frame_content k i (by dsimp only at hk; omega)
  · exact hs.cell_content


theorem FM.sim_add_cell (s : FM) (t : VarM) (hs : s.Sim t) (k a idx : Nat) (hk : k ≤ s.fp)
    (hl : (s.frames k).heapLoc = some a) (fr' : Nat → FFrame)
    (hfr : ∀ j, (fr' j).act = (s.frames j).act ∧ (fr' j).heapLoc = (s.frames j).heapLoc) :
    ({ s with frames := fr', cells := s.cells ++ [⟨a, idx, (s.frames k).act⟩] } : FM).Sim
      { t with cells := t.cells ++ [(t.stackf k, idx)] } := by
  have hka : ∀ i, s.heap a i = t.vars (s.frames k).act i := by
    intro i
    have := hs.frame_content k i hk
    simpa only [FM.frameVal, hl] using this
  constructor
  · exact hs.fp_eq
  · exact hs.nacts_eq
  · exact hs.out_eq
  · intro j hj; dsimp only at hj ⊢; rw [(hfr j).1]; exact hs.stack_eq j hj
  · dsimp only; rw [hs.cells_eq, hs.stack_eq k hk]; simp
  · intro j i hj
    dsimp only at hj
    have := hs.frame_content j i hj
    simp only [FM.frameVal] at this ⊢
    rw [(hfr j).1, (hfr j).2]; exact this
  · intro c i hc
    dsimp only at hc ⊢
    rcases List.mem_append.1 hc with hc' | hc'
    · exact hs.cell_content c i hc'
    · simp only [List.mem_singleton] at hc'
      subst hc'; exact hka i

/-- a store that changes exactly variable `idx` of activation `A`, in every frame and through every cell -/
theorem FM.sim_store (s : FM) (t : VarM) (hs : s.Sim t) (A idx : Nat) (v : Int) (heap' inl' : Nat → Nat → Int)
    (hf : ∀ j i, j ≤ s.fp → ({ s with heap := heap', inl := inl' } : FM).frameVal j i =
      if (s.frames j).act = A ∧ i = idx then v else s.frameVal j i)
    (hc : ∀ c i, c ∈ s.cells → heap' c.addr i = if c.act = A ∧ i = idx then v else s.heap c.addr i) :
    ({ s with heap := heap', inl := inl' } : FM).Sim { t with vars := upd t.vars A (upd (t.vars A) idx v) } := by
  constructor
  · exact hs.fp_eq
  · exact hs.nacts_eq
  · exact hs.out_eq
  · exact hs.stack_eq
  · exact hs.cells_eq
  · intro j i hj
    dsimp only at hj
    rw [hf j i hj]
    dsimp only
    have := hs.frame_content j i hj
    by_cases h1 : (s.frames j).act = A
    · by_cases h2 : i = idx
      · simp [upd, h1, h2]
      · simp [upd, h1, h2]; rw [← h1]; exact this
    · simp [upd, h1]; exact this
  · intro c i hcm
    dsimp only at hcm ⊢
    rw [hc c i hcm]
    have := hs.cell_content c i hcm
    by_cases h1 : c.act = A
    · by_cases h2 : i = idx
      · simp [upd, h1, h2]
      · simp [upd, h1, h2]; rw [← h1]; exact this
    · simp [upd, h1]; exact this


theorem FM.sim_cell_move (s : FM) (t : VarM) (h : s.Inv) (hs : s.Sim t) (k idx : Nat) (hk : k ≤ s.fp)
    (hl : (s.frames k).heapLoc = none) :
    ({ s with heap := upd s.heap s.next (s.inl k),
              owner := upd s.owner s.next (s.frames k).act,
              next := s.next + 1,
              frames := upd s.frames k { s.frames k with heapLoc := some s.next, captured := some s.next },
              cells := s.cells ++ [⟨s.next, idx, (s.frames k).act⟩] } : FM).Sim
      { t with cells := t.cells ++ [(t.stackf k, idx)] } := by
  have hact : ∀ j, (upd s.frames k { s.frames k with heapLoc := some s.next, captured := some s.next } j).act = (s.frames j).act := by
    intro j
    by_cases hj : j = k
    · subst hj; simp [upd_same]
    · simp [upd_other _ _ _ _ hj]
  have hkv : ∀ i, s.inl k i = t.vars (s.frames k).act i := by
    intro i
    have := hs.frame_content k i hk
    simpa only [FM.frameVal, hl] using this
  constructor
  · exact hs.fp_eq
  · exact hs.nacts_eq
  · exact hs.out_eq
  · intro j hj; dsimp only at hj ⊢; rw [hact j]; exact hs.stack_eq j hj
  · dsimp only; rw [hs.cells_eq, hs.stack_eq k hk]; simp
  · intro j i hj
    dsimp only at hj
    simp only [FM.frameVal]
    rw [hact j]
    by_cases hjk : j = k
    · subst hjk
      rw [upd_same]
      simp only [upd_same]
      exact hkv i
    · rw [upd_other _ _ _ _ hjk]
      have := hs.frame_content j i hj
      simp only [FM.frameVal] at this
      cases hlj : (s.frames j).heapLoc with
      | none => rw [hlj] at this; exact this
      | some a =>
        rw [hlj] at this
        have ha := (h.loc_owner j a hj hlj).1
        simp only
        rw [upd_other _ _ _ _ (by omega)]; exact this
  · intro c i hc
    dsimp only at hc ⊢
    rcases List.mem_append.1 hc with hc' | hc'
    · have ha := (h.cell_owner c hc').1
      rw [upd_other _ _ _ _ (by omega)]
      exact hs.cell_content c i hc'
    · simp only [List.mem_singleton] at hc'
      subst hc'
      dsimp only
      rw [upd_same]; exact hkv i

/-- `StoreFast idx v` on the frame machine changes exactly variable `idx` of the running activation -/
theorem FM.sim_storeFast (s : FM) (t : VarM) (h : s.Inv) (hs : s.Sim t) (idx : Nat) (v : Int) (s' : FM)
    (h1 : s.step (.storeFast idx v) = some s') :
    s'.Sim { t with vars := upd t.vars (s.frames s.fp).act (upd (t.vars (s.frames s.fp).act) idx v) } := by
  simp only [FM.step] at h1
  split at h1
  · rename_i a hl
    simp only [Option.some.injEq] at h1; subst h1
    have := FM.sim_store s t hs (s.frames s.fp).act idx v (upd s.heap a (upd (s.heap a) idx v)) s.inl ?_ ?_
    · exact this
    · intro j i hj
      simp only [FM.frameVal]
      cases hlj : (s.frames j).heapLoc with
      | none =>
        have hne : (s.frames j).act ≠ (s.frames s.fp).act := by
          intro he
          have := h.frame_unique j s.fp hj (Nat.le_refl _) he
          subst this; rw [hl] at hlj; cases hlj
        simp [hne]
      | some b =>
        simp only
        by_cases hba : b = a
        · subst hba
          have e1 := (h.loc_owner j b hj hlj).2
          have e2 := (h.loc_owner s.fp b (Nat.le_refl _) hl).2
          have hact : (s.frames j).act = (s.frames s.fp).act := e1.symm.trans e2
          by_cases hi : i = idx
          · simp [upd, hact, hi]
          · simp [upd, hact, hi]
        · have hne : (s.frames j).act ≠ (s.frames s.fp).act := by
            intro he
            have := h.frame_unique j s.fp hj (Nat.le_refl _) he
            subst this; rw [hl] at hlj; exact hba (Option.some.inj hlj).symm
          simp [upd, hba, hne]
    · intro c i hc
      by_cases hca : c.addr = a
      · have e1 := (h.cell_owner c hc).2.1
        have e2 := (h.loc_owner s.fp a (Nat.le_refl _) hl).2
        rw [hca] at e1
        have hact : c.act = (s.frames s.fp).act := e1.symm.trans e2
        by_cases hi : i = idx
        · simp [upd, hca, hact, hi]
        · simp [upd, hca, hact, hi]
      · have hne : c.act ≠ (s.frames s.fp).act := by
          intro he
          have := h.cell_live c s.fp hc (Nat.le_refl _) he.symm
          rw [hl] at this; exact hca (Option.some.inj this).symm
        simp [upd, hca, hne]
  · rename_i hl
    simp only [Option.some.injEq] at h1; subst h1
    have := FM.sim_store s t hs (s.frames s.fp).act idx v s.heap (upd s.inl s.fp (upd (s.inl s.fp) idx v)) ?_ ?_
    · exact this
    · intro j i hj
      simp only [FM.frameVal]
      by_cases hjf : j = s.fp
      · subst hjf
        rw [hl]
        by_cases hi : i = idx
        · simp [upd, hi]
        · simp [upd, hi]
      · have hne : (s.frames j).act ≠ (s.frames s.fp).act := by
          intro he
          exact hjf (h.frame_unique j s.fp hj (Nat.le_refl _) he)
        cases hlj : (s.frames j).heapLoc with
        | none => simp [upd, hjf, hne]
        | some b => simp [hne]
    · intro c i hc
      have hne : c.act ≠ (s.frames s.fp).act := by
        intro he
        have := h.cell_live c s.fp hc (Nat.le_refl _) he.symm
        rw [hl] at this; cases this
      simp [hne]

/-- `StoreFree` through cell `cl` changes exactly variable `cl.idx` of activation `cl.act` -/
theorem FM.sim_storeFree (s : FM) (t : VarM) (h : s.Inv) (hs : s.Sim t) (cl : FCell) (hcl : cl ∈ s.cells) (v : Int) :
    ({ s with heap := upd s.heap cl.addr (upd (s.heap cl.addr) cl.idx v) } : FM).Sim
      { t with vars := upd t.vars cl.act (upd (t.vars cl.act) cl.idx v) } := by
  have := FM.sim_store s t hs cl.act cl.idx v (upd s.heap cl.addr (upd (s.heap cl.addr) cl.idx v)) s.inl ?_ ?_
  · exact this
  · intro j i hj
    simp only [FM.frameVal]
    cases hlj : (s.frames j).heapLoc with
    | none =>
      have hne : (s.frames j).act ≠ cl.act := by
        intro he
        have := h.cell_live cl j hcl hj he
        rw [hlj] at this; cases this
      simp [hne]
    | some b =>
      simp only
      by_cases hba : b = cl.addr
      · have e1 := (h.loc_owner j b hj hlj).2
        have e2 := (h.cell_owner cl hcl).2.1
        rw [hba] at e1
        have hact : (s.frames j).act = cl.act := e1.symm.trans e2
        by_cases hi : i = cl.idx
        · simp [upd, hba, hact, hi]
        · simp [upd, hba, hact, hi]
      · have hne : (s.frames j).act ≠ cl.act := by
          intro he
          have := h.cell_live cl j hcl hj he
          rw [hlj] at this; exact hba (Option.some.inj this)
        simp [upd, hba, hne]
  · intro c i hc
    by_cases hca : c.addr = cl.addr
    · have e1 := (h.cell_owner c hc).2.1
      have e2 := (h.cell_owner cl hcl).2.1
      rw [hca] at e1
      have hact : c.act = cl.act := e1.symm.trans e2
      by_cases hi : i = cl.idx
      · simp [upd, hca, hact, hi]
      · simp [upd, hca, hact, hi]
    · have hne : c.act ≠ cl.act := fun he => hca (h.cell_same c cl hc hcl he)
      simp [upd, hca, hne]


/-- one operation: both machines accept it or both refuse it, and they stay related -/
theorem FM.sim_step (s : FM) (t : VarM) (h : s.Inv) (hs : s.Sim t) (op : FOp) :
    match s.step op, t.step op with
    | some s', some t' => s'.Sim t'
    | none, none => True
    | _, _ => False := by
  cases op with
  | call wide =>
    exact FM.sim_call s t h hs wide _ _ rfl rfl
  | ret =>
    by_cases h0 : s.fp = 0
    · have h0' : t.fp = 0 := by rw [hs.fp_eq]; exact h0
      simp [FM.step, VarM.step, h0, h0']
    · have h0' : ¬ t.fp = 0 := by rw [hs.fp_eq]; exact h0
      simp only [FM.step, VarM.step, h0, h0', if_false]
      exact FM.sim_pop s t hs
  | abort =>
    by_cases h0 : s.fp = 0
    · have h0' : t.fp = 0 := by rw [hs.fp_eq]; exact h0
      simp [FM.step, VarM.step, h0, h0']
    · have h0' : ¬ t.fp = 0 := by rw [hs.fp_eq]; exact h0
      simp only [FM.step, VarM.step, h0, h0', if_false]
      exact FM.sim_pop s t hs
  | makeCell idx back =>
    by_cases hb : back > s.fp
    · have hb' : back > t.fp := by rw [hs.fp_eq]; exact hb
      simp [FM.step, VarM.step, hb, hb']
    · have hb' : ¬ back > t.fp := by rw [hs.fp_eq]; exact hb
      have hfp : t.fp - back = s.fp - back := by rw [hs.fp_eq]
      simp only [FM.step, VarM.step, hb, hb', if_false, hfp]
      have hk : s.fp - back ≤ s.fp := Nat.sub_le _ _
      cases hc : (s.frames (s.fp - back)).captured with
      | some a =>
        have hl := h.cap_loc _ a hk hc
        simp only
        exact FM.sim_add_cell s t hs (s.fp - back) a idx hk hl s.frames (fun j => ⟨rfl, rfl⟩)
      | none =>
        cases hl : (s.frames (s.fp - back)).heapLoc with
        | some a =>
          simp only
          refine FM.sim_add_cell s t hs (s.fp - back) a idx hk hl _ ?_
          intro j
          by_cases hj : j = s.fp - back
          · subst hj; simp [upd_same, hl]
          · simp [upd_other _ _ _ _ hj]
        | none =>
          simp only
          exact FM.sim_cell_move s t h hs (s.fp - back) idx hk hl
  | storeFast idx v =>
    have hst : t.stackf t.fp = (s.frames s.fp).act := by
      rw [hs.fp_eq]; exact hs.stack_eq s.fp (Nat.le_refl _)
    cases h1 : s.step (.storeFast idx v) with
    | none =>
      simp only [FM.step] at h1
      split at h1 <;> cases h1
    | some s' =>
      simp only [VarM.step, hst]
      exact FM.sim_storeFast s t h hs idx v s' h1
  | loadFast idx =>
    simp only [FM.step, VarM.step]
    have hst : t.stackf t.fp = (s.frames s.fp).act := by
      rw [hs.fp_eq]; exact hs.stack_eq s.fp (Nat.le_refl _)
    have hv : s.readFast idx = t.vars (t.stackf t.fp) idx := by
      rw [hst]
      exact hs.frame_content s.fp idx (Nat.le_refl _)
    constructor
    · exact hs.fp_eq
    · exact hs.nacts_eq
    · dsimp only; rw [hv, hs.out_eq]
    · exact hs.stack_eq
    · exact hs.cells_eq
    · exact hs.frame_content
    · exact hs.cell_content
  | storeFree c v =>
    have htc : t.cells[c]? = (s.cells[c]?).map fun c => (c.act, c.idx) := by rw [hs.cells_eq, List.getElem?_map]
    cases hc : s.cells[c]? with
    | none => rw [hc] at htc; simp [FM.step, VarM.step, hc, htc]
    | some cl =>
      rw [hc] at htc
      simp only [FM.step, VarM.step, hc, htc, Option.map_some]
      exact FM.sim_storeFree s t h hs cl (List.mem_of_getElem? hc) v
  | loadFree c =>
    have htc : t.cells[c]? = (s.cells[c]?).map fun c => (c.act, c.idx) := by rw [hs.cells_eq, List.getElem?_map]
    cases hc : s.cells[c]? with
    | none => rw [hc] at htc; simp [FM.step, VarM.step, hc, htc]
    | some cl =>
      rw [hc] at htc
      simp only [FM.step, VarM.step, hc, htc, Option.map_some]
      have hv : s.readCell cl = t.vars cl.act cl.idx := hs.cell_content cl cl.idx (List.mem_of_getElem? hc)
      constructor
      · exact hs.fp_eq
      · exact hs.nacts_eq
      · dsimp only; rw [hv, hs.out_eq]
      · exact hs.stack_eq
      · exact hs.cells_eq
      · exact hs.frame_content
      · exact hs.cell_content

theorem FM.sim_run : ∀ (ops : List FOp) (s : FM) (t : VarM), s.Inv → s.Sim t →
    (FM.run s ops).map (·.out) = (VarM.run t ops).map (·.out) := by
  intro ops
  induction ops with
  | nil => intro s t _ hs; simp only [FM.run, VarM.run, Option.map_some, hs.out_eq]
  | cons op ops ih =>
    intro s t h hs
    have hstep := FM.sim_step s t h hs op
    simp only [FM.run, VarM.run]
    cases h1 : s.step op with
    | none =>
      cases h2 : t.step op with
      | none => rfl
      | some t' => rw [h1, h2] at hstep; exact absurd hstep (by simp)
    | some s' =>
      cases h2 : t.step op with
      | none => rw [h1, h2] at hstep; exact absurd hstep (by simp)
      | some t' =>
        rw [h1, h2] at hstep
        exact ih s' t' (FM.inv_step s s' op h h1) hstep



/-! ## recursion chains on the variable machine -/

theorem VarM.run_append : ∀ (ops1 ops2 : List FOp) (t : VarM),
    VarM.run t (ops1 ++ ops2) = (VarM.run t ops1).bind fun t' => VarM.run t' ops2 := by
  intro ops1
  induction ops1 with
  | nil => intro ops2 t; rfl
  | cons op ops ih =>
    intro ops2 t
    simp only [List.cons_append, VarM.run]
    cases t.step op with
    | none => rfl
    | some t1 => exact ih ops2 t1

/-- the descent on the variable machine -/
theorem VarM.descent : ∀ (vs : List (Int × Bool)) (t : VarM),
    ∃ t', VarM.run t (recDescent vs) = some t' ∧ t'.fp = t.fp + vs.length ∧ t'.out = t.out ∧
      t'.nacts = t.nacts + vs.length ∧
      t'.cells.length = t.cells.length + vs.length ∧
      (∀ (j : Nat) (c : Nat × Nat), t.cells[j]? = some c → t'.cells[j]? = some c) ∧
      (∀ a, a < t.nacts → t'.vars a = t.vars a) ∧
      (∀ (i : Nat) (p : Int × Bool), vs[i]? = some p → ∃ c : Nat × Nat, t'.cells[t.cells.length + i]? = some c ∧ t'.vars c.1 c.2 = p.1 ∧ c.1 < t'.nacts) := by
  intro vs
  induction vs with
  | nil =>
    intro t
    refine ⟨t, rfl, rfl, rfl, rfl, rfl, fun _ _ h => h, fun _ _ => rfl, ?_⟩
    intro i p h; simp at h
  | cons p rest ih =>
    intro t
    -- the state after one level
    let t1 : VarM :=
      { t with stackf := upd t.stackf (t.fp + 1) t.nacts,
               vars := upd (upd t.vars t.nacts (fun _ => 0)) t.nacts (upd (fun _ => 0) 0 p.1),
               fp := t.fp + 1, nacts := t.nacts + 1, cells := t.cells ++ [(t.nacts, 0)] }
    have hlev : VarM.run t (recLevel p.1 p.2 ++ recDescent rest) = VarM.run t1 (recDescent rest) := by
      simp only [recLevel, List.cons_append, List.nil_append, VarM.run, VarM.step, Option.bind_some,
        upd_same, Nat.not_lt_zero, if_false, Nat.sub_zero, t1]
    obtain ⟨t', hrun, hfp, hout, hn, hlen, hcells, hvars, hlv⟩ := ih t1
    refine ⟨t', ?_, ?_, ?_, ?_, ?_, ?_, ?_, ?_⟩
    · simp only [recDescent]; rw [hlev]; exact hrun
    · simp only [hfp, t1, List.length_cons]; omega
    · simp only [hout, t1]
    · simp only [hn, t1, List.length_cons]; omega
    · simp only [hlen, t1, List.length_append, List.length_cons, List.length_nil]; omega
    · intro j c hj
      apply hcells
      have hlt : j < t.cells.length := by
        rcases Nat.lt_or_ge j t.cells.length with h | h
        · exact h
        · simp [List.getElem?_eq_none h] at hj
      simp only [t1, List.getElem?_append_left hlt]; exact hj
    · intro a ha
      rw [hvars a (by simp only [t1]; omega)]
      simp only [t1]
      rw [upd_other _ _ _ _ (by omega), upd_other _ _ _ _ (by omega)]
    · intro i q hq
      cases i with
      | zero =>
        simp only [List.getElem?_cons_zero, Option.some.injEq] at hq
        subst hq
        refine ⟨(t.nacts, 0), ?_, ?_, ?_⟩
        · apply hcells
          simp [t1]
        · rw [hvars t.nacts (by simp only [t1]; omega)]
          simp only [t1, upd_same]
        · simp only [hn, t1]; omega
      | succ i =>
        simp only [List.getElem?_cons_succ] at hq
        obtain ⟨c, hc, hv, hlt⟩ := hlv i q hq
        refine ⟨c, ?_, hv, hlt⟩
        have : t1.cells.length + i = t.cells.length + (i + 1) := by
          simp only [t1, List.length_append, List.length_cons, List.length_nil]; omega
        rw [← this]; exact hc


/-- every level returns: only `fp` moves -/
theorem VarM.returns : ∀ (n : Nat) (t : VarM), n ≤ t.fp →
    VarM.run t (List.replicate n FOp.ret) = some { t with fp := t.fp - n } := by
  intro n
  induction n with
  | zero => intro t _; rfl
  | succ n ih =>
    intro t h
    have h0 : ¬ t.fp = 0 := by omega
    simp only [List.replicate_succ, VarM.run, VarM.step, h0, if_false, Option.bind_some]
    rw [ih _ (by show n ≤ t.fp - 1; omega)]
    congr 2
    show t.fp - 1 - n = t.fp - (n + 1)
    omega

/-- reading the cells `base, base+1, …` one after the other -/
theorem VarM.reads : ∀ (ws : List Int) (base : Nat) (t : VarM),
    (∀ (i : Nat) (w : Int), ws[i]? = some w → ∃ c : Nat × Nat, t.cells[base + i]? = some c ∧ t.vars c.1 c.2 = w) →
    ∃ t', VarM.run t ((List.range' base ws.length).map FOp.loadFree) = some t' ∧ t'.out = ws.reverse ++ t.out := by
  intro ws
  induction ws with
  | nil => intro base t _; exact ⟨t, rfl, rfl⟩
  | cons w rest ih =>
    intro base t h
    obtain ⟨c, hc, hv⟩ := h 0 w rfl
    simp only [Nat.add_zero] at hc
    let t1 : VarM := { t with out := t.vars c.1 c.2 :: t.out }
    have h1 : ∀ (i : Nat) (w' : Int), rest[i]? = some w' → ∃ c : Nat × Nat, t1.cells[base + 1 + i]? = some c ∧ t1.vars c.1 c.2 = w' := by
      intro i w' hi
      obtain ⟨c', hc', hv'⟩ := h (i + 1) w' (by simpa using hi)
      exact ⟨c', by rw [← hc']; congr 1; omega, hv'⟩
    obtain ⟨t', hrun, hout⟩ := ih (base + 1) t1 h1
    refine ⟨t', ?_, ?_⟩
    · simp only [List.length_cons, List.range'_succ, List.map_cons, VarM.run, VarM.step, hc, Option.bind_some]
      exact hrun
    · rw [hout]
      simp only [t1, hv, List.reverse_cons, List.append_assoc, List.singleton_append]

end Risor.C02
