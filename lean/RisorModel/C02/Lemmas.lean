import RisorModel.C02.Model
/-!
C02 — helper lemmas: the mode of the evaluator matters only through `captureAct`, and
`captureAct _ _ _ 0` does not depend on the mode.
-/
namespace Risor.C02

theorem captureAct_zero (parent : Nat → Option Nat) (stack : List Nat) :
    captureAct .positional parent stack 0 = captureAct .lexical parent stack 0 := by
  cases stack with
  | nil => rfl
  | cons a t => rfl

theorem makeCells_depth1 (s : St) (frees : List (Nat × Nat))
    (h : (frees.all fun p => p.2 == 0) = true) :
    makeCells .positional s frees = makeCells .lexical s frees := by
  induction frees with
  | nil => rfl
  | cons p rest ih =>
    obtain ⟨slot, d⟩ := p
    simp only [List.all_cons, Bool.and_eq_true, beq_iff_eq] at h
    obtain ⟨hd, hr⟩ := h
    have hd' : d = 0 := hd
    subst hd'
    simp only [makeCells, captureAct_zero, ih hr]

theorem lit_depth1_of_mem {lits : List Lit} (h : depth1Only lits = true) {i : Nat} {l : Lit}
    (hl : lits[i]? = some l) : (l.frees.all fun p => p.2 == 0) = true := by
  have hm : l ∈ lits := List.mem_of_getElem? hl
  simp only [depth1Only, List.all_eq_true] at h
  exact h l hm

/-- `Resolve` over a list of names yields one reference per name -/
theorem resolveNames_length : ∀ (xs : List String) (rs rs' : RS) (refs : List Ref),
    resolveNames xs rs = .ok (refs, rs') → refs.length = xs.length := by
  intro xs
  induction xs with
  | nil =>
    intro rs rs' refs h
    simp only [resolveNames, Except.ok.injEq, Prod.mk.injEq] at h
    rw [← h.1]
    rfl
  | cons x xs ih =>
    intro rs rs' refs h
    simp only [resolveNames] at h
    split at h
    · cases h
    · rename_i r rs1 _
      split at h
      · cases h
      · rename_i rl rs2 h2
        simp only [Except.ok.injEq, Prod.mk.injEq] at h
        rw [← h.1, List.length_cons, List.length_cons, ih rs1 rs2 rl h2]

end Risor.C02

namespace Risor.C02

/-- at recursion budget `n` none of the evaluator's functions depends on the mode -/
structure ModeIrrelevant (lits : List Lit) (n : Nat) : Prop where
  eval : eval .positional lits n = eval .lexical lits n
  evalList : evalList .positional lits n = evalList .lexical lits n
  execBody : execBody .positional lits n = execBody .lexical lits n
  callVal : callVal .positional lits n = callVal .lexical lits n
  mapItems : mapItems .positional lits n = mapItems .lexical lits n
  sortLoop : sortLoop .positional lits n = sortLoop .lexical lits n
  tryLoop : tryLoop .positional lits n = tryLoop .lexical lits n
  threadCall : threadCall .positional lits n = threadCall .lexical lits n
  loopRun : loopRun .positional lits n = loopRun .lexical lits n

theorem mode_irrelevant_zero (lits : List Lit) : ModeIrrelevant lits 0 := by
  constructor
  · funext t; simp only [eval]
  · funext t; simp only [evalList]
  · funext t; simp only [execBody]
  · funext a b; simp only [callVal]
  · funext a b; simp only [mapItems]
  · funext a b c d e; simp only [sortLoop]
  · funext a b; simp only [tryLoop]
  · funext a b c; simp only [threadCall]
  · funext a b c d e; simp only [loopRun]

end Risor.C02

namespace Risor.C02

theorem mode_irrelevant_succ (lits : List Lit) (h : depth1Only lits = true) (n : Nat)
    (ih : ModeIrrelevant lits n) : ModeIrrelevant lits (n + 1) := by
  obtain ⟨h1, h2, h3, h4, h5, h6, h7, h8, h9⟩ := ih
  constructor
  · funext t
    cases t with
    | mkfn i =>
      funext s
      simp only [eval]
      cases hl : lits[i]? with
      | none => rfl
      | some l => simp only [makeCells_depth1 s l.frees (lit_depth1_of_mem h hl)]
    | _ => simp only [eval, h1, h2, h3, h4, h5, h6, h7, h8, h9]
  · funext ts
    cases ts <;> simp only [evalList, h1, h2]
  · funext ts
    cases ts with
    | nil => simp only [execBody]
    | cons t rest => cases t <;> cases rest <;> simp only [execBody, h1, h3]
  · funext f args
    cases f <;> simp only [callVal, h3]
  · funext f xs
    cases xs <;> simp only [mapItems, h4, h5]
  · funext f items i j err
    simp only [sortLoop, h4, h6]
  · funext vs b
    cases vs with
    | nil => simp only [tryLoop]
    | cons v rest => cases v <;> simp only [tryLoop, h4, h7]
  · funext f args w
    simp only [threadCall, h4]
  · funext k rs cnt its body
    simp only [loopRun, h3, h9]

end Risor.C02

namespace Risor.C02

/-- **the evaluator does not depend on the mode when every capture is of the literal's own
    frame**, for every recursion budget -/
theorem mode_irrelevant (lits : List Lit) (h : depth1Only lits = true) : ∀ n, ModeIrrelevant lits n
  | 0 => mode_irrelevant_zero lits
  | n + 1 => mode_irrelevant_succ lits h n (mode_irrelevant lits h n)

end Risor.C02

namespace Risor.C02

/-! ## the slot allocator of block tables -/

/-- one operation either claims nothing and leaves `count`, or claims exactly `count` and
    moves it up by one -/
theorem FScope.applyOp_cases (s : FScope) (op : BOp) :
    ((s.applyOp op).2 = [] ∧ (s.applyOp op).1.count = s.count) ∨
    ((s.applyOp op).2 = [s.count] ∧ (s.applyOp op).1.count = s.count + 1) := by
  cases op with
  | openB => exact .inl ⟨rfl, rfl⟩
  | closeB => exact .inl ⟨rfl, rfl⟩
  | decl x =>
    unfold FScope.applyOp FScope.declare
    cases hb : s.blocks with
    | nil =>
      simp only
      cases hl : lookupTab s.bodyTab x with
      | some i => exact .inl ⟨rfl, rfl⟩
      | none => exact .inr ⟨rfl, rfl⟩
    | cons b bs =>
      simp only
      cases hl : lookupTab b x with
      | some i => exact .inl ⟨rfl, rfl⟩
      | none => exact .inr ⟨rfl, rfl⟩

/-- the claimed slots of any sequence are strictly increasing and lie in
    `[count before, count after)` -/
theorem FScope.claims_sorted : ∀ (ops : List BOp) (s : FScope),
    (s.claims ops).Pairwise (· < ·) ∧ s.count ≤ (s.runOps ops).count ∧
      ∀ i ∈ s.claims ops, s.count ≤ i ∧ i < (s.runOps ops).count := by
  intro ops
  induction ops with
  | nil =>
    intro s
    refine ⟨List.Pairwise.nil, Nat.le_refl _, ?_⟩
    intro i hi
    simp [FScope.claims] at hi
  | cons op ops ih =>
    intro s
    obtain ⟨hp, hc, hall⟩ := ih (s.applyOp op).1
    rcases FScope.applyOp_cases s op with ⟨h2, h1⟩ | ⟨h2, h1⟩
    · simp only [FScope.claims, FScope.runOps, h2, List.nil_append]
      rw [h1] at hc hall
      exact ⟨hp, hc, hall⟩
    · simp only [FScope.claims, FScope.runOps, h2, List.singleton_append]
      rw [h1] at hc hall
      refine ⟨List.Pairwise.cons ?_ hp, by omega, ?_⟩
      · intro j hj
        have := (hall j hj).1
        omega
      · intro i hi
        rcases List.mem_cons.1 hi with rfl | hi
        · exact ⟨Nat.le_refl _, by omega⟩
        · have := hall i hi
          exact ⟨by omega, this.2⟩

end Risor.C02
