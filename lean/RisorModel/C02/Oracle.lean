import RisorModel.Util
/-! Line-protocol front end of the C02 model (stub until the model exists). -/
namespace Risor.C02

def handle : List String → String
  | _ => "error\tnot-implemented"

end Risor.C02
