import RisorModel.Util
import RisorModel.C02.Model
/-!
Line-protocol front end of the C02 model (requests after the leading `C02` field).

  run <mainLocals> <fuel> <program>     program := space-separated S-expression tokens
     (prog s…)  s,e := (i N) (n) (F) (ch) (v x) (+ a b) (fn name (p…) s…) (c f a…) (l e…)
                       (x e i) (m e…) (k e i) (r kind a…) (d x e) (a x e) (ret e) (retif c e)
                       (+= x e) (-= x e) (++ x) (-- x) (ma (x…) e) (md (x…) e)
                       (if c (b s…) (b s…)) (sw e (case K s…)… (default s…))
                       (loop kind (x…) N (item…) (b s…))   kind := for3 cond range1 range2 forin once
  reply: <Impl outcome> TAB <Spec outcome> TAB <MAKE_CELL groups> TAB <deep> TAB <locals>
     outcome := ok <value> | err <class> | undef
     groups  := per function literal with free variables "slot:back,slot:back" joined by ";" ("-" if none)
     deep    := true iff some MAKE_CELL has framesBack ≥ 1 (the guard of the known finding is `false`)
     locals  := `LocalsCount` of every function literal, in the resolver's order, joined by ","
  slots <count> <op…>  the slot allocator of block tables on its own: ops o (block begins) | c (block
     ends) | d:<name>; reply: ok TAB <slots claimed by the new variables, in order> TAB <final count>
  acts <mode> <op…>    the abstract activation machine: ops m:d1,d2… | c:N | s:N | r | a (abort)
  frames <op…>         the frame machine (frame slots, inline storage, heap slices) and the variable
     machine (one variable per activation and slot) on the same operations: c:0|1 (call, 1 = more than
     8 locals) | r (return) | a (error exit) | m:<idx>:<back> (MakeCell) | sf:<idx>:<v> | lf:<idx> |
     sF:<cell>:<v> | lF:<cell>; reply: ok TAB <loads of the frame machine> TAB <loads of the variable
     machine> TAB <cells as addr:activation,…>   or   stuck TAB <frames|-> TAB <vars|->
  chain <v:w…>         a recursion chain (`recChain`): per level its value and 0|1 (more than 8 locals); every
     level stores its value in local 0 and makes a cell for it, all return, the cells are read in order;
     reply: ok TAB <loads of the frame machine> TAB <loads of the variable machine> TAB <number of operations>
-/
namespace Risor.C02

inductive SExp
  | atom (s : String)
  | list (xs : List SExp)
  deriving Repr, Inhabited

mutual
def parseS : Nat → List String → Option (SExp × List String)
  | 0, _ => none
  | _ + 1, [] => none
  | n + 1, "(" :: rest => do
    let (xs, rest) ← parseSeq n rest
    pure (.list xs, rest)
  | _ + 1, ")" :: _ => none
  | _ + 1, a :: rest => some (.atom a, rest)
def parseSeq : Nat → List String → Option (List SExp × List String)
  | 0, _ => none
  | _ + 1, [] => none
  | _ + 1, ")" :: rest => some ([], rest)
  | n + 1, toks => do
    let (x, rest) ← parseS n toks
    let (xs, rest) ← parseSeq n rest
    pure (x :: xs, rest)
end

def routeOf : String → Option Route
  | "map" => some .map | "filter" => some .filter | "each" => some .each | "sorted" => some .sorted
  | "try" => some .try_ | "spawn" => some .spawn | "go" => some .gospawn
  | _ => none

def loopKindOf : String → Option LoopK
  | "for3" => some .for3 | "cond" => some .cond | "range1" => some .range1 | "range2" => some .range2
  | "forin" => some .forin | "once" => some .once
  | _ => none

def atomsOf : List SExp → Option (List String)
  | [] => some []
  | .atom a :: rest => (atomsOf rest).map (a :: ·)
  | _ => none

mutual
def toTm : Nat → SExp → Option Tm
  | 0, _ => none
  | n + 1, .list (.atom tag :: args) =>
    match tag, args with
    | "i", [.atom v] => v.toInt?.map Tm.int
    | "n", [] => some .nil
    | "F", [] => some .fail
    | "ch", [] => some .mkchan
    | "v", [.atom x] => some (.var x)
    | "+", [a, b] => do pure (.add (← toTm n a) (← toTm n b))
    | "fn", .atom name :: .list ps :: body => do
      pure (.fn name (← atomsOf ps) (← toTms n body))
    | "c", f :: as => do pure (.call (← toTm n f) (← toTms n as))
    | "l", es => do pure (.list (← toTms n es))
    | "x", [e, .atom i] => do pure (.idx (← toTm n e) (← i.toNat?))
    | "m", es => do pure (.mapLit (← toTms n es))
    | "k", [e, .atom i] => do pure (.key (← toTm n e) (← i.toNat?))
    | "r", .atom k :: as => do pure (.route (← routeOf k) (← toTms n as))
    | "d", [.atom x, e] => do pure (.decl x (← toTm n e))
    | "a", [.atom x, e] => do pure (.assign x (← toTm n e))
    | "+=", [.atom x, e] => do pure (.opassign x false (← toTm n e))
    | "-=", [.atom x, e] => do pure (.opassign x true (← toTm n e))
    | "++", [.atom x] => some (.postfix x false)
    | "--", [.atom x] => some (.postfix x true)
    | "ma", [.list xs, e] => do pure (.massign (← atomsOf xs) (← toTm n e))
    | "md", [.list xs, e] => do pure (.mdecl (← atomsOf xs) (← toTm n e))
    | "ret", [e] => do pure (.ret (← toTm n e))
    | "retif", [c, e] => do pure (.retif (← toTm n c) (← toTm n e))
    | "if", [c, .list (.atom "b" :: t), .list (.atom "b" :: e)] => do
      pure (.ifte (← toTm n c) (← toTms n t) (← toTms n e))
    | "sw", subj :: cases => do pure (.switch (← toTm n subj) (← toTms n cases))
    | "case", .atom k :: body => do pure (.scase (some (← k.toInt?)) (← toTms n body))
    | "default", body => do pure (.scase none (← toTms n body))
    | "loop", [.atom kind, .list xs, .atom cnt, .list items, .list (.atom "b" :: body)] => do
      pure (.loop (← loopKindOf kind) (← atomsOf xs) (← cnt.toNat?) (← (← atomsOf items).mapM String.toInt?) (← toTms n body))
    | _, _ => none
  | _ + 1, _ => none
def toTms : Nat → List SExp → Option (List Tm)
  | 0, _ => none
  | _ + 1, [] => some []
  | n + 1, x :: xs => do pure ((← toTm n x) :: (← toTms n xs))
end

def parseProg (src : String) : Option (List Tm) := do
  let toks := (src.splitOn " ").filter (· ≠ "")
  let (s, rest) ← parseS (toks.length + 1) toks
  if !rest.isEmpty then none
  match s with
  | .list (.atom "prog" :: body) => toTms (toks.length + 1) body
  | _ => none

def showGroup (fs : List (Nat × Nat)) : String :=
  ",".intercalate (fs.map fun p => toString p.1 ++ ":" ++ toString p.2)

def showGroups (lits : List Lit) : String :=
  let gs := (lits.filter fun l => !l.frees.isEmpty).map fun l => showGroup l.frees
  if gs.isEmpty then "-" else ";".intercalate gs

def parseOp (s : String) : Option AOp :=
  match s.splitOn ":" with
  | ["r"] => some .ret
  | ["a"] => some .abort
  | ["c", n] => n.toNat?.map AOp.call
  | ["s", n] => n.toNat?.map AOp.spawn
  | ["m"] => some (.makeClosure [])
  | ["m", ds] => ((ds.splitOn ",").mapM String.toNat?).map AOp.makeClosure
  | _ => none

def parseBOp (s : String) : Option BOp :=
  match s.splitOn ":" with
  | ["o"] => some .openB
  | ["c"] => some .closeB
  | ["d", x] => some (.decl x)
  | _ => none

def parseFOp (s : String) : Option FOp :=
  match s.splitOn ":" with
  | ["c", w] => some (.call (w == "1"))
  | ["r"] => some .ret
  | ["a"] => some .abort
  | ["m", i, b] => do pure (.makeCell (← i.toNat?) (← b.toNat?))
  | ["sf", i, v] => do pure (.storeFast (← i.toNat?) (← v.toInt?))
  | ["lf", i] => i.toNat?.map FOp.loadFast
  | ["sF", c, v] => do pure (.storeFree (← c.toNat?) (← v.toInt?))
  | ["lF", c] => c.toNat?.map FOp.loadFree
  | _ => none

/-- one level of a recursion chain: `<value>:<0|1>` (1 = more than 8 locals) -/
def parseLevel (s : String) : Option (Int × Bool) :=
  match s.splitOn ":" with
  | [v, w] => v.toInt?.map fun v => (v, w == "1")
  | _ => none

def showInts (xs : List Int) : String :=
  if xs.isEmpty then "-" else ",".intercalate (xs.map toString)

def showAState (s : AState) : String :=
  let clo (c : AClo) : String :=
    toString c.definer ++ "<" ++ ",".intercalate (c.captured.map fun o => match o with | some a => toString a | none => "x") ++ ">"
  " ".intercalate (s.closures.map clo) ++ " | " ++
    "/".intercalate (s.stacks.map fun st => ",".intercalate (st.map toString))

def handle : List String → String
  | ["run", ml, fuel, src] =>
    match ml.toNat?, fuel.toNat?, parseProg src with
    | some ml, some fuel, some tms =>
      match resolveProg tms ml with
      | .error e => "error\tresolve:" ++ e
      | .ok p =>
        showOutcome (Impl fuel p) ++ "\t" ++ showOutcome (Spec fuel p) ++ "\t" ++ showGroups p.lits ++ "\t" ++
          toString (!depth1Only p.lits) ++ "\t" ++
          (if p.lits.isEmpty then "-" else ",".intercalate (p.lits.map fun l => toString l.nlocals))
    | _, _, _ => "error\tbad-request"
  | "slots" :: cnt :: ops =>
    match cnt.toNat?, ops.mapM parseBOp with
    | some cnt, some ops =>
      let s : FScope := { fnTab := [], bodyTab := [], count := cnt, frees := [] }
      let cl := s.claims ops
      "ok\t" ++ (if cl.isEmpty then "-" else ",".intercalate (cl.map toString)) ++ "\t" ++ toString (s.runOps ops).count
    | _, _ => "error\tbad-op"
  | "acts" :: mode :: ops =>
    match ops.mapM parseOp with
    | some ops =>
      let m := if mode == "lexical" then Mode.lexical else Mode.positional
      match AState.run m AState.init ops with
      | some s => "ok\t" ++ showAState s
      | none => "stuck"
    | none => "error\tbad-op"
  | "frames" :: ops =>
    match ops.mapM parseFOp with
    | some ops =>
      match FM.run FM.init ops, VarM.run VarM.init ops with
      | some s, some t =>
        "ok\t" ++ showInts s.out.reverse ++ "\t" ++ showInts t.out.reverse ++ "\t" ++
          (if s.cells.isEmpty then "-" else ",".intercalate (s.cells.map fun c => toString c.addr ++ ":" ++ toString c.act))
      | a, b => "stuck\t" ++ (if a.isSome then "-" else "frames") ++ "\t" ++ (if b.isSome then "-" else "vars")
    | none => "error\tbad-op"
  | "chain" :: lvls =>
    match lvls.mapM parseLevel with
    | some vs =>
      match FM.run FM.init (recChain vs), VarM.run VarM.init (recChain vs) with
      | some s, some t => "ok\t" ++ showInts s.out.reverse ++ "\t" ++ showInts t.out.reverse ++ "\t" ++ toString (recChain vs).length
      | _, _ => "stuck"
    | none => "error\tbad-level"
  | _ => "error\tunknown-request"

end Risor.C02
