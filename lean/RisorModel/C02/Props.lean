import RisorModel.C02.Lemmas
/-!
C02 — property theorems.  "A function value always reads and writes the variable bindings
that were lexically visible where it was defined … at any nesting depth and however the
function is eventually invoked."

Two levels:

* the activation model (any call stack, any lexical-parent map; any sequence of
  makeClosure / call / spawn / ret / abort operations of any length);
* the frame machine (the re-used frame slots of `vm.frames` with their storage): cells are per
  activation however earlier activations ended, a captured variable is one cell shared with
  its live owner, and the machine implements one variable per (activation, slot);
* the closure-language evaluator whose `Mode.positional` instance is compared with the real
  compiler + VM on every generated program (Impl) and whose `Mode.lexical` instance is the
  specification (Spec).  All statements are for every program, every recursion budget
  (`fuel`), every state.
-/
namespace Risor.C02

/-! ## Activation model -/

/-- **Depth 0 is lexical.** In every state (any stack, any parent map) the frame a
    `MakeCell _ 0` picks is the activation executing the function literal — the lexically
    right one.  (Resolution depth 1 = variables of the function that contains the literal.) -/
theorem capture_depth0_lexical (parent : Nat → Option Nat) (cur : Nat) (rest : List Nat) :
    resolvePositional (cur :: rest) 0 = resolveLexical parent cur 0 := rfl

/-- the same for `captureAct`, including the empty stack -/
theorem capture_depth0_any_stack (parent : Nat → Option Nat) (stack : List Nat) :
    captureAct .positional parent stack 0 = captureAct .lexical parent stack 0 :=
  captureAct_zero parent stack

/-- **Positional = lexical exactly on lexical chains.** For every stack, parent map and
    depth `d`: the positional and the lexical resolution agree (and are defined) at every
    `j ≤ d` if and only if the top `d` frames form a lexical chain, i.e. each of them was
    called from the activation that defined it. -/
theorem capture_chain (parent : Nat → Option Nat) (d : Nat) : ∀ (cur : Nat) (rest : List Nat),
    (∀ j, j ≤ d → ∃ a, resolvePositional (cur :: rest) j = some a ∧ resolveLexical parent cur j = some a)
      ↔ lexChain parent (cur :: rest) d := by
  induction d with
  | zero =>
    intro cur rest
    constructor
    · intro _; trivial
    · intro _ j hj
      have : j = 0 := by omega
      subst this
      exact ⟨cur, rfl, rfl⟩
  | succ d ih =>
    intro cur rest
    constructor
    · intro h
      obtain ⟨a, hp, hl⟩ := h 1 (by omega)
      cases rest with
      | nil => simp [resolvePositional] at hp
      | cons b rest' =>
        have hb : b = a := by simpa [resolvePositional] using hp
        subst hb
        cases hpar : parent cur with
        | none => simp [resolveLexical, hpar] at hl
        | some p =>
          have hpb : p = b := by simpa [resolveLexical, hpar] using hl
          subst hpb
          refine ⟨hpar, (ih p rest').1 ?_⟩
          intro j hj
          obtain ⟨a, hp', hl'⟩ := h (j + 1) (by omega)
          refine ⟨a, ?_, ?_⟩
          · simpa [resolvePositional] using hp'
          · simpa [resolveLexical, hpar] using hl'
    · intro h j hj
      cases rest with
      | nil => exact absurd h (by simp [lexChain])
      | cons b rest' =>
        obtain ⟨hpar, hch⟩ := h
        cases j with
        | zero => exact ⟨cur, rfl, rfl⟩
        | succ j =>
          obtain ⟨a, hp, hl⟩ := (ih b rest').2 hch j (by omega)
          refine ⟨a, ?_, ?_⟩
          · simpa [resolvePositional] using hp
          · simpa [resolveLexical, hpar] using hl

/-- corollary (why the repository's tests pass): when every lexical ancestor is still on
    the call stack, directly below its child, a capture of any depth is right -/
theorem capture_on_chain (parent : Nat → Option Nat) (d : Nat) (cur : Nat) (rest : List Nat)
    (h : lexChain parent (cur :: rest) d) :
    captureAct .positional parent (cur :: rest) d = captureAct .lexical parent (cur :: rest) d := by
  obtain ⟨a, hp, hl⟩ := (capture_chain parent d cur rest).2 h d (Nat.le_refl d)
  simp only [captureAct, hp, hl]

/-- corollary (the defect): if the caller is not the lexical parent, the depth-2 capture
    (`MakeCell _ 1`) is wrong or undefined -/
theorem capture_off_chain (parent : Nat → Option Nat) (cur b : Nat) (rest : List Nat)
    (h : parent cur ≠ some b) :
    ¬ ∃ a, resolvePositional (cur :: b :: rest) 1 = some a ∧ resolveLexical parent cur 1 = some a := by
  intro hex
  have : lexChain parent (cur :: b :: rest) 1 := (capture_chain parent 1 cur (b :: rest)).1 (by
    intro j hj
    cases j with
    | zero => exact ⟨cur, rfl, rfl⟩
    | succ j =>
      have : j = 0 := by omega
      subst this
      exact hex)
  exact h this.1

/-- a call made from the activation that defined the closure (definition path = call path)
    extends the lexical chain: the new frame's lexical parent is the frame below it -/
theorem call_from_definer_chain (m : Mode) (s : AState) (c : Nat) (clo : AClo) (cur : Nat)
    (rest : List Nat) (vms : List (List Nat))
    (hs : s.stacks = (cur :: rest) :: vms) (hc : s.closures[c]? = some clo) (hd : clo.definer = cur) :
    ∃ s', s.step m (.call c) = some s' ∧
      s'.stacks = (s.parents.length :: cur :: rest) :: vms ∧
      lexChain s'.parentOf (s.parents.length :: cur :: rest) 1 := by
  refine ⟨{ s with parents := s.parents ++ [some clo.definer], stacks := (s.parents.length :: cur :: rest) :: vms }, ?_, rfl, ?_⟩
  · simp only [AState.step, hc, hs]
  · refine ⟨?_, trivial⟩
    simp [AState.parentOf, hd]

/-- the full property on the activation model: every run of operations leaves the same
    closures (same captured activations) under positional and under lexical capture -/
def C02_full_activations : Prop :=
  ∀ ops : List AOp, AState.run .positional AState.init ops = AState.run .lexical AState.init ops

/-- `f(1)(2)(3)`: main makes `f`; `f(1)` runs and makes `g`, returns; `g(2)` runs — called
    from main, not from `f`'s activation — and makes the innermost closure, which captures
    `a` at depth 2 (`MakeCell _ 1`): positionally that is main's frame (activation 0),
    lexically `f`'s activation (1). -/
def witnessOps : List AOp := [.makeClosure [], .call 0, .makeClosure [], .ret, .call 1, .makeClosure [1, 0]]

theorem C02_counterexample_depth2_activations : ¬ C02_full_activations := by
  intro h
  exact absurd (h witnessOps) (by decide)

/-- **Partial property on the activation model**: for EVERY sequence of operations of any
    length, from any state, if every function literal captures only from the frame that
    executes it (`MakeCell _ 0`), positional and lexical capture produce the same run —
    whatever the order of calls, returns and spawns, i.e. however the closures are invoked. -/
theorem C02_partial_depth1_activations (ops : List AOp) :
    ∀ s : AState, (ops.all AOp.depth1) = true → AState.run .positional s ops = AState.run .lexical s ops := by
  induction ops with
  | nil => intro s _; rfl
  | cons op ops ih =>
    intro s h
    simp only [List.all_cons, Bool.and_eq_true] at h
    have hstep : s.step .positional op = s.step .lexical op := by
      cases op with
      | makeClosure ds =>
        have hds : ∀ d ∈ ds, d = 0 := by
          have := h.1
          simp only [AOp.depth1, List.all_eq_true, beq_iff_eq] at this
          exact this
        have hm : ∀ stk : List Nat, ds.map (captureAct .positional s.parentOf stk) = ds.map (captureAct .lexical s.parentOf stk) := by
          intro stk
          apply List.map_congr_left
          intro d hd
          rw [hds d hd]
          exact captureAct_zero _ _
        simp only [AState.step, hm]
      | call c => rfl
      | spawn c => rfl
      | ret => rfl
      | abort => rfl
    simp only [AState.run, hstep]
    cases s.step .lexical op with
    | none => rfl
    | some s' => exact ih s' h.2

example : (witnessOps.take 5 ++ [AOp.makeClosure [0]]).all AOp.depth1 = true := by decide

/-! ## Frame slots: cells are per activation, however earlier activations ended

The frame machine `FM` (Model, section 1b) is the storage discipline of vm/frame.go: re-used
frame slots, inline storage, heap slices, `capturedLocals`.  Its operations include the
ABNORMAL exit `FOp.abort` (an error propagates out of the function: the frame is popped without
a return).  All statements are for EVERY sequence of operations from the initial state. -/

theorem FM.run_append : ∀ (ops1 ops2 : List FOp) (s : FM),
    FM.run s (ops1 ++ ops2) = (FM.run s ops1).bind fun s' => FM.run s' ops2 := by
  intro ops1
  induction ops1 with
  | nil => intro ops2 s; rfl
  | cons op ops ih =>
    intro ops2 s
    simp only [List.cons_append, FM.run]
    cases s.step op with
    | none => rfl
    | some s1 => exact ih ops2 s1

/-- every state the frame machine reaches from the initial one satisfies the invariant,
    whatever the sequence of calls, returns, ERROR exits, captures, loads and stores -/
theorem FM.reachable_inv (ops : List FOp) (s : FM) (hr : FM.run FM.init ops = some s) : s.Inv :=
  FM.inv_run ops FM.init s FM.inv_init hr

/-- **Cells are per activation, whatever way earlier activations ended.**  In every state the
    frame machine reaches — after any sequence of calls, returns, ERROR exits (`abort`), captures,
    loads and stores, of any length — two cells that belong to different activations point into
    different heap slices, and a write through one is not seen through the other.  In particular
    a closure created by a new activation never shares a cell with a closure of an activation
    that has finished or was aborted, even though the new activation runs in the same frame
    slot (same call depth) as the dead one. -/
theorem cells_fresh_after_abort (ops : List FOp) (s : FM) (hr : FM.run FM.init ops = some s)
    (c1 c2 : FCell) (h1 : c1 ∈ s.cells) (h2 : c2 ∈ s.cells) (hne : c1.act ≠ c2.act) :
    c1.addr ≠ c2.addr ∧
    (∀ (j : Nat) (v : Int) (s' : FM), s.cells[j]? = some c1 → s.step (.storeFree j v) = some s' →
      s'.readCell c2 = s.readCell c2) := by
  have hinv := FM.reachable_inv ops s hr
  have hadr : c1.addr ≠ c2.addr := by
    intro he
    have e1 := (hinv.cell_owner c1 h1).2.1
    have e2 := (hinv.cell_owner c2 h2).2.1
    rw [he] at e1
    exact hne (e1.symm.trans e2)
  refine ⟨hadr, ?_⟩
  intro j v s' hj hs
  simp only [FM.step, hj, Option.some.injEq] at hs
  subst hs
  simp only [FM.readCell]
  rw [upd_other _ _ _ _ (fun h => hadr h.symm)]

/-- **One cell per variable.**  Two cells for the same variable (same activation, same slot) —
    made for different closures, at different times, from different frames-back distances —
    are the same storage: they read the same value, and a write through one is read through
    the other. -/
theorem capture_one_cell_per_variable (ops : List FOp) (s : FM) (hr : FM.run FM.init ops = some s)
    (c1 c2 : FCell) (h1 : c1 ∈ s.cells) (h2 : c2 ∈ s.cells) (ha : c1.act = c2.act) (hi : c1.idx = c2.idx) :
    s.readCell c1 = s.readCell c2 ∧
    (∀ (j : Nat) (v : Int) (s' : FM), s.cells[j]? = some c1 → s.step (.storeFree j v) = some s' →
      s'.readCell c2 = v) := by
  have hinv := FM.reachable_inv ops s hr
  have hadr := hinv.cell_same c1 c2 h1 h2 ha
  refine ⟨by simp only [FM.readCell, hadr, hi], ?_⟩
  intro j v s' hj hs
  simp only [FM.step, hj, Option.some.injEq] at hs
  subst hs
  simp only [FM.readCell, ← hadr, ← hi, upd_same]

/-- as long as the activation a cell belongs to is on the call stack (running or suspended, in
    whichever frame slot), that frame's `locals` IS the heap slice the cell points into -/
theorem live_owner_locals_are_the_cell_slice (ops : List FOp) (s : FM) (hr : FM.run FM.init ops = some s)
    (c : FCell) (hc : c ∈ s.cells) (k : Nat) (hk : k ≤ s.fp) (hlive : (s.frames k).act = c.act) :
    (s.frames k).heapLoc = some c.addr :=
  (FM.reachable_inv ops s hr).cell_live c k hc hk hlive

/-- **A captured variable is ONE cell shared by the defining activation and every closure over
    it, for the whole remaining life of that activation.**  In every reachable state, for every
    cell `c` whose activation is the running one (reached again after any number of nested
    calls, returns and aborted callees, and wherever the capture was executed — in the owner's
    own code or in a callee, `MakeCell _ back` with `back ≥ 1`): the owner's `LoadFast` reads
    what the cell holds; a `StoreFast` by the owner is what the closure's `LoadFree` reads next;
    a `StoreFree` by the closure is what the owner's `LoadFast` reads next. -/
theorem capture_shares_with_live_owner (ops : List FOp) (s : FM) (hr : FM.run FM.init ops = some s)
    (c : FCell) (j : Nat) (hc : s.cells[j]? = some c) (hlive : (s.frames s.fp).act = c.act) (v : Int) :
    s.readFast c.idx = s.readCell c ∧
    (∃ s', s.step (.storeFast c.idx v) = some s' ∧ s'.readCell c = v) ∧
    (∃ s', s.step (.storeFree j v) = some s' ∧ s'.readFast c.idx = v) := by
  have hmem : c ∈ s.cells := List.mem_of_getElem? hc
  have hloc := live_owner_locals_are_the_cell_slice ops s hr c hmem s.fp (Nat.le_refl _) hlive
  refine ⟨?_, ?_, ?_⟩
  · simp only [FM.readFast, FM.frameVal, hloc, FM.readCell]
  · refine ⟨_, by simp only [FM.step, hloc]; rfl, ?_⟩
    simp only [FM.readCell, upd_same]
  · refine ⟨_, by simp only [FM.step, hc]; rfl, ?_⟩
    simp only [FM.readFast, FM.frameVal, hloc, upd_same]

/-- a write by the owner to ANOTHER of its variables, or by anybody through a cell of another
    variable or another activation, leaves the captured variable alone -/
theorem capture_untouched_by_other_writes (ops : List FOp) (s : FM) (hr : FM.run FM.init ops = some s)
    (c : FCell) (hc : c ∈ s.cells) (v : Int) :
    (∀ (i : Nat) (s' : FM), i ≠ c.idx → s.step (.storeFast i v) = some s' → s'.readCell c = s.readCell c) ∧
    (∀ (i : Nat) (s' : FM), (s.frames s.fp).act ≠ c.act → s.step (.storeFast i v) = some s' → s'.readCell c = s.readCell c) := by
  have hinv := FM.reachable_inv ops s hr
  refine ⟨?_, ?_⟩
  · intro i s' hi hs
    simp only [FM.step] at hs
    split at hs
    · rename_i a ha
      simp only [Option.some.injEq] at hs; subst hs
      simp only [FM.readCell]
      by_cases hca : c.addr = a
      · subst hca; rw [upd_same, upd_other _ _ _ _ (fun h => hi h.symm)]
      · rw [upd_other _ _ _ _ hca]
    · simp only [Option.some.injEq] at hs; subst hs; rfl
  · intro i s' hact hs
    simp only [FM.step] at hs
    split at hs
    · rename_i a ha
      simp only [Option.some.injEq] at hs; subst hs
      simp only [FM.readCell]
      have hca : c.addr ≠ a := by
        intro he
        have e1 := (hinv.cell_owner c hc).2.1
        have e2 := (hinv.loc_owner s.fp a (Nat.le_refl _) ha).2
        rw [he] at e1
        exact hact (e2.symm.trans e1)
      rw [upd_other _ _ _ _ hca]
    · simp only [Option.some.injEq] at hs; subst hs; rfl


/-- **The frame machine implements one variable per (activation, slot).**  For every sequence
    of operations (calls with few or many locals, returns, error exits, captures at any
    frames-back distance, loads and stores by the running function and through cells): the
    frame machine and the variable machine accept the same sequences and show the same loaded
    values.  This is what entitles the closure-language evaluator to use `(activation, slot)`
    pairs as cells (`St.acts`, `readCell`, `writeCell`). -/
theorem frames_refine_variables (ops : List FOp) :
    (FM.run FM.init ops).map (·.out) = (VarM.run VarM.init ops).map (·.out) :=
  FM.sim_run ops FM.init VarM.init FM.inv_init FM.sim_init

/-- the two demo programs of the scenario, as operation sequences.
    (1) `mk(-1)` creates a closure over its local 0 and is aborted; `mk(5)` runs in the same
    frame slot, captures ITS local 0 and reads it through the cell: 5, not the dead -1.
    (2) `f` (≤ 8 locals) stores 1, a callee captures `f`'s local 0 (`MakeCell 0 1`) and returns;
    `f` stores 2; the closure reads 2; the closure stores 20; `f` reads 20. -/
def abortDemo : List FOp :=
  [.call false, .storeFast 0 (-1), .makeCell 0 0, .abort,
   .call false, .storeFast 0 5, .makeCell 0 0, .loadFree 1, .loadFree 0]
def ownerDemo : List FOp :=
  [.call false, .storeFast 0 1, .call false, .makeCell 0 1, .ret, .storeFast 0 2, .loadFree 0,
   .storeFree 0 20, .loadFast 0]

example : (FM.run FM.init abortDemo).map (·.out) = some [-1, 5] := by decide
example : (FM.run FM.init ownerDemo).map (·.out) = some [20, 2] := by decide
example : ((FM.run FM.init abortDemo).map fun s => s.cells.map fun c => (c.addr, c.act)) = some [(0, 1), (1, 2)] := by decide

/-- what the theorems exclude (1): a machine that does NOT reset `capturedLocals` when a slot is
    activated (it relies on the return instruction to clear it, which an error exit skips):
    the cell of the new activation aliases the dead one's slice and reads -1 -/
def FM.stepNoReset (s : FM) : FOp → Option FM
  | .call wide =>
    (s.step (.call wide)).map fun s' =>
      { s' with frames := upd s'.frames s'.fp { s'.frames s'.fp with captured := (s.frames (s.fp + 1)).captured } }
  | .ret =>
    (s.step .ret).map fun s' => { s' with frames := upd s'.frames s.fp { s.frames s.fp with captured := none } }
  | op => s.step op

def FM.runWith (step : FM → FOp → Option FM) : FM → List FOp → Option FM
  | s, [] => some s
  | s, op :: ops => (step s op).bind fun s' => FM.runWith step s' ops

example : (FM.runWith FM.stepNoReset FM.init abortDemo).map (·.out) = some [-1, -1] := by decide

/-- what the theorems exclude (2): an evaluator that keeps the `locals` slice it saw when the
    function started (`cached`) for its `StoreFast`/`LoadFast` while a callee's `MakeCell` moves
    the frame's locals to the heap: owner and closure each have a private copy (2 and 20 are
    lost: the closure reads the 1 it copied, the owner reads its own 2) -/
def ownerDemoStale : Option (List Int) :=
  -- the owner's accesses after the callee returned go to the inline storage of frame 1
  (FM.run FM.init [.call false, .storeFast 0 1, .call false, .makeCell 0 1, .ret]).bind fun s =>
    let s1 : FM := { s with inl := upd s.inl 1 (upd (s.inl 1) 0 2) }            -- `v = 2` through the stale slice
    (s1.step (.loadFree 0)).bind fun s2 => (s2.step (.storeFree 0 20)).map fun s3 =>
      s3.inl 1 0 :: s3.out                                                       -- the owner's read, stale again

example : ownerDemoStale = some [2, 1] := by decide

/-! ## The closure language: Impl (positional) against Spec (lexical) -/

/-- the full property: for every program the code's capture discipline computes what lexical
    scoping demands (result and final bindings) -/
def C02_full : Prop := ∀ (p : Prog) (fuel : Nat), Impl fuel p = Spec fuel p

/-- `func f(a) { return func(b) { return func(c) { return a + b + c } } }; f(1)(2)(3)`
    as the compiler resolves it: the innermost literal captures `a` with
    `MakeCell 0 1` (depth 2) and `b` with `MakeCell 0 0`. -/
def witnessProg : Prog :=
  { lits := [
      { nparams := 1, named := false, nlocals := 1, frees := [(0, 1), (0, 0)],
        body := [.ret (.add (.add (.load (.free 0)) (.load (.free 1))) (.load (.loc 0)))] },
      { nparams := 1, named := false, nlocals := 1, frees := [], body := [.ret (.mkfn 0)] },
      { nparams := 1, named := true, nlocals := 2, frees := [], body := [.ret (.mkfn 1)] }],
    main := [.store (.glob 0) (.mkfn 2),
             .call (.call (.call (.load (.glob 0)) [.int 1]) [.int 2]) [.int 3]],
    nglobals := 1, mainLocals := 3 }

/-- what a run shows to the outside: the integer result, or the kind of failure -/
def observe : Except Err Val × St → Option Int ⊕ ErrK
  | (.ok (.int n), _) => .inl (some n)
  | (.ok _, _) => .inl none
  | (.error e, _) => .inr e.kind

/-- lexical scoping gives 6 … -/
theorem witness_spec : observe (Spec 20 witnessProg) = .inl (some 6) := by decide

/-- … the code's positional capture makes the cell for `a` point into main's frame, whose
    slot 0 was never written (Go nil): the real VM dies with a recovered nil-pointer panic -/
theorem witness_impl : observe (Impl 20 witnessProg) = .inr .undef := by decide

theorem C02_counterexample_depth2 : ¬ C02_full := by
  intro h
  have := congrArg observe (h witnessProg 20)
  rw [witness_spec, witness_impl] at this
  exact absurd this (by decide)

/-- **Partial property (guard `depth1Only`: every `MAKE_CELL`'s second operand is 0).**
    For every program whose function literals capture only variables of the function that
    directly contains them, for every recursion budget: the model of the code and the
    lexical specification compute the same result and the same final state — whatever the
    nesting depth of the literals and whatever the route by which the closures are called
    (returned and called later, through another function, from list.map/filter/each, sorted,
    try, a spawned thread, or as a later top-level call standing for `vm.Call` from Go). -/
theorem C02_partial_depth1 (p : Prog) (h : depth1Only p.lits = true) (fuel : Nat) :
    Impl fuel p = Spec fuel p := by
  simp only [Impl, Spec, runProg, (mode_irrelevant p.lits h fuel).execBody]

/-- the same for any fragment of a run: every evaluator entry point, any state -/
theorem C02_partial_depth1_eval (lits : List Lit) (h : depth1Only lits = true) (fuel : Nat) (t : RTm) (s : St) :
    eval .positional lits fuel t s = eval .lexical lits fuel t s := by
  rw [(mode_irrelevant lits h fuel).eval]

theorem C02_partial_depth1_call (lits : List Lit) (h : depth1Only lits = true) (fuel : Nat)
    (f : Val) (args : List Val) (s : St) :
    callVal .positional lits fuel f args s = callVal .lexical lits fuel f args s := by
  rw [(mode_irrelevant lits h fuel).callVal]

/-- non-vacuity: a program with three nested literals, each capturing from its direct
    parent only, satisfies the guard and evaluates (to 6) -/
def depth1Prog : Prog :=
  { lits := [
      -- func(c) { return b2 + c }         b2 is a local of the middle function
      { nparams := 1, named := false, nlocals := 1, frees := [(1, 0)],
        body := [.ret (.add (.load (.free 0)) (.load (.loc 0)))] },
      -- func(b) { b2 := a + b; return <inner> }
      { nparams := 1, named := false, nlocals := 2, frees := [(0, 0)],
        body := [.store (.loc 1) (.add (.load (.free 0)) (.load (.loc 0))), .ret (.mkfn 0)] },
      { nparams := 1, named := true, nlocals := 2, frees := [], body := [.ret (.mkfn 1)] }],
    main := [.store (.glob 0) (.mkfn 2),
             .call (.call (.call (.load (.glob 0)) [.int 1]) [.int 2]) [.int 3]],
    nglobals := 1, mainLocals := 3 }

example : depth1Only depth1Prog.lits = true := by decide
example : observe (Impl 20 depth1Prog) = .inl (some 6) := by decide
example : depth1Only witnessProg.lits = false := by decide

/-! ## Every statement form that reads or writes a variable goes through the same cells

The compiler has three `LoadFree` sites (identifier, compound assignment, postfix) and four
`StoreFree` sites (`=`, compound assignment, postfix, tuple assignment).  In the model every one
of them is a `Ref.free i` produced by the one resolver `resolveName`, and `loadRef`/`storeRef`
on `Ref.free i` use cell `i` of the running closure — the cell `makeCells` built for the `i`-th
free entry.  The harness compares this with the real compiler + VM for each form. -/

/-- **`StoreFree i` writes cell `i`**: whatever statement form emitted it, a store to the
    `i`-th free variable of the running closure writes the binding its `i`-th cell names (for
    every state, index and value) -/
theorem store_free_hits_indexed_cell (s : St) (a : Act) (i : Nat) (c : Nat × Nat) (v : Val)
    (ha : s.acts[curAct s]? = some a) (hc : a.cells[i]? = some c) :
    storeRef (.free i) v s = (.ok (), writeCell s c v) := by
  simp only [storeRef, ha, Option.bind_some, hc]

/-- **`LoadFree i` reads cell `i`** (a defined value; a never-written Go-nil slot is outside the model) -/
theorem load_free_reads_indexed_cell (s : St) (a : Act) (i : Nat) (c : Nat × Nat) (v : Val)
    (ha : s.acts[curAct s]? = some a) (hc : a.cells[i]? = some c) (hv : readCell s c = some v)
    (hdef : v ≠ .undef) :
    loadRef (.free i) s = (.ok v, s) := by
  simp only [loadRef, ha, Option.bind_some, hc, hv]

/-- **`Unpack` stores run one after the other**, in the order `storeRefs` is given (the
    evaluator passes the targets from the last name to the first); the first failing store ends it -/
theorem unpack_stores_last_to_first (r : Ref) (v : Val) (rest : List (Ref × Val)) (s : St) :
    storeRefs ((r, v) :: rest) s =
      match storeRef r v s with
      | (.ok _, s') => storeRefs rest s'
      | (.error e, s') => (.error e, s') := by
  simp only [storeRefs, bind]
  cases storeRef r v s with
  | mk a s' => cases a <;> rfl

/-- **`x += e` / `x -= e` resolve `x` once**: for every name, value term and resolver state
    the load before the value and the store after it use the SAME reference (same free index,
    hence the same cell) -/
theorem compound_assign_one_reference (n : Nat) (x : String) (sub : Bool) (e : Tm) (rs rs' : RS) (t : RTm)
    (h : resolveTm (n + 1) (.opassign x sub e) rs = .ok (t, rs')) :
    ∃ r e', t = .store r (if sub then .sub (.load r) e' else .add (.load r) e') := by
  simp only [resolveTm, bind, Except.bind] at h
  split at h
  · cases h
  · rename_i p hp
    obtain ⟨r, rs1⟩ := p
    simp only at h
    split at h
    · cases h
    · rename_i q hq
      obtain ⟨e', rs2⟩ := q
      simp only [pure, Except.pure, Except.ok.injEq, Prod.mk.injEq] at h
      exact ⟨r, e', h.1.symm⟩

/-- **`a, b, … = e` resolves every name**: the tuple assignment becomes one `unpack` with
    exactly one reference per name on the left (each produced by `resolveName`, so a captured
    target is a `Ref.free` with its own free index — not its slot in the defining function) -/
theorem tuple_assign_one_reference_per_name (n : Nat) (xs : List String) (e : Tm) (rs rs' : RS) (t : RTm)
    (h : resolveTm (n + 1) (.massign xs e) rs = .ok (t, rs')) :
    ∃ refs e', t = .unpack refs e' ∧ refs.length = xs.length := by
  simp only [resolveTm, bind, Except.bind] at h
  split at h
  · cases h
  · rename_i p hp
    obtain ⟨e', rs1⟩ := p
    simp only at h
    split at h
    · cases h
    · rename_i q hq
      obtain ⟨refs, rs2⟩ := q
      simp only [pure, Except.pure, Except.ok.injEq, Prod.mk.injEq] at h
      refine ⟨refs.reverse, e', h.1.symm, ?_⟩
      rw [List.length_reverse, resolveNames_length _ _ _ _ hq, List.length_reverse]

/-- the targets of an `unpack` statement -/
def unpackTargets : RTm → List Ref
  | .unpack rs _ => rs
  | _ => []

/-- non-vacuity and the index distinction: inside `func() { lo, hi = [hi, lo] }` nested in a
    function with locals `seed lo hi` (slots 0 1 2) the targets are free entries 3 and 2 of the
    literal (after the two reads), not slots 1 and 2 -/
example :
    (resolveTm 10 (.fn "_" [] [.massign ["lo", "hi"] (.list [.var "hi", .var "lo"])])
      { lits := [], globals := [],
        scopes := [{ fnTab := [("seed", 0)], bodyTab := [("hi", 2), ("lo", 1)], count := 3, frees := [] }] }).toOption.map
      (fun p => (p.2.lits.map (fun l => l.body.map unpackTargets), p.2.lits.map (·.frees)))
    = some ([[[.free 3, .free 2]]], [[(2, 0), (1, 0), (2, 0), (1, 0)]]) := by decide

/-! ## What Spec means, cells, the self slot -/

/-- **Spec is lexical**: in `Mode.lexical` every cell made for a literal points into the
    `d`-th lexical ancestor of the activation executing the literal, at the slot the
    compiler named — for every state and every list of free entries. -/
theorem spec_cells_are_lexical (s : St) (cur : Nat) (rest : List Nat) (hs : s.stack = cur :: rest) :
    ∀ (frees : List (Nat × Nat)) (cs : List (Nat × Nat)), makeCells .lexical s frees = .ok cs →
      cs.length = frees.length ∧
      ∀ (k : Nat) (c f : Nat × Nat), cs[k]? = some c → frees[k]? = some f →
        c.2 = f.1 ∧ resolveLexical s.parentOf cur f.2 = some c.1 := by
  intro frees
  induction frees with
  | nil =>
    intro cs h
    simp only [makeCells] at h
    cases h
    exact ⟨rfl, by intro k c f hc; simp at hc⟩
  | cons p rest' ih =>
    obtain ⟨slot, d⟩ := p
    intro cs h
    simp only [makeCells, captureAct, hs] at h
    split at h
    · cases h
    · rename_i a ha
      split at h
      · cases h
      · split at h
        · split at h
          · rename_i cs' hcs'
            cases h
            obtain ⟨hlen, hall⟩ := ih cs' hcs'
            refine ⟨by simp [hlen], ?_⟩
            intro k c f hc hf
            cases k with
            | zero =>
              simp only [List.getElem?_cons_zero, Option.some.injEq] at hc hf
              subst hc hf
              exact ⟨rfl, ha⟩
            | succ k =>
              simp only [List.getElem?_cons_succ] at hc hf
              exact hall k c f hc hf
          · cases h
        · cases h

/-- **Impl is positional**: in `Mode.positional` the same cell points into the frame `d`
    below the top of the call stack, whoever that is -/
theorem impl_cells_are_positional (s : St) :
    ∀ (frees : List (Nat × Nat)) (cs : List (Nat × Nat)), makeCells .positional s frees = .ok cs →
      ∀ (k : Nat) (c f : Nat × Nat), cs[k]? = some c → frees[k]? = some f →
        c.2 = f.1 ∧ s.stack[f.2]? = some c.1 := by
  intro frees
  induction frees with
  | nil =>
    intro cs h
    simp only [makeCells] at h
    cases h
    intro k c f hc; simp at hc
  | cons p rest' ih =>
    obtain ⟨slot, d⟩ := p
    intro cs h
    simp only [makeCells, captureAct, resolvePositional] at h
    split at h
    · cases h
    · rename_i a ha
      split at h
      · cases h
      · split at h
        · split at h
          · rename_i cs' hcs'
            cases h
            have hall := ih cs' hcs'
            intro k c f hc hf
            cases k with
            | zero =>
              simp only [List.getElem?_cons_zero, Option.some.injEq] at hc hf
              subst hc hf
              exact ⟨rfl, ha⟩
            | succ k =>
              simp only [List.getElem?_cons_succ] at hc hf
              exact hall k c f hc hf
          · cases h
        · cases h

/-- **A binding is shared**: a write through a cell is seen by every later read through any
    cell that names the same (activation, slot) … -/
theorem cell_write_read (s : St) (c : Nat × Nat) (v : Val) (a : Act)
    (ha : s.acts[c.1]? = some a) (hslot : c.2 < a.locals.length) :
    readCell (writeCell s c v) c = some v := by
  have hlt : c.1 < s.acts.length := by
    rcases Nat.lt_or_ge c.1 s.acts.length with h | h
    · exact h
    · simp [List.getElem?_eq_none h] at ha
  simp only [readCell, writeCell, ha]
  simp [hlt, hslot]

/-- … and **distinct bindings do not interfere**: it leaves every other cell's content as it was -/
theorem cell_write_other (s : St) (c c' : Nat × Nat) (v : Val) (hne : c ≠ c') :
    readCell (writeCell s c v) c' = readCell s c' := by
  unfold writeCell
  cases ha : s.acts[c.1]? with
  | none => rfl
  | some a =>
    simp only [readCell]
    by_cases h1 : c.1 = c'.1
    · have h2 : c.2 ≠ c'.2 := by
        intro h2
        exact hne (Prod.ext h1 h2)
      rw [← h1]
      have hlt : c.1 < s.acts.length := by
        rcases Nat.lt_or_ge c.1 s.acts.length with h | h
        · exact h
        · simp [List.getElem?_eq_none h] at ha
      have hget : s.acts[c.1] = a := by
        have := ha
        rw [List.getElem?_eq_getElem hlt] at this
        exact Option.some.inj this
      simp [hlt, h2, hget]
    · simp [h1]

/-- **Self slot**: a named function finds the closure being called — itself — in the local
    slot right after its parameters (so recursion and captures of the function's own name
    see the running closure with its cells, not a bare constant) -/
theorem self_slot (l : Lit) (self : Val) (args : List Val) (hn : l.named = true)
    (hargs : args.length = l.nparams) : (initLocals l self args)[l.nparams]? = some self := by
  simp [initLocals, hn, ← hargs]

/-- and the parameters sit in the slots before it -/
theorem param_slots (l : Lit) (self : Val) (args : List Val) (i : Nat) (hi : i < args.length) :
    (initLocals l self args)[i]? = args[i]? := by
  simp [initLocals, List.getElem?_append_left, hi]

example : (initLocals { nparams := 1, named := true, nlocals := 3, frees := [], body := [] } .nil [.int 7]).length = 3 := by decide


/-! ## Block scopes: a block variable keeps its slot for good

`if`/`else` bodies, `switch` cases and the loop forms compile their body in a block table
(`NewBlock`), which claims its indexes from the enclosing FUNCTION table
(`claimIndex`: `idx := len(t.symbols)`, append) and is then dropped
(`code.symbols = code.symbols.parent`) without giving anything back.  `FScope.applyOp` is that
allocator; `declareName`, `RS.openB`, `RS.closeB` — what the resolver of the closure language
does — are its three operations (`resolver_uses_allocator`).  The harness compares the slots
(`STORE_FAST` operands, `MAKE_CELL` operands, `LocalsCount`) of the real bytecode with it. -/

/-- **Slots are never reused.**  For EVERY sequence of block-open / block-close / declaration
    operations on a function's tables, from any state of the tables: two distinct new variables
    (positions `i ≠ j` in declaration order) — whatever blocks they are declared in, still open
    or long closed, nested or siblings — never get the same local slot. -/
theorem block_slots_never_reused (s : FScope) (ops : List BOp) (i j a b : Nat)
    (hi : (s.claims ops)[i]? = some a) (hj : (s.claims ops)[j]? = some b) (hne : i ≠ j) : a ≠ b := by
  have hp := (FScope.claims_sorted ops s).1
  rw [List.pairwise_iff_getElem] at hp
  obtain ⟨hil, hia⟩ := List.getElem?_eq_some_iff.1 hi
  obtain ⟨hjl, hjb⟩ := List.getElem?_eq_some_iff.1 hj
  rcases Nat.lt_or_gt_of_ne hne with h | h
  · have := hp i j hil hjl h
    omega
  · have := hp j i hjl hil h
    omega

/-- the same as a list property: the claimed slots are pairwise different -/
theorem block_slots_nodup (s : FScope) (ops : List BOp) : (s.claims ops).Nodup :=
  ((FScope.claims_sorted ops s).1).imp (fun h => Nat.ne_of_lt h)

/-- … they are also different from every slot handed out BEFORE the sequence (parameters, the
    function's own name, earlier locals: all below `count`), and they fit in the frame the VM
    allocates (`LocalsCount` = the function table's final `count`) -/
theorem block_slots_fresh_and_in_frame (s : FScope) (ops : List BOp) (a : Nat) (ha : a ∈ s.claims ops) :
    s.count ≤ a ∧ a < (s.runOps ops).count :=
  (FScope.claims_sorted ops s).2.2 a ha

/-- closing a block gives nothing back: the next index is the same as before the close -/
theorem close_keeps_count (s : FScope) : s.closeBlock.count = s.count := rfl

/-- a new variable is what its name resolves to from then on in its block (it shadows the
    outer variables of the same name), at the slot it claimed -/
theorem declared_name_resolves (s : FScope) (x : String) (i : Nat) (s' : FScope)
    (h : s.declare x = (i, true, s')) : s'.lookup x = some i := by
  unfold FScope.declare at h
  cases hb : s.blocks with
  | nil =>
    simp only [hb] at h
    cases hl : lookupTab s.bodyTab x with
    | some k => simp [hl] at h
    | none =>
      simp only [hl, Prod.mk.injEq] at h
      obtain ⟨hi, _, hs⟩ := h
      subst hs hi
      simp [FScope.lookup, lookupBlocks, lookupTab, List.find?]
  | cons b bs =>
    simp only [hb] at h
    cases hl : lookupTab b x with
    | some k => simp [hl] at h
    | none =>
      simp only [hl, Prod.mk.injEq] at h
      obtain ⟨hi, _, hs⟩ := h
      subst hs hi
      simp [FScope.lookup, lookupBlocks, lookupTab, List.find?]

/-- **the resolver's steps are the allocator's operations**: inside a function `x := …`
    (`declareName`), a block's begin and end act on the innermost function's tables exactly as
    `BOp.decl`, `BOp.openB`, `BOp.closeB` -/
theorem resolver_uses_allocator (rs : RS) (s : FScope) (outer : List FScope) (x : String)
    (h : rs.scopes = s :: outer) :
    (declareName rs x).2.scopes = (s.applyOp (.decl x)).1 :: outer ∧
    (declareName rs x).1 = .loc (s.declare x).1 ∧
    rs.openB = .ok { rs with scopes := (s.applyOp .openB).1 :: outer } ∧
    rs.closeB.scopes = (s.applyOp .closeB).1 :: outer := by
  refine ⟨?_, ?_, ?_, ?_⟩
  · simp only [declareName, h, FScope.applyOp]
    rcases hd : s.declare x with ⟨i, b, s'⟩
    cases b <;> rfl
  · simp only [declareName, h]
  · simp only [RS.openB, h, FScope.applyOp]
  · simp only [RS.closeB, h, FScope.applyOp]

/-- **A closure over a block variable reads and writes exactly that variable, whatever is
    declared later.**  Let `a` be the slot of any variable of a function and `b` the slot of any
    OTHER variable the same function declares — before or after, in the same block, a sibling
    block, an enclosing or a nested one, after any number of blocks were closed in between.  In
    every state and every activation `act` of that function: a write to the other variable
    (cell `(act, b)`: the function's own `StoreFast b`, or `StoreFree` through any closure's
    cell) leaves what a closure holding the cell `(act, a)` reads unchanged; and what is
    written through `(act, a)` is what is read back through it. -/
theorem block_capture_lexical (s : FScope) (ops : List BOp) (i j a b : Nat)
    (hi : (s.claims ops)[i]? = some a) (hj : (s.claims ops)[j]? = some b) (hne : i ≠ j)
    (st : St) (act : Nat) (v : Val) :
    readCell (writeCell st (act, b) v) (act, a) = readCell st (act, a) ∧
    (∀ fr : Act, st.acts[act]? = some fr → a < fr.locals.length →
      readCell (writeCell st (act, a) v) (act, a) = some v) := by
  have hab : a ≠ b := block_slots_never_reused s ops i j a b hi hj hne
  refine ⟨cell_write_other st (act, b) (act, a) v ?_, ?_⟩
  · intro h
    exact hab (Prod.mk.inj h).2.symm
  · intro fr hfr hlen
    exact cell_write_read st (act, a) v fr hfr hlen

/-- the same through the two store instructions: the running function's `StoreFast b`
    (`Ref.loc b`) and a closure's `StoreFree k` whose `k`-th cell names the other variable -/
theorem block_capture_lexical_stores (s : FScope) (ops : List BOp) (i j a b : Nat)
    (hi : (s.claims ops)[i]? = some a) (hj : (s.claims ops)[j]? = some b) (hne : i ≠ j)
    (st : St) (v : Val) :
    readCell (storeRef (.loc b) v st).2 (curAct st, a) = readCell st (curAct st, a) ∧
    (∀ (fr : Act) (k act : Nat), st.acts[curAct st]? = some fr → fr.cells[k]? = some (act, b) →
      readCell (storeRef (.free k) v st).2 (act, a) = readCell st (act, a)) := by
  refine ⟨?_, ?_⟩
  · exact (block_capture_lexical s ops i j a b hi hj hne st (curAct st) v).1
  · intro fr k act hfr hk
    rw [store_free_hits_indexed_cell st fr k (act, b) v hfr hk]
    exact (block_capture_lexical s ops i j a b hi hj hne st act v).1

/-- non-vacuity, the shape of the programs the harness generates: `func a() { get := nil;
    if … { secret := 42; get = func() { return secret } }; if … { other := 7 };
    for i := 0; … { sq := … }; last := …; … }` — five variables, five slots -/
example :
    ({ fnTab := [], bodyTab := [], count := 0, frees := [] } : FScope).claims
      [.decl "get", .openB, .decl "secret", .closeB, .openB, .decl "other", .closeB,
       .openB, .decl "i", .openB, .decl "sq", .closeB, .closeB, .decl "last"] = [0, 1, 2, 3, 4, 5] := by decide

/-- what the theorem excludes: an allocator that hands out "the number of variables of the
    blocks that are still open" (so that the slots of closed blocks are recycled) gives
    `secret` and `other` the same slot -/
def recyclingClaims : List (List String) → List BOp → List Nat
  | _, [] => []
  | open_, .openB :: ops => recyclingClaims ([] :: open_) ops
  | open_, .closeB :: ops => recyclingClaims open_.tail ops
  | [], .decl _ :: ops => recyclingClaims [] ops
  | b :: bs, .decl x :: ops => ((b :: bs).map List.length).sum :: recyclingClaims ((x :: b) :: bs) ops

example : recyclingClaims [[]] [.decl "get", .openB, .decl "secret", .closeB, .openB, .decl "other", .closeB] = [0, 1, 1] := by decide

/-- the demo program end to end in the closure language: resolved by `resolveProg`, run in
    both modes: the closure made in the first `if` body still returns 42 after the second
    block declared `other` and the function declared `last` -/
def blockDemo : List Tm := [
  .fn "a" [] [
    .decl "get" .nil,
    .ifte (.int 1) [.decl "secret" (.int 42), .assign "get" (.fn "_" [] [.ret (.var "secret")])] [],
    .ifte (.int 1) [.decl "other" (.int 7)] [.decl "alt" (.int 8)],
    .loop .for3 ["i"] 2 [] [.decl "sq" (.add (.var "i") (.var "i"))],
    .decl "last" (.int 9),
    .ret (.call (.var "get") [])],
  .call (.var "a") []]

/-- `blockDemo` as `resolveProg` resolves it (`a` is named: slot 0 is the function itself) -/
def blockDemoProg : Prog :=
  { lits := [
      { nparams := 0, named := false, nlocals := 0, frees := [(2, 0)], body := [.ret (.load (.free 0))] },
      { nparams := 0, named := true, nlocals := 8, frees := [],
        body := [.store (.loc 1) .nil,
                 .ifte (.int 1) [.store (.loc 2) (.int 42), .store (.loc 1) (.mkfn 0)] [],
                 .ifte (.int 1) [.store (.loc 3) (.int 7)] [.store (.loc 4) (.int 8)],
                 .loop .for3 [.loc 5] 2 [] [.store (.loc 6) (.add (.load (.loc 5)) (.load (.loc 5)))],
                 .store (.loc 7) (.int 9),
                 .ret (.call (.load (.loc 1)) [])] }],
    main := [.store (.glob 0) (.mkfn 1), .call (.load (.glob 0)) []],
    nglobals := 1, mainLocals := 1 }

example : ((resolveList 12 blockDemo { lits := [], scopes := [], globals := [] }).toOption.map
    fun p => (p.2.lits.map (·.frees), p.2.lits.map (·.nlocals))) = some ([[(2, 0)], []], [0, 8]) := by decide
example : observe (Impl 30 blockDemoProg) = .inl (some 42) := by decide
example : observe (Spec 30 blockDemoProg) = .inl (some 42) := by decide
example : depth1Only blockDemoProg.lits = true := by decide


/-! ## Recursion: every call is a new activation, every level keeps its own bindings

"However the function is eventually invoked" includes: by ITSELF.  A function that calls itself
(in tail position — `return f(…)`, the result handed on as it is — or in the middle of an
expression, directly or through another name bound to the same function object, from the
script or under a `vm.Call` from Go) and creates a closure over one of its parameters or locals
at every level must give every level's closure the bindings of THAT level.  In the code as it
is the `Call` instruction has one way out (`callObject` → `callFunction` → a new frame
activation; ties `armCall_tie`, `callObjectFunction_tie`), so a self call is a call like any
other.  The closure language has the conditional return `if c { return e }` (`Tm.retif`), so
terminating recursion is expressible and `C02_partial_depth1` covers it. -/

/-- **A call runs in a new activation — whoever calls whom, whatever follows the call.**  For
    every state, closure and argument list (of the right length, within the call budget) the
    body runs in `St.enter`: activation number `s.acts.length` — one that did not exist before —
    with locals initialised from THIS call's arguments; afterwards the caller's stack is
    restored.  Nothing in it looks at whether the callee is the function that is running or at
    the position of the call (a self call in tail position is this case). -/
theorem call_runs_in_new_activation (m : Mode) (lits : List Lit) (n i : Nat) (cells : List (Nat × Nat))
    (definer : Nat) (args : List Val) (l : Lit) (s : St)
    (hl : lits[i]? = some l) (ha : args.length = l.nparams) (hc : s.calls ≠ 0) :
    callVal m lits (n + 1) (.clo i cells definer) args s =
      match execBody m lits n l.body (s.enter l (.clo i cells definer) args definer cells) with
      | (r, s') => (r, { s' with stack := s.stack }) := by
  have h1 : (args.length != l.nparams) = false := by simp [ha]
  have h2 : (s.calls == 0) = false := by simp [hc]
  simp only [callVal, hl, bind, getSt, setSt, modSt, catchE, rethrow, pure, St.enter, h1, h2,
    Bool.false_eq_true, if_false]
  generalize execBody m lits n l.body _ = r
  obtain ⟨r, s'⟩ := r
  cases r <;> rfl


/-- **`return e` / `if c { return e }` in a function body.**  The conditional return ends the
    function with the value of `e` when `c` is truthy and goes on with the following statements
    otherwise (for every mode, budget, state) -/
theorem conditional_return (m : Mode) (lits : List Lit) (n : Nat) (c e : RTm) (rest : List RTm) (s : St) :
    execBody m lits (n + 1) (.retif c e :: rest) s =
      match eval m lits n c s with
      | (.ok cv, s') => if cv.truthy then eval m lits n e s' else execBody m lits n rest s'
      | (.error err, s') => (.error err, s') := by
  simp only [execBody, bind]
  cases eval m lits n c s with
  | mk r s' =>
    cases r with
    | error err => rfl
    | ok cv => cases h : cv.truthy <;> simp [h]

/-- a function literal that captures only variables of the function executing it gets cells
    of THAT activation (the one on top of the stack), in both modes -/
theorem depth1_cells_in_running_activation (m : Mode) (s : St) (cur : Nat) (rest : List Nat)
    (hs : s.stack = cur :: rest) :
    ∀ (frees : List (Nat × Nat)) (cs : List (Nat × Nat)), (frees.all fun p => p.2 == 0) = true →
      makeCells m s frees = .ok cs → ∀ c, c ∈ cs → c.1 = cur := by
  intro frees
  induction frees with
  | nil =>
    intro cs _ h c hc
    simp only [makeCells] at h
    cases h
    simp at hc
  | cons p rest' ih =>
    obtain ⟨slot, d⟩ := p
    intro cs hd h c hc
    simp only [List.all_cons, Bool.and_eq_true, beq_iff_eq] at hd
    obtain ⟨hd0, hdr⟩ := hd
    have hd0' : d = 0 := hd0
    subst hd0'
    have hcap : captureAct m s.parentOf s.stack 0 = some cur := by
      rw [hs]; cases m <;> rfl
    simp only [makeCells, hcap] at h
    split at h
    · cases h
    · split at h
      · split at h
        · rename_i cs' hcs'
          cases h
          rcases List.mem_cons.1 hc with h0 | h1
          · subst h0; rfl
          · exact ih cs' hdr hcs' c h1
        · cases h
      · cases h


/-- **Every level of a recursion has its own bindings.**  Let a call be made in state `s` (its
    activation gets the number `s.acts.length`, `call_runs_in_new_activation`) and let the callee,
    at any later moment `s2` at which it is the running function, execute a function literal over
    its own parameters/locals.  Every cell `c` of the new closure is different from every cell
    `cOld` of an activation that existed when the call was made — in particular from the cells
    of the closures the SAME function made one level up — and writes through either are not seen
    through the other (for every state `st` they are applied to and every value). -/
theorem recursive_levels_have_own_bindings (m : Mode) (s s2 : St) (rest : List Nat)
    (hs2 : s2.stack = s.acts.length :: rest)
    (frees : List (Nat × Nat)) (hd : (frees.all fun p => p.2 == 0) = true)
    (cs : List (Nat × Nat)) (hcs : makeCells m s2 frees = .ok cs)
    (c cOld : Nat × Nat) (hc : c ∈ cs) (hold : cOld.1 < s.acts.length) :
    c ≠ cOld ∧
    ∀ (st : St) (v : Val),
      readCell (writeCell st c v) cOld = readCell st cOld ∧
      readCell (writeCell st cOld v) c = readCell st c := by
  have h1 := depth1_cells_in_running_activation m s2 _ rest hs2 frees cs hd hcs c hc
  have hne : c ≠ cOld := by
    intro h; rw [h] at h1; omega
  exact ⟨hne, fun st v => ⟨cell_write_other st c cOld v hne, cell_write_other st cOld c v (fun h => hne h.symm)⟩⟩


/-- **On the frame machine: a call — a self call included, there is one call operation —
    starts an activation no existing cell belongs to**, in the next frame slot, with
    `capturedLocals` reset.  With `cells_fresh_after_abort` (cells of different activations never
    share storage) every closure the callee makes is separate from every closure made before. -/
theorem call_starts_new_activation (ops : List FOp) (s : FM) (hr : FM.run FM.init ops = some s)
    (wide : Bool) :
    ∃ s1, s.step (.call wide) = some s1 ∧ s1.fp = s.fp + 1 ∧
      (s1.frames s1.fp).act = s.nacts ∧ (s1.frames s1.fp).captured = none ∧
      s1.cells = s.cells ∧ ∀ c, c ∈ s1.cells → c.act ≠ (s1.frames s1.fp).act := by
  have hinv := FM.reachable_inv ops s hr
  refine ⟨_, rfl, rfl, ?_, ?_, rfl, ?_⟩
  · simp only [upd_same]
  · simp only [upd_same]
  · intro c hc
    have := (hinv.cell_owner c hc).2.2
    simp only [upd_same]
    omega

/-- **Every level of a recursion keeps its own binding.**  For EVERY recursion depth and every
    choice of values and frame sizes: `n` nested calls (a function calling itself, or any other
    chain), each level storing its value `vᵢ` in its local 0 and making a closure over it; all
    levels return; then the closures are read in the order they were made.  The frame machine
    (frame slots re-used level by level on the way back, inline storage copied to the heap on
    capture, `capturedLocals`) shows `v₀, v₁, …` — each closure reads the value of the level
    that made it, not the last level's. -/
theorem recursion_levels_keep_their_values (vs : List (Int × Bool)) :
    (FM.run FM.init (recChain vs)).map (·.out) = some (vs.map (·.1)).reverse := by
  rw [frames_refine_variables]
  obtain ⟨t1, hrun1, hfp, hout, hn, hlen, _, _, hlv⟩ := VarM.descent vs VarM.init
  have hrun2 := VarM.returns vs.length t1 (by omega)
  let t2 : VarM := { t1 with fp := t1.fp - vs.length }
  have hreads := VarM.reads (vs.map (·.1)) 0 t2 (by
    intro i w hi
    simp only [List.getElem?_map, Option.map_eq_some_iff] at hi
    obtain ⟨p, hp, hw⟩ := hi
    obtain ⟨c, hc, hv, _⟩ := hlv i p hp
    refine ⟨c, ?_, by rw [← hw]; exact hv⟩
    simpa [VarM.init, t2] using hc)
  obtain ⟨t3, hrun3, hout3⟩ := hreads
  simp only [recChain, VarM.run_append, hrun1, Option.bind_some, hrun2]
  rw [List.range_eq_range']
  simp only [List.length_map] at hrun3
  show Option.map (·.out) (VarM.run t2 _) = _
  rw [hrun3]
  simp only [Option.map_some, hout3, t2, hout, VarM.init, List.append_nil]


/-- non-vacuity: three levels, the closures read 1, 2, 3 (most recent load first) … -/
example : (FM.run FM.init (recChain [(1, false), (2, true), (3, false)])).map (·.out) = some [3, 2, 1] := by decide

/-- … what the theorems exclude: a machine that runs a call made from inside a function (as a
    "frame re-using" treatment of the self call in tail position would) IN THE FRAME THAT IS
    ALREADY THERE — a new activation in the same slot with `locals`/`capturedLocals` kept: the
    three closures share one variable and all read the last level's 3 -/
def FM.stepRestart (s : FM) : FOp → Option FM
  | .call wide =>
    if s.fp = 0 then s.step (.call wide)
    else some { s with frames := upd s.frames s.fp { s.frames s.fp with act := s.nacts }, nacts := s.nacts + 1 }
  | op => s.step op

example : (FM.runWith FM.stepRestart FM.init
    (recDescent [(1, false), (2, false), (3, false)] ++ [.ret, .loadFree 0, .loadFree 1, .loadFree 2])).map (·.out)
    = some [3, 3, 3] := by decide

/-- the scenario end to end in the closure language:
    `func rec(n, acc) { x := n + 10; g := func(q) { x += q; return x + n };
                        if n { return rec(n + -1, acc + [g]) }; return acc + [g] }
     r := rec(2, []); r[0](1) + r[0](1) + r[1](1)`
    as `resolveProg` resolves it (`rec` is named: slot 2 is the function itself).  Level `n = 2`
    has `x = 12`: its closure returns 15, then 16; level `n = 1` has `x = 11`: 13.  (With one
    shared set of bindings — the last level's `n = 0`, `x = 10` — the sum would be 36.) -/
def recDemoProg : Prog :=
  { lits := [
      { nparams := 1, named := false, nlocals := 1, frees := [(3, 0), (3, 0), (0, 0)],
        body := [.store (.free 0) (.add (.load (.free 0)) (.load (.loc 0))),
                 .ret (.add (.load (.free 1)) (.load (.free 2)))] },
      { nparams := 2, named := true, nlocals := 5, frees := [],
        body := [.store (.loc 3) (.add (.load (.loc 0)) (.int 10)),
                 .store (.loc 4) (.mkfn 0),
                 .retif (.load (.loc 0))
                   (.call (.load (.loc 2)) [.add (.load (.loc 0)) (.int (-1)), .add (.load (.loc 1)) (.list [.load (.loc 4)])]),
                 .ret (.add (.load (.loc 1)) (.list [.load (.loc 4)]))] }],
    main := [.store (.glob 0) (.mkfn 1),
             .store (.glob 1) (.call (.load (.glob 0)) [.int 2, .list []]),
             .add (.add (.call (.idx (.load (.glob 1)) 0) [.int 1]) (.call (.idx (.load (.glob 1)) 0) [.int 1]))
                  (.call (.idx (.load (.glob 1)) 1) [.int 1])],
    nglobals := 2, mainLocals := 0 }

example : depth1Only recDemoProg.lits = true := by decide
example : observe (Impl 60 recDemoProg) = .inl (some 44) := by decide +kernel
example : observe (Spec 60 recDemoProg) = .inl (some 44) := by decide +kernel

end Risor.C02
