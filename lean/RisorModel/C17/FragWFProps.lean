import RisorModel.C17.FragWF
import RisorModel.C17.Props
/-!
C17 — well-formedness of the compiler's output PROVED for the modelled compiler fragments.

`WF` (Model.lean) is a hypothesis of C17's round-trip theorems; for arbitrary programs it is
evaluated per compiled tree.  Here it is a THEOREM for every program of C01's proved compiler
fragments: `frag_compile_wf` (F1–F3, `Frag.compF`), `fun_compile_wf` (F4, every code object of
`Fun.compFun`, children included), for all programs of the fragment and for every value of
what the fragment compilers do not determine (`Env`: source texts, the contents of the root
symbol table, the whole tree of block/function tables, the order of global names).  The
corollaries `frag_roundtrip` / `fun_roundtrip` instantiate `C17_partial_roundtrip` without the
`WF` hypothesis.  That `…ToC17 env (comp… p)` IS the code object the real compiler produced is
the correspondence obligation of harness/c17frag.go (oracle request `C17 frag`).
-/
namespace Risor.C17.FragWF
open Risor.C17 Risor.C01

/-! ### decimal numbers -/

theorem dec_lt {n : Nat} (h : n < 10) : dec n = [48 + n] := by
  rw [dec]; simp [h]

theorem dec_ge {n : Nat} (h : ¬ n < 10) : dec n = dec (n / 10) ++ [48 + n % 10] := by
  rw [dec]; simp [h]

theorem dec_ne_nil (n : Nat) : dec n ≠ [] := by
  by_cases h : n < 10
  · rw [dec_lt h]; simp
  · rw [dec_ge h]; simp

/-- `%d` is injective: different numbers have different decimal texts -/
theorem dec_inj : ∀ a b : Nat, dec a = dec b → a = b := by
  intro a
  induction a using Nat.strongRecOn with
  | _ a ih =>
    intro b h
    by_cases ha : a < 10 <;> by_cases hb : b < 10
    · rw [dec_lt ha, dec_lt hb] at h
      simp at h; omega
    · rw [dec_lt ha, dec_ge hb] at h
      cases hd : dec (b / 10) with
      | nil => exact absurd hd (dec_ne_nil _)
      | cons x xs => rw [hd] at h; simp at h
    · rw [dec_ge ha, dec_lt hb] at h
      cases hd : dec (a / 10) with
      | nil => exact absurd hd (dec_ne_nil _)
      | cons x xs => rw [hd] at h; simp at h
    · rw [dec_ge ha, dec_ge hb] at h
      obtain ⟨h1, h2⟩ := List.append_inj' h (by simp)
      have := ih (a / 10) (by omega) (b / 10) h1
      simp at h2
      omega

/-! ### symbol tables -/

theorem findTable_self (t : Table) : findTable t t.id = some t := by
  cases t with
  | mk id s b f k c => simp [findTable, Table.id]

theorem findTables_isSome (ch : List Table) (t : Table) (h : t ∈ ch) :
    (findTables ch t.id).isSome = true := by
  induction ch with
  | nil => cases h
  | cons a l ih =>
    rw [findTables]
    cases hfa : findTable a t.id with
    | some r => rfl
    | none =>
      simp only
      rcases List.mem_cons.mp h with rfl | hm
      · rw [findTable_self] at hfa; cases hfa
      · exact ih hm

theorem root_present (env : Env) : (findTable (rootTable env) rootId).isSome = true := by
  simp [rootTable, findTable]

theorem funTable_present (env : Env) (k : Nat) :
    (findTable (rootTable env) (funTableId env k)).isSome = true := by
  unfold funTableId
  split
  · rename_i t ht
    have hm : t ∈ env.kids := List.mem_of_getElem? ht
    simp only [rootTable, findTable]
    split
    · rfl
    · exact findTables_isSome _ _ hm
  · exact root_present env

/-! ### constants -/

theorem fnIdsOf_basic (cs : List Const) (h : ∀ c ∈ cs, ∃ b, c = .basic b) : fnIdsOf cs = [] := by
  unfold fnIdsOf
  rw [List.filterMap_eq_nil_iff]
  intro c hc
  obtain ⟨b, rfl⟩ := h c hc
  rfl

theorem fragConsts_basic (code : Frag.Code) : ∀ c ∈ fragConsts code, ∃ b, c = .basic b := by
  intro c hc
  unfold fragConsts at hc
  obtain ⟨s, _, hs⟩ := List.mem_filterMap.mp hc
  unfold fragConstOf at hs
  split at hs <;> simp at hs <;> exact ⟨_, hs.symm⟩

/-! ### a program of one code object -/

/-- a single root code object whose table exists and whose constants are basic is well-formed -/
theorem wf_single (n : Node) (t : Table) (hid : n.id ≠ []) (hp : n.parent = none)
    (hfid : n.functionID = []) (ht : (findTable t n.tableID).isSome = true)
    (hc : ∀ c ∈ n.consts, ∃ b, c = .basic b) : WF { nodes := [n], table := t } := by
  have hfn : fnIds [n] = [] := by simp [fnIds, fnIdsOf_basic n.consts hc]
  refine ⟨by simp, ?_, by simp, by simpa using hid, by simp [parentsOK, hp], by simpa using ht,
    by rw [hfn]; exact List.nodup_nil, by simp, ?_, by simp [hfid]⟩
  · simp [flattenOrder, pre, childrenOf, hp, List.range_succ]
  · intro m hm c hcm
    simp at hm; subst hm
    obtain ⟨b, rfl⟩ := hc c hcm
    rfl

/-! ### F1–F3 -/

/-- **The compiler's output is well-formed (F1–F3).**  For every program `p` of the fragment
    and every environment (source text, symbol-table contents and tree, order of globals) the
    code object `Frag.compF p` embedded into C17's model satisfies `WF`.  (The proof does not
    use `inFrag p`: every output of `Frag.comp` is one root code object whose constants are ints
    and strings; the hypothesis is kept because only for programs of the fragment is
    `Frag.compF p` tied to the real compiler's output.) -/
theorem frag_compile_wf (env : Env) (p : N) (_h : Frag.inFrag p = true) :
    WF (fragToC17 env (Frag.compF p)) := by
  unfold fragToC17
  exact wf_single _ _ (by simp [mainNode, mainName]) rfl rfl (root_present env) (fragConsts_basic _)

theorem frag_named (env : Env) (code : Frag.Code) : NamedConsistent (fragToC17 env code) = true := by
  simp [NamedConsistent, fragToC17, namedOK, mainNode]

/-- **Round trip without the `WF` hypothesis (F1–F3).**  For every program of the fragment whose
    strings are valid UTF-8 (the decidable guard of finding C17-invalid-utf8-const),
    unmarshalling the marshalled compiler output yields the same program: same instructions,
    constants with their types, names, source, symbol tables. -/
theorem frag_roundtrip (env : Env) (p : N) (h : Frag.inFrag p = true)
    (hu : ValidUtf8Consts (fragToC17 env (Frag.compF p)) = true) :
    unmarshal (marshal (fragToC17 env (Frag.compF p))) = .ok (fragToC17 env (Frag.compF p)) :=
  C17_partial_roundtrip _ (frag_compile_wf env p h) (frag_named env _) hu

/-- the same for the execution view and any function of it (what the VM computes) -/
theorem frag_roundtrip_run {Outcome : Type} (run : View → Outcome) (env : Env) (p : N)
    (h : Frag.inFrag p = true) (hu : ValidUtf8Consts (fragToC17 env (Frag.compF p)) = true) :
    ∃ q, unmarshal (marshal (fragToC17 env (Frag.compF p))) = .ok q ∧
      run (execView q) = run (execView (fragToC17 env (Frag.compF p))) :=
  C17_partial_run_congr run _ (frag_compile_wf env p h) (frag_named env _) hu

/-- **Reload never fails (F1–F3), no guard at all**: whatever bytes the string constants hold,
    the reload of a fragment program succeeds and yields the program with every string sent
    through JSON once. -/
theorem frag_reload_total (env : Env) (p : N) (_h : Frag.inFrag p = true) :
    ∃ q, unmarshal (marshal (fragToC17 env (Frag.compF p))) = .ok q := by
  apply C17_unmarshal_total_on_image_any_strings
  have hroot : (findTable ((rootTable env).mapStr sanitize) (sanitize rootId)).isSome = true := by
    simp [rootTable, Table.mapStr, findTable]
  refine wf_single _ _ ?_ rfl ?_ ?_ ?_
  · simp [Node.mapStr, mainNode]; decide
  · simp [Node.mapStr, mainNode]; decide
  · simpa [Node.mapStr, mainNode, fragToC17] using hroot
  · intro c hc
    simp only [Node.mapStr, mainNode, List.mem_map] at hc
    obtain ⟨c0, hc0, rfl⟩ := hc
    obtain ⟨b, rfl⟩ := fragConsts_basic _ c0 hc0
    exact ⟨_, rfl⟩

/-! ### F4: which function constants a piece of code loads -/

open Risor.C01.Fun in
theorem fnLoads_append (a b : Fun.Code) : fnLoads (a ++ b) = fnLoads a ++ fnLoads b := by
  induction a with
  | nil => rfl
  | cons hd r ih =>
    cases hd with
    | none => simpa [fnLoads] using ih
    | some i => cases i <;> simp [fnLoads, ih]

theorem fnLoads_two_loadV (ls : List String) (x : String) : fnLoads (Fun.two (Fun.loadV ls x)) = [] := by
  unfold Fun.loadV; split <;> rfl

theorem fnLoads_two_storeV (ls : List String) (x : String) : fnLoads (Fun.two (Fun.storeV ls x)) = [] := by
  unfold Fun.storeV; split <;> rfl

theorem fnLoads_two_opIns (op : BinOp) : fnLoads (Fun.two (Fun.opIns op)) = [] := by
  cases op <;> rfl

theorem fnLoads_pre (ls : List String) (h : N) : fnLoads (Fun.pre ls h) = [] := by
  unfold Fun.pre
  split
  · simp [fnLoads_append, fnLoads_two_loadV]; rfl
  · rfl

theorem noFuncInside_not_lit {e : N} (h : Fun.noFuncInside e = true) : Fun.isFuncLit e = false := by
  cases e <;> simp_all [Fun.noFuncInside, Fun.isFuncLit]

section NoFn
open Risor.C01.Fun

/-- all nine pieces of generated code load no function constant -/
def NoLoads (n : N) : Prop :=
  (∀ ls kb kc, fnLoads (comp ls kb kc n) = []) ∧ (∀ ls k, fnLoads (compVals ls k n) = []) ∧
  (∀ ls k, fnLoads (compCmpCase ls k n) = []) ∧ (∀ ls b, fnLoads (compCmp ls b n) = []) ∧
  (∀ ls a, fnLoads (compBody ls a n) = []) ∧ (∀ ls d, fnLoads (compBodies ls d n) = []) ∧
  (∀ ls, fnLoads (compDfltBody ls n) = []) ∧ (∀ ls, fnLoads (compDflt ls n) = []) ∧
  (∀ ls, fnLoads (compArgs ls n) = [])

/-- the eight list-shaped components are trivial on a node that is neither a list nor a case -/
macro "nl_rest" : tactic =>
  `(tactic| (refine ⟨?_, by intro ls k; simp [compVals, fnLoads], by intro ls k; simp [compCmpCase, fnLoads],
      by intro ls b; simp [compCmp, fnLoads], by intro ls a; simp [compBody, fnLoads],
      by intro ls d; simp [compBodies, fnLoads], by intro ls; simp [compDfltBody, fnLoads],
      by intro ls; simp [compDflt, fnLoads, one], by intro ls; simp [compArgs, fnLoads]⟩))

/-- **Code of a node without function literals loads no function constant** — by structural
    induction over the nine mutually recursive functions of the functional compiler. -/
theorem noLoads (n : N) : noFuncInside n = true → NoLoads n := by
  induction n with
  | cons h t ihh iht =>
    intro hn
    simp only [noFuncInside, Bool.and_eq_true] at hn
    obtain ⟨h1, _, h3, _, h5, _, h7, _, _⟩ := ihh hn.1
    obtain ⟨t1, t2, _, t4, _, t6, _, t8, t9⟩ := iht hn.2
    refine ⟨?_, ?_, ?_, ?_, ?_, ?_, ?_, ?_, ?_⟩
    · intro ls kb kc
      simp only [comp]
      split <;> split <;> simp [fnLoads_append, fnLoads_pre, h1, t1, one, fnLoads]
    · intro ls k; simp [compVals, fnLoads_append, h1, t2, two, fnLoads]
    · intro ls k; simp [compCmpCase, fnLoads]
    · intro ls b; simp [compCmp, fnLoads_append, h3, t4]
    · intro ls a; simp [compBody, fnLoads]
    · intro ls d; simp [compBodies, fnLoads_append, h5, t6]
    · intro ls; simp [compDfltBody, fnLoads]
    · intro ls; simp only [compDflt]; split <;> simp [h7, t8]
    · intro ls; simp [compArgs, fnLoads_append, h1, t9]
  | case_ vals body ihv ihb =>
    intro hn
    simp only [noFuncInside, Bool.and_eq_true] at hn
    have hv := ihv hn.1
    have hb := ihb hn.2
    refine ⟨?_, ?_, ?_, ?_, ?_, ?_, ?_, ?_, ?_⟩
    · intro ls kb kc; simp [comp, fnLoads]
    · intro ls k; simp [compVals, fnLoads]
    · intro ls k; simp [compCmpCase, hv.2.1]
    · intro ls b; simp [compCmp, fnLoads]
    · intro ls a; simp [compBody, fnLoads_append, hb.1, two, fnLoads]
    · intro ls d; simp [compBodies, fnLoads]
    · intro ls; simp [compDfltBody, fnLoads]
    · intro ls; simp [compDflt, fnLoads, one]
    · intro ls; simp [compArgs, fnLoads]
  | default_ body ihb =>
    intro hn
    simp only [noFuncInside] at hn
    have hb := ihb hn
    refine ⟨?_, ?_, ?_, ?_, ?_, ?_, ?_, ?_, ?_⟩
    · intro ls kb kc; simp [comp, fnLoads]
    · intro ls k; simp [compVals, fnLoads]
    · intro ls k; simp [compCmpCase, fnLoads]
    · intro ls b; simp [compCmp, fnLoads]
    · intro ls a; simp [compBody, fnLoads]
    · intro ls d; simp [compBodies, fnLoads]
    · intro ls; simp [compDfltBody, hb.1]
    · intro ls; simp [compDflt, fnLoads, one]
    · intro ls; simp [compArgs, fnLoads]
  | «infix» op l r ihl ihr =>
    intro hn
    simp only [noFuncInside, Bool.and_eq_true] at hn
    have hl := (ihl hn.1).1
    have hr := (ihr hn.2).1
    nl_rest
    intro ls kb kc
    simp only [comp]
    split
    · simp [fnLoads_append, hl, hr, two, one, fnLoads]
    · split
      · simp [fnLoads_append, hl, hr, two, one, fnLoads]
      · simp [fnLoads_append, hl, hr, fnLoads_two_opIns]
  | assign x op e ih =>
    intro hn
    simp only [noFuncInside] at hn
    have he := (ih hn).1
    nl_rest
    intro ls kb kc
    simp only [comp]
    split <;> simp [fnLoads_append, he, fnLoads_two_loadV, fnLoads_two_storeV] <;> rfl
  | for3 i c p b ihi ihc ihp ihb =>
    intro hn
    simp only [noFuncInside, Bool.and_eq_true] at hn
    have h1 := (ihi hn.1.1.1).1
    have h2 := (ihc hn.1.1.2).1
    have h3 := (ihp hn.1.2).1
    have h4 := (ihb hn.2).1
    nl_rest
    intro ls kb kc
    simp only [comp]
    split <;> simp [fnLoads_append, h1, h2, h3, h4, two, one, fnLoads]
  | switch subj cases ihs ihc =>
    intro hn
    simp only [noFuncInside, Bool.and_eq_true] at hn
    have h1 := (ihs hn.1).1
    have h2 := ihc hn.2
    nl_rest
    intro ls kb kc
    simp [comp, fnLoads_append, h1, h2.2.2.2.1, h2.2.2.2.2.2.1, h2.2.2.2.2.2.2.2.1, two, one, fnLoads]
  | tern c a b ihc iha ihb =>
    intro hn
    simp only [noFuncInside, Bool.and_eq_true] at hn
    nl_rest; intro ls kb kc
    simp [comp, fnLoads_append, (ihc hn.1.1).1, (iha hn.1.2).1, (ihb hn.2).1, two, fnLoads]
  | if_ c a b ihc iha ihb =>
    intro hn
    simp only [noFuncInside, Bool.and_eq_true] at hn
    nl_rest; intro ls kb kc
    simp [comp, fnLoads_append, (ihc hn.1.1).1, (iha hn.1.2).1, (ihb hn.2).1, two, fnLoads]
  | forcond c b ihc ihb =>
    intro hn
    simp only [noFuncInside, Bool.and_eq_true] at hn
    nl_rest; intro ls kb kc
    simp [comp, fnLoads_append, (ihc hn.1).1, (ihb hn.2).1, two, one, fnLoads]
  | forever b ihb =>
    intro hn
    simp only [noFuncInside] at hn
    nl_rest; intro ls kb kc
    simp [comp, fnLoads_append, (ihb hn).1, two, one, fnLoads]
  | neg e ih =>
    intro hn
    simp only [noFuncInside] at hn
    nl_rest; intro ls kb kc; simp [comp, fnLoads_append, (ih hn).1, one, fnLoads]
  | not e ih =>
    intro hn
    simp only [noFuncInside] at hn
    nl_rest; intro ls kb kc; simp [comp, fnLoads_append, (ih hn).1, one, fnLoads]
  | var x e ih =>
    intro hn
    simp only [noFuncInside] at hn
    nl_rest; intro ls kb kc
    simp [comp, noFuncInside_not_lit hn, fnLoads_append, (ih hn).1, fnLoads_two_storeV]
  | call f args ihf iha =>
    intro hn
    simp only [noFuncInside, Bool.and_eq_true] at hn
    nl_rest; intro ls kb kc
    simp [comp, fnLoads_append, (ihf hn.1).1, (iha hn.2).2.2.2.2.2.2.2.2, two, fnLoads]
  | return_ e ih =>
    intro hn
    simp only [noFuncInside] at hn
    nl_rest; intro ls kb kc; simp [comp, fnLoads_append, (ih hn).1, one, fnLoads]
  | block s ih =>
    intro hn
    simp only [noFuncInside] at hn
    nl_rest; intro ls kb kc; simp [comp, (ih hn).1]
  | prog s ih =>
    intro hn
    simp only [noFuncInside] at hn
    nl_rest; intro ls kb kc; simp [comp, (ih hn).1]
  | expr e ih =>
    intro hn
    simp only [noFuncInside] at hn
    nl_rest; intro ls kb kc; simp [comp, noFuncInside_not_lit hn, (ih hn).1]
  | func name ps b => intro hn; simp [noFuncInside] at hn
  | id x => intro _; nl_rest; intro ls kb kc; simp [comp, fnLoads_two_loadV]
  | «postfix» x inc =>
    intro _; nl_rest; intro ls kb kc
    by_cases hc : x ∈ ls <;> simp [comp, two, loadV, storeV, hc, fnLoads]
  | bool b => intro _; nl_rest; intro ls kb kc; cases b <;> simp [comp, one, fnLoads]
  | _ => intro _; nl_rest; intro ls kb kc; simp [comp, one, two, fnLoads]

/-- a function body without function literals loads no function constant -/
theorem compFnStmts_noLoads (ls : List String) (n : N) (hn : noFuncInside n = true) :
    fnLoads (compFnStmts ls n) = [] := by
  induction n with
  | cons h t _ iht =>
    simp only [noFuncInside, Bool.and_eq_true] at hn
    have hh := (noLoads h hn.1).1
    simp only [compFnStmts]
    split
    · exact hh ls 0 0
    · split
      · split <;> simp [fnLoads_append, fnLoads_pre, hh, one, fnLoads]
      · split <;> simp [fnLoads_append, fnLoads_pre, hh, iht hn.2, one, fnLoads]
  | _ => simp [compFnStmts, one, fnLoads]

/-- one top-level statement of the main code loads exactly the constant of the function it
    declares (`wf`: a named literal is a declaration statement, a bound literal is anonymous) -/
theorem top_loads (h : N) (hw : wf h = true) (hnf : declOfStmt h = none → noFuncInside h = true)
    (kb kc : Nat) : (fnLoads (comp [] kb kc h)).length = (declOfStmt h).toList.length := by
  cases h with
  | expr e =>
    cases e with
    | func name ps b =>
      simp only [wf, isFuncLit, funcName, if_true] at hw
      simp [comp, isFuncLit, funcName, declOfStmt, hw, storeV, two, one, fnLoads]
    | _ =>
      rw [(noLoads _ (hnf rfl)).1]; rfl
  | var x e =>
    cases e with
    | func name ps b =>
      simp only [wf, isFuncLit, funcName, if_true] at hw
      simp [comp, isFuncLit, declOfStmt, hw, storeV, two, fnLoads]
    | _ =>
      rw [(noLoads _ (hnf rfl)).1]; rfl
  | _ =>
    rw [(noLoads _ (hnf rfl)).1]; rfl

/-- **The main code loads one function constant per declared function, in order of
    declaration** (by induction over the statement list the compiler walks). -/
theorem main_loads (s : N) (hl : isL s = true) (hw : wf s = true)
    (hnf : ∀ h ∈ s.toList, declOfStmt h = none → noFuncInside h = true) (kb kc : Nat) :
    (fnLoads (comp [] kb kc s)).length = (s.toList.filterMap declOfStmt).length := by
  induction s generalizing kb kc with
  | cons h t _ iht =>
    simp only [wf, Bool.and_eq_true] at hw
    obtain ⟨⟨⟨_, hlt⟩, hwh⟩, hwt⟩ := hw
    have hh := fun kb kc => top_loads h hwh (hnf h (by simp [N.toList])) kb kc
    have ht := fun kb kc => iht hlt hwt (fun x hx => hnf x (by simp [N.toList, hx])) kb kc
    have hfm : ((N.cons h t).toList.filterMap declOfStmt).length =
        (declOfStmt h).toList.length + (t.toList.filterMap declOfStmt).length := by
      simp only [N.toList, List.filterMap_cons]
      cases declOfStmt h <;> simp <;> omega
    rw [hfm]
    simp only [comp]
    split
    · rename_i hnil
      have : t = .nilL := by cases t <;> simp_all [Frag.isNilL]
      subst this
      split <;> simp [fnLoads_append, fnLoads_pre, hh, N.toList, one, fnLoads]
    · split <;> simp [fnLoads_append, fnLoads_pre, hh, ht, one, fnLoads]
  | nilL => simp [comp, N.toList, one, fnLoads]
  | _ => simp [isL] at hl

/-- what `topsOK` says of every top-level statement -/
theorem topsOK_each (consts : List String) (l : List N) : ∀ genv, topsOK consts genv l = true →
    ∀ h ∈ l, (declOfStmt h = none → noFuncInside h = true) ∧
      (∀ d, declOfStmt h = some d → noFuncInside d.body = true) := by
  induction l with
  | nil => intro _ _ h hh; cases hh
  | cons a r ih =>
    intro genv ht h hh
    simp only [topsOK, Bool.and_eq_true] at ht
    rcases List.mem_cons.mp hh with rfl | hm
    · have hto := ht.1.1
      unfold topOK at hto
      constructor
      · intro hd; rw [hd] at hto; simp only [Bool.and_eq_true] at hto; exact hto.1
      · intro d hd; rw [hd] at hto; simp only [Bool.and_eq_true] at hto; exact hto.1.1.2
    · exact ih _ ht.2 h hm

end NoFn

/-- the two facts about `Fun.compFun p` that well-formedness needs, for every program of F4:
    the main code loads as many function constants as there are functions, and no function's
    code loads one -/
theorem compFun_loads (p : N) (h : Fun.inFun p = true) :
    (fnLoads (Fun.compFun p).main).length = (Fun.compFun p).funs.length ∧
    ∀ fc ∈ (Fun.compFun p).funs, fnLoads fc.code = [] := by
  cases p with
  | prog s =>
    simp only [Fun.inFun, Bool.and_eq_true] at h
    obtain ⟨⟨⟨⟨hwf, _⟩, _⟩, htops⟩, _⟩ := h
    simp only [Fun.wf, Bool.and_eq_true] at hwf
    have hall := topsOK_each _ s.toList _ htops
    constructor
    · simp only [Fun.compFun, Fun.comp, Fun.funsOf, List.length_map]
      exact main_loads s hwf.1.1 hwf.2 (fun x hx => (hall x hx).1) 0 0
    · intro fc hfc
      simp only [Fun.compFun, Fun.funsOf, List.mem_map, List.mem_filterMap] at hfc
      obtain ⟨d, ⟨x, hx, hd⟩, rfl⟩ := hfc
      exact compFnStmts_noLoads _ _ ((hall x hx).2 d hd)
  | _ => simp [Fun.inFun] at h

/-! ### F4: the constant pools -/

theorem funConsts_mem (funs : List Fun.FunCode) (code : Fun.Code) : ∀ j c, c ∈ funConsts funs j code →
    (∃ b, c = .basic b) ∨ ∃ i, j ≤ i ∧ i < j + (fnLoads code).length ∧
      c = .fn (funcDefOf i (funs.getD i default)) (some (i + 1)) := by
  induction code with
  | nil => intro j c h; cases h
  | cons hd r ih =>
    intro j c h
    cases hd with
    | none => exact ih j c h
    | some i =>
      cases i with
      | constInt v =>
        rcases List.mem_cons.mp h with rfl | h
        · exact .inl ⟨_, rfl⟩
        · exact ih j c h
      | constStr v =>
        rcases List.mem_cons.mp h with rfl | h
        · exact .inl ⟨_, rfl⟩
        · exact ih j c h
      | constFn g =>
        rcases List.mem_cons.mp h with rfl | h
        · exact .inr ⟨j, Nat.le_refl _, by simp [fnLoads], rfl⟩
        · rcases ih (j + 1) c h with hb | ⟨i, h1, h2, h3⟩
          · exact .inl hb
          · exact .inr ⟨i, by omega, by simp [fnLoads]; omega, h3⟩
      | _ => exact ih j c h

theorem funConsts_basic (funs : List Fun.FunCode) (code : Fun.Code) (h : fnLoads code = []) (j : Nat) :
    ∀ c ∈ funConsts funs j code, ∃ b, c = .basic b := by
  intro c hc
  rcases funConsts_mem funs code j c hc with hb | ⟨i, h1, h2, _⟩
  · exact hb
  · rw [h] at h2; simp at h2; omega

theorem funConsts_fnIds_mem (funs : List Fun.FunCode) (code : Fun.Code) (j : Nat) (x : Bytes)
    (hx : x ∈ fnIdsOf (funConsts funs j code)) :
    ∃ i, j ≤ i ∧ i < j + (fnLoads code).length ∧ x = dec (i + 1) := by
  unfold fnIdsOf at hx
  obtain ⟨c, hc, hcx⟩ := List.mem_filterMap.mp hx
  rcases funConsts_mem funs code j c hc with ⟨b, rfl⟩ | ⟨i, h1, h2, rfl⟩
  · cases hcx
  · refine ⟨i, h1, h2, ?_⟩
    simp [Const.fnId?, funcDefOf] at hcx
    exact hcx.symm

theorem fnIdsOf_cons_basic (b : Basic) (cs : List Const) : fnIdsOf (.basic b :: cs) = fnIdsOf cs := rfl
theorem fnIdsOf_cons_fn (f : FuncDef) (o : Option Nat) (cs : List Const) :
    fnIdsOf (.fn f o :: cs) = f.id :: fnIdsOf cs := rfl

/-- the function ids of a constant pool are pairwise different: `funcIndex` only grows -/
theorem funConsts_fnIds_nodup (funs : List Fun.FunCode) (code : Fun.Code) :
    ∀ j, (fnIdsOf (funConsts funs j code)).Nodup := by
  induction code with
  | nil => intro j; exact List.nodup_nil
  | cons hd r ih =>
    intro j
    cases hd with
    | none => exact ih j
    | some i =>
      cases i with
      | constInt v => exact ih j
      | constStr v => exact ih j
      | constFn g =>
        show (fnIdsOf (.fn _ _ :: funConsts funs (j + 1) r)).Nodup
        rw [fnIdsOf_cons_fn, List.nodup_cons]
        refine ⟨?_, ih (j + 1)⟩
        intro hm
        obtain ⟨i, h1, _, h3⟩ := funConsts_fnIds_mem funs r (j + 1) _ hm
        have := dec_inj _ _ h3
        omega
      | _ => exact ih j

/-- every function number in range is the id of a constant of the pool -/
theorem funConsts_fnIds_all (funs : List Fun.FunCode) (code : Fun.Code) :
    ∀ j i, j ≤ i → i < j + (fnLoads code).length → dec (i + 1) ∈ fnIdsOf (funConsts funs j code) := by
  induction code with
  | nil => intro j i h1 h2; simp [fnLoads] at h2; omega
  | cons hd r ih =>
    intro j i h1 h2
    cases hd with
    | none => exact ih j i h1 h2
    | some ins =>
      cases ins with
      | constInt v => exact ih j i h1 h2
      | constStr v => exact ih j i h1 h2
      | constFn g =>
        show dec (i + 1) ∈ fnIdsOf (.fn _ _ :: funConsts funs (j + 1) r)
        rw [fnIdsOf_cons_fn]
        simp only [fnLoads, List.length_cons] at h2
        by_cases hij : i = j
        · subst hij; exact List.mem_cons_self
        · exact List.mem_cons_of_mem _ (ih (j + 1) i (by omega) (by omega))
      | _ => exact ih j i h1 h2

/-! ### F4: the code objects of the functions -/

section Nodes
variable (env : Env) (Φ : List Fun.FDecl) (funs : List Fun.FunCode)

theorem funNodes_mem (l : List Fun.FunCode) : ∀ k n, n ∈ funNodes env Φ funs k l →
    ∃ i fc, k ≤ i ∧ i < k + l.length ∧ n = funNode env Φ funs i fc ∧ fc ∈ l := by
  induction l with
  | nil => intro k n h; cases h
  | cons a r ih =>
    intro k n h
    rcases List.mem_cons.mp h with rfl | h
    · exact ⟨k, a, Nat.le_refl _, by simp, rfl, List.mem_cons_self⟩
    · obtain ⟨i, fc, h1, h2, h3, h4⟩ := ih (k + 1) n h
      exact ⟨i, fc, by omega, by simp; omega, h3, List.mem_cons_of_mem _ h4⟩

theorem funNodes_length (l : List Fun.FunCode) : ∀ k, (funNodes env Φ funs k l).length = l.length := by
  induction l with
  | nil => intro k; rfl
  | cons a r ih => intro k; simp [funNodes, ih]

theorem funNodes_getElem (l : List Fun.FunCode) : ∀ k i,
    (funNodes env Φ funs k l)[i]? = (l[i]?).map (funNode env Φ funs (k + i)) := by
  induction l with
  | nil => intro k i; simp [funNodes]
  | cons a r ih =>
    intro k i
    cases i with
    | zero => simp [funNodes]
    | succ i => simp [funNodes, ih, show k + 1 + i = k + (i + 1) by omega]

theorem childId_inj {a b : Nat} (h : childId a = childId b) : a = b := by
  unfold childId at h
  exact dec_inj _ _ (List.append_cancel_left h)

theorem childId_ne_main (k : Nat) : mainName ≠ childId k := by
  intro h
  unfold childId at h
  rw [List.append_assoc] at h
  have := List.self_eq_append_right.mp h
  simp at this

theorem funNodes_ids (l : List Fun.FunCode) : ∀ k,
    (funNodes env Φ funs k l).Pairwise (fun a b => a.id ≠ b.id) := by
  induction l with
  | nil => intro k; exact List.Pairwise.nil
  | cons a r ih =>
    intro k
    show (funNode env Φ funs k a :: funNodes env Φ funs (k + 1) r).Pairwise _
    rw [List.pairwise_cons]
    refine ⟨?_, ih (k + 1)⟩
    intro n hn hid
    obtain ⟨i, fc, h1, _, rfl, _⟩ := funNodes_mem env Φ funs r (k + 1) n hn
    have := childId_inj hid
    omega

theorem funNodes_fids (l : List Fun.FunCode) : ∀ k,
    (funNodes env Φ funs k l).Pairwise (fun a b => a.functionID = [] ∨ a.functionID ≠ b.functionID) := by
  induction l with
  | nil => intro k; exact List.Pairwise.nil
  | cons a r ih =>
    intro k
    show (funNode env Φ funs k a :: funNodes env Φ funs (k + 1) r).Pairwise _
    rw [List.pairwise_cons]
    refine ⟨?_, ih (k + 1)⟩
    intro n hn
    right
    intro hid
    obtain ⟨i, fc, h1, _, rfl, _⟩ := funNodes_mem env Φ funs r (k + 1) n hn
    have := dec_inj _ _ hid
    omega

end Nodes

/-! ### a root with leaf children is in Flatten order -/

theorem parentsOK_flat (fs : List Node) (hf : ∀ n ∈ fs, n.parent = some 0) :
    ∀ i, 0 < i → parentsOK fs i = true := by
  induction fs with
  | nil => intro i _; rfl
  | cons a r ih =>
    intro i hi
    have ha := hf a List.mem_cons_self
    simp only [parentsOK, ha, Bool.and_eq_true, decide_eq_true_eq]
    exact ⟨hi, ih (fun n hn => hf n (List.mem_cons_of_mem _ hn)) (i + 1) (by omega)⟩

theorem childrenOf_flat_succ (m : Node) (fs : List Node) (hm : m.parent = none)
    (hf : ∀ n ∈ fs, n.parent = some 0) (j : Nat) : childrenOf (m :: fs) (j + 1) = [] := by
  unfold childrenOf
  rw [List.filter_eq_nil_iff]
  intro i _
  cases i with
  | zero => simp [hm]
  | succ i =>
    simp only [List.getElem?_cons_succ]
    cases hfi : fs[i]? with
    | none => simp
    | some n => simp [hf n (List.mem_of_getElem? hfi)]

theorem childrenOf_flat_zero (m : Node) (fs : List Node) (hm : m.parent = none)
    (hf : ∀ n ∈ fs, n.parent = some 0) :
    childrenOf (m :: fs) 0 = (List.range fs.length).map (· + 1) := by
  unfold childrenOf
  rw [List.length_cons, List.range_succ_eq_map, List.filter_cons]
  simp only [List.getElem?_cons_zero, hm]
  rw [List.filter_map, if_neg (by simp), List.filter_eq_self.mpr]
  intro i hi
  have hi' : i < fs.length := List.mem_range.mp hi
  simp only [Function.comp, Nat.succ_eq_add_one, List.getElem?_cons_succ, List.getElem?_eq_getElem hi']
  simp [hf fs[i] (List.getElem_mem hi')]

theorem flatMap_single {α : Type} (f : α → List α) (l : List α) (h : ∀ a ∈ l, f a = [a]) :
    l.flatMap f = l := by
  induction l with
  | nil => rfl
  | cons a r ih =>
    rw [List.flatMap_cons, h a List.mem_cons_self, ih (fun x hx => h x (List.mem_cons_of_mem _ hx))]
    rfl

theorem flattenOrder_flat (m : Node) (fs : List Node) (hm : m.parent = none)
    (hf : ∀ n ∈ fs, n.parent = some 0) : flattenOrder (m :: fs) = List.range (m :: fs).length := by
  unfold flattenOrder
  simp only [List.isEmpty_cons, Bool.false_eq_true, if_false, List.length_cons, pre]
  rw [childrenOf_flat_zero m fs hm hf, List.range_succ_eq_map, flatMap_single]
  intro a ha
  obtain ⟨i, hi, rfl⟩ := List.mem_map.mp ha
  have hi' : i < fs.length := List.mem_range.mp hi
  cases hlen : fs.length with
  | zero => omega
  | succ k => simp [pre, childrenOf_flat_succ m fs hm hf]

/-! ### F4: the theorem -/

/-- the tree `main :: functions` is well-formed whenever the main code loads one function
    constant per function and no function's code loads one -/
theorem funToC17_wf (env : Env) (Φ : List Fun.FDecl) (P : Fun.Prog)
    (h1 : (fnLoads P.main).length = P.funs.length) (h2 : ∀ fc ∈ P.funs, fnLoads fc.code = []) :
    WF (funToC17 env Φ P) := by
  have hfs : ∀ n ∈ funNodes env Φ P.funs 0 P.funs, ∃ i fc, i < P.funs.length ∧
      n = funNode env Φ P.funs i fc ∧ fc ∈ P.funs := by
    intro n hn
    obtain ⟨i, fc, _, hi, rfl, hfc⟩ := funNodes_mem env Φ P.funs P.funs 0 n hn
    exact ⟨i, fc, by omega, rfl, hfc⟩
  have hpar : ∀ n ∈ funNodes env Φ P.funs 0 P.funs, n.parent = some 0 := by
    intro n hn; obtain ⟨i, fc, _, rfl, _⟩ := hfs n hn; rfl
  have hbasic : ∀ n ∈ funNodes env Φ P.funs 0 P.funs, ∀ c ∈ n.consts, ∃ b, c = .basic b := by
    intro n hn
    obtain ⟨i, fc, _, rfl, hfc⟩ := hfs n hn
    exact funConsts_basic P.funs fc.code (h2 fc hfc) 0
  have hfn0 : fnIds (funNodes env Φ P.funs 0 P.funs) = [] := by
    unfold fnIds
    rw [List.flatMap_eq_nil_iff]
    intro n hn
    exact fnIdsOf_basic _ (hbasic n hn)
  have hfnIds : fnIds (funToC17 env Φ P).nodes = fnIdsOf (funConsts P.funs 0 P.main) := by
    show fnIds (_ :: funNodes env Φ P.funs 0 P.funs) = _
    unfold fnIds at hfn0 ⊢
    rw [List.flatMap_cons, hfn0, List.append_nil]
    rfl
  refine ⟨by simp [funToC17], ?_, ?_, ?_, ?_, ?_, ?_, ?_, ?_, ?_⟩
  · exact flattenOrder_flat _ _ rfl hpar
  · show (_ :: funNodes env Φ P.funs 0 P.funs).Pairwise _
    rw [List.pairwise_cons]
    refine ⟨?_, funNodes_ids env Φ P.funs P.funs 0⟩
    intro n hn
    obtain ⟨i, fc, _, rfl, _⟩ := hfs n hn
    exact childId_ne_main i
  · intro n hn
    rcases List.mem_cons.mp hn with rfl | hn
    · simp [mainNode, mainName]
    · obtain ⟨i, fc, _, rfl, _⟩ := hfs n hn
      simp [funNode, childId, mainName]
  · show parentsOK (_ :: funNodes env Φ P.funs 0 P.funs) 0 = true
    simp only [parentsOK, mainNode, Bool.true_and]
    exact parentsOK_flat _ hpar 1 (by omega)
  · intro n hn
    rcases List.mem_cons.mp hn with rfl | hn
    · exact root_present env
    · obtain ⟨i, fc, _, rfl, _⟩ := hfs n hn
      exact funTable_present env i
  · rw [hfnIds]; exact funConsts_fnIds_nodup P.funs P.main 0
  · show (_ :: funNodes env Φ P.funs 0 P.funs).Pairwise _
    rw [List.pairwise_cons]
    exact ⟨fun _ _ => .inl rfl, funNodes_fids env Φ P.funs P.funs 0⟩
  · intro n hn c hc
    rcases List.mem_cons.mp hn with rfl | hn
    · rcases funConsts_mem P.funs P.main 0 c hc with ⟨b, rfl⟩ | ⟨i, _, hi, rfl⟩
      · rfl
      · have hi' : i < P.funs.length := by omega
        have hget : (funToC17 env Φ P).nodes[i + 1]? = some (funNode env Φ P.funs i P.funs[i]) := by
          show (_ :: funNodes env Φ P.funs 0 P.funs)[i + 1]? = _
          rw [List.getElem?_cons_succ, funNodes_getElem, List.getElem?_eq_getElem hi']
          simp
        simp only [linkOK, hget]
        simp [funcDefOf, funNode, dec_ne_nil]
    · obtain ⟨b, rfl⟩ := hbasic n hn c hc
      rfl
  · intro n hn hne
    rcases List.mem_cons.mp hn with rfl | hn
    · exact absurd rfl hne
    · obtain ⟨i, fc, hi, rfl, _⟩ := hfs n hn
      rw [hfnIds]
      exact funConsts_fnIds_all P.funs P.main 0 i (by omega) (by omega)

/-- **The compiler's output is well-formed (F4): every code object of `Fun.compFun p`, children
    included.**  For every program `p` of the function fragment and every environment (source
    texts, symbol-table contents, the tree of block and function tables and which child each
    function got, order of globals) the embedded tree — the main code and one code object per
    function — satisfies `WF`: Flatten order, unique code ids `__main__.k`, parents first, every
    table present, unique function ids, every function constant linked to the code object that
    names it, every code object's function registered.  By structural induction over the
    compiler functions (`noLoads`, `main_loads`, `compFnStmts_noLoads`). -/
theorem fun_compile_wf (env : Env) (p : N) (h : Fun.inFun p = true) : WF (funProg env p) :=
  funToC17_wf env _ _ (compFun_loads p h).1 (compFun_loads p h).2

/-- **Round trip without the `WF` hypothesis (F4)**, under the two decidable guards of the known
    findings (no function called `__main__`; strings valid UTF-8). -/
theorem fun_roundtrip (env : Env) (p : N) (h : Fun.inFun p = true)
    (hn : NamedConsistent (funProg env p) = true) (hu : ValidUtf8Consts (funProg env p) = true) :
    unmarshal (marshal (funProg env p)) = .ok (funProg env p) :=
  C17_partial_roundtrip _ (fun_compile_wf env p h) hn hu

/-- the same for the execution view and any function of it (what the VM computes) -/
theorem fun_roundtrip_run {Outcome : Type} (run : View → Outcome) (env : Env) (p : N)
    (h : Fun.inFun p = true) (hn : NamedConsistent (funProg env p) = true)
    (hu : ValidUtf8Consts (funProg env p) = true) :
    ∃ q, unmarshal (marshal (funProg env p)) = .ok q ∧ run (execView q) = run (execView (funProg env p)) :=
  C17_partial_run_congr run _ (fun_compile_wf env p h) hn hu

/-- **Reload never fails (F4)** for valid UTF-8 strings, functions called `__main__` included:
    the result is the program with `isNamed` recomputed from the names. -/
theorem fun_reload_total (env : Env) (p : N) (h : Fun.inFun p = true)
    (hu : ValidUtf8Consts (funProg env p) = true) :
    unmarshal (marshal (funProg env p)) =
      .ok { nodes := (funProg env p).nodes.map renamed, table := (funProg env p).table } :=
  C17_unmarshal_total_on_image _ (fun_compile_wf env p h) hu

/-! ### the hypotheses are satisfiable -/

/-- `x := 1; x + 2` -/
def exFrag : N := .prog (.cons (.var "x" (.int 1)) (.cons (.expr (.infix .add (.id "x") (.int 2))) .nilL))

/-- `func f(a) { return a }; g := func(b) { b }; f(1)` -/
def exFun : N :=
  .prog (.cons (.expr (.func "f" (.cons (.param "a" .none_) .nilL) (.block (.cons (.return_ (.id "a")) .nilL))))
    (.cons (.var "g" (.func "" (.cons (.param "b" .none_) .nilL) (.block (.cons (.expr (.id "b")) .nilL))))
      (.cons (.expr (.call (.id "f") (.cons (.int 1) .nilL))) .nilL)))

def exEnv : Env :=
  { source := [], funSources := [], globalNames := ["f", "g", "x"], syms := [], byName := [], free := [],
    kids := [.mk (rootId ++ [46, 48]) [] [] [] false [], .mk (rootId ++ [46, 49]) [] [] [] false []],
    funTablePos := [0, 1] }

example : Frag.inFrag exFrag = true := by decide
example : Fun.inFun exFun = true := by decide
example : WF (fragToC17 exEnv (Frag.compF exFrag)) := frag_compile_wf exEnv exFrag (by decide)
example : WF (funProg exEnv exFun) := fun_compile_wf exEnv exFun (by decide)
example : (funProg exEnv exFun).nodes.length = 3 := by decide
example : (funProg exEnv exFun).nodes.map (·.parent) = [none, some 0, some 0] := by decide
example : (funProg exEnv exFun).nodes.map (·.isNamed) = [false, true, false] := by decide
example (hn : NamedConsistent (funProg exEnv exFun) = true) (hu : ValidUtf8Consts (funProg exEnv exFun) = true) :
    unmarshal (marshal (funProg exEnv exFun)) = .ok (funProg exEnv exFun) :=
  fun_roundtrip exEnv exFun (by decide) hn hu

end Risor.C17.FragWF
