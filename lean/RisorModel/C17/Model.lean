/-
C17 — executable model of risor's bytecode serialisation (compiler/store.go) and of the
projection of a compiled code tree that the VM reads (vm/code.go, vm/frame.go,
object/function.go).

Representation.  Go strings are byte lists.  A compiled code tree is represented by the
sequence of its code objects in `Flatten` order (pre-order); pointers are positions in that
sequence: `Node.parent` is the position of the parent code, a function constant carries the
position of the code it is linked to (`Function.code`).  A code object's `symbols` pointer
is represented by the id of the table it points to (the harness checks on the real tree that
`root.FindTable(id)` is that very table).  The symbol-table tree is a real tree: JSON nests
it, nothing is flattened.

Impl:  `marshal = encodeState ∘ stateFromCode`, `unmarshal = codeFromState ∘ decodeState`,
where `encodeState/decodeState` model what `encoding/json` does to string contents (every
byte that is not part of a valid UTF-8 sequence is written as the escape `\ufffd`, here the
wire symbol 256, and read back as EF BF BD).  Everything else `encoding/json` does is the
identity on the typed `State` and is trusted (and compared structurally on every case).
Spec: `specOK` — reload succeeds, the execution view is unchanged and the bytes are stable.
Core Lean only.
-/
namespace Risor.C17

abbrev Bytes := List Nat

/-- a constant of a basic type: what `marshalConstant` tags "nil", "bool", "int", "float",
    "string".  Floats are IEEE-754 bit patterns (never inspected). -/
inductive Basic where
  | nil
  | bool (b : Bool)
  | int (i : Int)
  | float (bits : Nat)
  | str (s : Bytes)
  deriving DecidableEq, Repr, Inhabited

/-- store.go `functionDef` (defaults are basic constants: compileFunc accepts nothing else) -/
structure FuncDef where
  id : Bytes
  name : Bytes
  params : List Bytes
  defaults : List Basic
  deriving DecidableEq, Repr, Inhabited

/-- a constant in the flat JSON form -/
inductive ConstDef where
  | basic (b : Basic)
  | fn (f : FuncDef)
  deriving DecidableEq, Repr, Inhabited

/-- a constant of a code object; a function carries its `code` pointer (a position) -/
inductive Const where
  | basic (b : Basic)
  | fn (f : FuncDef) (code : Option Nat)
  deriving DecidableEq, Repr, Inhabited

structure Sym where
  name : Bytes
  index : Nat
  isConst : Bool
  deriving DecidableEq, Repr, Inhabited

inductive Scope where
  | loc | glob | free
  deriving DecidableEq, Repr, Inhabited

structure Resol where
  sym : Sym
  scope : Scope
  depth : Int
  freeIndex : Int
  deriving DecidableEq, Repr, Inhabited

/-- compiler.SymbolTable / store.go `symbolTableDef`.  `byName` is the Go map in key order
    (the order `encoding/json` writes it in). -/
inductive Table where
  | mk (id : Bytes) (symbols : List Sym) (byName : List (Bytes × Sym)) (free : List Resol)
      (isBlock : Bool) (children : List Table)
  deriving Repr, Inhabited

def Table.id : Table → Bytes | .mk i _ _ _ _ _ => i
def Table.symbols : Table → List Sym | .mk _ s _ _ _ _ => s
def Table.byName : Table → List (Bytes × Sym) | .mk _ _ b _ _ _ => b
def Table.free : Table → List Resol | .mk _ _ _ f _ _ => f
def Table.isBlock : Table → Bool | .mk _ _ _ _ b _ => b
def Table.children : Table → List Table | .mk _ _ _ _ _ c => c

/-- compiler.Code (the fields that are serialised or read by the VM; `filename` is neither) -/
structure Node where
  id : Bytes
  name : Bytes
  isNamed : Bool
  parent : Option Nat
  functionID : Bytes
  tableID : Bytes
  instrs : List Nat
  consts : List Const
  names : List Bytes
  source : Bytes
  deriving DecidableEq, Repr, Inhabited

/-- store.go `codeDef` -/
structure CodeDef where
  id : Bytes
  name : Bytes
  parentID : Bytes
  tableID : Bytes
  functionID : Bytes
  instrs : List Nat
  consts : List ConstDef
  names : List Bytes
  source : Bytes
  deriving DecidableEq, Repr, Inhabited

/-- store.go `state` -/
structure State where
  code : List CodeDef
  table : Table

/-- a compiled program: the code tree in Flatten order and the root symbol table -/
structure Prog where
  nodes : List Node
  table : Table

inductive Err where
  | noCode            -- Go: index out of range on `codes[0]` (a panic)
  | tableNotFound (id : Bytes)
  | parentNotFound (id : Bytes)
  | functionNotFound (id : Bytes)
  deriving DecidableEq, Repr, Inhabited

/-! ## the schema of the JSON structs (tied to store.go by the extractor, Ties.lean) -/

/-- (struct, [(Go field, json name, omitempty)]) -/
def schema : List (String × List (String × String × Bool)) := [
  ("functionDef", [("ID", "id", false), ("Name", "name", false), ("Parameters", "parameters", false),
    ("Defaults", "defaults", false)]),
  ("constantDef", [("Type", "type", false)]),
  ("boolConstantDef", [("Type", "type", false), ("Value", "value", false)]),
  ("intConstantDef", [("Type", "type", false), ("Value", "value", false)]),
  ("floatConstantDef", [("Type", "type", false), ("Value", "value", false)]),
  ("stringConstantDef", [("Type", "type", false), ("Value", "value", false)]),
  ("functionConstantDef", [("Type", "type", false), ("Value", "value", false)]),
  ("symbolDef", [("Name", "name", false), ("Index", "index", false), ("IsConstant", "is_constant", true),
    ("Value", "value", true)]),
  ("resolutionDef", [("Symbol", "symbol", false), ("Scope", "scope", false), ("Depth", "depth", false),
    ("FreeIndex", "free_index", false)]),
  ("symbolTableDef", [("ID", "id", true), ("Symbols", "symbols", false),
    ("SymbolsByName", "symbols_by_name", false), ("Free", "free", true), ("IsBlock", "is_block", true),
    ("Children", "children", true)]),
  ("codeDef", [("ID", "id", true), ("Name", "name", false), ("ParentID", "parent_id", true),
    ("SymbolTableID", "symbol_table_id", false), ("FunctionID", "function_id", true),
    ("Instructions", "instructions", true), ("Constants", "constants", true), ("Names", "names", true),
    ("Source", "source", true)]),
  ("state", [("Code", "code", false), ("SymbolTable", "symbol_table", false)])]

/-- the type tags `marshalConstant` writes and `unmarshalConstant` switches on -/
def marshalTags : List String := ["nil", "bool", "int", "int", "float", "float", "string", "function"]
def unmarshalTags : List String := ["nil", "bool", "int", "float", "string", "function"]

/-- the name `codeFromState` treats as "not a named function" -/
def mainName : Bytes := [95, 95, 109, 97, 105, 110, 95, 95]   -- "__main__"

/-! ## generic helpers -/

/-- position of the LAST element satisfying `p` (a Go map keeps the last value stored) -/
def lastIdx {α : Type} (p : α → Bool) : List α → Option Nat
  | [] => none
  | a :: l =>
    match lastIdx p l with
    | some j => some (j + 1)
    | none => if p a then some 0 else none

/-! ## Flatten -/

def childrenOf (ns : List Node) (j : Nat) : List Nat :=
  (List.range ns.length).filter fun i =>
    match ns[i]? with
    | some n => n.parent == some j
    | none => false

/-- `Code.Flatten` from position `j`: the node, then the flattening of each child in the
    order of the `children` slice (children are appended in creation order) -/
def pre (ns : List Node) : Nat → Nat → List Nat
  | 0, _ => []
  | fuel + 1, j => j :: (childrenOf ns j).flatMap (pre ns fuel)

def flattenOrder (ns : List Node) : List Nat :=
  if ns.isEmpty then [] else pre ns ns.length 0

/-! ## stateFromCode -/

def constDef : Const → ConstDef
  | .basic b => .basic b
  | .fn f _ => .fn f

def defOf (ns : List Node) (n : Node) : CodeDef :=
  { id := n.id, name := n.name,
    parentID := match n.parent with
      | none => []
      | some j => match ns[j]? with
        | some m => m.id
        | none => [],
    tableID := n.tableID, functionID := n.functionID, instrs := n.instrs,
    consts := n.consts.map constDef, names := n.names, source := n.source }

def stateFromCode (p : Prog) : State :=
  { code := (flattenOrder p.nodes).filterMap fun i => (p.nodes[i]?).map (defOf p.nodes),
    table := p.table }

/-! ## codeFromState -/

mutual
/-- `SymbolTable.FindTable`: this table or the first match among the children, depth first -/
def findTable : Table → Bytes → Option Table
  | .mk id syms bn fr blk ch, x =>
    if id = x then some (.mk id syms bn fr blk ch) else findTables ch x
def findTables : List Table → Bytes → Option Table
  | [], _ => none
  | t :: ts, x =>
    match findTable t x with
    | some r => some r
    | none => findTables ts x
end

def constOfDef : ConstDef → Const
  | .basic b => .basic b
  | .fn f => .fn f none

def mkNode (d : CodeDef) (parent : Option Nat) : Node :=
  { id := d.id, name := d.name, isNamed := d.name != [] && d.name != mainName, parent := parent,
    functionID := d.functionID, tableID := d.tableID, instrs := d.instrs,
    consts := d.consts.map constOfDef, names := d.names, source := d.source }

/-- first loop of `codeFromState`: `acc` are the codes created so far (= `codesByID`) -/
def build (t : Table) : List CodeDef → List Node → Except Err (List Node)
  | [], acc => .ok acc
  | d :: ds, acc =>
    match findTable t d.tableID with
    | none => .error (.tableNotFound d.tableID)
    | some _ =>
      match lastIdx (fun n => n.id == d.parentID) acc with
      | some j => build t ds (acc ++ [mkNode d (some j)])
      | none =>
        if d.parentID != [] then .error (.parentNotFound d.parentID)
        else build t ds (acc ++ [mkNode d none])

def Const.fnId? : Const → Option Bytes
  | .fn f _ => some f.id
  | _ => none

def fnIdsOf (cs : List Const) : List Bytes := cs.filterMap Const.fnId?

/-- ids of all function constants in the order `functionsByID` is filled -/
def fnIds (ns : List Node) : List Bytes := ns.flatMap fun n => fnIdsOf n.consts

/-- second loop: the code that ends up in `fn.code` of the function registered under `x` -/
def linkOf (ns : List Node) (x : Bytes) : Option Nat :=
  if x = [] then none else lastIdx (fun n => n.functionID == x) ns

/-- a function object receives a code only if it is the last one registered under its id
    (`later` = ids registered after the current code object) -/
def relinkConsts (link : Bytes → Option Nat) (later : List Bytes) : List Const → List Const
  | [] => []
  | .fn f _ :: cs =>
    .fn f (if f.id ∈ fnIdsOf cs ++ later then none else link f.id) :: relinkConsts link later cs
  | .basic b :: cs => .basic b :: relinkConsts link later cs

def relinkNodes (link : Bytes → Option Nat) : List Node → List Node
  | [] => []
  | n :: ns => { n with consts := relinkConsts link (fnIds ns) n.consts } :: relinkNodes link ns

def missingFn (ns : List Node) : Option Bytes :=
  (ns.find? fun n => n.functionID != [] && !(fnIds ns).contains n.functionID).map (·.functionID)

def codeFromState (st : State) : Except Err Prog :=
  match build st.table st.code [] with
  | .error e => .error e
  | .ok ns =>
    if ns.isEmpty then .error .noCode
    else match missingFn ns with
      | some x => .error (.functionNotFound x)
      | none => .ok { nodes := relinkNodes (linkOf ns) ns, table := st.table }

/-! ## what encoding/json does to string contents -/

/-- length of the valid UTF-8 sequence at the head of the list, 0 if there is none
    (Go: `utf8.DecodeRuneInString` returns `(RuneError, 1)`) -/
def seqLen : Bytes → Nat
  | [] => 0
  | a :: rest =>
    if a < 0x80 then 1
    else if a < 0xC2 then 0
    else if a < 0xE0 then
      match rest with
      | b :: _ => if 0x80 ≤ b ∧ b ≤ 0xBF then 2 else 0
      | _ => 0
    else if a < 0xF0 then
      match rest with
      | b :: c :: _ =>
        let lo := if a = 0xE0 then 0xA0 else 0x80
        let hi := if a = 0xED then 0x9F else 0xBF
        if lo ≤ b ∧ b ≤ hi ∧ 0x80 ≤ c ∧ c ≤ 0xBF then 3 else 0
      | _ => 0
    else if a < 0xF5 then
      match rest with
      | b :: c :: d :: _ =>
        let lo := if a = 0xF0 then 0x90 else 0x80
        let hi := if a = 0xF4 then 0x8F else 0xBF
        if lo ≤ b ∧ b ≤ hi ∧ 0x80 ≤ c ∧ c ≤ 0xBF ∧ 0x80 ≤ d ∧ d ≤ 0xBF then 4 else 0
      | _ => 0
    else 0

/-- the wire symbol standing for the six characters `\ufffd` -/
def esc : Nat := 256

def encGo : Nat → Bytes → Bytes
  | _, [] => []
  | skip + 1, b :: rest => b :: encGo skip rest
  | 0, b :: rest =>
    match seqLen (b :: rest) with
    | 0 => esc :: encGo 0 rest
    | n + 1 => b :: encGo n rest

/-- string contents as `json.Marshal` writes them (escapes other than `\ufffd` are transparent) -/
def encStr (s : Bytes) : Bytes := encGo 0 s

/-- string contents as `json.Unmarshal` reads them -/
def decStr (w : Bytes) : Bytes := w.flatMap fun c => if c = esc then [0xEF, 0xBF, 0xBD] else [c]

/-- what a string becomes after one trip through JSON -/
def sanitize (s : Bytes) : Bytes := decStr (encStr s)

/-- the string survives JSON unchanged (it is valid UTF-8) -/
def validStr (s : Bytes) : Bool := sanitize s == s

/-! ## mapping over / testing every string of a state -/

def Basic.mapStr (f : Bytes → Bytes) : Basic → Basic
  | .str s => .str (f s)
  | b => b

def Basic.allStr (p : Bytes → Bool) : Basic → Bool
  | .str s => p s
  | _ => true

def FuncDef.mapStr (f : Bytes → Bytes) (d : FuncDef) : FuncDef :=
  { id := f d.id, name := f d.name, params := d.params.map f, defaults := d.defaults.map (Basic.mapStr f) }

def FuncDef.allStr (p : Bytes → Bool) (d : FuncDef) : Bool :=
  p d.id && p d.name && d.params.all p && d.defaults.all (Basic.allStr p)

def ConstDef.mapStr (f : Bytes → Bytes) : ConstDef → ConstDef
  | .basic b => .basic (b.mapStr f)
  | .fn d => .fn (d.mapStr f)

def ConstDef.allStr (p : Bytes → Bool) : ConstDef → Bool
  | .basic b => b.allStr p
  | .fn d => d.allStr p

def Sym.mapStr (f : Bytes → Bytes) (s : Sym) : Sym := { s with name := f s.name }
def Resol.mapStr (f : Bytes → Bytes) (r : Resol) : Resol := { r with sym := r.sym.mapStr f }

mutual
def Table.mapStr (f : Bytes → Bytes) : Table → Table
  | .mk id syms bn fr blk ch =>
    .mk (f id) (syms.map (Sym.mapStr f)) (bn.map fun kv => (f kv.1, kv.2.mapStr f))
      (fr.map (Resol.mapStr f)) blk (Table.mapStrL f ch)
def Table.mapStrL (f : Bytes → Bytes) : List Table → List Table
  | [] => []
  | t :: ts => Table.mapStr f t :: Table.mapStrL f ts
end

mutual
def Table.allStr (p : Bytes → Bool) : Table → Bool
  | .mk id syms bn fr _ ch =>
    p id && syms.all (fun s => p s.name) && bn.all (fun kv => p kv.1 && p kv.2.name)
      && fr.all (fun r => p r.sym.name) && Table.allStrL p ch
def Table.allStrL (p : Bytes → Bool) : List Table → Bool
  | [] => true
  | t :: ts => Table.allStr p t && Table.allStrL p ts
end

def CodeDef.mapStr (f : Bytes → Bytes) (d : CodeDef) : CodeDef :=
  { id := f d.id, name := f d.name, parentID := f d.parentID, tableID := f d.tableID,
    functionID := f d.functionID, instrs := d.instrs, consts := d.consts.map (ConstDef.mapStr f),
    names := d.names.map f, source := f d.source }

def CodeDef.allStr (p : Bytes → Bool) (d : CodeDef) : Bool :=
  p d.id && p d.name && p d.parentID && p d.tableID && p d.functionID
    && d.consts.all (ConstDef.allStr p) && d.names.all p && p d.source

def State.mapStr (f : Bytes → Bytes) (s : State) : State :=
  { code := s.code.map (CodeDef.mapStr f), table := s.table.mapStr f }

def State.allStr (p : Bytes → Bool) (s : State) : Bool :=
  s.code.all (CodeDef.allStr p) && s.table.allStr p

def Const.mapStr (f : Bytes → Bytes) : Const → Const
  | .basic b => .basic (b.mapStr f)
  | .fn d code => .fn (d.mapStr f) code

def Node.mapStr (f : Bytes → Bytes) (n : Node) : Node :=
  { id := f n.id, name := f n.name, isNamed := n.isNamed, parent := n.parent, functionID := f n.functionID,
    tableID := f n.tableID, instrs := n.instrs, consts := n.consts.map (Const.mapStr f),
    names := n.names.map f, source := f n.source }

/-- the program with `f` applied to every string (ids included) -/
def Prog.mapStr (f : Bytes → Bytes) (p : Prog) : Prog :=
  { nodes := p.nodes.map (Node.mapStr f), table := p.table.mapStr f }

/-- the JSON text as a typed value: every string in wire form -/
def encodeState (s : State) : State := s.mapStr encStr
def decodeState (w : State) : State := w.mapStr decStr

/-! ## MarshalCode / UnmarshalCode -/

def marshal (p : Prog) : State := encodeState (stateFromCode p)
def unmarshal (w : State) : Except Err Prog := codeFromState (decodeState w)

/-! ## the execution view -/

structure FuncView where
  name : Bytes
  params : List Bytes
  defaults : List Basic
  code : Option Nat
  deriving DecidableEq, Repr

inductive ConstView where
  | basic (b : Basic)
  | fn (f : FuncView)
  deriving DecidableEq, Repr

/-- what the VM reads of one code object: wrapCode (instructions, constants with their Go
    types, names), ActivateCode (locals count = size of its symbol table), callFunction
    (IsNamed), loadCode (Root() through the parent pointers), Function.Inspect (source) -/
structure CodeView where
  instrs : List Nat
  consts : List ConstView
  names : List Bytes
  locals : Option Nat
  isNamed : Bool
  source : Bytes
  parent : Option Nat
  deriving DecidableEq, Repr

structure View where
  codes : List CodeView
  globals : List Bytes        -- loadRootCode: GlobalNames of the root table
  deriving DecidableEq, Repr

def constView : Const → ConstView
  | .basic b => .basic b
  | .fn f code => .fn { name := f.name, params := f.params, defaults := f.defaults, code := code }

def codeView (t : Table) (n : Node) : CodeView :=
  { instrs := n.instrs, consts := n.consts.map constView, names := n.names,
    locals := (findTable t n.tableID).map fun tb => tb.symbols.length,
    isNamed := n.isNamed, source := n.source, parent := n.parent }

def execView (p : Prog) : View :=
  { codes := p.nodes.map (codeView p.table), globals := p.table.symbols.map (·.name) }

/-! ## well-formedness of a compiled tree, guards -/

def parentsOK : List Node → Nat → Bool
  | [], _ => true
  | n :: ns, i =>
    (match n.parent with
      | none => true
      | some j => decide (j < i)) && parentsOK ns (i + 1)

/-- the function constant points to a code object that names it in `functionID` -/
def linkOK (ns : List Node) : Const → Bool
  | .basic _ => true
  | .fn f code =>
    f.id != [] && match code with
      | none => false
      | some j => match ns[j]? with
        | some m => m.functionID == f.id
        | none => false

def namedOK (n : Node) : Bool := n.isNamed == (n.name != [] && n.name != mainName)

/-- What `compile` guarantees of the tree it returns (checked on every real tree by the
    harness through the oracle; see Props for what each part is needed for). -/
def WF (p : Prog) : Prop :=
  p.nodes ≠ []
  ∧ flattenOrder p.nodes = List.range p.nodes.length                 -- given in Flatten order
  ∧ p.nodes.Pairwise (fun a b => a.id ≠ b.id)                          -- code ids are unique
  ∧ (∀ n ∈ p.nodes, n.id ≠ [])
  ∧ parentsOK p.nodes 0 = true                                         -- parents before children
  ∧ (∀ n ∈ p.nodes, (findTable p.table n.tableID).isSome = true)       -- its table is in the tree
  ∧ (fnIds p.nodes).Nodup                                              -- function ids are unique
  ∧ p.nodes.Pairwise (fun a b => a.functionID = [] ∨ a.functionID ≠ b.functionID)
  ∧ (∀ n ∈ p.nodes, ∀ c ∈ n.consts, linkOK p.nodes c = true)           -- fn.code.functionID = fn.id
  ∧ (∀ n ∈ p.nodes, n.functionID ≠ [] → n.functionID ∈ fnIds p.nodes)

instance (p : Prog) : Decidable (WF p) := by unfold WF; exact inferInstance

/-- guard of finding C17-func-named-main: `isNamed` is what `codeFromState` recomputes from
    the name (false exactly for a function that is called `__main__`) -/
def NamedConsistent (p : Prog) : Bool := p.nodes.all namedOK

/-- guard of finding C17-invalid-utf8-const: every serialised string is valid UTF-8 (in
    compiled code only string constants and string defaults can fail this: octal escapes) -/
def ValidUtf8Consts (p : Prog) : Bool := (stateFromCode p).allStr validStr

/-! ## names, `isNamed` and the call frame

`isNamed` is NOT serialised: `codeFromState` recomputes it from the name.  Two things therefore
have to be said about names.  (1) What `compile` guarantees about them (`CompileNames`): the
root code (compiler.New) is called `__main__` and is not a named function; every other code
object is created by `Code.newChild(name, …)` with `isNamed := name != ""`, where `name` is
the function's own name (`compileFunc`: the same string goes into the `Function` constant) —
so in compiled code a code object carries a name exactly when it is a named function, and
nothing writes `name`/`isNamed` afterwards (tie `codeNameWrites_tie`).  Like `WF` this is an
obligation evaluated on every real compiled tree, not proved of compiler.go.  (2) What the VM
does with `IsNamed()` (vm.callFunction / frame.ActivateFunction): the frame of a call gets
exactly `LocalsCount()` local slots (the size of the code's symbol table) and the VM writes the
arguments into the first slots and then, if the code is named, the function object itself into
slot `len(params)` — the slot `compileFunc` reserved for the function's own name.  A code object
that comes back from a reload as named without having that slot is written past its frame
(`index out of range [n] with length n`). -/

/-- compile's naming discipline for one code object -/
def nameOK (n : Node) : Bool :=
  if n.parent.isNone then n.name == mainName && !n.isNamed     -- compiler.New: the root
  else n.isNamed == (n.name != [])                               -- Code.newChild: isNamed := name != ""

/-- compileFunc: the code object of a function carries the function's own name -/
def fnNameOK (ns : List Node) : Const → Bool
  | .basic _ => true
  | .fn f code =>
    match code with
    | none => true
    | some j => match ns[j]? with
      | some m => m.name == f.name
      | none => true

/-- What `compile` guarantees about names (evaluated on every real compiled tree). -/
def CompileNames (p : Prog) : Bool :=
  p.nodes.all nameOK && p.nodes.all fun n => n.consts.all (fnNameOK p.nodes)

/-- a named function whose name is `__main__` -/
def mainFn (n : Node) : Bool := n.isNamed && n.name == mainName

/-- the exact guard of finding C17-func-named-main on compiled code -/
def HasMainFn (p : Prog) : Bool := p.nodes.any mainFn

/-- a code object that carries a name without being a named function (a label) and is not
    called `__main__`: `codeFromState` turns it into a named function -/
def labelled (n : Node) : Bool := !n.isNamed && n.name != [] && n.name != mainName

/-- vm.callFunction with every parameter bound: the parameters, then the function itself if
    the code is named -/
def initialLocals (f : FuncDef) (isNamed : Bool) : Nat :=
  f.params.length + (if isNamed then 1 else 0)

/-- frame.ActivateFunction stays inside the frame's locals for a call of this constant -/
def frameFits (p : Prog) : Const → Bool
  | .basic _ => true
  | .fn f code =>
    match code with
    | none => true
    | some j => match p.nodes[j]? with
      | none => true
      | some m => match findTable p.table m.tableID with
        | none => true
        | some t => decide (initialLocals f m.isNamed ≤ t.symbols.length)

/-- every function of the program can be called without writing past its frame -/
def FramesFit (p : Prog) : Bool := p.nodes.all fun n => n.consts.all (frameFits p)

/-! ## Spec -/

mutual
def Table.beq : Table → Table → Bool
  | .mk i s b f k c, .mk i' s' b' f' k' c' =>
    i == i' && s == s' && b == b' && f == f' && k == k' && Table.beqL c c'
def Table.beqL : List Table → List Table → Bool
  | [], [] => true
  | t :: ts, u :: us => Table.beq t u && Table.beqL ts us
  | _, _ => false
end

def State.beq (a b : State) : Bool := a.code == b.code && Table.beq a.table b.table

/-- what the property demands of one program: the reload succeeds, execution reads the same
    thing, and marshalling the reloaded code gives the same bytes -/
def specOK (p : Prog) : Bool :=
  match unmarshal (marshal p) with
  | .error _ => false
  | .ok q => execView q == execView p && State.beq (marshal q) (marshal p)

/-! ## sessions: histories of MarshalCode / UnmarshalCode calls whose results are kept

A host that precompiles scripts calls `MarshalCode` and `UnmarshalCode` many times on several
code objects and keeps what the calls returned: byte strings that are written to a cache or
unmarshalled later, code objects that are marshalled again or run later.  A session is a list
of such calls over a store of code objects (`codes`: the compiled programs the session starts
with, then every code object a successful `unmarshal` returned) and of retained byte strings
(`blobs`: every result of a `marshal`, in the order obtained).  Operands are positions in the
store, so a later operation can use the result of any earlier one.

Impl (`run`): the code as it is — `MarshalCode` returns `json.Marshal`'s freshly allocated
slice, `UnmarshalCode` builds new objects — so a result, once returned, is a value nobody
else writes to: the store only grows.  Spec (`Op.eval`): every operation is the pure function
`marshal` / `unmarshal` of its operand, whatever was called before or after it.  The harness
runs real sessions and compares every RETAINED real result, read at the END of the session,
with `run`'s (Props: `session_results_independent`, `session_retained_read_back`). -/

inductive Op where
  | marshal (i : Nat)      -- MarshalCode(codes[i]); the returned bytes are retained
  | unmarshal (j : Nat)    -- UnmarshalCode(blobs[j]); the returned code joins the store
  deriving DecidableEq, Repr, Inhabited

/-- what one call returned -/
inductive Res where
  | bytes (w : State)
  | code (q : Prog)
  | failed (e : Err)

structure Store where
  codes : List Prog
  blobs : List State

/-- Spec: the operation performed alone on a store — the pure function of its operand
    (`none`: the operand does not exist, nothing is called) -/
def Op.eval (s : Store) : Op → Option Res
  | .marshal i => (s.codes[i]?).map fun p => .bytes (Risor.C17.marshal p)
  | .unmarshal j => (s.blobs[j]?).map fun w =>
      match Risor.C17.unmarshal w with
      | .ok q => .code q
      | .error e => .failed e

/-- the caller keeps the result -/
def Store.retain (s : Store) : Option Res → Store
  | some (.bytes w) => { s with blobs := s.blobs ++ [w] }
  | some (.code q) => { s with codes := s.codes ++ [q] }
  | _ => s

/-- a session: the final store and what each call returned -/
def run : Store → List Op → Store × List (Option Res)
  | s, [] => (s, [])
  | s, op :: ops =>
    let r := op.eval s
    let rest := run (s.retain r) ops
    (rest.1, r :: rest.2)

/-- where the caller finds the result of the next call of kind `op` at the END of the session:
    the position it was retained at (the store had this many entries of its kind) -/
def Store.slot (s : Store) : Op → Nat
  | .marshal _ => s.blobs.length
  | .unmarshal _ => s.codes.length

/-- reading a retained result back from a store -/
def Store.readBack (s : Store) (k : Nat) : Res → Option Res
  | .bytes _ => (s.blobs[k]?).map .bytes
  | .code _ => (s.codes[k]?).map .code
  | .failed e => some (.failed e)

/-- For contrast only (NOT the code as it is): a `MarshalCode` that hands out its internal
    buffer.  Every retained byte string is a window on the one buffer, so after a later
    `marshal` all of them read as the document written last (same-length case). -/
def aliasedBlobs (s : Store) : List State :=
  match s.blobs.getLast? with
  | none => []
  | some w => s.blobs.map fun _ => w

/-! ## the order of the serialised code list

`codeFromState` walks `state.Code` once: a code object's parent is looked up among the code
objects created BEFORE it, and the first element becomes the entry point.  The file is
therefore only meaningful in an order that puts parents first; `stateFromCode` writes the
Flatten order.  `State.reorder` is the same file with the list taken in another order. -/

/-- the same state with its code list taken in the order `ord` (positions of the original list) -/
def State.reorder (ord : List Nat) (s : State) : State :=
  { s with code := ord.filterMap fun i => s.code[i]? }

/-- ids of the serialised code objects, in file order -/
def State.codeIds (s : State) : List Bytes := s.code.map (·.id)

/-- ids of the code tree in Flatten order (Spec: this is the order of the file) -/
def flattenIds (p : Prog) : List Bytes :=
  (flattenOrder p.nodes).filterMap fun i => (p.nodes[i]?).map (·.id)

/-- some code object of the list names a parent that no EARLIER code object (nor one of `seen`) has -/
def orphanFrom (seen : List Bytes) : List CodeDef → Bool
  | [] => false
  | d :: ds => (d.parentID != [] && !seen.contains d.parentID) || orphanFrom (seen ++ [d.id]) ds

def State.childBeforeParent (s : State) : Bool := orphanFrom [] s.code

end Risor.C17
