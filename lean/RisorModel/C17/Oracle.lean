import RisorModel.Util
import RisorModel.C17.Model
import RisorModel.C17.FragWF
import RisorModel.C01.Decode
/-!
Line-protocol front end of the C17 model.

  `rt <nodes> <table>`  →  `ok <wf: WF p ∧ WF (p.mapStr sanitize)> <named> <utf8> <json> <reload> <nodes'> <table'> <viewEq> <stable> <spec>
                             <compileNames> <hasMainFn> <framesFit p> <framesFit of the reloaded program | ->`

  `sess <ops> (<nodes> <table>)*`  →  `ok <guards> <ncodes nblobs> <result>*`   (a history of calls, see "sessions" below)
  `sanitize <hex>`  →  `<hex of sanitize> <validStr>`
  `ord <perm> <nodes> <table>`  →  `ok <reload of the marshalled state with its code list in the order perm: ok | err:…>
                             <childBeforeParent of that list> <id of the entry point (hex) | -> <ids of the list in file order>
                             <ids of the tree in Flatten order>`   (see "order of the serialised code list" in Props)

  `frag <frag|fun> <sexp> <globals> <nodes> <table>`  →  `out` (the program is outside C01's fragment) |
        `in <nodesEq> <tableEq> <globalsEq> <WF> <named> <utf8> <roundtrip> <diff>`: the REAL compiled tree
        (`<nodes> <table>`) against the embedding `fragToC17 env (Frag.compF p)` / `funProg env p` of the
        fragment compiler's output, `env` taken from the real tree (FragWF.lean); see "fragments" below

`<nodes>`/`<table>` are space-separated token streams (strings in hex, `-` = empty):
  nodes := N count node*
  node  := id name isNamed parent(-1|pos) functionID tableID source  ninstr instr*  nconst const*  nnames name*
  const := n | b 0/1 | i int | f bits | s hex | F id name code(-1|pos) nparams p* ndefaults basic*
  table := T id isBlock  nsym sym*  nby (key sym)*  nfree (sym scope depth freeIndex)*  nchildren table*
  sym   := name index isConst
`<json>` is the model's MarshalCode output as canonical JSON text: every string (keys too) in
hex between quotes with `!` for the `\ufffd` escape, floats as `f<bits>`; field names, order
and omitempty come from `schema`.
-/
namespace Risor.C17
open Risor.Util

abbrev P := StateT (List String) Option

def tok : P String := do
  match (← get) with
  | [] => failure
  | t :: r => set r; pure t

def expect (s : String) : P Unit := do
  let t ← tok
  if t = s then pure () else failure

def natP : P Nat := do
  match (← tok).toNat? with
  | some n => pure n
  | none => failure

def intP : P Int := do
  match (← tok).toInt? with
  | some n => pure n
  | none => failure

def bytesP : P Bytes := do
  match fromHex (← tok) with
  | some b => pure b
  | none => failure

def boolP : P Bool := do
  let t ← tok
  if t = "1" then pure true else if t = "0" then pure false else failure

def optNatP : P (Option Nat) := do
  let i ← intP
  if i < 0 then pure none else pure (some i.toNat)

def many {α : Type} (p : P α) : Nat → P (List α)
  | 0 => pure []
  | n + 1 => do
    let a ← p
    let r ← many p n
    pure (a :: r)

def counted {α : Type} (p : P α) : P (List α) := do
  let n ← natP
  many p n

def basicP : P Basic := do
  let t ← tok
  if t = "n" then pure .nil
  else if t = "b" then return .bool (← boolP)
  else if t = "i" then return .int (← intP)
  else if t = "f" then return .float (← natP)
  else if t = "s" then return .str (← bytesP)
  else failure

def constP : P Const := do
  let t ← tok
  if t = "n" then pure (.basic .nil)
  else if t = "b" then return .basic (.bool (← boolP))
  else if t = "i" then return .basic (.int (← intP))
  else if t = "f" then return .basic (.float (← natP))
  else if t = "s" then return .basic (.str (← bytesP))
  else if t = "F" then do
    let id ← bytesP
    let name ← bytesP
    let code ← optNatP
    let params ← counted bytesP
    let defaults ← counted basicP
    pure (.fn ⟨id, name, params, defaults⟩ code)
  else failure

def nodeP : P Node := do
  let id ← bytesP
  let name ← bytesP
  let isNamed ← boolP
  let parent ← optNatP
  let functionID ← bytesP
  let tableID ← bytesP
  let source ← bytesP
  let instrs ← counted natP
  let consts ← counted constP
  let names ← counted bytesP
  pure { id, name, isNamed, parent, functionID, tableID, instrs, consts, names, source }

def nodesP : P (List Node) := do
  expect "N"
  counted nodeP

def symP : P Sym := do
  let name ← bytesP
  let index ← natP
  let isConst ← boolP
  pure ⟨name, index, isConst⟩

def scopeP : P Scope := do
  let t ← tok
  if t = "local" then pure .loc else if t = "global" then pure .glob
  else if t = "free" then pure .free else failure

def resolP : P Resol := do
  let sym ← symP
  let scope ← scopeP
  let depth ← intP
  let fi ← intP
  pure ⟨sym, scope, depth, fi⟩

def tableP : Nat → P Table
  | 0 => failure
  | fuel + 1 => do
    expect "T"
    let id ← bytesP
    let blk ← boolP
    let syms ← counted symP
    let bn ← counted (do let k ← bytesP; let s ← symP; pure (k, s))
    let fr ← counted resolP
    let ch ← counted (tableP fuel)
    pure (.mk id syms bn fr blk ch)

def splitToks (s : String) : List String := (s.splitOn " ").filter (· ≠ "")

def parseProg (nodes table : String) : Option Prog := do
  let (ns, r1) ← nodesP.run (splitToks nodes)
  if !r1.isEmpty then failure
  let tt := splitToks table
  let (t, r2) ← (tableP (tt.length + 1)).run tt
  if !r2.isEmpty then failure
  pure { nodes := ns, table := t }

/-! ### printing a program in the request format -/

def hx (b : Bytes) : String := toHexField b
def b01 (b : Bool) : String := if b then "1" else "0"
def optS : Option Nat → String
  | none => "-1"
  | some j => toString j
def cnt {α : Type} (f : α → String) (l : List α) : String :=
  " ".intercalate (toString l.length :: l.map f)

def showBasic : Basic → String
  | .nil => "n"
  | .bool b => "b " ++ b01 b
  | .int i => "i " ++ toString i
  | .float x => "f " ++ toString x
  | .str s => "s " ++ hx s

def showConst : Const → String
  | .basic b => showBasic b
  | .fn f code => "F " ++ hx f.id ++ " " ++ hx f.name ++ " " ++ optS code ++ " " ++ cnt hx f.params ++ " "
      ++ cnt showBasic f.defaults

def showNode (n : Node) : String :=
  " ".intercalate [hx n.id, hx n.name, b01 n.isNamed, optS n.parent, hx n.functionID, hx n.tableID,
    hx n.source, cnt toString n.instrs, cnt showConst n.consts, cnt hx n.names]

def showNodes (ns : List Node) : String := "N " ++ cnt showNode ns

def showSym (s : Sym) : String := hx s.name ++ " " ++ toString s.index ++ " " ++ b01 s.isConst
def showScope : Scope → String
  | .loc => "local" | .glob => "global" | .free => "free"
def showResol (r : Resol) : String :=
  showSym r.sym ++ " " ++ showScope r.scope ++ " " ++ toString r.depth ++ " " ++ toString r.freeIndex

mutual
def showTable : Table → String
  | .mk id syms bn fr blk ch =>
    "T " ++ hx id ++ " " ++ b01 blk ++ " " ++ cnt showSym syms ++ " "
      ++ cnt (fun kv => hx kv.1 ++ " " ++ showSym kv.2) bn ++ " " ++ cnt showResol fr ++ " "
      ++ toString ch.length ++ showTables ch
def showTables : List Table → String
  | [] => ""
  | t :: ts => " " ++ showTable t ++ showTables ts
end

/-! ### canonical JSON text of a (wire-form) state, driven by `schema` -/

def wireHex (w : Bytes) : String :=
  String.join (w.map fun c => if c = esc then "!" else toHex [c])

def jstr (w : Bytes) : String := "\"" ++ wireHex w ++ "\""
def jkey (s : String) : String := "\"" ++ toHex (strBytes s) ++ "\""
def jarr (xs : List String) : String := "[" ++ ",".intercalate xs ++ "]"

/-- one struct value: (Go field name, rendered value, is it the empty value) -/
abbrev FieldVal := String × String × Bool

def jobj (struct : String) (vals : List FieldVal) : String :=
  let fields := (schema.lookup struct).getD []
  let parts := fields.filterMap fun (goName, tag, omitE) =>
    match vals.lookup goName with
    | none => none
    | some (v, empty) => if omitE && empty then none else some (jkey tag ++ ":" ++ v)
  "{" ++ ",".intercalate parts ++ "}"

def tagAt (i : Nat) : Bytes := strBytes (marshalTags.getD i "?")

def jBasic : Basic → String
  | .nil => jobj "constantDef" [("Type", jstr (tagAt 0), false)]
  | .bool b => jobj "boolConstantDef" [("Type", jstr (tagAt 1), false), ("Value", if b then "true" else "false", false)]
  | .int i => jobj "intConstantDef" [("Type", jstr (tagAt 2), false), ("Value", toString i, false)]
  | .float x => jobj "floatConstantDef" [("Type", jstr (tagAt 4), false), ("Value", "f" ++ toString x, false)]
  | .str s => jobj "stringConstantDef" [("Type", jstr (tagAt 6), false), ("Value", jstr s, false)]

def jFuncDef (f : FuncDef) : String :=
  jobj "functionDef" [("ID", jstr f.id, false), ("Name", jstr f.name, false),
    ("Parameters", jarr (f.params.map jstr), false), ("Defaults", jarr (f.defaults.map jBasic), false)]

def jConst : ConstDef → String
  | .basic b => jBasic b
  | .fn f => jobj "functionConstantDef" [("Type", jstr (tagAt 7), false), ("Value", jFuncDef f, false)]

def jSym (s : Sym) : String :=
  jobj "symbolDef" [("Name", jstr s.name, false), ("Index", toString s.index, false),
    ("IsConstant", "true", !s.isConst), ("Value", "null", true)]

def jResol (r : Resol) : String :=
  jobj "resolutionDef" [("Symbol", jSym r.sym, false), ("Scope", jstr (strBytes (showScope r.scope)), false),
    ("Depth", toString r.depth, false), ("FreeIndex", toString r.freeIndex, false)]

mutual
def jTable : Table → String
  | .mk id syms bn fr blk ch =>
    jobj "symbolTableDef" [("ID", jstr id, id.isEmpty), ("Symbols", jarr (syms.map jSym), false),
      ("SymbolsByName", "{" ++ ",".intercalate (bn.map fun kv => jstr kv.1 ++ ":" ++ jSym kv.2) ++ "}", false),
      ("Free", jarr (fr.map jResol), fr.isEmpty), ("IsBlock", "true", !blk),
      ("Children", jarr (jTables ch), ch.isEmpty)]
def jTables : List Table → List String
  | [] => []
  | t :: ts => jTable t :: jTables ts
end

def jCode (d : CodeDef) : String :=
  jobj "codeDef" [("ID", jstr d.id, d.id.isEmpty), ("Name", jstr d.name, false),
    ("ParentID", jstr d.parentID, d.parentID.isEmpty), ("SymbolTableID", jstr d.tableID, false),
    ("FunctionID", jstr d.functionID, d.functionID.isEmpty),
    ("Instructions", jarr (d.instrs.map toString), d.instrs.isEmpty),
    ("Constants", jarr (d.consts.map jConst), d.consts.isEmpty),
    ("Names", jarr (d.names.map jstr), d.names.isEmpty), ("Source", jstr d.source, d.source.isEmpty)]

def jState (s : State) : String :=
  jobj "state" [("Code", jarr (s.code.map jCode), false), ("SymbolTable", jTable s.table, false)]

def errName : Err → String
  | .noCode => "no-code"
  | .tableNotFound _ => "table-not-found"
  | .parentNotFound _ => "parent-not-found"
  | .functionNotFound _ => "function-not-found"

/-! ### sessions: `sess <ops> (<nodes> <table>)*` → `ok <guards> <ncodes nblobs> <result>*`

`<ops>` is a space-separated list of `m<i>` (MarshalCode of code object `i` of the store) and
`u<j>` (UnmarshalCode of retained byte string `j`); the store starts with the given programs
and no byte strings.  `<guards>`: per program `<named><utf8><compileNames><hasMainFn>`.  One `<result>` per operation,
what `Model.run` says the call returned (Props: `session_results_independent` — it is what the
same call returns alone, whatever else the session does):
  `b <json>` | `c <nodes>|<table>` | `e <error>` | `x` (operand does not exist). -/

def parseOp (t : String) : Option Op :=
  match t.toList with
  | 'm' :: r => (String.ofList r).toNat?.map Op.marshal
  | 'u' :: r => (String.ofList r).toNat?.map Op.unmarshal
  | _ => none

def parseOps (s : String) : Option (List Op) := (splitToks s).mapM parseOp

def parseProgs : List String → Option (List Prog)
  | [] => some []
  | nodes :: table :: rest => do
    let p ← parseProg nodes table
    let ps ← parseProgs rest
    pure (p :: ps)
  | _ => none

def showRes : Option Res → String
  | none => "x"
  | some (.bytes w) => "b " ++ jState w
  | some (.code q) => "c " ++ showNodes q.nodes ++ "|" ++ showTable q.table
  | some (.failed e) => "e " ++ errName e

/-! ### fragments: the real compiled tree against the embedded output of C01's fragment compilers

`env` is read off the real tree (source texts, contents and children of the root table, which
child of the root each function's table is); the global names are the host's followed by what
the program declares.  `nodesEq`: every code object of `…ToC17 env …` equals the real one field
by field (id, name, isNamed, parent, functionID, tableID, source, instruction words, constants
with function↔code links, names).  `WF`, `named`, `utf8`, `roundtrip` are evaluated on the MODEL
side (`frag_compile_wf` / `fun_compile_wf` say `WF` is always 1). -/

open Risor.C01 in
def fragEnvOf (r : Prog) (globalNames : List String) : FragWF.Env :=
  { source := (r.nodes.head?.map (·.source)).getD [],
    funSources := r.nodes.tail.map (·.source),
    globalNames := globalNames,
    syms := r.table.symbols, byName := r.table.byName, free := r.table.free, kids := r.table.children,
    funTablePos := r.nodes.tail.map fun n => r.table.children.findIdx (fun t => t.id == n.tableID) }

open Risor.C01 in
def handleFragWF : List String → String
  | [kind, sx, globals, nodes, table] =>
    match parseProg nodes table, decodeProg sx with
    | some r, some p =>
      let gs := (globals.splitOn ",").filter (· ≠ "")
      let res : Option (Prog × List String) :=
        if kind = "frag" then
          if Frag.inFrag p && (Frag.decls p).all (fun x => !gs.contains x) then
            let gn := gs ++ Frag.decls p
            some (FragWF.fragToC17 (fragEnvOf r gn) (Frag.compF p), gn)
          else none
        else if kind = "fun" then
          if Fun.inFun p && (Fun.namedFuns p ++ Fun.decls p).all (fun x => !gs.contains x) then
            let gn := gs ++ Fun.namedFuns p ++ Fun.decls p
            some (FragWF.funProg (fragEnvOf r gn) p, gn)
          else none
        else none
      match res with
      | none => "out"
      | some (m, gn) =>
        let nodesEq := decide (m.nodes = r.nodes)
        let tableEq := Table.beq m.table r.table
        let globalsEq := r.table.symbols.map (·.name) == gn.map strBytes
        let rt := match unmarshal (marshal m) with
          | .ok q => decide (q.nodes = m.nodes) && Table.beq q.table m.table
          | .error _ => false
        "\t".intercalate ["in", b01 nodesEq, b01 tableEq, b01 globalsEq, b01 (decide (WF m)),
          b01 (NamedConsistent m), b01 (ValidUtf8Consts m), b01 rt,
          if nodesEq then "-" else showNodes m.nodes]
    | _, _ => "error\tbad-request"
  | _ => "error\tbad-request"

def handle : List String → String
  | "frag" :: rest => handleFragWF rest
  | ["rt", nodes, table] =>
    match parseProg nodes table with
    | none => "error\tbad-request"
    | some p =>
      let w := marshal p
      let head := "ok\t" ++ b01 (decide (WF p) && decide (WF (p.mapStr sanitize))) ++ "\t" ++ b01 (NamedConsistent p) ++ "\t"
        ++ b01 (ValidUtf8Consts p) ++ "\t" ++ jState w
      let names := "\t" ++ b01 (CompileNames p) ++ "\t" ++ b01 (HasMainFn p) ++ "\t" ++ b01 (FramesFit p) ++ "\t"
      match unmarshal w with
      | .error e => head ++ "\terr:" ++ errName e ++ "\t-\t-\t0\t0\t0" ++ names ++ "-"
      | .ok q =>
        head ++ "\tok\t" ++ showNodes q.nodes ++ "\t" ++ showTable q.table ++ "\t"
          ++ b01 (execView q == execView p) ++ "\t" ++ b01 (State.beq (marshal q) w) ++ "\t" ++ b01 (specOK p)
          ++ names ++ b01 (FramesFit q)
  | "sess" :: ops :: progs =>
    match parseOps ops, parseProgs progs with
    | some os, some ps =>
      let out := run { codes := ps, blobs := [] } os
      let guards := " ".intercalate (ps.map fun p =>
        b01 (NamedConsistent p) ++ b01 (ValidUtf8Consts p) ++ b01 (CompileNames p) ++ b01 (HasMainFn p))
      "ok\t" ++ guards ++ "\t" ++ toString out.1.codes.length ++ " " ++ toString out.1.blobs.length
        ++ String.join (out.2.map fun r => "\t" ++ showRes r)
    | _, _ => "error\tbad-request"
  | ["ord", perm, nodes, table] =>
    match (splitToks perm).mapM String.toNat?, parseProg nodes table with
    | some ord, some p =>
      let w := (marshal p).reorder ord
      let ids := fun (l : List Bytes) => if l.isEmpty then "-" else " ".intercalate (l.map toHexField)
      let tail := "\t" ++ ids (decodeState w).codeIds ++ "\t" ++ ids (flattenIds p)
      let cbp := b01 (decodeState w).childBeforeParent
      match unmarshal w with
      | .error e => "ok\terr:" ++ errName e ++ "\t" ++ cbp ++ "\t-" ++ tail
      | .ok q =>
        "ok\tok\t" ++ cbp ++ "\t" ++ (match q.nodes.head? with | some n => toHexField n.id | none => "-") ++ tail
    | _, _ => "error\tbad-request"
  | ["sanitize", s] =>
    match fromHex s with
    | some b => toHexField (sanitize b) ++ "\t" ++ b01 (validStr b)
    | none => "error\tbad-hex"
  | _ => "error\tunknown-request"

end Risor.C17
