import RisorModel.Util
/-! Line-protocol front end of the C17 model (stub until the model exists). -/
namespace Risor.C17

def handle : List String → String
  | _ => "error\tnot-implemented"

end Risor.C17
