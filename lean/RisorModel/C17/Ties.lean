import RisorModel.C17.Model
import RisorModel.Generated.C17
/-!
C17 ties: the JSON schema regenerated from compiler/store.go on this run against the schema
the model (and the oracle's rendering of `marshal`) was written from.  Dropping or renaming
a serialised field, changing an `omitempty`, a type tag, the set of fields copied by
stateFromCode/codeFromState/definitionFrom…/…FromDefinition, the expression `isNamed` is
recomputed from, or the places that give a code object its name breaks exactly one lemma below.
-/
namespace Risor.C17

/-- every struct of store.go: fields, json names, omitempty — as the model renders them -/
theorem store_schema_matches : Risor.Generated.C17.schema = schema := by decide

/-- the type tags written by marshalConstant / read by unmarshalConstant -/
theorem marshal_tags_match : Risor.Generated.C17.marshalTags = marshalTags := by decide
theorem unmarshal_tags_match : Risor.Generated.C17.unmarshalTags = unmarshalTags := by decide

/-- every tag the marshaller writes is understood by the unmarshaller -/
theorem tags_closed : ∀ t ∈ Risor.Generated.C17.marshalTags, t ∈ Risor.Generated.C17.unmarshalTags := by decide

/-- stateFromCode fills exactly these codeDef fields: all nine of the struct (model: `defOf`) -/
theorem codeDef_fields_match : Risor.Generated.C17.codeDefFields =
    ["Constants", "FunctionID", "ID", "Instructions", "Name", "Names", "ParentID", "Source", "SymbolTableID"] := by
  decide

/-- codeFromState sets exactly these Code fields (model: `mkNode`); `filename`, `children`
    (appended afterwards) and the compile-time fields are not among them -/
theorem code_fields_match : Risor.Generated.C17.codeFields =
    ["constants", "functionID", "id", "instructions", "isNamed", "name", "names", "parent", "source", "symbols"] := by
  decide

/-- `isNamed: c.Name != "" && c.Name != "__main__"` (model: `mkNode`, `mainName`) -/
theorem isNamed_expr_matches :
    Risor.Generated.C17.isNamedOps = ["&&", "!=", ".Name", "!=", ".Name"] ∧
    Risor.Generated.C17.isNamedLits = ["", "__main__"] ∧
    mainName = "__main__".toList.map Char.toNat := by decide

/-- functions: id, name, parameters, defaults both ways (model: `FuncDef`) -/
theorem function_fields_match :
    Risor.Generated.C17.functionDefFields = ["Defaults", "ID", "Name", "Parameters"] ∧
    Risor.Generated.C17.functionOptsFields = ["Defaults", "ID", "Name", "Parameters"] := by decide

/-- symbol tables and symbols both ways (model: `Table`, `Sym`; `Value` is always nil in
    compiled code, which the harness checks) -/
theorem symbol_fields_match :
    Risor.Generated.C17.symbolTableDefFields = ["Children", "Free", "ID", "IsBlock", "Symbols", "SymbolsByName"] ∧
    Risor.Generated.C17.symbolTableFields = ["freeByName", "id", "isBlock", "symbols", "symbolsByName"] ∧
    Risor.Generated.C17.symbolDefFields = ["Index", "IsConstant", "Name", "Value"] ∧
    Risor.Generated.C17.symbolFields = ["index", "isConstant", "name", "value"] := by decide

/-- **Who gives a code object its name.**  In package compiler a `Code` gets `name` and
    `isNamed` in three places only, all of them composite literals: `newChild` (`name` = its
    argument, `isNamed: name != ""` — model `nameOK`, non-root case), `New` (the root: the
    literal `"__main__"`, `isNamed` left false — `nameOK`, root case) and `codeFromState`
    (`mkNode`).  Nothing assigns to a field called `name` or `isNamed` afterwards, so in
    compiled code a code object carries a name exactly when it is a named function
    (`CompileNames`), which is what makes the recomputed `isNamed` the original one
    (`compileNames_guard_exact`, `C17_partial_compiled`). -/
theorem codeNameWrites_tie :
    Risor.Generated.C17.codeLits =
      [("newChild", "ident", "( $name != \"\" )"), ("New", "lit:\"__main__\"", "absent"),
       ("codeFromState", "sel:.Name", "( ( $name != \"\" ) && ( $name != \"__main__\" ) )")]
    ∧ Risor.Generated.C17.codeNameAssigns = [] := by decide

end Risor.C17
