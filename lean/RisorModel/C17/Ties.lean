import RisorModel.C17.Model
import RisorModel.C17.FragWF
import RisorModel.Generated.C17
/-!
C17 ties: the JSON schema regenerated from compiler/store.go on this run against the schema
the model (and the oracle's rendering of `marshal`) was written from.  Dropping or renaming
a serialised field, changing an `omitempty`, a type tag, the set of fields copied by
stateFromCode/codeFromState/definitionFrom…/…FromDefinition, the expression `isNamed` is
recomputed from, or the places that give a code object its name breaks exactly one lemma below.
-/
namespace Risor.C17

/-- every struct of store.go: fields, json names, omitempty — as the model renders them -/
theorem store_schema_matches : Risor.Generated.C17.schema = schema := by decide

/-- the type tags written by marshalConstant / read by unmarshalConstant -/
theorem marshal_tags_match : Risor.Generated.C17.marshalTags = marshalTags := by decide
theorem unmarshal_tags_match : Risor.Generated.C17.unmarshalTags = unmarshalTags := by decide

/-- every tag the marshaller writes is understood by the unmarshaller -/
theorem tags_closed : ∀ t ∈ Risor.Generated.C17.marshalTags, t ∈ Risor.Generated.C17.unmarshalTags := by decide

/-- stateFromCode fills exactly these codeDef fields: all nine of the struct (model: `defOf`) -/
theorem codeDef_fields_match : Risor.Generated.C17.codeDefFields =
    ["Constants", "FunctionID", "ID", "Instructions", "Name", "Names", "ParentID", "Source", "SymbolTableID"] := by
  decide

/-- codeFromState sets exactly these Code fields (model: `mkNode`); `filename`, `children`
    (appended afterwards) and the compile-time fields are not among them -/
theorem code_fields_match : Risor.Generated.C17.codeFields =
    ["constants", "functionID", "id", "instructions", "isNamed", "name", "names", "parent", "source", "symbols"] := by
  decide

/-- `isNamed: c.Name != "" && c.Name != "__main__"` (model: `mkNode`, `mainName`) -/
theorem isNamed_expr_matches :
    Risor.Generated.C17.isNamedOps = ["&&", "!=", ".Name", "!=", ".Name"] ∧
    Risor.Generated.C17.isNamedLits = ["", "__main__"] ∧
    mainName = "__main__".toList.map Char.toNat := by decide

/-- functions: id, name, parameters, defaults both ways (model: `FuncDef`) -/
theorem function_fields_match :
    Risor.Generated.C17.functionDefFields = ["Defaults", "ID", "Name", "Parameters"] ∧
    Risor.Generated.C17.functionOptsFields = ["Defaults", "ID", "Name", "Parameters"] := by decide

/-- symbol tables and symbols both ways (model: `Table`, `Sym`; `Value` is always nil in
    compiled code, which the harness checks) -/
theorem symbol_fields_match :
    Risor.Generated.C17.symbolTableDefFields = ["Children", "Free", "ID", "IsBlock", "Symbols", "SymbolsByName"] ∧
    Risor.Generated.C17.symbolTableFields = ["freeByName", "id", "isBlock", "symbols", "symbolsByName"] ∧
    Risor.Generated.C17.symbolDefFields = ["Index", "IsConstant", "Name", "Value"] ∧
    Risor.Generated.C17.symbolFields = ["index", "isConstant", "name", "value"] := by decide

/-- **Who gives a code object its name.**  In package compiler a `Code` gets `name` and
    `isNamed` in three places only, all of them composite literals: `newChild` (`name` = its
    argument, `isNamed: name != ""` — model `nameOK`, non-root case), `New` (the root: the
    literal `"__main__"`, `isNamed` left false — `nameOK`, root case) and `codeFromState`
    (`mkNode`).  Nothing assigns to a field called `name` or `isNamed` afterwards, so in
    compiled code a code object carries a name exactly when it is a named function
    (`CompileNames`), which is what makes the recomputed `isNamed` the original one
    (`compileNames_guard_exact`, `C17_partial_compiled`). -/
theorem codeNameWrites_tie :
    Risor.Generated.C17.codeLits =
      [("newChild", "ident", "( $name != \"\" )"), ("New", "lit:\"__main__\"", "absent"),
       ("codeFromState", "sel:.Name", "( ( $name != \"\" ) && ( $name != \"__main__\" ) )")]
    ∧ Risor.Generated.C17.codeNameAssigns = [] := by decide

/-- **The fields of `Code` the file carries** (sorted): `parent` as `parent_id`, `symbols` as
    `symbol_table_id`, the rest under their own json names. -/
def serialisedCodeFields : List String :=
  ["constants", "functionID", "id", "instructions", "name", "names", "parent", "source", "symbols"]

/-- **The fields of `Code` the file does not carry** (reviewed list, in source order):
    `isNamed` is recomputed from the name on reload, `children` are rebuilt from the parent ids
    (and the code list is written in `Flatten` order), `filename` is dropped, `loops` and
    `pipeActive` are used during compilation only. -/
def notSerialisedCodeFields : List String := ["isNamed", "children", "filename", "loops", "pipeActive"]

/-- every field of `type Code struct` in compiler/code.go, in source order: a field added,
    removed or renamed breaks this tie and has to be placed in one of the two lists above -/
theorem code_struct_fields_tie :
    Risor.Generated.C17.codeStructFields =
      ["id", "name", "isNamed", "parent", "children", "symbols", "instructions", "constants",
       "names", "source", "functionID", "filename", "loops", "pipeActive"] := by decide

/-- the fields of `Code` that stateFromCode does not read are exactly the reviewed list; the ones
    it reads (apart from the call of `Flatten`) are exactly the serialised ones; and `Flatten`
    reads `children` only -/
theorem code_fields_not_serialised_tie :
    Risor.Generated.C17.codeStructFields.filter
        (fun f => !Risor.Generated.C17.stateFromCodeReads.contains f) = notSerialisedCodeFields
    ∧ Risor.Generated.C17.stateFromCodeReads.filter (· ≠ "Flatten()") = serialisedCodeFields
    ∧ Risor.Generated.C17.flattenReads = ["children"] := by decide

/-- the two lists partition the struct: together they are all fourteen fields, none twice -/
theorem code_fields_partition_tie :
    (∀ f ∈ Risor.Generated.C17.codeStructFields,
        (f ∈ serialisedCodeFields) ≠ (f ∈ notSerialisedCodeFields))
    ∧ (serialisedCodeFields ++ notSerialisedCodeFields).length =
        Risor.Generated.C17.codeStructFields.length := by decide

/-- what an accessor of `*Code` reads, from the generated table; an unknown method reads the
    pseudo field `?M` so that it cannot pass a tie unnoticed -/
def accessorReads (m : String) : List String :=
  (Risor.Generated.C17.codeAccessors.lookup m).getD ["?" ++ m]

/-- the same with the `M()` entries (a method of `*Code` used by the accessor) resolved one
    level through the table; the entry of the method itself is dropped (`Flatten` recursing on
    the children), any other entry that is not in the table (`f(recv)`, a second level) is kept
    as it is -/
def accessorReadsResolved (m : String) : List String :=
  (accessorReads m).flatMap fun e =>
    match Risor.Generated.C17.codeAccessors.find? (fun p => p.1 ++ "()" == e) with
    | some (m', reads) => if m' = m then [] else reads
    | none => [e]

/-- **The fields of `Code` the VM can read**: the union, de-duplicated in order of first
    occurrence, of what the accessors in `vmCodeMethods` read (package vm has no other access:
    the fields are unexported). -/
def vmReadFields : List String :=
  (Risor.Generated.C17.vmCodeMethods.flatMap accessorReadsResolved).eraseDups

/-- **What execution reads of a code object is in the file, or recomputed.**  Package vm uses
    eleven methods of `*compiler.Code` (`Root` and `IsNamed` among them; not `Filename`, not
    `Flatten`, not `Parent`, not `MarshalJSON`); through them it reads `constants`, `symbols`,
    `instructions`, `isNamed`, `names` and `parent` and nothing else.  Five of these are
    serialised.  The only not-serialised field the VM reads is `isNamed`, and that one is covered
    by the model's recomputation (`mkNode`, `reload_isNamed_from_name`).  `children` is not read
    by the VM at all (only by `Flatten`, i.e. by the serialiser: `stateFromCode_code_order`,
    `marshal_code_order`), and `filename` is neither serialised nor read during execution: vm
    never calls `Filename()`.  The first conjunct is the weaker statement that would also allow
    `children` and `filename`; the others say exactly what is read today. -/
theorem vm_reads_are_serialised_tie :
    (∀ f ∈ vmReadFields, f ∈ serialisedCodeFields ++ ["isNamed", "children", "filename"])
    ∧ Risor.Generated.C17.vmCodeMethods =
        ["Constant", "ConstantsCount", "Global", "GlobalNames", "Instruction", "InstructionCount",
         "IsNamed", "LocalsCount", "Name", "NameCount", "Root"]
    ∧ vmReadFields = ["constants", "symbols", "instructions", "isNamed", "names", "parent"]
    ∧ vmReadFields.filter (fun f => notSerialisedCodeFields.contains f) = ["isNamed"]
    ∧ "Filename" ∉ Risor.Generated.C17.vmCodeMethods
    ∧ "Flatten" ∉ Risor.Generated.C17.vmCodeMethods := by decide

/-- **Opcode numbers of the fragment embedding.**  Every opcode number `FragWF.fragWords` /
    `FragWF.funWords` write (`FragWF.opNums`, the reviewed table the two functions were written
    from) is the number op/op.go gives that opcode on this run: renumbering an opcode breaks this
    lemma (and the field-by-field comparison of harness/c17frag.go). -/
theorem frag_opcodes_tie : ∀ e ∈ FragWF.opNums, e ∈ Risor.Generated.C17.opcodes := by decide

end Risor.C17
