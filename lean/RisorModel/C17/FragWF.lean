import RisorModel.Util
import RisorModel.C17.Model
import RisorModel.C01.Frag
import RisorModel.C01.Fun
/-!
C17 on the modelled compiler fragments of C01 — definitions.

C01 has functional models of the compiler: `Frag.comp` / `Frag.compF` (F1–F3: expressions,
assignments, if/else, loops, break/continue, switch — ONE code object) and `Fun.comp` /
`Fun.compFun` (F4: top-level functions — the main code and one code object per function).
They produce instruction sequences with constants INLINE and variables BY NAME; both are tied
to the real compiler's bytecode instruction for instruction on every run (harness/c01frag.go,
c01fun.go).

This file EMBEDS their output into C17's code-object model (`Prog`: the code tree in Flatten
order plus the symbol-table tree), the way `C04/FragCert.lean: toC04` embeds it into C04's:

  * `fragToC17 env code`  the one code object of a fragment program: the root code
    `__main__` (compiler.New) over the root symbol table `root` (NewSymbolTable);
  * `funToC17 env Φ P`    the main code and, as its children in creation order, the code object
    of every function: id `__main__.k` (Code.newChild: parent id, dot, number of children so
    far), `functionID` = `k+1` in decimal (compileFunc: `c.funcIndex++`), name / isNamed from
    the declaration, the function constant of the k-th `LoadConst fn` of the main code carrying
    the same id and pointing at that code object.

The assembly (`…Instrs`, `…Consts`) assigns what C01 leaves symbolic: constant-pool indices in
emission order (`c.constant` never deduplicates), global indices from the list of global names,
local indices from the function's own names, opcode numbers from op/op.go (`opNums`, tied to the
source by `Ties.frag_opcodes_tie`).

`Env` collects everything `WF` or the execution view mention that the fragment compilers'
outputs do NOT determine; the theorems of `FragWFProps.lean` quantify over ALL of it: the
source texts (`Code.source`), the contents of the root symbol table, the whole tree of its
children (block scopes and function tables), the order of global names.  A function's symbol
table is the `pos`-th child of the root table for an arbitrary `pos` (`Code.newChild`:
`c.symbols.NewChild()`; which child depends on how many block scopes were opened before it).
The harness instantiates `Env` from the REAL compiled tree and the oracle checks that
`…ToC17 env …` then IS the real tree (`C17 frag …`, harness/c17frag.go).
Core Lean only.
-/
namespace Risor.C17.FragWF
open Risor.C17 Risor.C01
open Risor.Util (strBytes)

/-- `fmt.Sprintf("%d", n)` -/
def dec (n : Nat) : Bytes :=
  if h : n < 10 then [48 + n] else dec (n / 10) ++ [48 + n % 10]
termination_by n
decreasing_by omega

/-- "root" (compiler.NewSymbolTable) -/
def rootId : Bytes := [114, 111, 111, 116]

/-- the id of the k-th child of the root code: `__main__.k` -/
def childId (k : Nat) : Bytes := mainName ++ [46] ++ dec k

/-- what the fragment compilers' outputs do not determine (all universally quantified) -/
structure Env where
  /-- `Code.source` of the main code (the text the compiler was given) -/
  source : Bytes
  /-- `Code.source` of the k-th function (`node.Body().String()`) -/
  funSources : List Bytes
  /-- the global names in index order (host globals, named functions, `:=` declarations) -/
  globalNames : List String
  /-- contents of the root symbol table -/
  syms : List Sym
  byName : List (Bytes × Sym)
  free : List Resol
  /-- the children of the root table: block scopes and function tables, any tree -/
  kids : List Table
  /-- the k-th function's table is the child number `funTablePos[k]` of the root table -/
  funTablePos : List Nat

def rootTable (env : Env) : Table := .mk rootId env.syms env.byName env.free false env.kids

/-- the id of the k-th function's symbol table (the root's if `env` names no such child) -/
def funTableId (env : Env) (k : Nat) : Bytes :=
  match env.kids[env.funTablePos.getD k 0]? with
  | some t => t.id
  | none => rootId

/-! ### opcode numbers (op/op.go; `Ties.frag_opcodes_tie`) -/

def opNums : List (String × Nat) := [
  ("Nop", 1), ("Call", 3), ("ReturnValue", 4), ("JumpBackward", 10), ("JumpForward", 11),
  ("PopJumpForwardIfFalse", 12), ("PopJumpForwardIfTrue", 13), ("LoadFast", 21), ("LoadGlobal", 23),
  ("LoadConst", 24), ("StoreFast", 31), ("StoreGlobal", 33), ("BinaryOp", 40), ("CompareOp", 41),
  ("UnaryNegative", 42), ("UnaryNot", 43), ("Swap", 70), ("Copy", 71), ("PopTop", 72), ("Nil", 80),
  ("False", 81), ("True", 82)]

def idx (names : List String) (x : String) : Nat := names.findIdx (· == x)

/-! ### F1–F3: one code object -/

def fragIsConst : Frag.FIns → Bool
  | .constInt _ | .constStr _ => true
  | _ => false

/-- one instruction as `[]op.Code` words; `k` = constants emitted so far -/
def fragWords (gn : List String) (k : Nat) : Frag.FIns → List Nat
  | .nop => [1] | .nil_ => [80] | .true_ => [82] | .false_ => [81] | .popTop => [72]
  | .unaryNeg => [42] | .unaryNot => [43]
  | .constInt _ => [24, k] | .constStr _ => [24, k]
  | .loadG x => [23, idx gn x] | .storeG x => [33, idx gn x]
  | .binary j => [40, j] | .compare j => [41, j] | .copy j => [71, j] | .swap j => [70, j]
  | .jf d => [11, d] | .jb d => [10, d] | .pjf d => [12, d] | .pjt d => [13, d]

def fragInstrs (gn : List String) : Nat → Frag.Code → List Nat
  | _, [] => []
  | k, none :: r => fragInstrs gn k r
  | k, some i :: r => fragWords gn k i ++ fragInstrs gn (if fragIsConst i then k + 1 else k) r

def fragConstOf : Option Frag.FIns → Option Const
  | some (.constInt i) => some (.basic (.int i))
  | some (.constStr s) => some (.basic (.str (strBytes s)))
  | _ => none

/-- the constant pool: every `LoadConst` adds one entry, in emission order -/
def fragConsts (code : Frag.Code) : List Const := code.filterMap fragConstOf

/-- the root code object (compiler.New) with the given contents -/
def mainNode (env : Env) (instrs : List Nat) (consts : List Const) : Node :=
  { id := mainName, name := mainName, isNamed := false, parent := none, functionID := [],
    tableID := rootId, instrs := instrs, consts := consts, names := [], source := env.source }

/-- **the embedding for F1–F3**: the code of a fragment program as a C17 program -/
def fragToC17 (env : Env) (code : Frag.Code) : Prog :=
  { nodes := [mainNode env (fragInstrs env.globalNames 0 code) (fragConsts code)],
    table := rootTable env }

/-! ### F4: the main code and one code object per function -/

def basicOfV : Fun.V → Basic
  | .nil => .nil
  | .bool b => .bool b
  | .int i => .int i
  | .str s => .str (strBytes s)
  | .fn _ => .nil

/-- compileFunc: the `Function` constant of the k-th function of the program -/
def funcDefOf (k : Nat) (fc : Fun.FunCode) : FuncDef :=
  { id := dec (k + 1), name := if fc.named then strBytes fc.name else [],
    params := fc.params.map fun q => strBytes q.1,
    defaults := fc.params.map fun q => match q.2 with
      | none => .nil
      | some v => basicOfV v }

def funIsConst : Fun.FIns → Bool
  | .constInt _ | .constStr _ | .constFn _ => true
  | _ => false

/-- one instruction as words; `gn` global names, `ls` the code object's own names, `k` =
    constants emitted so far -/
def funWords (gn ls : List String) (k : Nat) : Fun.FIns → List Nat
  | .nop => [1] | .nil_ => [80] | .true_ => [82] | .false_ => [81] | .popTop => [72]
  | .unaryNeg => [42] | .unaryNot => [43]
  | .constInt _ => [24, k] | .constStr _ => [24, k] | .constFn _ => [24, k]
  | .loadG x => [23, idx gn x] | .storeG x => [33, idx gn x]
  | .loadF x => [21, idx ls x] | .storeF x => [31, idx ls x]
  | .binary j => [40, j] | .compare j => [41, j] | .copy j => [71, j] | .swap j => [70, j]
  | .jf d => [11, d] | .jb d => [10, d] | .pjf d => [12, d] | .pjt d => [13, d]
  | .call n => [3, n] | .ret => [4]

def funInstrs (gn ls : List String) : Nat → Fun.Code → List Nat
  | _, [] => []
  | k, none :: r => funInstrs gn ls k r
  | k, some i :: r => funWords gn ls k i ++ funInstrs gn ls (if funIsConst i then k + 1 else k) r

/-- the names of the functions whose constant the code loads, in emission order -/
def fnLoads : Fun.Code → List String
  | [] => []
  | some (.constFn g) :: r => g :: fnLoads r
  | _ :: r => fnLoads r

/-- the constant pool of a code object of `P`; `j` = function constants emitted so far in the
    program: the j-th `LoadConst fn` loads the constant of the j-th function, whose code object
    is the (j+1)-th of the tree (`c.funcIndex++`, `newChild`) -/
def funConsts (funs : List Fun.FunCode) : Nat → Fun.Code → List Const
  | _, [] => []
  | j, some (.constInt i) :: r => .basic (.int i) :: funConsts funs j r
  | j, some (.constStr s) :: r => .basic (.str (strBytes s)) :: funConsts funs j r
  | j, some (.constFn _) :: r =>
    .fn (funcDefOf j (funs.getD j default)) (some (j + 1)) :: funConsts funs (j + 1) r
  | j, _ :: r => funConsts funs j r

/-- the code object of the k-th function -/
def funNode (env : Env) (Φ : List Fun.FDecl) (funs : List Fun.FunCode) (k : Nat) (fc : Fun.FunCode) : Node :=
  { id := childId k, name := if fc.named then strBytes fc.name else [], isNamed := fc.named,
    parent := some 0, functionID := dec (k + 1), tableID := funTableId env k,
    instrs := funInstrs env.globalNames ((Φ.getD k default).ls) 0 fc.code,
    consts := funConsts funs 0 fc.code,
    names := [], source := env.funSources.getD k [] }

def funNodes (env : Env) (Φ : List Fun.FDecl) (funs : List Fun.FunCode) : Nat → List Fun.FunCode → List Node
  | _, [] => []
  | k, fc :: r => funNode env Φ funs k fc :: funNodes env Φ funs (k + 1) r

/-- **the embedding for F4**: every code object of `P` (the output of `Fun.compFun`), the main
    code first, then the functions in creation order (= Flatten order) -/
def funToC17 (env : Env) (Φ : List Fun.FDecl) (P : Fun.Prog) : Prog :=
  { nodes := mainNode env (funInstrs env.globalNames [] 0 P.main) (funConsts P.funs 0 P.main)
      :: funNodes env Φ P.funs 0 P.funs,
    table := rootTable env }

/-- the embedding of the compiled program `p` -/
def funProg (env : Env) (p : N) : Prog := funToC17 env (Fun.funsOf p) (Fun.compFun p)

end Risor.C17.FragWF
