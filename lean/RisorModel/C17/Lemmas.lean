import RisorModel.C17.Model
/-!
C17 — helper lemmas: the "last registered under this key" lookup on lists with distinct
keys, the first loop of `codeFromState` on the image of `stateFromCode`, the re-linking of
functions, and `mapStr`/`allStr`.
-/
namespace Risor.C17

/-! ### lastIdx -/

theorem lastIdx_none {α : Type} (p : α → Bool) (l : List α) (h : ∀ a ∈ l, p a = false) :
    lastIdx p l = none := by
  induction l with
  | nil => rfl
  | cons a l ih =>
    have h1 : lastIdx p l = none := ih (fun b hb => h b (List.mem_cons_of_mem _ hb))
    have h2 : p a = false := h a (List.mem_cons_self ..)
    simp [lastIdx, h1, h2]

/-- if no two elements of the list can both satisfy `p`, the last position satisfying `p`
    is the position of any element that does -/
theorem lastIdx_pairwise {α : Type} (R : α → α → Prop) (p : α → Bool)
    (hp : ∀ a b, R a b → p a = true → p b = false) :
    ∀ (l : List α) (j : Nat) (a : α), l.Pairwise R → l[j]? = some a → p a = true →
      lastIdx p l = some j := by
  intro l
  induction l with
  | nil => intro j a _ h; simp at h
  | cons b l ih =>
    intro j a hpw hj hpa
    rw [List.pairwise_cons] at hpw
    cases j with
    | zero =>
      simp only [List.getElem?_cons_zero, Option.some.injEq] at hj
      subst hj
      have h1 : lastIdx p l = none :=
        lastIdx_none p l (fun c hc => hp b c (hpw.1 c hc) hpa)
      simp [lastIdx, h1, hpa]
    | succ j =>
      simp only [List.getElem?_cons_succ] at hj
      have h1 := ih j a hpw.2 hj hpa
      simp [lastIdx, h1]

/-! ### lists -/

theorem map_eq_self {α : Type} (f : α → α) (l : List α) (h : ∀ a ∈ l, f a = a) : l.map f = l := by
  induction l with
  | nil => rfl
  | cons a l ih =>
    simp only [List.map_cons]
    rw [h a (List.mem_cons_self ..), ih (fun b hb => h b (List.mem_cons_of_mem _ hb))]

theorem range'_filterMap_getElem? {α β : Type} (g : α → β) (l pre : List α) :
    (List.range' pre.length l.length).filterMap (fun i => ((pre ++ l)[i]?).map g) = l.map g := by
  induction l generalizing pre with
  | nil => simp
  | cons a l ih =>
    have h := ih (pre ++ [a])
    simp only [List.length_append, List.length_cons, List.length_nil, List.append_assoc,
      List.cons_append, List.nil_append] at h
    simp only [List.length_cons, List.range'_succ, List.map_cons]
    rw [List.filterMap_cons]
    have h0 : (pre ++ a :: l)[pre.length]? = some a := by simp
    rw [h0]
    simp only [Option.map_some]
    rw [h]

theorem range_filterMap_getElem? {α β : Type} (g : α → β) (l : List α) :
    (List.range l.length).filterMap (fun i => (l[i]?).map g) = l.map g := by
  have h := range'_filterMap_getElem? g l []
  simpa [List.range_eq_range'] using h

/-! ### the first loop of codeFromState on the image of stateFromCode -/

def stripConst : Const → Const
  | .basic b => .basic b
  | .fn f _ => .fn f none

/-- the node as the first loop creates it: `isNamed` recomputed from the name, functions not
    yet linked -/
def bnode (n : Node) : Node :=
  { n with isNamed := n.name != [] && n.name != mainName, consts := n.consts.map stripConst }

theorem constOfDef_constDef (c : Const) : constOfDef (constDef c) = stripConst c := by
  cases c <;> rfl

theorem mkNode_defOf (h : List Node) (n : Node) (par : Option Nat) :
    mkNode (defOf h n) par = { bnode n with parent := par } := by
  simp [mkNode, defOf, bnode, List.map_map, Function.comp_def, constOfDef_constDef]

theorem bnode_id (n : Node) : (bnode n).id = n.id := rfl

theorem build_image (t : Table) (h : List Node)
    (hids : h.Pairwise (fun a b => a.id ≠ b.id))
    (hne : ∀ n ∈ h, n.id ≠ [])
    (htab : ∀ n ∈ h, (findTable t n.tableID).isSome = true) :
    ∀ (suf pre : List Node), h = pre ++ suf → parentsOK suf pre.length = true →
      build t (suf.map (defOf h)) (pre.map bnode) = .ok (h.map bnode) := by
  intro suf
  induction suf with
  | nil =>
    intro pre hh _
    simp only [List.append_nil] at hh
    subst hh
    rfl
  | cons n suf ih =>
    intro pre hh hpar
    have hn : n ∈ h := by rw [hh]; simp
    have hpre : ∀ m ∈ pre, m ∈ h := by intro m hm; rw [hh]; simp [hm]
    have hnext : h = (pre ++ [n]) ++ suf := by rw [hh]; simp
    simp only [parentsOK, Bool.and_eq_true] at hpar
    have hpar2 : parentsOK suf (pre ++ [n]).length = true := by
      simpa using hpar.2
    have hstep := ih (pre ++ [n]) hnext hpar2
    simp only [List.map_cons]
    unfold build
    have ht : ∃ tb, findTable t (defOf h n).tableID = some tb := by
      have := htab n hn
      exact Option.isSome_iff_exists.mp this
    obtain ⟨tb, htb⟩ := ht
    rw [htb]
    simp only
    cases hp : n.parent with
    | none =>
      have hpid : (defOf h n).parentID = [] := by simp [defOf, hp]
      have hl : lastIdx (fun m => m.id == (defOf h n).parentID) (pre.map bnode) = none := by
        apply lastIdx_none
        intro m hm
        rw [List.mem_map] at hm
        obtain ⟨m', hm', rfl⟩ := hm
        rw [hpid, bnode_id]
        simpa using hne m' (hpre m' hm')
      rw [hl]
      simp only [hpid, bne_self_eq_false, Bool.false_eq_true, ↓reduceIte]
      rw [mkNode_defOf]
      have : ({ bnode n with parent := none } : Node) = bnode n := by
        simp [bnode, hp]
      rw [this]
      have h2 : pre.map bnode ++ [bnode n] = (pre ++ [n]).map bnode := by simp
      rw [h2]
      exact hstep
    | some j =>
      have hj : j < pre.length := by
        have := hpar.1
        simpa [hp] using this
      have hget : h[j]? = some pre[j] := by
        rw [hh, List.getElem?_append_left hj, List.getElem?_eq_getElem hj]
      have hpid : (defOf h n).parentID = pre[j].id := by
        simp [defOf, hp, hget]
      have hpw : (pre.map bnode).Pairwise (fun a b => a.id ≠ b.id) := by
        rw [List.pairwise_map]
        have : pre.Pairwise (fun a b => a.id ≠ b.id) := by
          rw [hh, List.pairwise_append] at hids
          exact hids.1
        exact this
      have hl : lastIdx (fun m => m.id == (defOf h n).parentID) (pre.map bnode) = some j := by
        apply lastIdx_pairwise (fun a b => a.id ≠ b.id) _ _ (pre.map bnode) j (bnode pre[j]) hpw
        · simp [List.getElem?_eq_getElem hj]
        · simp [hpid, bnode_id]
        · intro a b hab ha
          simp only [beq_iff_eq] at ha
          simp only [beq_eq_false_iff_ne, ne_eq]
          intro hb
          exact hab (ha.trans hb.symm)
      rw [hl]
      simp only
      rw [mkNode_defOf]
      have : ({ bnode n with parent := some j } : Node) = bnode n := by
        simp [bnode, hp]
      rw [this]
      have h2 : pre.map bnode ++ [bnode n] = (pre ++ [n]).map bnode := by simp
      rw [h2]
      exact hstep

/-! ### re-linking functions to their code -/

theorem fnIdsOf_basic (b : Basic) (cs : List Const) : fnIdsOf (.basic b :: cs) = fnIdsOf cs := rfl
theorem fnIdsOf_fn (f : FuncDef) (c : Option Nat) (cs : List Const) :
    fnIdsOf (.fn f c :: cs) = f.id :: fnIdsOf cs := rfl

theorem fnIdsOf_strip (cs : List Const) : fnIdsOf (cs.map stripConst) = fnIdsOf cs := by
  induction cs with
  | nil => rfl
  | cons c cs ih =>
    cases c with
    | basic b => simp only [List.map_cons, stripConst, fnIdsOf_basic, ih]
    | fn f code => simp only [List.map_cons, stripConst, fnIdsOf_fn, ih]

theorem fnIds_bnode (ns : List Node) : fnIds (ns.map bnode) = fnIds ns := by
  induction ns with
  | nil => rfl
  | cons n ns ih =>
    simp only [fnIds, List.map_cons, List.flatMap_cons] at ih ⊢
    rw [ih]
    simp [bnode, fnIdsOf_strip]

theorem fnIds_cons (n : Node) (ns : List Node) : fnIds (n :: ns) = fnIdsOf n.consts ++ fnIds ns := by
  simp [fnIds]

theorem relinkConsts_strip (link : Bytes → Option Nat) (later : List Bytes) (cs : List Const)
    (hnd : (fnIdsOf cs ++ later).Nodup)
    (hlink : ∀ f code, Const.fn f code ∈ cs → link f.id = code) :
    relinkConsts link later (cs.map stripConst) = cs := by
  induction cs with
  | nil => rfl
  | cons c cs ih =>
    cases c with
    | basic b =>
      have hnd' : (fnIdsOf cs ++ later).Nodup := by
        rw [fnIdsOf_basic] at hnd; exact hnd
      have := ih hnd' (fun f code hm => hlink f code (List.mem_cons_of_mem _ hm))
      simp [stripConst, relinkConsts, this]
    | fn f code =>
      have hnd0 : (f.id :: (fnIdsOf cs ++ later)).Nodup := by
        rw [fnIdsOf_fn] at hnd; exact hnd
      rw [List.nodup_cons] at hnd0
      have := ih hnd0.2 (fun f code hm => hlink f code (List.mem_cons_of_mem _ hm))
      have hl : link f.id = code := hlink f code (List.mem_cons_self ..)
      simp only [List.map_cons, stripConst, relinkConsts, fnIdsOf_strip]
      rw [if_neg hnd0.1, hl, this]

/-- the node with `isNamed` recomputed the way `codeFromState` does -/
def renamed (n : Node) : Node := { n with isNamed := n.name != [] && n.name != mainName }

theorem relinkNodes_bnode (link : Bytes → Option Nat) (ns : List Node)
    (hnd : (fnIds ns).Nodup)
    (hlink : ∀ n ∈ ns, ∀ f code, Const.fn f code ∈ n.consts → link f.id = code) :
    relinkNodes link (ns.map bnode) = ns.map renamed := by
  induction ns with
  | nil => rfl
  | cons n ns ih =>
    rw [fnIds_cons] at hnd
    have hnd2 : (fnIds ns).Nodup := (List.nodup_append.mp hnd).2.1
    have h1 := ih hnd2 (fun m hm => hlink m (List.mem_cons_of_mem _ hm))
    have h2 := relinkConsts_strip link (fnIds ns) n.consts hnd
      (fun f code hm => hlink n (List.mem_cons_self ..) f code hm)
    simp only [List.map_cons, relinkNodes, fnIds_bnode]
    rw [h1]
    congr 1
    simp [bnode, renamed, h2]

theorem linkOf_bnode (h : List Node)
    (hfid : h.Pairwise (fun a b => a.functionID = [] ∨ a.functionID ≠ b.functionID))
    (f : FuncDef) (code : Option Nat) (hok : linkOK h (.fn f code) = true) :
    linkOf (h.map bnode) f.id = code := by
  simp only [linkOK, Bool.and_eq_true, bne_iff_ne, ne_eq] at hok
  obtain ⟨hne, hc⟩ := hok
  cases code with
  | none => simp at hc
  | some j =>
    simp only at hc
    cases hm : h[j]? with
    | none => simp [hm] at hc
    | some m =>
      simp only [hm, beq_iff_eq] at hc
      unfold linkOf
      rw [if_neg hne]
      have hpw : (h.map bnode).Pairwise (fun a b => a.functionID = [] ∨ a.functionID ≠ b.functionID) := by
        rw [List.pairwise_map]
        exact hfid
      apply lastIdx_pairwise _ _ _ (h.map bnode) j (bnode m) hpw
      · simp [hm]
      · simp [bnode, hc]
      · intro a b hab ha
        simp only [beq_iff_eq] at ha
        simp only [beq_eq_false_iff_ne, ne_eq]
        intro hb
        cases hab with
        | inl h0 => exact hne (ha.symm.trans h0)
        | inr h1 => exact h1 (ha.trans hb.symm)

theorem missingFn_bnode (h : List Node)
    (hfound : ∀ n ∈ h, n.functionID ≠ [] → n.functionID ∈ fnIds h) :
    missingFn (h.map bnode) = none := by
  unfold missingFn
  rw [Option.map_eq_none_iff, List.find?_eq_none]
  intro n hn
  rw [List.mem_map] at hn
  obtain ⟨m, hm, rfl⟩ := hn
  rw [fnIds_bnode]
  by_cases h0 : m.functionID = []
  · simp [bnode, h0]
  · have := hfound m hm h0
    simp [bnode, this]

/-! ### mapStr / allStr -/

theorem map_map_eq {α : Type} (f g : α → α) (l : List α) : (l.map f).map g = l.map (g ∘ f) := by
  simp [List.map_map]

theorem Basic.mapStr_comp (f g : Bytes → Bytes) (b : Basic) :
    (b.mapStr f).mapStr g = b.mapStr (g ∘ f) := by
  cases b <;> rfl

theorem Basic.mapStr_self (f : Bytes → Bytes) (p : Bytes → Bool) (hp : ∀ s, p s = true → f s = s)
    (b : Basic) (h : b.allStr p = true) : b.mapStr f = b := by
  cases b with
  | str s => simp only [Basic.allStr] at h; simp [Basic.mapStr, hp s h]
  | _ => rfl

theorem FuncDef.mapStr_comp (f g : Bytes → Bytes) (d : FuncDef) :
    (d.mapStr f).mapStr g = d.mapStr (g ∘ f) := by
  simp [FuncDef.mapStr, List.map_map, Function.comp_def, Basic.mapStr_comp]

theorem FuncDef.mapStr_self (f : Bytes → Bytes) (p : Bytes → Bool) (hp : ∀ s, p s = true → f s = s)
    (d : FuncDef) (h : d.allStr p = true) : d.mapStr f = d := by
  simp only [FuncDef.allStr, Bool.and_eq_true, List.all_eq_true] at h
  obtain ⟨⟨⟨h1, h2⟩, h3⟩, h4⟩ := h
  have e3 : d.params.map f = d.params := map_eq_self f _ (fun a ha => hp a (h3 a ha))
  have e4 : d.defaults.map (Basic.mapStr f) = d.defaults :=
    map_eq_self _ _ (fun a ha => Basic.mapStr_self f p hp a (h4 a ha))
  cases d
  simp_all [FuncDef.mapStr]

theorem ConstDef.mapStr_comp (f g : Bytes → Bytes) (c : ConstDef) :
    (c.mapStr f).mapStr g = c.mapStr (g ∘ f) := by
  cases c with
  | basic b => simp [ConstDef.mapStr, Basic.mapStr_comp]
  | fn d => simp [ConstDef.mapStr, FuncDef.mapStr_comp]

theorem ConstDef.mapStr_self (f : Bytes → Bytes) (p : Bytes → Bool) (hp : ∀ s, p s = true → f s = s)
    (c : ConstDef) (h : c.allStr p = true) : c.mapStr f = c := by
  cases c with
  | basic b => simp only [ConstDef.allStr] at h; simp [ConstDef.mapStr, Basic.mapStr_self f p hp b h]
  | fn d => simp only [ConstDef.allStr] at h; simp [ConstDef.mapStr, FuncDef.mapStr_self f p hp d h]

theorem CodeDef.mapStr_comp (f g : Bytes → Bytes) (d : CodeDef) :
    (d.mapStr f).mapStr g = d.mapStr (g ∘ f) := by
  simp [CodeDef.mapStr, List.map_map, Function.comp_def, ConstDef.mapStr_comp]

theorem CodeDef.mapStr_self (f : Bytes → Bytes) (p : Bytes → Bool) (hp : ∀ s, p s = true → f s = s)
    (d : CodeDef) (h : d.allStr p = true) : d.mapStr f = d := by
  simp only [CodeDef.allStr, Bool.and_eq_true, List.all_eq_true] at h
  obtain ⟨⟨⟨⟨⟨⟨⟨h1, h2⟩, h3⟩, h4⟩, h5⟩, h6⟩, h7⟩, h8⟩ := h
  have e6 : d.consts.map (ConstDef.mapStr f) = d.consts :=
    map_eq_self _ _ (fun a ha => ConstDef.mapStr_self f p hp a (h6 a ha))
  have e7 : d.names.map f = d.names := map_eq_self f _ (fun a ha => hp a (h7 a ha))
  cases d
  simp_all [CodeDef.mapStr]

mutual
theorem Table.mapStr_comp (f g : Bytes → Bytes) : ∀ t : Table,
    (t.mapStr f).mapStr g = t.mapStr (g ∘ f)
  | .mk id syms bn fr blk ch => by
    simp only [Table.mapStr, List.map_map, Table.mapStrL_comp f g ch]
    simp [Function.comp_def, Sym.mapStr, Resol.mapStr]
theorem Table.mapStrL_comp (f g : Bytes → Bytes) : ∀ ts : List Table,
    Table.mapStrL g (Table.mapStrL f ts) = Table.mapStrL (g ∘ f) ts
  | [] => rfl
  | t :: ts => by
    simp only [Table.mapStrL, Table.mapStr_comp f g t, Table.mapStrL_comp f g ts]
end

mutual
theorem Table.mapStr_self (f : Bytes → Bytes) (p : Bytes → Bool) (hp : ∀ s, p s = true → f s = s) :
    ∀ t : Table, t.allStr p = true → t.mapStr f = t
  | .mk id syms bn fr blk ch => by
    intro h
    simp only [Table.allStr, Bool.and_eq_true, List.all_eq_true] at h
    obtain ⟨⟨⟨⟨h1, h2⟩, h3⟩, h4⟩, h5⟩ := h
    have e2 : syms.map (Sym.mapStr f) = syms :=
      map_eq_self _ _ (fun a ha => by simp [Sym.mapStr, hp _ (h2 a ha)])
    have e3 : bn.map (fun kv => (f kv.1, kv.2.mapStr f)) = bn :=
      map_eq_self _ _ (fun a ha => by
        have := h3 a ha
        simp [Sym.mapStr, hp _ this.1, hp _ this.2])
    have e4 : fr.map (Resol.mapStr f) = fr :=
      map_eq_self _ _ (fun a ha => by simp [Resol.mapStr, Sym.mapStr, hp _ (h4 a ha)])
    simp only [Table.mapStr, hp id h1, e2, e3, e4, Table.mapStrL_self f p hp ch h5]
theorem Table.mapStrL_self (f : Bytes → Bytes) (p : Bytes → Bool) (hp : ∀ s, p s = true → f s = s) :
    ∀ ts : List Table, Table.allStrL p ts = true → Table.mapStrL f ts = ts
  | [] => fun _ => rfl
  | t :: ts => by
    intro h
    simp only [Table.allStrL, Bool.and_eq_true] at h
    simp only [Table.mapStrL, Table.mapStr_self f p hp t h.1, Table.mapStrL_self f p hp ts h.2]
end

theorem State.mapStr_comp (f g : Bytes → Bytes) (s : State) :
    (s.mapStr f).mapStr g = s.mapStr (g ∘ f) := by
  simp [State.mapStr, List.map_map, Function.comp_def, CodeDef.mapStr_comp, Table.mapStr_comp]

theorem State.mapStr_self (f : Bytes → Bytes) (p : Bytes → Bool) (hp : ∀ s, p s = true → f s = s)
    (s : State) (h : s.allStr p = true) : s.mapStr f = s := by
  simp only [State.allStr, Bool.and_eq_true, List.all_eq_true] at h
  have e1 : s.code.map (CodeDef.mapStr f) = s.code :=
    map_eq_self _ _ (fun a ha => CodeDef.mapStr_self f p hp a (h.1 a ha))
  cases s
  simp_all [State.mapStr, Table.mapStr_self f p hp _ h.2]

/-! ### applying a string function to a whole program commutes with stateFromCode -/

theorem childrenOf_map (g : Node → Node) (hg : ∀ n, (g n).parent = n.parent) (ns : List Node) (j : Nat) :
    childrenOf (ns.map g) j = childrenOf ns j := by
  unfold childrenOf
  rw [List.length_map]
  apply List.filter_congr
  intro i _
  rw [List.getElem?_map]
  cases ns[i]? with
  | none => rfl
  | some n => simp [hg]

theorem pre_map (g : Node → Node) (hg : ∀ n, (g n).parent = n.parent) (ns : List Node) :
    ∀ fuel j, pre (ns.map g) fuel j = pre ns fuel j := by
  intro fuel
  induction fuel with
  | zero => intro j; rfl
  | succ k ih =>
    intro j
    have hfun : pre (ns.map g) k = pre ns k := funext ih
    simp only [pre, childrenOf_map g hg, hfun]

theorem flattenOrder_map (g : Node → Node) (hg : ∀ n, (g n).parent = n.parent) (ns : List Node) :
    flattenOrder (ns.map g) = flattenOrder ns := by
  unfold flattenOrder
  rw [List.length_map, pre_map g hg]
  cases ns <;> rfl

theorem constDef_mapStr (f : Bytes → Bytes) (c : Const) :
    constDef (c.mapStr f) = (constDef c).mapStr f := by
  cases c <;> rfl

theorem defOf_mapStr (f : Bytes → Bytes) (hf : f [] = []) (ns : List Node) (n : Node) :
    defOf (ns.map (Node.mapStr f)) (Node.mapStr f n) = (defOf ns n).mapStr f := by
  have hc : (n.consts.map (Const.mapStr f)).map constDef = (n.consts.map constDef).map (ConstDef.mapStr f) := by
    rw [List.map_map, List.map_map]
    apply List.map_congr_left
    intro c _
    exact constDef_mapStr f c
  cases hp : n.parent with
  | none =>
    simp only [defOf, CodeDef.mapStr, Node.mapStr, hp, hc, hf]
  | some j =>
    cases hm : ns[j]? with
    | none => simp only [defOf, CodeDef.mapStr, Node.mapStr, hp, hc, hf, List.getElem?_map, hm, Option.map_none]
    | some m => simp only [defOf, CodeDef.mapStr, Node.mapStr, hp, hc, List.getElem?_map, hm, Option.map_some]

theorem stateFromCode_mapStr (f : Bytes → Bytes) (hf : f [] = []) (p : Prog) :
    stateFromCode (p.mapStr f) = (stateFromCode p).mapStr f := by
  unfold stateFromCode State.mapStr Prog.mapStr
  simp only [flattenOrder_map (Node.mapStr f) (fun _ => rfl)]
  congr 1
  rw [List.map_filterMap]
  congr 1
  funext i
  rw [List.getElem?_map]
  cases p.nodes[i]? with
  | none => rfl
  | some n => simp [defOf_mapStr f hf]

/-! ### the one Go map on the marshalling path -/

/-- `definitionFromSymbolTable` ranges over `table.symbolsByName` (in whatever order the Go
    runtime picks: `order`) and stores each symbol under its name in a fresh map; a Go map is
    modelled by its lookup function, the last store under a key wins -/
def goMapOf (order : List Sym) : Bytes → Option Sym :=
  fun k => order.reverse.find? (fun s => s.name == k)

theorem inj_of_nodup_map {α β : Type} (f : α → β) : ∀ (l : List α), (l.map f).Nodup →
    ∀ a b, a ∈ l → b ∈ l → f a = f b → a = b := by
  intro l
  induction l with
  | nil => intro _ a b ha; simp at ha
  | cons x l ih =>
    intro hnd a b ha hb hab
    rw [List.map_cons, List.nodup_cons] at hnd
    rw [List.mem_cons] at ha hb
    cases ha with
    | inl hax =>
      cases hb with
      | inl hbx => rw [hax, hbx]
      | inr hbl =>
        exfalso; apply hnd.1
        rw [← hax, hab]
        exact List.mem_map_of_mem hbl
    | inr hal =>
      cases hb with
      | inl hbx =>
        exfalso; apply hnd.1
        rw [← hbx, ← hab]
        exact List.mem_map_of_mem hal
      | inr hbl => exact ih hnd.2 a b hal hbl hab

theorem goMapOf_eq_of_mem (l : List Sym) (hnd : (l.map (·.name)).Nodup) (s : Sym) (hs : s ∈ l) :
    goMapOf l s.name = some s := by
  unfold goMapOf
  have hex : ∃ x ∈ l.reverse, (fun t : Sym => t.name == s.name) x = true :=
    ⟨s, by simpa using hs, by simp⟩
  have hsome := List.find?_isSome.mpr hex
  obtain ⟨t, ht⟩ := Option.isSome_iff_exists.mp hsome
  have htm : t ∈ l := by simpa using List.mem_of_find?_eq_some ht
  have htn : t.name = s.name := by simpa using List.find?_some ht
  have : t = s := inj_of_nodup_map (·.name) l hnd t s htm hs htn
  rw [ht, this]

theorem goMapOf_none (l : List Sym) (k : Bytes) (h : ∀ s ∈ l, s.name ≠ k) : goMapOf l k = none := by
  unfold goMapOf
  rw [List.find?_eq_none]
  intro s hs
  have := h s (by simpa using hs)
  simpa using this

/-! ### small facts used by the property theorems -/

/-- `stateFromCode` of a tree given in Flatten order lists its nodes in order -/
theorem stateFromCode_eq (p : Prog) (hord : flattenOrder p.nodes = List.range p.nodes.length) :
    stateFromCode p = { code := p.nodes.map (defOf p.nodes), table := p.table } := by
  simp only [stateFromCode, hord, range_filterMap_getElem?]

/-- a trip through JSON replaces every string by its sanitised form and changes nothing else -/
theorem json_trip (s : State) : decodeState (encodeState s) = s.mapStr sanitize := by
  unfold decodeState encodeState
  rw [State.mapStr_comp]
  rfl

/-- ... hence nothing at all when every string is valid UTF-8 -/
theorem json_trip_valid (s : State) (h : s.allStr validStr = true) :
    decodeState (encodeState s) = s := by
  rw [json_trip]
  exact State.mapStr_self sanitize validStr (fun s hs => by simpa [validStr] using hs) s h

theorem renamed_self (ns : List Node) (h : ns.all namedOK = true) : ns.map renamed = ns := by
  apply map_eq_self
  intro n hn
  have := (List.all_eq_true.mp h) n hn
  simp only [namedOK, beq_iff_eq] at this
  cases n
  simp_all [renamed]

theorem sanitize_nil : sanitize [] = [] := rfl

theorem Table.beq_refl : ∀ t : Table, Table.beq t t = true
  | .mk i s b f k c => by
    simp only [Table.beq, beq_self_eq_true, Bool.and_self, Bool.true_and]
    exact Table.beqL_refl c
where
  Table.beqL_refl : ∀ ts : List Table, Table.beqL ts ts = true
    | [] => rfl
    | t :: ts => by simp only [Table.beqL, Table.beq_refl t, Table.beqL_refl ts, Bool.and_self]

/-! ## sessions -/

/-- `s'` holds everything `s` holds, at the same positions (nothing retained is ever rewritten) -/
def Store.Extends (s' s : Store) : Prop :=
  (∃ cs, s'.codes = s.codes ++ cs) ∧ (∃ bs, s'.blobs = s.blobs ++ bs)

theorem Store.Extends.refl (s : Store) : s.Extends s := ⟨⟨[], by simp⟩, ⟨[], by simp⟩⟩

theorem Store.Extends.trans {a b c : Store} (h1 : a.Extends b) (h2 : b.Extends c) : a.Extends c := by
  obtain ⟨⟨c1, hc1⟩, ⟨b1, hb1⟩⟩ := h1
  obtain ⟨⟨c2, hc2⟩, ⟨b2, hb2⟩⟩ := h2
  exact ⟨⟨c2 ++ c1, by rw [hc1, hc2, List.append_assoc]⟩, ⟨b2 ++ b1, by rw [hb1, hb2, List.append_assoc]⟩⟩

theorem Store.retain_extends (s : Store) (r : Option Res) : (s.retain r).Extends s := by
  cases r with
  | none => exact Store.Extends.refl s
  | some r =>
    cases r with
    | bytes w => exact ⟨⟨[], by simp [Store.retain]⟩, ⟨[w], rfl⟩⟩
    | code q => exact ⟨⟨[q], rfl⟩, ⟨[], by simp [Store.retain]⟩⟩
    | failed e => exact Store.Extends.refl s

theorem run_nil (s : Store) : run s [] = (s, []) := rfl

theorem run_cons (s : Store) (op : Op) (ops : List Op) :
    run s (op :: ops) = ((run (s.retain (op.eval s)) ops).1, op.eval s :: (run (s.retain (op.eval s)) ops).2) := rfl

theorem run_extends (ops : List Op) : ∀ s : Store, (run s ops).1.Extends s := by
  induction ops with
  | nil => intro s; exact Store.Extends.refl s
  | cons op ops ih =>
    intro s
    rw [run_cons]
    exact (ih _).trans (Store.retain_extends s _)

theorem run_append (a b : List Op) : ∀ s : Store,
    run s (a ++ b) = ((run (run s a).1 b).1, (run s a).2 ++ (run (run s a).1 b).2) := by
  induction a with
  | nil => intro s; simp [run_nil]
  | cons op a ih =>
    intro s
    rw [List.cons_append, run_cons, ih, run_cons]
    simp

theorem run_length (ops : List Op) : ∀ s : Store, (run s ops).2.length = ops.length := by
  induction ops with
  | nil => intro s; rfl
  | cons op ops ih => intro s; rw [run_cons]; simp [ih]

/-- an operation that could be performed on `s` gives the same result on every store that
    extends `s` -/
theorem Op.eval_mono {s s' : Store} (h : s'.Extends s) (op : Op) (r : Res)
    (he : op.eval s = some r) : op.eval s' = some r := by
  obtain ⟨⟨cs, hc⟩, ⟨bs, hb⟩⟩ := h
  cases op with
  | marshal i =>
    simp only [Op.eval, Option.map_eq_some_iff] at he ⊢
    obtain ⟨p, hp, hr⟩ := he
    refine ⟨p, ?_, hr⟩
    rw [hc, List.getElem?_append_left]
    · exact hp
    · exact (List.getElem?_eq_some_iff.mp hp).1
  | unmarshal j =>
    simp only [Op.eval, Option.map_eq_some_iff] at he ⊢
    obtain ⟨w, hw, hr⟩ := he
    refine ⟨w, ?_, hr⟩
    rw [hb, List.getElem?_append_left]
    · exact hw
    · exact (List.getElem?_eq_some_iff.mp hw).1

/-- what call number `k` of a session returned: the operation evaluated on the store as it
    was after the first `k` calls -/
theorem run_result_at (ops : List Op) : ∀ (s : Store) (k : Nat) (op : Op), ops[k]? = some op →
    (run s ops).2[k]? = some (op.eval (run s (ops.take k)).1) := by
  induction ops with
  | nil => intro s k op h; simp at h
  | cons o ops ih =>
    intro s k op h
    cases k with
    | zero =>
      simp only [List.getElem?_cons_zero, Option.some.injEq] at h
      subst h
      simp [run_cons, run_nil]
    | succ k =>
      simp only [List.getElem?_cons_succ] at h
      rw [run_cons, List.take_succ_cons, run_cons]
      simp only [List.getElem?_cons_succ]
      exact ih _ k op h

/-- splitting a session at call `k` -/
theorem run_split (ops : List Op) (s : Store) (k : Nat) (op : Op) (h : ops[k]? = some op) :
    (run s ops).1 =
      (run ((run s (ops.take k)).1.retain (op.eval (run s (ops.take k)).1)) (ops.drop (k + 1))).1 := by
  have hk : k < ops.length := (List.getElem?_eq_some_iff.mp h).1
  have hop : ops[k] = op := (List.getElem?_eq_some_iff.mp h).2
  have hsplit : ops = ops.take k ++ op :: ops.drop (k + 1) := by
    rw [← hop, List.getElem_cons_drop, List.take_append_drop]
  conv => lhs; rw [hsplit]
  rw [run_append, run_cons]

/-! ## names, `isNamed` and the call frame -/

theorem mainName_ne_nil : mainName ≠ [] := by decide

/-- under compile's naming discipline a code object is outside `namedOK` exactly when it is a
    named function called `__main__` -/
theorem nameOK_namedOK (n : Node) (h : nameOK n = true) : namedOK n = !mainFn n := by
  unfold nameOK at h
  unfold namedOK mainFn
  by_cases h1 : n.name = [] <;> by_cases h2 : n.name = mainName <;> cases hn : n.isNamed <;>
    cases hp : n.parent.isNone <;> simp_all [mainName_ne_nil, bne]

theorem all_namedOK_of_nameOK (l : List Node) (h : ∀ n ∈ l, nameOK n = true) :
    l.all namedOK = !l.any mainFn := by
  induction l with
  | nil => rfl
  | cons a l ih =>
    simp only [List.all_cons, List.any_cons]
    rw [nameOK_namedOK a (h a (by simp)), ih (fun n hn => h n (by simp [hn]))]
    simp

theorem nameOK_not_labelled (n : Node) (h : nameOK n = true) : labelled n = false := by
  unfold nameOK at h
  unfold labelled
  by_cases h1 : n.name = [] <;> by_cases h2 : n.name = mainName <;> cases hn : n.isNamed <;>
    cases hp : n.parent.isNone <;> simp_all [mainName_ne_nil, bne]

/-- what `UnmarshalCode ∘ MarshalCode` returns for a well-formed program with valid strings
    (`C17_unmarshal_total_on_image`): the program with `isNamed` recomputed from the names -/
def reloadOf (p : Prog) : Prog := { nodes := p.nodes.map renamed, table := p.table }

theorem renamed_isNamed_of_labelled (m : Node) (h : labelled m = true) : (renamed m).isNamed = true := by
  unfold labelled at h
  simp only [Bool.and_eq_true] at h
  show (m.name != [] && m.name != mainName) = true
  simp [h.1.2, h.2]

theorem renamed_isNamed_le (m : Node) (h : labelled m = false) (f : FuncDef) :
    initialLocals f (renamed m).isNamed ≤ initialLocals f m.isNamed := by
  unfold labelled at h
  show initialLocals f (m.name != [] && m.name != mainName) ≤ _
  unfold initialLocals
  cases hn : m.isNamed <;> cases h1 : (m.name != []) <;> cases h2 : (m.name != mainName) <;> simp_all

theorem frames_overflow_of_labelled (p : Prog) (n m : Node) (f : FuncDef) (j : Nat) (t : Table)
    (hn : n ∈ p.nodes) (hc : Const.fn f (some j) ∈ n.consts) (hm : p.nodes[j]? = some m)
    (hl : labelled m = true) (ht : findTable p.table m.tableID = some t)
    (hs : t.symbols.length = f.params.length) : FramesFit (reloadOf p) = false := by
  cases hff : FramesFit (reloadOf p) with
  | false => rfl
  | true =>
    exfalso
    unfold FramesFit at hff
    simp only [List.all_eq_true] at hff
    have hmem : renamed n ∈ (reloadOf p).nodes := List.mem_map.mpr ⟨n, hn, rfl⟩
    have h := hff (renamed n) hmem (Const.fn f (some j)) hc
    have hj : (reloadOf p).nodes[j]? = some (renamed m) := by
      show (p.nodes.map renamed)[j]? = _
      simp [List.getElem?_map, hm]
    have htt : findTable (reloadOf p).table (renamed m).tableID = some t := ht
    simp only [frameFits, hj, htt, renamed_isNamed_of_labelled m hl, initialLocals, hs] at h
    simp at h
    omega

theorem frames_fit_reloadOf (p : Prog) (hl : ∀ n ∈ p.nodes, labelled n = false)
    (hf : FramesFit p = true) : FramesFit (reloadOf p) = true := by
  unfold FramesFit at hf ⊢
  simp only [List.all_eq_true] at hf ⊢
  intro n' hn' c hc
  obtain ⟨n, hn, rfl⟩ := List.mem_map.mp hn'
  have h := hf n hn c hc
  cases c with
  | basic b => rfl
  | fn f code =>
    cases code with
    | none => rfl
    | some j =>
      have hj : (reloadOf p).nodes[j]? = (p.nodes[j]?).map renamed := by
        show (p.nodes.map renamed)[j]? = _
        simp [List.getElem?_map]
      cases hm : p.nodes[j]? with
      | none => simp [frameFits, hj, hm]
      | some m =>
        have hmm : m ∈ p.nodes := List.mem_of_getElem? hm
        have htt : findTable (reloadOf p).table (renamed m).tableID = findTable p.table m.tableID := rfl
        simp only [frameFits, hm] at h
        simp only [frameFits, hj, hm, Option.map_some, htt]
        cases ht : findTable p.table m.tableID with
        | none => rfl
        | some t =>
          simp only [ht, decide_eq_true_eq] at h ⊢
          exact Nat.le_trans (renamed_isNamed_le m (hl m hmm) f) h


/-! ### the order of the serialised code list -/

theorem build_ids (t : Table) : ∀ (ds : List CodeDef) (acc ns : List Node),
    build t ds acc = .ok ns → ns.map (·.id) = acc.map (·.id) ++ ds.map (·.id) := by
  intro ds
  induction ds with
  | nil =>
    intro acc ns h
    simp only [build, Except.ok.injEq] at h
    subst h
    simp
  | cons d ds ih =>
    intro acc ns h
    simp only [build] at h
    split at h
    · exact absurd h (by simp)
    · split at h
      · have := ih _ _ h
        simpa [mkNode] using this
      · split at h
        · exact absurd h (by simp)
        · have := ih _ _ h
          simpa [mkNode] using this

theorem relinkNodes_ids (link : Bytes → Option Nat) : ∀ ns : List Node,
    (relinkNodes link ns).map (·.id) = ns.map (·.id) := by
  intro ns
  induction ns with
  | nil => rfl
  | cons n ns ih => simp [relinkNodes, ih]

theorem build_orphan_fails (t : Table) : ∀ (ds : List CodeDef) (acc : List Node),
    orphanFrom (acc.map (·.id)) ds = true → ∀ ns, build t ds acc ≠ .ok ns := by
  intro ds
  induction ds with
  | nil => intro acc h; simp [orphanFrom] at h
  | cons d ds ih =>
    intro acc h ns hb
    simp only [orphanFrom, Bool.or_eq_true, Bool.and_eq_true] at h
    simp only [build] at hb
    split at hb
    · exact absurd hb (by simp)
    · rcases h with ⟨hne, hnot⟩ | hrest
      · have hl : lastIdx (fun n : Node => n.id == d.parentID) acc = none := by
          apply lastIdx_none
          intro a ha
          simp only [beq_eq_false_iff_ne, ne_eq]
          intro heq
          have : d.parentID ∈ acc.map (·.id) := heq ▸ List.mem_map_of_mem ha
          simp [this] at hnot
        rw [hl] at hb
        simp only [hne, ↓reduceIte] at hb
        exact absurd hb (by simp)
      · split at hb
        · exact ih _ (by simpa [mkNode] using hrest) ns hb
        · split at hb
          · exact absurd hb (by simp)
          · exact ih _ (by simpa [mkNode] using hrest) ns hb

end Risor.C17
