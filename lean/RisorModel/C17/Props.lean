import RisorModel.C17.Lemmas
/-!
C17 — property theorems.  Serialised bytecode behaves exactly like the code it was made from.

Everything is for ALL programs `p : Prog` (any number of code objects, any nesting of
functions, any constants, any symbol-table tree).  `WF p` collects what `compile` guarantees
of the tree it returns (unique code ids, Flatten order, parents before children, unique
function ids, every function constant linked to the code that names it, every code's symbol
table present in the table tree).  `WF` is a hypothesis here: it is evaluated by the oracle
on every real compiled tree of the correspondence run (a tree that fails it is reported),
it is not proved of a model of `compile`.  The same holds of `CompileNames p` (the compiler's
naming discipline: a code object carries a name exactly when it is a named function), under
which the second guard is exactly "a function called `__main__`" (section "names, `isNamed`
and the call frame").
-/
namespace Risor.C17

/-! ## the first and the second loop of `codeFromState` undo `stateFromCode` -/

/-- **What `codeFromState ∘ stateFromCode` computes (Impl, no JSON involved)**: for every
    well-formed program the flat state is rebuilt into the same tree — same nodes, same
    parent links, same function↔code links, same symbol tables — except that `isNamed` is
    recomputed from the name (`renamed`). -/
theorem codeFromState_stateFromCode (p : Prog) (hwf : WF p) :
    codeFromState (stateFromCode p) = .ok { nodes := p.nodes.map renamed, table := p.table } := by
  obtain ⟨hne, hord, hids, hidne, hpar, htab, hfn, hfid, hlink, hfound⟩ := hwf
  rw [stateFromCode_eq p hord]
  unfold codeFromState
  have hb := build_image p.table p.nodes hids hidne htab p.nodes [] (by simp) (by simpa using hpar)
  simp only [List.map_nil] at hb
  simp only [hb]
  have hne2 : (p.nodes.map bnode).isEmpty = false := by
    cases hn : p.nodes with
    | nil => exact absurd hn hne
    | cons a l => rfl
  rw [hne2]
  simp only [Bool.false_eq_true, ↓reduceIte]
  rw [missingFn_bnode p.nodes hfound]
  simp only
  have hl : ∀ n ∈ p.nodes, ∀ f code, Const.fn f code ∈ n.consts →
      linkOf (p.nodes.map bnode) f.id = code := by
    intro n hn f code hm
    exact linkOf_bnode p.nodes hfid f code (hlink n hn _ hm)
  rw [relinkNodes_bnode (linkOf (p.nodes.map bnode)) p.nodes hfn hl]

/-! ## the property, under the two guards -/

/-- **Round trip.**  For every well-formed program whose strings are valid UTF-8 and that has
    no function called `__main__`, unmarshalling the marshalled code succeeds and yields the
    SAME program: every node, constant (value and type), name, instruction array, parent
    link, function↔code link and symbol table. -/
theorem C17_partial_roundtrip (p : Prog) (hwf : WF p) (hn : NamedConsistent p = true)
    (hu : ValidUtf8Consts p = true) : unmarshal (marshal p) = .ok p := by
  unfold unmarshal marshal
  rw [json_trip_valid _ hu, codeFromState_stateFromCode p hwf, renamed_self _ hn]

/-- **Execution reads the same thing** (`roundtrip_execView`): under the same hypotheses the
    reloaded code has the same execution view — instructions, constants with their types,
    attribute names, locals counts, global names, `IsNamed`, source text, Root() and the code
    each function runs. -/
theorem C17_partial_roundtrip_execView (p : Prog) (hwf : WF p) (hn : NamedConsistent p = true)
    (hu : ValidUtf8Consts p = true) :
    ∃ q, unmarshal (marshal p) = .ok q ∧ execView q = execView p :=
  ⟨p, C17_partial_roundtrip p hwf hn hu, rfl⟩

/-- **Same behaviour** (`run_congr_execView`): whatever the VM computes from what it reads —
    any function `run` of the execution view: result, output, error — it computes the same
    from the reloaded code.  (That the real VM is such a function of exactly this view is the
    modelling assumption checked by the side-by-side runs of the harness.) -/
theorem C17_partial_run_congr {Outcome : Type} (run : View → Outcome) (p : Prog) (hwf : WF p)
    (hn : NamedConsistent p = true) (hu : ValidUtf8Consts p = true) :
    ∃ q, unmarshal (marshal p) = .ok q ∧ run (execView q) = run (execView p) :=
  ⟨p, C17_partial_roundtrip p hwf hn hu, rfl⟩

/-- **Marshalling the reloaded code reproduces the same bytes** (`marshal_stable`). -/
theorem C17_partial_marshal_stable (p : Prog) (hwf : WF p) (hn : NamedConsistent p = true)
    (hu : ValidUtf8Consts p = true) :
    ∃ q, unmarshal (marshal p) = .ok q ∧ marshal q = marshal p :=
  ⟨p, C17_partial_roundtrip p hwf hn hu, rfl⟩

/-- **Unmarshalling what the marshaller produced never fails** (`unmarshal_total_on_image`):
    for every well-formed program with valid UTF-8 strings — functions called `__main__`
    included — `unmarshal (marshal p)` is `ok`, and the result is the program with `isNamed`
    recomputed from the names. -/
theorem C17_unmarshal_total_on_image (p : Prog) (hwf : WF p) (hu : ValidUtf8Consts p = true) :
    unmarshal (marshal p) = .ok { nodes := p.nodes.map renamed, table := p.table } := by
  unfold unmarshal marshal
  rw [json_trip_valid _ hu, codeFromState_stateFromCode p hwf]

/-- **What `UnmarshalCode ∘ MarshalCode` computes for EVERY program (Impl, guards dropped).**
    Let `p' = p.mapStr sanitize` be the program with every string sent through JSON once
    (bytes that are not valid UTF-8 become U+FFFD).  Whenever `p'` is well-formed — in
    particular for every compiled program, whose ids are ASCII — the reload succeeds and
    yields exactly `p'` with `isNamed` recomputed from the names.  The two known defects are
    the two ways in which this result can differ from `p`. -/
theorem C17_reload_characterised (p : Prog) (hwf : WF (p.mapStr sanitize)) :
    unmarshal (marshal p) =
      .ok { nodes := (p.mapStr sanitize).nodes.map renamed, table := (p.mapStr sanitize).table } := by
  unfold unmarshal marshal
  rw [json_trip, ← stateFromCode_mapStr sanitize sanitize_nil p]
  exact codeFromState_stateFromCode _ hwf

/-- **Unmarshalling what the marshaller produced never fails, invalid UTF-8 constants
    included**: no guard on constants, names or source text; only the sanitised program must
    be well-formed (ids that are valid UTF-8 stay distinct). -/
theorem C17_unmarshal_total_on_image_any_strings (p : Prog) (hwf : WF (p.mapStr sanitize)) :
    ∃ q, unmarshal (marshal p) = .ok q :=
  ⟨_, C17_reload_characterised p hwf⟩

/-- **Marshalling is deterministic** as far as the model can say it: the marshalled state is
    a function of the nodes in Flatten order and of the table with `symbols_by_name` in key
    order; it does not depend on `isNamed`, on the function↔code pointers (only on the ids)
    or on anything else of the program.  (Go map iteration order cannot enter: the only map,
    `symbolsByName`, is copied into a map and written by `encoding/json` in key order.) -/
theorem C17_marshal_depends_on_serialised_fields (p q : Prog)
    (hn : p.nodes.map (defOf p.nodes) = q.nodes.map (defOf q.nodes))
    (hl : p.nodes.length = q.nodes.length)
    (ho : flattenOrder p.nodes = flattenOrder q.nodes)
    (hp : flattenOrder p.nodes = List.range p.nodes.length)
    (ht : p.table = q.table) : marshal p = marshal q := by
  unfold marshal
  rw [stateFromCode_eq p hp, stateFromCode_eq q (by rw [← ho, hp, hl]), hn, ht]

/-- **Go's map iteration order cannot influence the marshalled bytes.**  The only `range`
    over a map on the marshalling path copies `symbolsByName` into a fresh map keyed by the
    symbols' names; for any two iteration orders of the same entries (names pairwise
    distinct, as in every symbol table) the resulting map is the same, and `encoding/json`
    writes a map as a function of its contents (keys sorted). -/
theorem C17_marshal_map_order_independent (o1 o2 : List Sym) (hperm : o1.Perm o2)
    (hnd : (o1.map (·.name)).Nodup) : goMapOf o1 = goMapOf o2 := by
  funext k
  have hnd2 : (o2.map (·.name)).Nodup := (hperm.map _).nodup_iff.mp hnd
  by_cases h : ∃ s ∈ o1, s.name = k
  · obtain ⟨s, hs, rfl⟩ := h
    rw [goMapOf_eq_of_mem o1 hnd s hs, goMapOf_eq_of_mem o2 hnd2 s (hperm.mem_iff.mp hs)]
  · have h1 : ∀ s ∈ o1, s.name ≠ k := fun s hs hk => h ⟨s, hs, hk⟩
    have h2 : ∀ s ∈ o2, s.name ≠ k := fun s hs => h1 s (hperm.mem_iff.mpr hs)
    rw [goMapOf_none o1 k h1, goMapOf_none o2 k h2]

/-- the executable Spec the harness evaluates through the oracle holds under the guards -/
theorem C17_partial_specOK (p : Prog) (hwf : WF p) (hn : NamedConsistent p = true)
    (hu : ValidUtf8Consts p = true) : specOK p = true := by
  unfold specOK
  rw [C17_partial_roundtrip p hwf hn hu]
  simp [State.beq, Table.beq_refl]

/-! ## the full statement, and why it is false of the unchanged code -/

/-- The property as written: for every compiled (well-formed) program the reload succeeds,
    execution reads the same thing, and re-marshalling gives the same bytes. -/
def C17_full : Prop :=
  ∀ p : Prog, WF p → ∃ q, unmarshal (marshal p) = .ok q ∧ execView q = execView p ∧ marshal q = marshal p

def emptyRoot : Table := .mk [114, 111, 111, 116] [] [] [] false []      -- "root"

/-- `"\377"`: one code object whose only constant is the one-byte string FF -/
def cexUtf8 : Prog :=
  { nodes := [{ id := mainName, name := mainName, isNamed := false, parent := none, functionID := [],
                tableID := [114, 111, 111, 116], instrs := [24, 0], consts := [.basic (.str [255])],
                names := [], source := [34, 92, 120, 102, 102, 34] }],
    table := emptyRoot }

/-- the same program after the reload: the constant has become U+FFFD (EF BF BD) -/
def cexUtf8Reloaded : Prog :=
  { cexUtf8 with nodes := cexUtf8.nodes.map fun n => { n with consts := [.basic (.str [239, 191, 189])] } }

/-- the witness is a well-formed program (non-vacuity of the refutation) -/
theorem cexUtf8_wf : WF cexUtf8 := by decide

/-- what the Impl model computes for the witness (the harness replays `"\377"` on the real code) -/
theorem cexUtf8_reload : unmarshal (marshal cexUtf8) = .ok cexUtf8Reloaded := by rfl

/-- **Known defect (invalid UTF-8 constant).**  The unchanged code violates the property: the
    string constant `"\377"` (one byte, FF) comes back as U+FFFD (three bytes), so execution
    reads a different constant. -/
theorem C17_counterexample_invalid_utf8 : ¬ C17_full := by
  intro h
  obtain ⟨q, hq, hv, _⟩ := h cexUtf8 cexUtf8_wf
  rw [cexUtf8_reload] at hq
  injection hq with hq
  subst hq
  revert hv
  decide

/-- ... and the bytes of a second marshalling differ from the first (the `\ufffd` escape against
    the three raw bytes) -/
theorem C17_counterexample_invalid_utf8_bytes :
    (marshal cexUtf8Reloaded).code ≠ (marshal cexUtf8).code := by decide

/-- the witness lies outside the first guard and inside the second -/
theorem C17_counterexample_invalid_utf8_guard :
    ValidUtf8Consts cexUtf8 = false ∧ NamedConsistent cexUtf8 = true := by decide

/-- `func __main__(n) { … __main__(n-1) … }`: a root and one function whose name is `__main__`;
    the compiler marks it named (its own name is local slot 1) -/
def cexMain : Prog :=
  { nodes := [
      { id := mainName, name := mainName, isNamed := false, parent := none, functionID := [],
        tableID := [114], instrs := [], consts := [.fn ⟨[49], mainName, [[110]], [.nil]⟩ (some 1)],
        names := [], source := [] },
      { id := mainName ++ [46, 48], name := mainName, isNamed := true, parent := some 0, functionID := [49],
        tableID := [114, 46, 48], instrs := [], consts := [], names := [], source := [] }],
    table := .mk [114] [⟨mainName, 0, true⟩] [(mainName, ⟨mainName, 0, true⟩)] [] false
      [.mk [114, 46, 48] [⟨[110], 0, false⟩, ⟨mainName, 1, true⟩]
        [(mainName, ⟨mainName, 1, true⟩), ([110], ⟨[110], 0, false⟩)] [] false []] }

/-- the witness is a well-formed program -/
theorem cexMain_wf : WF cexMain := by decide

/-- **New defect (function called `__main__`).**  `codeFromState` recomputes `isNamed` as
    `name != "" && name != "__main__"`, so a function whose name is `__main__` is reloaded as
    unnamed: the VM no longer stores the function in the local slot the body reads for the
    recursive call.  All strings are valid UTF-8 here. -/
theorem C17_counterexample_func_named_main :
    ValidUtf8Consts cexMain = true ∧
    ∃ q, unmarshal (marshal cexMain) = .ok q ∧ execView q ≠ execView cexMain := by
  refine ⟨by decide, _, C17_unmarshal_total_on_image cexMain cexMain_wf (by decide), ?_⟩
  decide

/-- The property restricted to programs whose strings are all valid UTF-8 (the first
    finding's guard alone) -/
def C17_full_valid_utf8 : Prop :=
  ∀ p : Prog, WF p → ValidUtf8Consts p = true →
    ∃ q, unmarshal (marshal p) = .ok q ∧ execView q = execView p ∧ marshal q = marshal p

/-- ... is still false: the function called `__main__` refutes it, so the second guard is
    needed as well -/
theorem C17_counterexample_func_named_main_full : ¬ C17_full_valid_utf8 := by
  intro h
  obtain ⟨q, hq, hv, _⟩ := h cexMain cexMain_wf (by decide)
  rw [C17_unmarshal_total_on_image cexMain cexMain_wf (by decide)] at hq
  injection hq with hq
  subst hq
  revert hv
  decide

/-- the witness lies outside the second guard -/
theorem C17_counterexample_func_named_main_guard :
    NamedConsistent cexMain = false := by decide

/-- both guards are needed and nothing else: the full statement restricted to the guards -/
theorem C17_partial (p : Prog) (hwf : WF p) (hn : NamedConsistent p = true)
    (hu : ValidUtf8Consts p = true) :
    ∃ q, unmarshal (marshal p) = .ok q ∧ execView q = execView p ∧ marshal q = marshal p :=
  ⟨p, C17_partial_roundtrip p hwf hn hu, rfl, rfl⟩

/-! ## names, `isNamed` and the call frame: the second guard made exact

`isNamed` is not serialised; `codeFromState` recomputes it from the name.  The guard
`NamedConsistent` ("`isNamed` is what would be recomputed") is therefore what the round trip
needs — but it is coarser than the recorded finding: it also excludes trees in which a code
object carries a name WITHOUT being a named function (`labelled`), which the compiler never
builds.  `CompileNames` states the compiler's naming discipline (root = `__main__`, every
other code object named exactly when it is a named function, with the function's own name;
evaluated on every compiled tree, source tie `codeNameWrites_tie`).  Under it the guard is
exactly "no function is called `__main__`" — and without it the property is false although no
function is called `__main__`: a label on an anonymous function makes the reloaded code
named, and the VM then writes the function object past the frame's locals. -/

/-- **The three ways a code object can be outside the second guard**: a named function called
    `__main__` (the recorded finding), a name on something that is not a named function, or a
    named function without a name. -/
theorem namedOK_false_iff (n : Node) :
    namedOK n = false ↔ (mainFn n = true ∨ labelled n = true ∨ (n.isNamed = true ∧ n.name = [])) := by
  unfold namedOK mainFn labelled
  by_cases h1 : n.name = [] <;> by_cases h2 : n.name = mainName <;> cases hn : n.isNamed <;>
    simp_all [mainName_ne_nil, bne]

/-- **On compiled code the second guard is exact**: for every program that obeys the
    compiler's naming discipline, `NamedConsistent` fails exactly when some function is called
    `__main__` — the guard of finding C17-func-named-main excludes nothing else. -/
theorem compileNames_guard_exact (p : Prog) (hc : CompileNames p = true) :
    NamedConsistent p = !HasMainFn p := by
  unfold CompileNames at hc
  simp only [Bool.and_eq_true, List.all_eq_true] at hc
  exact all_namedOK_of_nameOK p.nodes hc.1

/-- **The property for compiled programs**: every well-formed program that obeys the compiler's
    naming discipline, has valid UTF-8 strings and no function called `__main__` reloads into
    code with the same execution view and the same bytes — whatever its functions are bound
    to (`f := func…`, `const f = func…`, arguments, results, containers). -/
theorem C17_partial_compiled (p : Prog) (hwf : WF p) (hc : CompileNames p = true)
    (hm : HasMainFn p = false) (hu : ValidUtf8Consts p = true) :
    ∃ q, unmarshal (marshal p) = .ok q ∧ execView q = execView p ∧ marshal q = marshal p :=
  C17_partial p hwf (by rw [compileNames_guard_exact p hc, hm]; rfl) hu

/-- The property with the second guard replaced by the finding's words alone ("no function is
    called `__main__`"), WITHOUT the compiler's naming discipline -/
def C17_full_no_main_fn : Prop :=
  ∀ p : Prog, WF p → ValidUtf8Consts p = true → HasMainFn p = false →
    ∃ q, unmarshal (marshal p) = .ok q ∧ execView q = execView p ∧ marshal q = marshal p

/-- `f := func() { … }; f()` as a compiler that labels the anonymous function's code object
    with the variable's name would build it: root, and an UNNAMED code object whose name is
    `f`; the function constant itself has no name and its table has no slot for one -/
def cexLabel : Prog :=
  { nodes := [
      { id := mainName, name := mainName, isNamed := false, parent := none, functionID := [],
        tableID := [114], instrs := [], consts := [.fn ⟨[49], [], [], []⟩ (some 1)], names := [], source := [] },
      { id := mainName ++ [46, 48], name := [102], isNamed := false, parent := some 0, functionID := [49],
        tableID := [114, 46, 48], instrs := [], consts := [], names := [], source := [] }],
    table := .mk [114] [⟨[102], 0, false⟩] [([102], ⟨[102], 0, false⟩)] [] false
      [.mk [114, 46, 48] [] [] [] false []] }

theorem cexLabel_wf : WF cexLabel := by decide

/-- **The naming discipline is needed**: without it the statement is false even though every
    string is valid UTF-8 and no function is called `__main__` — the label comes back as the
    name of a named function (`execView` differs in `isNamed`). -/
theorem C17_counterexample_labelled_unnamed : ¬ C17_full_no_main_fn := by
  intro h
  obtain ⟨q, hq, hv, _⟩ := h cexLabel cexLabel_wf (by decide) (by decide)
  rw [C17_unmarshal_total_on_image cexLabel cexLabel_wf (by decide)] at hq
  injection hq with hq
  subst hq
  revert hv
  decide

/-- where the witness lies: outside the naming discipline and the coarse guard, not a
    `__main__` function; its frames fit before the reload and not after -/
theorem C17_counterexample_labelled_unnamed_guard :
    CompileNames cexLabel = false ∧ NamedConsistent cexLabel = false ∧ HasMainFn cexLabel = false
    ∧ FramesFit cexLabel = true ∧ FramesFit (reloadOf cexLabel) = false := by decide

/-- **`IsNamed()` after a reload is a function of the name alone**, for every well-formed
    program with valid strings and every code object of it. -/
theorem reload_isNamed_from_name (p : Prog) (hwf : WF p) (hu : ValidUtf8Consts p = true) :
    ∃ q, unmarshal (marshal p) = .ok q ∧
      ∀ (i : Nat) (n : Node), p.nodes[i]? = some n →
        (q.nodes[i]?).map Node.isNamed = some (n.name != [] && n.name != mainName) := by
  refine ⟨_, C17_unmarshal_total_on_image p hwf hu, ?_⟩
  intro i n h
  simp [List.getElem?_map, h, renamed]

/-- **No reloaded compiled program is written past a frame.**  For every well-formed program
    with valid strings that obeys the naming discipline — functions called `__main__`
    included — if every function of the compiled code can be called inside its frame
    (`FramesFit`: parameters, plus the function itself when named, fit the code's local
    slots), so can every function of the reloaded code. -/
theorem C17_reload_frames_fit (p : Prog) (hwf : WF p) (hu : ValidUtf8Consts p = true)
    (hc : CompileNames p = true) (hf : FramesFit p = true) :
    ∃ q, unmarshal (marshal p) = .ok q ∧ FramesFit q = true := by
  refine ⟨_, C17_unmarshal_total_on_image p hwf hu, ?_⟩
  unfold CompileNames at hc
  simp only [Bool.and_eq_true, List.all_eq_true] at hc
  exact frames_fit_reloadOf p (fun n hn => nameOK_not_labelled n (hc.1 n hn)) hf

/-- **What a label does** (Impl, any program): if a function constant is linked to an unnamed
    code object that carries a name other than `__main__`, and that code has exactly as many
    local slots as the function has parameters (it declares nothing of its own), then the
    reload succeeds and the reloaded program no longer fits its frames: a call writes the
    function object into slot `len(params)` of `len(params)` slots. -/
theorem C17_reload_frame_overflow (p : Prog) (hwf : WF p) (hu : ValidUtf8Consts p = true)
    (n m : Node) (f : FuncDef) (j : Nat) (t : Table)
    (hn : n ∈ p.nodes) (hc : Const.fn f (some j) ∈ n.consts) (hm : p.nodes[j]? = some m)
    (hl : labelled m = true) (ht : findTable p.table m.tableID = some t)
    (hs : t.symbols.length = f.params.length) :
    ∃ q, unmarshal (marshal p) = .ok q ∧ FramesFit q = false :=
  ⟨_, C17_unmarshal_total_on_image p hwf hu, frames_overflow_of_labelled p n m f j t hn hc hm hl ht hs⟩

/-! ## sessions: a result, once returned, is not changed by any later call

`run s ops` is a history of `MarshalCode` / `UnmarshalCode` calls of ANY length over a store
of code objects and retained byte strings (Model.lean, "sessions").  The theorems below say
that the results a caller keeps are values: whatever is called afterwards, each of them stays
what the same call, made alone, returns.  For the pure functions of the model this is true by
construction of `run`; it is stated and proved so that it is a CHECKED tie and not a silent
assumption: the harness runs real sessions and compares every retained real result, at the
END of the session, with `(run s ops).2` — which by these theorems is the single-call result.
A `MarshalCode` that hands out a pooled buffer, or an `UnmarshalCode` whose objects share
state with a later call, breaks that correspondence. -/

/-- **The store only grows**: after a session of any length every code object and every byte
    string the store held before is still there, at the same position, unchanged. -/
theorem session_store_append_only (s : Store) (ops : List Op) :
    ∃ cs bs, (run s ops).1.codes = s.codes ++ cs ∧ (run s ops).1.blobs = s.blobs ++ bs := by
  obtain ⟨⟨cs, hc⟩, ⟨bs, hb⟩⟩ := run_extends ops s
  exact ⟨cs, bs, hc, hb⟩

/-- one result per call -/
theorem session_one_result_per_call (s : Store) (ops : List Op) :
    (run s ops).2.length = ops.length := run_length ops s

/-- **What call number `k` returned** is the operation evaluated, alone, on the store as it
    was when the call was made (after the first `k` calls) — for every session, every `k`. -/
theorem session_result_at_call (s : Store) (ops : List Op) (k : Nat) (op : Op)
    (h : ops[k]? = some op) :
    (run s ops).2[k]? = some (op.eval (run s (ops.take k)).1) :=
  run_result_at ops s k op h

/-- **Results are independent of the rest of the session** (`session_results_independent`).
    For every session `ops` of any length from any store `s`, every call `k` of it and the
    result `r` it returned: performing the same operation ALONE at the end of the session —
    after every later call has been made — returns the same `r`; and so does performing it
    alone on the store as it was before call `k` (no earlier call matters beyond providing the
    operand). -/
theorem session_results_independent (s : Store) (ops : List Op) (k : Nat) (op : Op) (r : Res)
    (h : ops[k]? = some op) (hr : (run s ops).2[k]? = some (some r)) :
    op.eval (run s ops).1 = some r
    ∧ (run (run s ops).1 [op]).2 = [some r]
    ∧ (run (run s (ops.take k)).1 [op]).2 = [some r] := by
  rw [run_result_at ops s k op h] at hr
  simp only [Option.some.injEq] at hr
  have hext : (run s ops).1.Extends (run s (ops.take k)).1 := by
    rw [run_split ops s k op h]
    exact (run_extends _ _).trans (Store.retain_extends _ _)
  have hfin := Op.eval_mono hext op r hr
  refine ⟨hfin, ?_, ?_⟩
  · rw [run_cons, run_nil, hfin]
  · rw [run_cons, run_nil, hr]

/-- the single-call form: a `marshal` inside a session returns `marshal p` of the code object
    `p` it was given, an `unmarshal` returns `unmarshal w` of the bytes it was given -/
theorem session_marshal_alone (s : Store) (ops : List Op) (k i : Nat) (p : Prog)
    (h : ops[k]? = some (.marshal i)) (hp : (run s (ops.take k)).1.codes[i]? = some p) :
    (run s ops).2[k]? = some (some (.bytes (marshal p))) := by
  rw [run_result_at ops s k _ h]
  simp [Op.eval, hp]

theorem session_unmarshal_alone (s : Store) (ops : List Op) (k j : Nat) (w : State)
    (h : ops[k]? = some (.unmarshal j)) (hw : (run s (ops.take k)).1.blobs[j]? = some w) :
    (run s ops).2[k]? = some (some (match unmarshal w with
      | .ok q => Res.code q
      | .error e => Res.failed e)) := by
  rw [run_result_at ops s k _ h]
  simp only [Op.eval, hw, Option.map_some]
  cases unmarshal w <;> rfl

/-- **Reading a retained result back at the END of the session gives what the call returned**:
    the bytes returned by call `k` are, after all later calls, still the bytes at the position
    they were retained at, and likewise for a returned code object.  (This is the comparison
    the harness makes on the real code: a private copy taken immediately against the retained
    slice at the end, and the retained tree against the model's.) -/
theorem session_retained_read_back (s : Store) (ops : List Op) (k : Nat) (op : Op) (r : Res)
    (h : ops[k]? = some op) (hr : (run s ops).2[k]? = some (some r)) :
    (run s ops).1.readBack ((run s (ops.take k)).1.slot op) r = some r := by
  rw [run_result_at ops s k op h] at hr
  simp only [Option.some.injEq] at hr
  have hext := run_extends (ops.drop (k + 1)) ((run s (ops.take k)).1.retain (op.eval (run s (ops.take k)).1))
  rw [← run_split ops s k op h, hr] at hext
  obtain ⟨⟨cs, hc⟩, ⟨bs, hb⟩⟩ := hext
  cases op with
  | marshal i =>
    simp only [Op.eval, Option.map_eq_some_iff] at hr
    obtain ⟨p, _, rfl⟩ := hr
    simp only [Store.retain] at hb
    simp [Store.readBack, Store.slot, hb]
  | unmarshal j =>
    simp only [Op.eval, Option.map_eq_some_iff] at hr
    obtain ⟨w, _, hr⟩ := hr
    cases hu : unmarshal w with
    | error e =>
      rw [hu] at hr
      subst hr
      rfl
    | ok q =>
      rw [hu] at hr
      subst hr
      simp only [Store.retain] at hc
      simp [Store.readBack, Store.slot, hc]

/-- what `compile` guarantees plus the two guards -/
def Good (p : Prog) : Prop := WF p ∧ NamedConsistent p = true ∧ ValidUtf8Consts p = true

/-- **Every retained result still behaves like its source, in sessions of any length.**  Start
    from compiled programs inside the two guards (and byte strings that are marshallings of
    them).  Then, whatever sequence of calls follows: no call fails, every code object in the
    final store IS one of the programs the session started with, and every retained byte
    string is the marshalling of one of them. -/
theorem session_closed_partial (ops : List Op) : ∀ (s : Store),
    (∀ p ∈ s.codes, Good p) → (∀ w ∈ s.blobs, ∃ p ∈ s.codes, w = marshal p) →
    (∀ q ∈ (run s ops).1.codes, q ∈ s.codes)
    ∧ (∀ w ∈ (run s ops).1.blobs, ∃ p ∈ s.codes, w = marshal p)
    ∧ (∀ r ∈ (run s ops).2, ∀ e, r ≠ some (.failed e)) := by
  induction ops with
  | nil =>
    intro s _ hb
    exact ⟨fun q hq => hq, hb, fun r hr => by simp [run_nil] at hr⟩
  | cons op ops ih =>
    intro s hg hb
    -- the store after the first call: same set of programs, blobs still marshallings of them
    have key : (∀ q ∈ (s.retain (op.eval s)).codes, q ∈ s.codes)
        ∧ (∀ w ∈ (s.retain (op.eval s)).blobs, ∃ p ∈ s.codes, w = marshal p)
        ∧ (∀ e, op.eval s ≠ some (.failed e)) := by
      cases op with
      | marshal i =>
        cases hi : s.codes[i]? with
        | none => simp [Op.eval, hi, Store.retain]; exact hb
        | some p =>
          have hp : p ∈ s.codes := List.mem_of_getElem? hi
          simp only [Op.eval, hi, Option.map_some, Store.retain]
          refine ⟨fun q hq => hq, ?_, by simp⟩
          intro w hw
          rcases List.mem_append.mp hw with hw | hw
          · exact hb w hw
          · exact ⟨p, hp, by simpa using hw⟩
      | unmarshal j =>
        cases hj : s.blobs[j]? with
        | none => simp [Op.eval, hj, Store.retain]; exact hb
        | some w =>
          obtain ⟨p, hp, rfl⟩ := hb w (List.mem_of_getElem? hj)
          obtain ⟨hwf, hn, hu⟩ := hg p hp
          simp only [Op.eval, hj, Option.map_some, C17_partial_roundtrip p hwf hn hu, Store.retain]
          refine ⟨?_, hb, by simp⟩
          intro q hq
          rcases List.mem_append.mp hq with hq | hq
          · exact hq
          · simpa [List.mem_singleton.mp hq] using hp
    obtain ⟨kc, kb, kf⟩ := key
    have hsub : ∀ p ∈ s.codes, p ∈ (s.retain (op.eval s)).codes := by
      intro p hp
      obtain ⟨⟨cs, hc⟩, _⟩ := Store.retain_extends s (op.eval s)
      rw [hc]
      exact List.mem_append_left _ hp
    obtain ⟨ic, ib, ifl⟩ := ih (s.retain (op.eval s)) (fun p hp => hg p (kc p hp))
      (fun w hw => by
        obtain ⟨p, hp, hw⟩ := kb w hw
        exact ⟨p, hsub p hp, hw⟩)
    rw [run_cons]
    refine ⟨fun q hq => kc q (ic q hq), ?_, ?_⟩
    · intro w hw
      obtain ⟨p, hp, hw⟩ := ib w hw
      exact ⟨p, kc p hp, hw⟩
    · intro r hr e
      rcases List.mem_cons.mp hr with hr | hr
      · rw [hr]; exact kf e
      · exact ifl r hr e

/-- ... hence whatever the VM computes from what it reads, it computes from every code object
    a session leaves in the store what it computes from one of the compiled programs, and
    unmarshalling any retained byte string gives one of the compiled programs back. -/
theorem session_behaves_like_source_partial {Outcome : Type} (runVM : View → Outcome) (s : Store)
    (ops : List Op) (hg : ∀ p ∈ s.codes, Good p) (hb : ∀ w ∈ s.blobs, ∃ p ∈ s.codes, w = marshal p) :
    (∀ q ∈ (run s ops).1.codes, ∃ p ∈ s.codes, runVM (execView q) = runVM (execView p))
    ∧ (∀ w ∈ (run s ops).1.blobs, ∃ p ∈ s.codes, unmarshal w = .ok p) := by
  obtain ⟨hc, hbl, _⟩ := session_closed_partial ops s hg hb
  refine ⟨fun q hq => ⟨q, hc q hq, rfl⟩, ?_⟩
  intro w hw
  obtain ⟨p, hp, rfl⟩ := hbl w hw
  obtain ⟨hwf, hn, hu⟩ := hg p hp
  exact ⟨p, hp, C17_partial_roundtrip p hwf hn hu⟩

/-- what `compile` guarantees (structure and names) plus the two findings' exact guards -/
def GoodCompiled (p : Prog) : Prop :=
  WF p ∧ CompileNames p = true ∧ HasMainFn p = false ∧ ValidUtf8Consts p = true

theorem goodCompiled_good (p : Prog) (h : GoodCompiled p) : Good p :=
  ⟨h.1, by rw [compileNames_guard_exact p h.2.1, h.2.2.1]; rfl, h.2.2.2⟩

/-- **Sessions over compiled programs**: the closure theorem with the guard in the finding's
    words — start from compiled programs without a function called `__main__` and with valid
    strings; whatever calls follow, none fails and every retained code object is one of them. -/
theorem session_closed_compiled (ops : List Op) (s : Store)
    (hg : ∀ p ∈ s.codes, GoodCompiled p) (hb : ∀ w ∈ s.blobs, ∃ p ∈ s.codes, w = marshal p) :
    (∀ q ∈ (run s ops).1.codes, q ∈ s.codes)
    ∧ (∀ w ∈ (run s ops).1.blobs, ∃ p ∈ s.codes, w = marshal p)
    ∧ (∀ r ∈ (run s ops).2, ∀ e, r ≠ some (.failed e)) :=
  session_closed_partial ops s (fun p hp => goodCompiled_good p (hg p hp)) hb

/-- the statement discriminates: a `MarshalCode` that handed out its internal buffer (every
    retained byte string a window on it, `aliasedBlobs`) would NOT leave the store `run`
    leaves — two marshal calls on two different programs suffice. -/
theorem aliased_buffer_session_differs :
    ∃ (s : Store) (ops : List Op), (aliasedBlobs (run s ops).1).map (·.code) ≠ (run s ops).1.blobs.map (·.code) :=
  ⟨⟨[cexUtf8, cexUtf8Reloaded], []⟩, [.marshal 0, .marshal 1], by decide⟩

/-! ## non-vacuity -/

/-- a program with a closure inside a function with a default parameter: root, `f`, inner -/
def exNested : Prog :=
  { nodes := [
      { id := [109], name := mainName, isNamed := false, parent := none, functionID := [],
        tableID := [114], instrs := [24, 0, 33, 0],
        consts := [.fn ⟨[49], [102], [[97], [98]], [.nil, .str [195, 169]]⟩ (some 1), .basic (.float 4609434218613702656)],
        names := [[120]], source := [102] },
      { id := [109, 46, 48], name := [102], isNamed := true, parent := some 0, functionID := [49],
        tableID := [114, 46, 48], instrs := [24, 0, 4], consts := [.fn ⟨[50], [], [], []⟩ (some 2), .basic (.int (-7))],
        names := [], source := [] },
      { id := [109, 46, 48, 46, 48], name := [], isNamed := false, parent := some 1, functionID := [50],
        tableID := [114, 46, 48, 46, 48], instrs := [4], consts := [.basic (.bool true)], names := [], source := [] }],
    table := .mk [114] [⟨[102], 0, true⟩] [([102], ⟨[102], 0, true⟩)] [] false
      [.mk [114, 46, 48] [⟨[97], 0, false⟩, ⟨[98], 1, false⟩, ⟨[102], 2, true⟩] [] [] false
        [.mk [114, 46, 48, 46, 48] [] [] [⟨⟨[97], 0, false⟩, .free, 1, 0⟩] false
          [.mk [114, 46, 48, 46, 48, 46, 48] [] [] [] true []]]] }

example : WF exNested ∧ NamedConsistent exNested = true ∧ ValidUtf8Consts exNested = true := by decide
example : unmarshal (marshal exNested) = .ok exNested :=
  C17_partial_roundtrip exNested (by decide) (by decide) (by decide)
example : (execView exNested).codes.length = 3 := by decide
example : CompileNames exNested = true ∧ HasMainFn exNested = false ∧ FramesFit exNested = true := by decide
example : CompileNames cexMain = true ∧ HasMainFn cexMain = true ∧ FramesFit cexMain = true := by decide
example : GoodCompiled exNested := ⟨by decide, by decide, by decide, by decide⟩
example : WF (cexUtf8.mapStr sanitize) := by decide
example : ∃ q, unmarshal (marshal cexUtf8) = .ok q := C17_unmarshal_total_on_image_any_strings cexUtf8 (by decide)
example : validStr [195, 169] = true ∧ validStr [255] = false ∧ validStr [237, 160, 128] = false := by decide
example : sanitize [113, 255, 122] = [113, 239, 191, 189, 122] := by decide

-- sessions: a concrete history (marshal both programs, reload the first bytes, marshal the
-- reloaded code) returns four results, none of them a failure, and leaves three code objects
example : (run ⟨[exNested, exNested], []⟩ [.marshal 0, .marshal 1, .unmarshal 0, .marshal 2]).2.length = 4 := by
  decide
example : Good exNested := ⟨by decide, by decide, by decide⟩
example : (run ⟨[exNested], []⟩ [.marshal 0, .unmarshal 0, .marshal 1]).1.codes = [exNested, exNested] := by
  have h := session_closed_partial [.marshal 0, .unmarshal 0, .marshal 1] ⟨[exNested], []⟩
    (by intro p hp; simp at hp; subst hp; exact ⟨by decide, by decide, by decide⟩) (by simp)
  simp only [run_cons, run_nil, Op.eval, Store.retain, List.getElem?_cons_zero, Option.map_some,
    C17_partial_roundtrip exNested (by decide) (by decide) (by decide), List.nil_append]
  rfl

/-! ## the order of the serialised code list

`codeFromState` is NOT indifferent to the order of `state.Code`: it resolves `parent_id` among
the code objects it has already created and returns the first one as the entry point.  The
property therefore demands of the marshaller that the list is written in ONE order, parents
first — the Flatten order (`stateFromCode_code_order`, `marshal_code_order`); the harness
evaluates this on the real bytes of every program and feeds the real loader the real bytes
with the list permuted, comparing its verdict with `unmarshal ∘ State.reorder`. -/

/-- **Spec of the file order**: the code list `stateFromCode` writes is the Flatten sequence
    of the tree, id by id — for every program (any number of code objects). -/
theorem stateFromCode_code_order (p : Prog) : (stateFromCode p).codeIds = flattenIds p := by
  simp only [State.codeIds, stateFromCode, flattenIds, List.map_filterMap, Option.map_map]
  rfl

/-- the same of the bytes: the ids of the marshalled list are the (JSON-encoded) ids of the
    Flatten sequence, in that order. -/
theorem marshal_code_order (p : Prog) : (marshal p).codeIds = (flattenIds p).map encStr := by
  rw [← stateFromCode_code_order]
  simp only [marshal, encodeState, State.mapStr, State.codeIds, List.map_map]
  rfl

/-- taking the list in its own order changes nothing -/
theorem reorder_range (s : State) : (s.reorder (List.range s.code.length)).code = s.code := by
  have h := range_filterMap_getElem? (fun d : CodeDef => d) s.code
  simpa [State.reorder] using h

/-- **The loader keeps the order of the file**: whenever `codeFromState` succeeds, the code
    objects of the result are those of the list, in the order of the list. -/
theorem codeFromState_ids (st : State) (p : Prog) (h : codeFromState st = .ok p) :
    p.nodes.map (·.id) = st.codeIds := by
  unfold codeFromState at h
  split at h
  · exact absurd h (by simp)
  · rename_i ns hb
    split at h
    · exact absurd h (by simp)
    · split at h
      · exact absurd h (by simp)
      · simp only [Except.ok.injEq] at h
        subst h
        have := build_ids st.table st.code [] ns hb
        simpa [relinkNodes_ids, State.codeIds] using this

/-- **The entry point is whatever comes first**: the code object `UnmarshalCode` hands back
    (`codes[0]`) is the first element of the list, root or not. -/
theorem codeFromState_entry (st : State) (p : Prog) (h : codeFromState st = .ok p) :
    p.nodes.head?.map (·.id) = st.code.head?.map (·.id) := by
  have := congrArg List.head? (codeFromState_ids st p h)
  simpa [State.codeIds, List.head?_map] using this

/-- **A child before its parent is rejected**: a list in which some code object names a parent
    that does not come EARLIER in the list is never loaded — whatever else the list holds.
    (So a marshaller may not write the list in any order but parents-first.) -/
theorem codeFromState_child_before_parent (st : State) (h : st.childBeforeParent = true) :
    ∀ p, codeFromState st ≠ .ok p := by
  intro p hp
  unfold codeFromState at hp
  split at hp
  · exact absurd hp (by simp)
  · rename_i ns hb
    exact build_orphan_fails st.table st.code [] (by simpa [State.childBeforeParent] using h) ns hb

theorem unmarshal_child_before_parent (w : State) (h : (decodeState w).childBeforeParent = true) :
    ∀ p, unmarshal w ≠ .ok p :=
  codeFromState_child_before_parent (decodeState w) h

theorem unmarshal_entry (w : State) (p : Prog) (h : unmarshal w = .ok p) :
    p.nodes.head?.map (·.id) = (decodeState w).code.head?.map (·.id) :=
  codeFromState_entry (decodeState w) p h

-- the nested example: its file is [root, outer, inner]; with the inner function first the
-- loader fails on the parent id, with the list reversed too; in its own order it loads
example : ((marshal exNested).reorder [0, 2, 1]).childBeforeParent = true := by decide
example : ((marshal exNested).reorder [2, 1, 0]).childBeforeParent = true := by decide
example : ((marshal exNested).reorder [0, 1, 2]).childBeforeParent = false := by decide
example : (marshal exNested).codeIds = (flattenIds exNested).map encStr := marshal_code_order exNested

end Risor.C17
