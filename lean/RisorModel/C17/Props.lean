import RisorModel.C17.Lemmas
/-!
C17 — property theorems.  Serialised bytecode behaves exactly like the code it was made from.

Everything is for ALL programs `p : Prog` (any number of code objects, any nesting of
functions, any constants, any symbol-table tree).  `WF p` collects what `compile` guarantees
of the tree it returns (unique code ids, Flatten order, parents before children, unique
function ids, every function constant linked to the code that names it, every code's symbol
table present in the table tree).  `WF` is a hypothesis here: it is evaluated by the oracle
on every real compiled tree of the correspondence run (a tree that fails it is reported),
it is not proved of a model of `compile`.
-/
namespace Risor.C17

/-! ## the first and the second loop of `codeFromState` undo `stateFromCode` -/

/-- **What `codeFromState ∘ stateFromCode` computes (Impl, no JSON involved)**: for every
    well-formed program the flat state is rebuilt into the same tree — same nodes, same
    parent links, same function↔code links, same symbol tables — except that `isNamed` is
    recomputed from the name (`renamed`). -/
theorem codeFromState_stateFromCode (p : Prog) (hwf : WF p) :
    codeFromState (stateFromCode p) = .ok { nodes := p.nodes.map renamed, table := p.table } := by
  obtain ⟨hne, hord, hids, hidne, hpar, htab, hfn, hfid, hlink, hfound⟩ := hwf
  rw [stateFromCode_eq p hord]
  unfold codeFromState
  have hb := build_image p.table p.nodes hids hidne htab p.nodes [] (by simp) (by simpa using hpar)
  simp only [List.map_nil] at hb
  simp only [hb]
  have hne2 : (p.nodes.map bnode).isEmpty = false := by
    cases hn : p.nodes with
    | nil => exact absurd hn hne
    | cons a l => rfl
  rw [hne2]
  simp only [Bool.false_eq_true, ↓reduceIte]
  rw [missingFn_bnode p.nodes hfound]
  simp only
  have hl : ∀ n ∈ p.nodes, ∀ f code, Const.fn f code ∈ n.consts →
      linkOf (p.nodes.map bnode) f.id = code := by
    intro n hn f code hm
    exact linkOf_bnode p.nodes hfid f code (hlink n hn _ hm)
  rw [relinkNodes_bnode (linkOf (p.nodes.map bnode)) p.nodes hfn hl]

/-! ## the property, under the two guards -/

/-- **Round trip.**  For every well-formed program whose strings are valid UTF-8 and that has
    no function called `__main__`, unmarshalling the marshalled code succeeds and yields the
    SAME program: every node, constant (value and type), name, instruction array, parent
    link, function↔code link and symbol table. -/
theorem C17_partial_roundtrip (p : Prog) (hwf : WF p) (hn : NamedConsistent p = true)
    (hu : ValidUtf8Consts p = true) : unmarshal (marshal p) = .ok p := by
  unfold unmarshal marshal
  rw [json_trip_valid _ hu, codeFromState_stateFromCode p hwf, renamed_self _ hn]

/-- **Execution reads the same thing** (`roundtrip_execView`): under the same hypotheses the
    reloaded code has the same execution view — instructions, constants with their types,
    attribute names, locals counts, global names, `IsNamed`, source text, Root() and the code
    each function runs. -/
theorem C17_partial_roundtrip_execView (p : Prog) (hwf : WF p) (hn : NamedConsistent p = true)
    (hu : ValidUtf8Consts p = true) :
    ∃ q, unmarshal (marshal p) = .ok q ∧ execView q = execView p :=
  ⟨p, C17_partial_roundtrip p hwf hn hu, rfl⟩

/-- **Same behaviour** (`run_congr_execView`): whatever the VM computes from what it reads —
    any function `run` of the execution view: result, output, error — it computes the same
    from the reloaded code.  (That the real VM is such a function of exactly this view is the
    modelling assumption checked by the side-by-side runs of the harness.) -/
theorem C17_partial_run_congr {Outcome : Type} (run : View → Outcome) (p : Prog) (hwf : WF p)
    (hn : NamedConsistent p = true) (hu : ValidUtf8Consts p = true) :
    ∃ q, unmarshal (marshal p) = .ok q ∧ run (execView q) = run (execView p) :=
  ⟨p, C17_partial_roundtrip p hwf hn hu, rfl⟩

/-- **Marshalling the reloaded code reproduces the same bytes** (`marshal_stable`). -/
theorem C17_partial_marshal_stable (p : Prog) (hwf : WF p) (hn : NamedConsistent p = true)
    (hu : ValidUtf8Consts p = true) :
    ∃ q, unmarshal (marshal p) = .ok q ∧ marshal q = marshal p :=
  ⟨p, C17_partial_roundtrip p hwf hn hu, rfl⟩

/-- **Unmarshalling what the marshaller produced never fails** (`unmarshal_total_on_image`):
    for every well-formed program with valid UTF-8 strings — functions called `__main__`
    included — `unmarshal (marshal p)` is `ok`, and the result is the program with `isNamed`
    recomputed from the names. -/
theorem C17_unmarshal_total_on_image (p : Prog) (hwf : WF p) (hu : ValidUtf8Consts p = true) :
    unmarshal (marshal p) = .ok { nodes := p.nodes.map renamed, table := p.table } := by
  unfold unmarshal marshal
  rw [json_trip_valid _ hu, codeFromState_stateFromCode p hwf]

/-- **What `UnmarshalCode ∘ MarshalCode` computes for EVERY program (Impl, guards dropped).**
    Let `p' = p.mapStr sanitize` be the program with every string sent through JSON once
    (bytes that are not valid UTF-8 become U+FFFD).  Whenever `p'` is well-formed — in
    particular for every compiled program, whose ids are ASCII — the reload succeeds and
    yields exactly `p'` with `isNamed` recomputed from the names.  The two known defects are
    the two ways in which this result can differ from `p`. -/
theorem C17_reload_characterised (p : Prog) (hwf : WF (p.mapStr sanitize)) :
    unmarshal (marshal p) =
      .ok { nodes := (p.mapStr sanitize).nodes.map renamed, table := (p.mapStr sanitize).table } := by
  unfold unmarshal marshal
  rw [json_trip, ← stateFromCode_mapStr sanitize sanitize_nil p]
  exact codeFromState_stateFromCode _ hwf

/-- **Unmarshalling what the marshaller produced never fails, invalid UTF-8 constants
    included**: no guard on constants, names or source text; only the sanitised program must
    be well-formed (ids that are valid UTF-8 stay distinct). -/
theorem C17_unmarshal_total_on_image_any_strings (p : Prog) (hwf : WF (p.mapStr sanitize)) :
    ∃ q, unmarshal (marshal p) = .ok q :=
  ⟨_, C17_reload_characterised p hwf⟩

/-- **Marshalling is deterministic** as far as the model can say it: the marshalled state is
    a function of the nodes in Flatten order and of the table with `symbols_by_name` in key
    order; it does not depend on `isNamed`, on the function↔code pointers (only on the ids)
    or on anything else of the program.  (Go map iteration order cannot enter: the only map,
    `symbolsByName`, is copied into a map and written by `encoding/json` in key order.) -/
theorem C17_marshal_depends_on_serialised_fields (p q : Prog)
    (hn : p.nodes.map (defOf p.nodes) = q.nodes.map (defOf q.nodes))
    (hl : p.nodes.length = q.nodes.length)
    (ho : flattenOrder p.nodes = flattenOrder q.nodes)
    (hp : flattenOrder p.nodes = List.range p.nodes.length)
    (ht : p.table = q.table) : marshal p = marshal q := by
  unfold marshal
  rw [stateFromCode_eq p hp, stateFromCode_eq q (by rw [← ho, hp, hl]), hn, ht]

/-- **Go's map iteration order cannot influence the marshalled bytes.**  The only `range`
    over a map on the marshalling path copies `symbolsByName` into a fresh map keyed by the
    symbols' names; for any two iteration orders of the same entries (names pairwise
    distinct, as in every symbol table) the resulting map is the same, and `encoding/json`
    writes a map as a function of its contents (keys sorted). -/
theorem C17_marshal_map_order_independent (o1 o2 : List Sym) (hperm : o1.Perm o2)
    (hnd : (o1.map (·.name)).Nodup) : goMapOf o1 = goMapOf o2 := by
  funext k
  have hnd2 : (o2.map (·.name)).Nodup := (hperm.map _).nodup_iff.mp hnd
  by_cases h : ∃ s ∈ o1, s.name = k
  · obtain ⟨s, hs, rfl⟩ := h
    rw [goMapOf_eq_of_mem o1 hnd s hs, goMapOf_eq_of_mem o2 hnd2 s (hperm.mem_iff.mp hs)]
  · have h1 : ∀ s ∈ o1, s.name ≠ k := fun s hs hk => h ⟨s, hs, hk⟩
    have h2 : ∀ s ∈ o2, s.name ≠ k := fun s hs => h1 s (hperm.mem_iff.mpr hs)
    rw [goMapOf_none o1 k h1, goMapOf_none o2 k h2]

/-- the executable Spec the harness evaluates through the oracle holds under the guards -/
theorem C17_partial_specOK (p : Prog) (hwf : WF p) (hn : NamedConsistent p = true)
    (hu : ValidUtf8Consts p = true) : specOK p = true := by
  unfold specOK
  rw [C17_partial_roundtrip p hwf hn hu]
  simp [State.beq, Table.beq_refl]

/-! ## the full statement, and why it is false of the unchanged code -/

/-- The property as written: for every compiled (well-formed) program the reload succeeds,
    execution reads the same thing, and re-marshalling gives the same bytes. -/
def C17_full : Prop :=
  ∀ p : Prog, WF p → ∃ q, unmarshal (marshal p) = .ok q ∧ execView q = execView p ∧ marshal q = marshal p

def emptyRoot : Table := .mk [114, 111, 111, 116] [] [] [] false []      -- "root"

/-- `"\377"`: one code object whose only constant is the one-byte string FF -/
def cexUtf8 : Prog :=
  { nodes := [{ id := mainName, name := mainName, isNamed := false, parent := none, functionID := [],
                tableID := [114, 111, 111, 116], instrs := [24, 0], consts := [.basic (.str [255])],
                names := [], source := [34, 92, 120, 102, 102, 34] }],
    table := emptyRoot }

/-- the same program after the reload: the constant has become U+FFFD (EF BF BD) -/
def cexUtf8Reloaded : Prog :=
  { cexUtf8 with nodes := cexUtf8.nodes.map fun n => { n with consts := [.basic (.str [239, 191, 189])] } }

/-- the witness is a well-formed program (non-vacuity of the refutation) -/
theorem cexUtf8_wf : WF cexUtf8 := by decide

/-- what the Impl model computes for the witness (the harness replays `"\377"` on the real code) -/
theorem cexUtf8_reload : unmarshal (marshal cexUtf8) = .ok cexUtf8Reloaded := by rfl

/-- **Known defect (invalid UTF-8 constant).**  The unchanged code violates the property: the
    string constant `"\377"` (one byte, FF) comes back as U+FFFD (three bytes), so execution
    reads a different constant. -/
theorem C17_counterexample_invalid_utf8 : ¬ C17_full := by
  intro h
  obtain ⟨q, hq, hv, _⟩ := h cexUtf8 cexUtf8_wf
  rw [cexUtf8_reload] at hq
  injection hq with hq
  subst hq
  revert hv
  decide

/-- ... and the bytes of a second marshalling differ from the first (the `\ufffd` escape against
    the three raw bytes) -/
theorem C17_counterexample_invalid_utf8_bytes :
    (marshal cexUtf8Reloaded).code ≠ (marshal cexUtf8).code := by decide

/-- the witness lies outside the first guard and inside the second -/
theorem C17_counterexample_invalid_utf8_guard :
    ValidUtf8Consts cexUtf8 = false ∧ NamedConsistent cexUtf8 = true := by decide

/-- `func __main__(n) { … __main__(n-1) … }`: a root and one function whose name is `__main__`;
    the compiler marks it named (its own name is local slot 1) -/
def cexMain : Prog :=
  { nodes := [
      { id := mainName, name := mainName, isNamed := false, parent := none, functionID := [],
        tableID := [114], instrs := [], consts := [.fn ⟨[49], mainName, [[110]], [.nil]⟩ (some 1)],
        names := [], source := [] },
      { id := mainName ++ [46, 48], name := mainName, isNamed := true, parent := some 0, functionID := [49],
        tableID := [114, 46, 48], instrs := [], consts := [], names := [], source := [] }],
    table := .mk [114] [⟨mainName, 0, true⟩] [(mainName, ⟨mainName, 0, true⟩)] [] false
      [.mk [114, 46, 48] [⟨[110], 0, false⟩, ⟨mainName, 1, true⟩]
        [(mainName, ⟨mainName, 1, true⟩), ([110], ⟨[110], 0, false⟩)] [] false []] }

/-- the witness is a well-formed program -/
theorem cexMain_wf : WF cexMain := by decide

/-- **New defect (function called `__main__`).**  `codeFromState` recomputes `isNamed` as
    `name != "" && name != "__main__"`, so a function whose name is `__main__` is reloaded as
    unnamed: the VM no longer stores the function in the local slot the body reads for the
    recursive call.  All strings are valid UTF-8 here. -/
theorem C17_counterexample_func_named_main :
    ValidUtf8Consts cexMain = true ∧
    ∃ q, unmarshal (marshal cexMain) = .ok q ∧ execView q ≠ execView cexMain := by
  refine ⟨by decide, _, C17_unmarshal_total_on_image cexMain cexMain_wf (by decide), ?_⟩
  decide

/-- The property restricted to programs whose strings are all valid UTF-8 (the first
    finding's guard alone) -/
def C17_full_valid_utf8 : Prop :=
  ∀ p : Prog, WF p → ValidUtf8Consts p = true →
    ∃ q, unmarshal (marshal p) = .ok q ∧ execView q = execView p ∧ marshal q = marshal p

/-- ... is still false: the function called `__main__` refutes it, so the second guard is
    needed as well -/
theorem C17_counterexample_func_named_main_full : ¬ C17_full_valid_utf8 := by
  intro h
  obtain ⟨q, hq, hv, _⟩ := h cexMain cexMain_wf (by decide)
  rw [C17_unmarshal_total_on_image cexMain cexMain_wf (by decide)] at hq
  injection hq with hq
  subst hq
  revert hv
  decide

/-- the witness lies outside the second guard -/
theorem C17_counterexample_func_named_main_guard :
    NamedConsistent cexMain = false := by decide

/-- both guards are needed and nothing else: the full statement restricted to the guards -/
theorem C17_partial (p : Prog) (hwf : WF p) (hn : NamedConsistent p = true)
    (hu : ValidUtf8Consts p = true) :
    ∃ q, unmarshal (marshal p) = .ok q ∧ execView q = execView p ∧ marshal q = marshal p :=
  ⟨p, C17_partial_roundtrip p hwf hn hu, rfl, rfl⟩

/-! ## non-vacuity -/

/-- a program with a closure inside a function with a default parameter: root, `f`, inner -/
def exNested : Prog :=
  { nodes := [
      { id := [109], name := mainName, isNamed := false, parent := none, functionID := [],
        tableID := [114], instrs := [24, 0, 33, 0],
        consts := [.fn ⟨[49], [102], [[97], [98]], [.nil, .str [195, 169]]⟩ (some 1), .basic (.float 4609434218613702656)],
        names := [[120]], source := [102] },
      { id := [109, 46, 48], name := [102], isNamed := true, parent := some 0, functionID := [49],
        tableID := [114, 46, 48], instrs := [24, 0, 4], consts := [.fn ⟨[50], [], [], []⟩ (some 2), .basic (.int (-7))],
        names := [], source := [] },
      { id := [109, 46, 48, 46, 48], name := [], isNamed := false, parent := some 1, functionID := [50],
        tableID := [114, 46, 48, 46, 48], instrs := [4], consts := [.basic (.bool true)], names := [], source := [] }],
    table := .mk [114] [⟨[102], 0, true⟩] [([102], ⟨[102], 0, true⟩)] [] false
      [.mk [114, 46, 48] [⟨[97], 0, false⟩, ⟨[98], 1, false⟩, ⟨[102], 2, true⟩] [] [] false
        [.mk [114, 46, 48, 46, 48] [] [] [⟨⟨[97], 0, false⟩, .free, 1, 0⟩] false
          [.mk [114, 46, 48, 46, 48, 46, 48] [] [] [] true []]]] }

example : WF exNested ∧ NamedConsistent exNested = true ∧ ValidUtf8Consts exNested = true := by decide
example : unmarshal (marshal exNested) = .ok exNested :=
  C17_partial_roundtrip exNested (by decide) (by decide) (by decide)
example : (execView exNested).codes.length = 3 := by decide
example : WF (cexUtf8.mapStr sanitize) := by decide
example : ∃ q, unmarshal (marshal cexUtf8) = .ok q := C17_unmarshal_total_on_image_any_strings cexUtf8 (by decide)
example : validStr [195, 169] = true ∧ validStr [255] = false ∧ validStr [237, 160, 128] = false := by decide
example : sanitize [113, 255, 122] = [113, 239, 191, 189, 122] := by decide

end Risor.C17
