import RisorModel.C03.Model
import RisorModel.C03.Lemmas
/-!
C03 — no source text or script can crash or panic the embedding process.

The property quantifies over all source strings and all scripts.  What is proved here, for
ALL inputs (no bound on length, nesting, steps or heap size), is that each modelled place
where the Go code can fault either cannot fault or faults only under a named, decidable
condition:

* error rendering: `FriendlyErrorMessage` over ALL spans (same line or not — unguarded since
  the repair of `C03-friendly-multiline-span`), `GetLineText` over every token position the
  lexer's registers can produce;
* the VM's fixed arrays: an out-of-range index is always the recovered error;
* native nesting of `vm.eval`: for every sequence of calls, callbacks of builtins, host calls,
  imports and deferred calls, the frame array and the call depth of `callFunction` keep the
  nesting below `2 * maxFrames` — no such sequence ends the process on a stack that holds that
  many activations (`C03_partial_native`, `C03_native_never_killed`, `nest_contained` — unguarded
  since the repair of `C03-defer-recursion-stack-overflow`; `native_bounded_by_frames`,
  `nest_peak_bound` for the finer bounds); recursion through `defer` alone ends with a returned
  error (`pure_defer_recursion_fails`); the repair changes nothing for nesting that grows the
  frame index (`repair_unchanged_without_defer_stages`); the pre-fix machine and its defect are
  kept as `preFixNestRun`, `C03_fixed_pure_defer_recursion_killed`,
  `C03_fixed_native_was_unbounded`, `C03_preFix_partial_native`; every way of entering compiled
  code needs one of the two bounds (`each_reentry_needs_bound`);
* the importer's mutex: every sequence of `Import` calls, whatever the module files contain at
  the time of each call, returns what the mutex-free Spec returns and leaves the mutex free
  (`import_never_fatal`, for every balanced assignment of mutex events to the paths:
  `balanced_paths_never_fatal`); an `Unlock` by hand on the error path ends the process
  (`unbalanced_error_path_kills`);
* one VM entered many times: for every sequence of Run / RunCode / Call entries under contexts
  without a Done channel, cancellable or cancelled ones, each entry returns what it returns
  alone and no Go panic leaves an entry point (`life_runs_independent`,
  `C03_life_never_escapes`); a `stop` whose release depends on what an earlier run left behind
  panics after the deferred recover (`closeKept_step_exact`, `closeKept_escapes`);
* `vm.Get` on one VM pointed at one code object after another: for every sequence of code
  switches and lookups each lookup is answered from the code loaded last and no Go panic leaves
  `Get` (`get_scan_exact`, `C03_get_never_escapes`, `get_found_is_named`); a name → slot memo is
  as good iff it is dropped at every switch (`get_memoCleared_exact`; contrast
  `memoKept_escapes`, `memoKept_wrong_global`, `memoKept_one_code_exact`);
* one file object closed by the script and by the watcher goroutine of the opening context: for
  every order of closes, cancellation and watcher progress no event panics on either goroutine
  (`file_two_closers_never_panic`, `C03_file_never_killed`); a watcher that closes `f.closed`
  outside `f.once` ends the process in one order and panics on the caller in the other
  (`recording_watcher_kills`, `recording_watcher_other_order`, `recording_without_cancel_ok`);
* integer-literal initialisers: with `uint(count)` shifts only a zero divisor panics
  (`intBin_panics_iff`), the VM turns that into the error of the run (`decl_contained`), and
  an operator evaluated by the compiler would have to be total (`fold_escapes_iff`,
  `signed_shift_panics`);
* `Inspect` terminates on every heap, cyclic ones included; `Equals` does not (the finding),
  and does on every heap without cycles;
* the two loops of `parseSwitch` that depend on `nextToken` end on EVERY token stream, error
  recorded or not (`caseLoop_terminates`, `switchLoop_terminates` — unguarded since the repair
  of `C03-switch-error-loop`; the pre-fix loops and their divergence are kept as
  `preFixCaseLoop` / `preFixSwitchLoop`, `C03_fixed_caseLoop_diverged`,
  `C03_fixed_switchLoop_diverged`).

The full statements that the unchanged code violates are kept as `def C03_full_… : Prop`
with a proved counterexample, a decidable guard and a `_partial` theorem.  The parser and
the compiler as a whole are NOT modelled: their panics are covered by the regenerated
panic-site/emit-site tables (Ties.lean) and by search (harness), see checks/C03.json.
-/
namespace Risor.C03

/-! ## Error rendering -/

/-- Within one line the column register only grows: if the lexer goes from state `s` to
    state `t` by any number of `readChar` calls and is still on the same line, then
    `s.col ≤ t.col`.  For every input, every start state, every number of steps. -/
theorem same_line_col_le (cs : Array Nat) (k : Nat) :
    ∀ s : LexSt, (readChars cs k s).line = s.line → s.col ≤ (readChars cs k s).col := by
  induction k with
  | zero => intro s _; exact Int.le_refl _
  | succ k ih =>
    intro s h
    rw [readChars_succ] at h ⊢
    have hm := line_mono cs k (readChar cs s)
    rcases readChar_cases cs s with h1 | h1 | h1
    · rw [h1] at h ⊢; exact ih s h
    · have := ih (readChar cs s) (by omega)
      omega
    · omega

/-- **`FriendlyErrorMessage` cannot panic, whatever span it is given** (`caret_nonneg`, the
    full statement; it carried the guard `singleLineSpan` until the repair
    `fix: keep the caret line of a parse error inside the quoted line`).  For ALL integers —
    start line/column, end line/column, number of runes of the quoted line; no relation
    between them is assumed, so every `ParserError` a host can build is covered, not only
    those the parser builds — both `strings.Repeat` counts are non-negative and there is at
    least one caret. -/
theorem C03_caret_nonneg (startLine startCol endLine endCol lineLen : Int) :
    ∃ pad n, friendly startLine startCol endLine endCol lineLen = .ok (pad, n) ∧ 1 ≤ n := by
  have hp : 0 ≤ padLen startCol := by
    unfold padLen; simp only; split <;> omega
  have hn : 1 ≤ caretLen startLine startCol endLine endCol lineLen := by
    unfold caretLen; simp only; split <;> omega
  refine ⟨(padLen startCol).toNat, (caretLen startLine startCol endLine endCol lineLen).toNat, ?_, ?_⟩
  · unfold friendly
    simp only
    rw [if_neg (by omega), if_neg (by omega)]
  · omega

/-- The statement that was false before the repair (then `def C03_full_caret : Prop` with a
    counterexample), now a theorem: `FriendlyErrorMessage` never panics, whatever span
    (start = the lexer at rune `a`, end = `k` characters later, on the same line or not) an
    error carries and whatever line it quotes. -/
theorem C03_full_caret (cs : Array Nat) (a k : Nat) (lineLen : Int) :
    (friendly (stateAt cs a).line (stateAt cs a).col
      (readChars cs k (stateAt cs a)).line (readChars cs k (stateAt cs a)).col lineLen).isPanic = false := by
  obtain ⟨pad, n, h, _⟩ := C03_caret_nonneg (stateAt cs a).line (stateAt cs a).col
    (readChars cs k (stateAt cs a)).line (readChars cs k (stateAt cs a)).col lineLen
  rw [h]; rfl

/-- a span that ends on a later line is underlined from its start column to the end of the
    quoted line: for every start column `0 ≤ sc` inside a quoted line of `lineLen > sc` runes,
    padding and carets together are exactly as long as the quoted line -/
theorem friendly_multi_line (sl sc el ec lineLen : Int) (hl : el ≠ sl) (h0 : 0 ≤ sc) (h1 : sc < lineLen) :
    friendly sl sc el ec lineLen = .ok (sc.toNat, (lineLen - sc).toNat) := by
  have hp : padLen sc = sc := by
    unfold padLen; simp only; split <;> omega
  have hn : caretLen sl sc el ec lineLen = lineLen - sc := by
    unfold caretLen; simp only; rw [if_pos hl, hp]; split <;> omega
  unfold friendly
  simp only [hp, hn]
  rw [if_neg (by omega), if_neg (by omega)]

/-- the guard the partial theorem carried before the repair: the span ends on the line it
    starts on -/
def singleLineSpan (cs : Array Nat) (a k : Nat) : Bool :=
  (readChars cs k (stateAt cs a)).line == (stateAt cs a).line

/-- three spaces, then a backtick string that contains a newline:  `␣␣␣`a⏎``  -/
def twoLineBacktick : Array Nat := #[32, 32, 32, 96, 97, 10, 96]

/-- the pre-fix counterexample renders now: the backtick token of `twoLineBacktick` starts in
    column 3 of line 0 (quoted line `␣␣␣`a`, 5 runes) and ends in column 0 of line 1:
    3 blanks and 2 carets -/
example : friendly (stateAt twoLineBacktick 3).line (stateAt twoLineBacktick 3).col
    (readChars twoLineBacktick 3 (stateAt twoLineBacktick 3)).line
    (readChars twoLineBacktick 3 (stateAt twoLineBacktick 3)).col 5 = .ok (3, 2) := by decide

/-! ### Historical: the caret computation before the repair -/

theorem preFixFriendly_ok (sc tc : Int) (h0 : 0 ≤ sc) (h : sc ≤ tc) :
    preFixFriendly sc tc = .ok (sc.toNat, (tc - sc + 1).toNat) := by
  unfold preFixFriendly
  have e1 : sc + 1 - 1 = sc := by omega
  have e2 : tc + 1 - (sc + 1) + 1 = tc - sc + 1 := by omega
  simp only [e1, e2]
  rw [if_neg (by omega), if_neg (by omega)]

/-- the full statement about the PRE-FIX computation (false): it never panics, whatever span
    (start = the lexer at rune `a`, end = `k` characters later) an error carries. -/
def C03_preFix_full_caret : Prop :=
  ∀ (cs : Array Nat) (a k : Nat),
    (preFixFriendly (stateAt cs a).col (readChars cs k (stateAt cs a)).col).isPanic = false

/-- HISTORICAL (finding `C03-friendly-multiline-span`, repaired): before the fix the backtick
    token of `twoLineBacktick`, which starts in column 3 of line 0 and ends in column 0 of
    line 1, gave `colEnd - colStart + 1 = -2` and `strings.Repeat` panicked. -/
theorem C03_fixed_caret_panicked : ¬ C03_preFix_full_caret := by
  intro h
  have := h twoLineBacktick 3 3
  revert this
  decide

/-- HISTORICAL: what could be proved of the pre-fix computation — for every input, every
    token start and every span that stays on one line it computed a non-negative padding and
    at least one caret. -/
theorem C03_preFix_partial_caret (cs : Array Nat) (a k : Nat) (hg : singleLineSpan cs a k = true) :
    ∃ pad n, preFixFriendly (stateAt cs a).col (readChars cs k (stateAt cs a)).col = .ok (pad, n) ∧ 1 ≤ n := by
  simp only [singleLineSpan, beq_iff_eq] at hg
  have h0 := stateAt_col_nonneg cs a
  have h1 := same_line_col_le cs k (stateAt cs a) hg
  refine ⟨_, _, preFixFriendly_ok _ _ h0 h1, ?_⟩
  omega

/-- **The repair changes nothing inside one line.**  For every input, every token start and
    every span that stays on one line (exactly the spans that rendered before), the repaired
    `FriendlyErrorMessage` draws the padding and the carets the old one drew, whatever line
    it quotes. -/
theorem friendly_single_line_unchanged (cs : Array Nat) (a k : Nat) (lineLen : Int)
    (hg : singleLineSpan cs a k = true) :
    friendly (stateAt cs a).line (stateAt cs a).col
      (readChars cs k (stateAt cs a)).line (readChars cs k (stateAt cs a)).col lineLen
    = preFixFriendly (stateAt cs a).col (readChars cs k (stateAt cs a)).col := by
  simp only [singleLineSpan, beq_iff_eq] at hg
  have h0 := stateAt_col_nonneg cs a
  have h1 := same_line_col_le cs k (stateAt cs a) hg
  rw [preFixFriendly_ok _ _ h0 h1]
  have hp : padLen (stateAt cs a).col = (stateAt cs a).col := by
    unfold padLen; simp only; split <;> omega
  have hn : caretLen (stateAt cs a).line (stateAt cs a).col (readChars cs k (stateAt cs a)).line
      (readChars cs k (stateAt cs a)).col lineLen
      = (readChars cs k (stateAt cs a)).col - (stateAt cs a).col + 1 := by
    unfold caretLen; simp only; rw [if_neg (by omega)]; split <;> omega
  unfold friendly
  simp only [hp, hn]
  rw [if_neg (by omega), if_neg (by omega)]

example : singleLineSpan #[120, 32, 58, 61, 32, 49, 50, 51] 5 2 = true := by decide
example : singleLineSpan twoLineBacktick 3 3 = false := by decide

/-- guard of `GetLineText`: what the lexer guarantees about the token it is given -/
def lineTextGuard (cs : Array Nat) (char line : Int) (isEOF : Bool) : Bool :=
  decide (0 ≤ char) && decide (char ≤ cs.size + 1) && decide (0 ≤ line) &&
  (if isEOF then decide (1 ≤ char) else decide (char ≤ cs.size))

/-- FULL statement (false): `GetLineText` returns for every token position. -/
def C03_full_lineText : Prop :=
  ∀ (cs : Array Nat) (char line : Int) (isEOF : Bool), (getLineText cs char line isEOF).isPanic = false

/-- COUNTEREXAMPLE: an EOF token at offset 0 of a non-empty input (`start--` gives −1 and
    `l.characters[-1]` is indexed).  The parser never asks for it (an EOF at offset 0 is the
    first token, so there is nothing to report); the harness checks that on every input. -/
theorem C03_counterexample_lineText : ¬ C03_full_lineText := by
  intro h
  have := h #[0, 97] 0 0 true
  revert this
  decide

/-- PARTIAL: for every input and every token position inside the guard, `GetLineText`
    returns a slice `[s, e)` inside the input — no range panic, no index panic. -/
theorem C03_partial_lineText (cs : Array Nat) (char line : Int) (isEOF : Bool)
    (hg : lineTextGuard cs char line isEOF = true) :
    ∃ s e, getLineText cs char line isEOF = .ok (s, e) ∧ 0 ≤ s ∧ s ≤ e ∧ e ≤ cs.size := by
  simp only [lineTextGuard, Bool.and_eq_true, decide_eq_true_eq] at hg
  obtain ⟨⟨⟨h0, h1⟩, h2⟩, h3⟩ := hg
  unfold getLineText
  split
  · rename_i hlen
    exact ⟨0, 0, rfl, Int.le_refl _, Int.le_refl _, by omega⟩
  · rw [if_neg (by omega), if_neg (by omega)]
    have hc : 0 ≤ (if isEOF = true then char - 1 else char) ∧
        (if isEOF = true then char - 1 else char) ≤ cs.size := by
      cases isEOF
      · simp at h3 ⊢; omega
      · simp at h3 ⊢; omega
    obtain ⟨s, hs, hs0, hs1⟩ := scanBack_ok cs (cs.size + 2) _ hc.1 hc.2
    obtain ⟨e, he, he0, he1⟩ := scanFwd_ok cs (cs.size + 2) _ hc.1 hc.2
    simp only [hs, he]
    rw [if_neg (by omega)]
    exact ⟨s, e, rfl, hs0, by omega, he1⟩

example : lineTextGuard #[97, 10, 98] 2 1 false = true := by decide
example : lineTextGuard #[97, 10, 98] 4 1 true = true := by decide

/-! ## VM arrays -/

theorem vmStep_inBounds (s s' : Vm) (o : VmOp) (hb : InBounds s) (h : vmStep s o = .ok s') :
    InBounds s' := by
  unfold InBounds at *
  cases o with
  | push =>
    simp only [vmStep] at h
    by_cases c : 0 ≤ s.sp + 1 ∧ s.sp + 1 < (maxStack : Int)
    · rw [if_pos c] at h; cases h; simp only; unfold maxStack maxFrames at *; omega
    · rw [if_neg c] at h; cases h
  | pop =>
    simp only [vmStep] at h
    by_cases c : 0 ≤ s.sp ∧ s.sp < (maxStack : Int)
    · rw [if_pos c] at h; cases h; simp only; unfold maxStack maxFrames at *; omega
    · rw [if_neg c] at h; cases h
  | call =>
    simp only [vmStep] at h
    by_cases c : s.fp + 1 < maxFrames
    · rw [if_pos c] at h; cases h; simp only; unfold maxStack maxFrames at *; omega
    · rw [if_neg c] at h; cases h
  | ret =>
    simp only [vmStep] at h
    cases h; simp only; unfold maxStack maxFrames at *; omega

/-- vm_bounds_are_errors: for EVERY sequence of pushes, pops, calls and returns (any length)
    started from an in-bounds state, the run either ends in an in-bounds state — every
    `vm.stack[sp]` / `vm.frames[fp]` access it made was inside the 1024-slot arrays — or it
    stopped at the first out-of-range access with the recovered error.  There is no third
    outcome: nothing is written outside the arrays and nothing is stuck. -/
theorem vm_bounds_are_errors (ops : List VmOp) :
    ∀ s : Vm, InBounds s →
      (∃ s', vmRun s ops = .ok s' ∧ InBounds s') ∨ (∃ w, vmRun s ops = .recovered w) := by
  induction ops with
  | nil => intro s hb; exact Or.inl ⟨s, rfl, hb⟩
  | cons o os ih =>
    intro s hb
    unfold vmRun
    cases hs : vmStep s o with
    | ok s' => exact ih s' (vmStep_inBounds s s' o hb hs)
    | recovered w => exact Or.inr ⟨w, rfl⟩

theorem init_inBounds : InBounds Vm.init := by
  unfold InBounds Vm.init maxStack maxFrames; simp

/-- exactly 1024 values fit; the 1025th push is the recovered error (not a crash) -/
example : vmStep ⟨1022, 0⟩ .push = .ok ⟨1023, 0⟩ := by decide
example : vmStep ⟨1023, 0⟩ .push = .recovered "index out of range (stack)" := by decide
example : vmStep ⟨5, 1022⟩ .call = .ok ⟨5, 1023⟩ := by decide
example : vmStep ⟨5, 1023⟩ .call = .recovered "index out of range (frames)" := by decide
example : vmRun Vm.init (List.replicate 20 .push ++ List.replicate 21 .pop) = .recovered "index out of range (stack)" := by decide
example : vmRun Vm.init [.pop] = .recovered "index out of range (stack)" := by decide

/-! ## Recover scopes: a Go panic on any goroutine a script can start stays an error -/

/-- recover_scopes_contain: for EVERY set of recovering functions that includes the three
    required ones (`runCodeInternal`, `Call`, `object.NewThread`), EVERY evaluation — entered
    through Run/RunCode or Call, with any main body and any number of thread bodies, each of
    which may raise a Go panic — leaves the process alive: each panic becomes the error of
    its own entry.  Quantifies over all scope lists, entries and bodies; the tie
    `recover_scopes_present` instantiates `scopes` with what the extractor reads from the
    code (`code_scopes_contain_panics`). -/
theorem recover_scopes_contain (scopes : List String)
    (h : requiredRecovers.all (scopes.contains ·) = true) (x : Exec) :
    x.killed scopes = false :=
  exec_not_killed scopes h x

/-- … in particular for every VM operation sequence run on a thread's fresh VM: either it
    stays inside the arrays, or the thread's result is the error `panic: index out of
    range …`; the process is never killed. -/
theorem thread_vm_panics_are_errors (ops : List VmOp) :
    enterImpl .thread (Body.ofVm (vmRun Vm.init ops)) = .value ∨
    ∃ w, enterImpl .thread (Body.ofVm (vmRun Vm.init ops)) = .error ("panic: " ++ w) := by
  cases h : vmRun Vm.init ops with
  | ok s => exact Or.inl rfl
  | recovered w => exact Or.inr ⟨w, by simp [Body.ofVm, enterImpl, enter, requiredRecovers, Entry.scope]⟩

/-- every one of the three scopes is needed: without a scope, a panic under the entry it
    guards kills the process (so the hypothesis of `recover_scopes_contain` cannot be
    weakened, and a `recover()` that no longer recovers — e.g. one moved out of the deferred
    closure into a helper — is a violation the harness must be able to exhibit). -/
theorem each_scope_needed (e : Entry) (w : String) :
    enter (requiredRecovers.filter (· != e.scope)) e (.panics w) = .killed w := by
  have h : (requiredRecovers.filter (· != e.scope)).contains e.scope = false := by
    cases e <;> decide
  show (if (requiredRecovers.filter (· != e.scope)).contains e.scope = true then
    ProcRes.error ("panic: " ++ w) else ProcRes.killed w) = ProcRes.killed w
  rw [h]; rfl

/-- the concrete shape of such a failure: main code that returns and one spawned thread in
    which a Go panic is raised (the frame array overrun by unbounded recursion); only
    `object.NewThread`'s scope is missing -/
example : (Exec.mk .run .returns [.panics "index out of range (frames)"]).killed
    ["vm.VirtualMachine.Call", "vm.VirtualMachine.runCodeInternal"] = true := by decide
/-- the same evaluation with all three scopes -/
example : (Exec.mk .run .returns [.panics "index out of range (frames)"]).killed requiredRecovers = false := by decide
-- 1024 nested calls on a thread's fresh VM are such a body
set_option maxRecDepth 20000 in
example : Body.ofVm (vmRun Vm.init (List.replicate 1024 .call)) = .panics "index out of range (frames)" := by decide
example : enterImpl .thread (.panics "x") = .error "panic: x" := by decide
example : enterImpl .run .returns = .value := by decide
example : requiredRecovers.all (requiredRecovers.contains ·) = true := by decide

/-! ## Native nesting of `vm.eval`: bounded by the frame array and by the call depth -/

/-- the part of the invariant that both machines (repaired and pre-fix) keep: every native
    activation holds a frame or is a `callFunction` in its deferred-call stage, and the frame
    index is inside the array -/
def Nest.Framed (s : Nest) : Prop := s.native ≤ s.fp + s.opened ∧ s.fp < maxFrames

/-- the invariant of the repaired machine: `Framed`, every deferred-call stage belongs to an
    open `callFunction`, and at most `maxCalls` of those are open -/
def Nest.Inv (s : Nest) : Prop := s.Framed ∧ s.opened ≤ s.calls ∧ s.calls ≤ maxCalls

theorem Nest.init_inv : Nest.init.Inv := by
  unfold Nest.Inv Nest.Framed Nest.init maxFrames maxCalls maxFrames; simp

/-- one step keeps `native ≤ fp + opened` and `fp < maxFrames`, with or without the depth test -/
theorem nestStepG_framed (checked : Bool) (limit : Nat) (s s' : Nest) (o : NOp)
    (hi : s.Framed) (h : nestStepG allBounded checked limit s o = .ok s') : s'.Framed := by
  obtain ⟨hi, hf⟩ := hi
  unfold Nest.Framed
  cases o with
  | enter r =>
    simp only [nestStepG, allBounded, Bool.true_and] at h
    split at h
    · cases h
    · by_cases c : s.fp + 1 < maxFrames
      · simp only [c, decide_true, Bool.not_true] at h
        by_cases c2 : s.native + 1 ≤ limit
        · simp only [c2, if_true] at h
          simp at h
          subst h
          exact ⟨by simp only; omega, c⟩
        · simp [c2] at h
      · simp [c] at h
  | leave =>
    simp only [nestStepG] at h
    split at h <;> cases h
    · exact ⟨by simp only; omega, by simp only; omega⟩
    · exact ⟨hi, hf⟩
  | exitDefers =>
    simp only [nestStepG] at h
    split at h <;> cases h
    · exact ⟨by simp only; omega, by simp only; omega⟩
    · exact ⟨hi, hf⟩
  | defersDone =>
    simp only [nestStepG] at h
    split at h <;> cases h
    · exact ⟨by simp only; omega, by simp only; omega⟩
    · exact ⟨hi, hf⟩
  | leaveMod =>
    simp only [nestStepG] at h
    split at h <;> cases h
    · exact ⟨by simp only; omega, by simp only; omega⟩
    · exact ⟨hi, hf⟩

/-- one step of the repaired machine keeps the whole invariant: a `callFunction` activation is
    added only while fewer than `maxCalls` are open -/
theorem nestStep_inv (limit : Nat) (s s' : Nest) (o : NOp)
    (hi : s.Inv) (h : nestStep limit s o = .ok s') : s'.Inv := by
  obtain ⟨hfr, ho, hc⟩ := hi
  refine ⟨nestStepG_framed true limit s s' o hfr h, ?_⟩
  cases o with
  | enter r =>
    simp only [nestStep, nestStepG, allBounded, Bool.true_and] at h
    split at h
    · cases h
    · rename_i hchk
      split at h
      · cases h
      · split at h
        · cases h
          cases hv : r.viaCallFunction
          · exact ⟨ho, hc⟩
          · simp only [hv, Bool.true_and, decide_eq_true_eq] at hchk
            simp only [if_true]
            exact ⟨by omega, by omega⟩
        · cases h
  | leave =>
    simp only [nestStep, nestStepG] at h
    split at h <;> cases h
    · exact ⟨by simp only; omega, by simp only; omega⟩
    · exact ⟨ho, hc⟩
  | exitDefers =>
    simp only [nestStep, nestStepG] at h
    split at h <;> cases h
    · exact ⟨by simp only; omega, hc⟩
    · exact ⟨ho, hc⟩
  | defersDone =>
    simp only [nestStep, nestStepG] at h
    split at h <;> cases h
    · exact ⟨by simp only; omega, by simp only; omega⟩
    · exact ⟨ho, hc⟩
  | leaveMod =>
    simp only [nestStep, nestStepG] at h
    split at h <;> cases h
    · exact ⟨ho, hc⟩
    · exact ⟨ho, hc⟩

/-- **`C03_partial_native` (unguarded since the repair of `C03-defer-recursion-stack-overflow`)**:
    for EVERY sequence of re-entries, exits and deferred-call stages (any length, any mix of the
    five ways compiled code is entered, deferred calls included), from every state that satisfies
    the invariant, and for EVERY native stack that holds `2 * maxFrames` activations of `vm.eval`
    (at most `maxFrames - 1` frames in use plus at most `maxCalls = maxFrames` open
    `callFunction` activations in their deferred-call stage), the run is never killed.  It stays
    inside the two bounds, or stops with the recoverable index panic or the returned
    `max call depth exceeded` error. -/
theorem C03_partial_native (limit : Nat) (hl : 2 * maxFrames ≤ limit) (ops : List NOp) :
    ∀ s : Nest, s.Inv → ∀ w, nestRun limit s ops ≠ .killed w := by
  induction ops with
  | nil => intro s _ w h; simp [nestRun, nestRunG] at h
  | cons o r ih =>
    intro s hi w
    show nestRunG allBounded true limit s (o :: r) ≠ .killed w
    simp only [nestRunG]
    have hstep : nestStepG allBounded true limit s o = nestStep limit s o := rfl
    cases hs : nestStepG allBounded true limit s o with
    | ok s' =>
      simp only
      exact ih s' (nestStep_inv limit s s' o hi (hstep ▸ hs)) w
    | recovered w' => simp
    | failed w' => simp
    | killed w' =>
      exfalso
      obtain ⟨⟨h1, h2⟩, h3, h4⟩ := hi
      cases o with
      | enter q =>
        simp only [nestStepG, allBounded, Bool.true_and] at hs
        split at hs
        · cases hs
        · by_cases c : s.fp + 1 < maxFrames
          · simp only [c, decide_true, Bool.not_true] at hs
            have c2 : s.native + 1 ≤ limit := by unfold maxCalls at h4; omega
            simp [c2] at hs
          · simp [c] at hs
      | leave => simp only [nestStepG] at hs; split at hs <;> cases hs
      | exitDefers => simp only [nestStepG] at hs; split at hs <;> cases hs
      | defersDone => simp only [nestStepG] at hs; split at hs <;> cases hs
      | leaveMod => simp only [nestStepG] at hs; split at hs <;> cases hs

/-- FULL statement: some finite goroutine stack is enough for every sequence. -/
def C03_full_native : Prop :=
  ∃ limit, ∀ (ops : List NOp) (w : String), nestRun limit Nest.init ops ≠ .killed w

/-- **The full statement holds** (it was false before the repair:
    `C03_fixed_native_was_unbounded`): a stack of `2 * maxFrames` activations is enough for
    everything a script can do. -/
theorem C03_native_never_killed : C03_full_native :=
  ⟨2 * maxFrames, fun ops w => C03_partial_native _ (Nat.le_refl _) ops Nest.init Nest.init_inv w⟩

/-- … and under every entry point, with the three recover scopes, every run is a value or an
    error for the host — never the death of the process (no guard on the sequence). -/
theorem nest_contained (limit : Nat) (hl : 2 * maxFrames ≤ limit) (ops : List NOp) (e : Entry) :
    (enterNest requiredRecovers e (nestRun limit Nest.init ops)).isKilled = false := by
  have h := C03_partial_native limit hl ops Nest.init Nest.init_inv
  cases hr : nestRun limit Nest.init ops with
  | ok s => rfl
  | recovered w =>
    simp only [enterNest]
    exact enter_not_killed requiredRecovers (by decide) e (.panics w)
  | failed w => rfl
  | killed w => exact absurd hr (h w)

/-! ### the finer bound by the number of deferred-call stages (both machines) -/

theorem peakOpen_ge (ops : List NOp) : ∀ o, o ≤ peakOpen o ops := by
  induction ops with
  | nil => intro o; exact Nat.le_refl _
  | cons op r _ =>
    intro o
    cases op <;> simp only [peakOpen] <;> exact Nat.le_max_left _ _

theorem peakOpen_mono (ops : List NOp) : ∀ o o', o ≤ o' → peakOpen o ops ≤ peakOpen o' ops := by
  induction ops with
  | nil => intro o o' h; exact h
  | cons op r ih =>
    intro o o' h
    cases op with
    | exitDefers =>
      simp only [peakOpen]
      have := ih (o + 1) (o' + 1) (by omega)
      omega
    | defersDone =>
      simp only [peakOpen]
      have := ih (o - 1) (o' - 1) (by omega)
      omega
    | enter q => simp only [peakOpen]; have := ih o o' h; omega
    | leave => simp only [peakOpen]; have := ih o o' h; omega
    | leaveMod => simp only [peakOpen]; have := ih o o' h; omega

/-- the `opened` counter after a step is at most what `peakOpen` continues with -/
theorem peakOpen_step (checked : Bool) (limit : Nat) (s s' : Nest) (o : NOp) (r : List NOp)
    (h : nestStepG allBounded checked limit s o = .ok s') :
    peakOpen s'.opened r ≤ peakOpen s.opened (o :: r) := by
  cases o with
  | enter q =>
    simp only [nestStepG] at h
    split at h
    · cases h
    · split at h
      · cases h
      · split at h
        · cases h; simp only [peakOpen]; exact Nat.le_max_right _ _
        · cases h
  | leave =>
    simp only [nestStepG] at h
    split at h <;> cases h <;> (simp only [peakOpen]; exact Nat.le_max_right _ _)
  | exitDefers =>
    simp only [nestStepG] at h
    split at h <;> cases h
    · simp only [peakOpen]; exact Nat.le_max_right _ _
    · simp only [peakOpen]
      have := peakOpen_mono r s.opened (s.opened + 1) (by omega)
      omega
  | defersDone =>
    simp only [nestStepG] at h
    split at h <;> cases h
    · simp only [peakOpen]; exact Nat.le_max_right _ _
    · rename_i hz
      have hz' : s.opened = 0 := by omega
      simp only [peakOpen, hz']
      exact Nat.le_max_right _ _
  | leaveMod =>
    simp only [nestStepG] at h
    split at h <;> cases h <;> (simp only [peakOpen]; exact Nat.le_max_right _ _)

/-- for EVERY sequence, from every framed state, on either machine: if the stack holds
    `maxFrames` activations plus as many as deferred-call stages are ever open at once
    (`peakOpen`, a decidable function of the sequence), the run is never killed.  This was the
    strongest true statement before the repair (`C03_preFix_partial_native`); on the repaired
    machine it is a finer bound than `C03_partial_native` for sequences with few stages. -/
theorem nest_peak_bound (checked : Bool) (limit : Nat) (ops : List NOp) :
    ∀ s : Nest, s.Framed → peakOpen s.opened ops + maxFrames ≤ limit →
      ∀ w, nestRunG allBounded checked limit s ops ≠ .killed w := by
  induction ops with
  | nil => intro s _ _ w h; simp [nestRunG] at h
  | cons o r ih =>
    intro s hi hp w
    simp only [nestRunG]
    cases hs : nestStepG allBounded checked limit s o with
    | ok s' =>
      simp only
      have hinv := nestStepG_framed checked limit s s' o hi hs
      have hpk := peakOpen_step checked limit s s' o r hs
      exact ih s' hinv (by omega) w
    | recovered w' => simp
    | failed w' => simp
    | killed w' =>
      exfalso
      have hge := peakOpen_ge (o :: r) s.opened
      obtain ⟨h1, h2⟩ := hi
      cases o with
      | enter q =>
        simp only [nestStepG, allBounded, Bool.true_and] at hs
        split at hs
        · cases hs
        · by_cases c : s.fp + 1 < maxFrames
          · simp only [c, decide_true, Bool.not_true] at hs
            have c2 : s.native + 1 ≤ limit := by omega
            simp [c2] at hs
          · simp [c] at hs
      | leave => simp only [nestStepG] at hs; split at hs <;> cases hs
      | exitDefers => simp only [nestStepG] at hs; split at hs <;> cases hs
      | defersDone => simp only [nestStepG] at hs; split at hs <;> cases hs
      | leaveMod => simp only [nestStepG] at hs; split at hs <;> cases hs

/-- … in particular without deferred-call stages: every stack that holds `maxFrames`
    activations is enough for EVERY sequence of calls, callbacks of builtins, host calls and
    imports, however they are mixed — recursion through a builtin's callback is stopped by
    the frame array exactly as recursion through the Call opcode is. -/
theorem native_bounded_by_frames (limit : Nat) (hl : maxFrames ≤ limit) (ops : List NOp)
    (hg : peakOpen 0 ops = 0) (w : String) : nestRun limit Nest.init ops ≠ .killed w := by
  apply nest_peak_bound true limit ops Nest.init
  · unfold Nest.Framed Nest.init maxFrames; simp
  · show peakOpen 0 ops + maxFrames ≤ limit
    omega

/-- the repair changes nothing for nesting that grows the frame index: on every sequence without
    a deferred-call stage (calls, callbacks of builtins, host calls, imports, their exits) the
    repaired machine and the pre-fix machine do the same, step by step — the frame array ends
    such recursion first, with the same recovered index panic as before. -/
theorem repair_unchanged_without_defer_stages (limit : Nat) (ops : List NOp) :
    ∀ s : Nest, s.opened = 0 → s.calls ≤ s.fp → s.fp < maxFrames → peakOpen 0 ops = 0 →
      nestRun limit s ops = preFixNestRun limit s ops := by
  induction ops with
  | nil => intro s _ _ _ _; rfl
  | cons o r ih =>
    intro s h0 hc hf hp
    show nestRunG allBounded true limit s (o :: r) = nestRunG allBounded false limit s (o :: r)
    have hstep : nestStepG allBounded true limit s o = nestStepG allBounded false limit s o := by
      cases o with
      | enter q =>
        have : decide (maxCalls ≤ s.calls) = false := by
          unfold maxCalls; simp only [decide_eq_false_iff_not]; omega
        simp [nestStepG, this]
      | leave => rfl
      | exitDefers => rfl
      | defersDone => rfl
      | leaveMod => rfl
    simp only [nestRunG, hstep]
    cases hs : nestStepG allBounded false limit s o with
    | ok s' =>
      simp only
      have hr : peakOpen 0 r = 0 ∧ o ≠ .exitDefers := by
        cases o with
        | exitDefers =>
          simp only [peakOpen] at hp
          have := peakOpen_ge r (0 + 1)
          exfalso; omega
        | defersDone => simp only [peakOpen, Nat.zero_sub] at hp; exact ⟨by omega, by simp⟩
        | enter q => simp only [peakOpen] at hp; exact ⟨by omega, by simp⟩
        | leave => simp only [peakOpen] at hp; exact ⟨by omega, by simp⟩
        | leaveMod => simp only [peakOpen] at hp; exact ⟨by omega, by simp⟩
      have hs' : s'.opened = 0 ∧ s'.calls ≤ s'.fp ∧ s'.fp < maxFrames := by
        cases o with
        | enter q =>
          simp only [nestStepG, allBounded, Bool.true_and, Bool.false_and] at hs
          by_cases c : s.fp + 1 < maxFrames
          · simp only [c, decide_true, Bool.not_true] at hs
            split at hs
            · cases hs
            · split at hs
              · cases hs
                refine ⟨h0, ?_, c⟩
                cases q <;> simp [Reentry.viaCallFunction] <;> omega
              · cases hs
          · simp [c] at hs
        | leave =>
          simp only [nestStepG] at hs
          split at hs <;> cases hs
          · exact ⟨h0, by simp only; omega, by simp only; omega⟩
          · exact ⟨h0, hc, hf⟩
        | exitDefers => exact absurd rfl hr.2
        | defersDone =>
          simp only [nestStepG] at hs
          split at hs <;> cases hs
          · omega
          · exact ⟨h0, hc, hf⟩
        | leaveMod =>
          simp only [nestStepG] at hs
          split at hs <;> cases hs
          · exact ⟨h0, by simp only; omega, by simp only; omega⟩
          · exact ⟨h0, hc, hf⟩
      exact ih s' hs'.1 hs'.2.1 hs'.2.2 hr.1
    | recovered w' => rfl
    | failed w' => rfl
    | killed w' => rfl

/-! ### recursion through `defer` alone: stopped by the call depth; before the repair, by nothing -/

/-- the rounds of a recursion through `defer` alone on the repaired machine: the frame index
    swings between 0 and 1, one native activation and one `callFunction` activation are added per
    round, and the round that finds `maxCalls` of them open is refused -/
theorem deferRounds_fail (limit : Nat) (n : Nat) :
    ∀ k o c, o < c → c ≤ maxCalls → k + (maxCalls - c) ≤ limit → maxCalls - c < n →
      nestRun limit ⟨1, k, o, c⟩ (deferRounds n) = .failed "max call depth exceeded" := by
  induction n with
  | zero => intro k o c _ _ _ h; omega
  | succ n ih =>
    intro k o c h1 h2 h3 h4
    show nestRunG allBounded true limit ⟨1, k, o, c⟩ (.exitDefers :: .enter .deferred :: deferRounds n) = _
    have hm : (0 : Nat) + 1 < maxFrames := by unfold maxFrames; omega
    by_cases cc : maxCalls ≤ c
    · simp [nestRunG, nestStepG, Reentry.viaCallFunction, h1, cc]
    · have hk : k + 1 ≤ limit := by omega
      have := ih (k + 1) (o + 1) (c + 1) (by omega) (by omega) (by omega) (by omega)
      simp only [nestRunG, nestStepG, allBounded, Reentry.viaCallFunction, Bool.true_and, h1, if_true,
        cc, decide_false, Bool.false_eq_true, if_false, Nat.sub_self, hm, decide_true, Bool.not_true, hk]
      simpa [nestRun] using this

/-- `func w(x) { defer w(x+1) }; w(0)` on the repaired machine: on every stack that holds
    `maxFrames` activations, `maxFrames` or more rounds end with the returned error
    `max call depth exceeded` — an ordinary evaluation error, not the death of the process. -/
theorem pure_defer_recursion_fails (limit : Nat) (hl : maxFrames ≤ limit) (n : Nat) (hn : maxFrames ≤ n) :
    nestRun limit Nest.init (pureDeferRecursion n) = .failed "max call depth exceeded" := by
  show nestRunG allBounded true limit Nest.init (.enter .callOp :: deferRounds n) = _
  have hm : (0 : Nat) + 1 < maxFrames := by unfold maxFrames; omega
  have hz : ¬ maxCalls ≤ 0 := by unfold maxCalls maxFrames; omega
  have h1 : 0 + 1 ≤ limit := by unfold maxFrames at hl; omega
  have := deferRounds_fail limit n 1 0 1 (by omega) (by unfold maxCalls maxFrames; omega)
    (by unfold maxCalls; omega) (by unfold maxCalls; omega)
  simp only [nestRunG, nestStepG, allBounded, Reentry.viaCallFunction, Bool.true_and, Nest.init, hz,
    decide_false, Bool.false_eq_true, if_false, hm, decide_true, Bool.not_true, h1, if_true]
  simpa [nestRun] using this

/-- HISTORICAL — the rounds of a recursion through `defer` alone on the pre-fix machine: the
    frame index swings between 0 and 1 while one native activation is added per round, until
    the stack limit is passed -/
theorem preFix_deferRounds_kill (limit : Nat) (n : Nat) :
    ∀ k o c, o < c → k ≤ limit → limit < k + n →
      preFixNestRun limit ⟨1, k, o, c⟩ (deferRounds n) = .killed "stack overflow" := by
  induction n with
  | zero => intro k o c _ h1 h2; omega
  | succ n ih =>
    intro k o c h0 h1 h2
    show nestRunG allBounded false limit ⟨1, k, o, c⟩ (.exitDefers :: .enter .deferred :: deferRounds n) = _
    have hm : (0 : Nat) + 1 < maxFrames := by unfold maxFrames; omega
    by_cases cc : k + 1 ≤ limit
    · have := ih (k + 1) (o + 1) (c + 1) (by omega) cc (by omega)
      simp only [nestRunG, nestStepG, allBounded, Reentry.viaCallFunction, Bool.true_and, Bool.false_and,
        h0, if_true, Bool.false_eq_true, if_false, hm, decide_true, Bool.not_true, Nat.sub_self, cc]
      simpa [preFixNestRun] using this
    · simp [nestRunG, nestStepG, allBounded, h0, hm, cc]

/-- HISTORICAL (`C03_fixed_…`: the defect `C03-defer-recursion-stack-overflow` as it was) —
    `func w(x) { defer w(x+1) }; w(0)` on the pre-fix machine: whatever the stack limit,
    `limit + 1` rounds pass it — the frame index never gets past 1, so the frame array never
    ends the recursion, and nothing else did. -/
theorem C03_fixed_pure_defer_recursion_killed (limit : Nat) :
    preFixNestRun limit Nest.init (pureDeferRecursion (limit + 1)) = .killed "stack overflow" := by
  show nestRunG allBounded false limit Nest.init (.enter .callOp :: deferRounds (limit + 1)) = _
  have hm : (0 : Nat) + 1 < maxFrames := by unfold maxFrames; omega
  by_cases c : 0 + 1 ≤ limit
  · have := preFix_deferRounds_kill limit (limit + 1) 1 0 1 (by omega) c (by omega)
    simp only [nestRunG, nestStepG, allBounded, Reentry.viaCallFunction, Bool.true_and, Bool.false_and,
      Nest.init, Bool.false_eq_true, if_false, hm, decide_true, Bool.not_true, c, if_true]
    simpa [preFixNestRun] using this
  · simp [nestRunG, nestStepG, allBounded, Nest.init, hm, c]

/-- HISTORICAL — before the repair the full statement was false: no finite stack was enough. -/
theorem C03_fixed_native_was_unbounded :
    ¬ ∃ limit, ∀ (ops : List NOp) (w : String), preFixNestRun limit Nest.init ops ≠ .killed w := by
  intro ⟨limit, h⟩
  exact h _ _ (C03_fixed_pure_defer_recursion_killed limit)

/-- HISTORICAL — the strongest true statement before the repair (was `C03_partial_native`): the
    pre-fix machine is never killed when the stack allows `maxFrames + peakOpen`. -/
theorem C03_preFix_partial_native (limit : Nat) (ops : List NOp) :
    ∀ s : Nest, s.Framed → peakOpen s.opened ops + maxFrames ≤ limit →
      ∀ w, preFixNestRun limit s ops ≠ .killed w :=
  nest_peak_bound false limit ops

/-- every way of entering compiled code needs one of the two bounds: if entering through `r`
    does not index the fixed array (say the frames become a slice that grows, and the depth is
    tested on another path only) and does not pass the depth test of `callFunction` either (a
    module body; or the test is gone), then for EVERY stack limit `limit + 1` nested entries
    through `r` end the process. -/
theorem each_reentry_needs_bound (bounded : Reentry → Bool) (checked : Bool) (r : Reentry)
    (hr : bounded r = false) (hc : (checked && r.viaCallFunction) = false) (limit : Nat) :
    ∀ s : Nest, s.native ≤ limit → ∀ n, limit < s.native + n →
      nestRunG bounded checked limit s (List.replicate n (.enter r)) = .killed "stack overflow" := by
  intro s hs n
  induction n generalizing s with
  | zero => intro h; omega
  | succ n ih =>
    intro h
    simp only [List.replicate, nestRunG, nestStepG, hr, hc, Bool.false_and]
    by_cases c : s.native + 1 ≤ limit
    · simp only [Bool.false_eq_true, if_false, c, if_true]
      exact ih ⟨s.fp + 1, s.native + 1, s.opened, _⟩ c (by simp only; omega)
    · simp [c]

-- recursion through a callback is stopped at the end of the array, like recursion through Call
set_option maxRecDepth 20000 in
example : nestRun 100000 Nest.init (List.replicate 1024 (.enter .callback))
    = .recovered "index out of range (frames)" := by decide
example : nestRun 5000 Nest.init (List.replicate 3 (.enter .callback) ++ List.replicate 3 .leave)
    = .ok ⟨0, 0, 0, 0⟩ := by decide
example : peakOpen 0 (List.replicate 3 (.enter .callback) ++ List.replicate 3 .leave) = 0 := by decide
-- a function with a deferred call, called in a loop: one stage open at a time, the counter returns to 0
example : peakOpen 0 [.enter .callOp, .exitDefers, .enter .deferred, .leave, .defersDone,
    .enter .callOp, .exitDefers, .enter .deferred, .leave, .defersDone] = 1 := by decide
example : nestRun 5000 Nest.init [.enter .callOp, .exitDefers, .enter .deferred, .leave, .defersDone,
    .enter .callOp, .exitDefers, .enter .deferred, .leave, .defersDone] = .ok ⟨0, 0, 0, 0⟩ := by decide
-- an import with a call inside, both ended
example : nestRun 5000 Nest.init [.enter .importMod, .enter .callOp, .leave, .leaveMod] = .ok ⟨0, 0, 0, 0⟩ := by decide
example : peakOpen 0 (pureDeferRecursion 7) = 7 := by decide
-- the same recursion on the two machines (small stack): refused / killed
example : preFixNestRun 10 Nest.init (pureDeferRecursion 11) = .killed "stack overflow" := by decide
example : nestRun 5000 ⟨1, 1018, 1017, 1018⟩ (deferRounds 7) = .failed "max call depth exceeded" := by decide
-- `func a(x) { defer b(x) }; func b(x) { a(x+1) }`: one frame and two calls per round — near the
-- end of the array it is the array that ends it, after 512 rounds from the start the call depth
example : nestRun 10 ⟨1022, 0, 0, 0⟩ [.enter .callOp, .exitDefers, .enter .deferred, .enter .callOp]
    = .recovered "index out of range (frames)" := by decide
example : nestRun 10 ⟨511, 0, 511, 1022⟩ [.enter .callOp, .exitDefers, .enter .deferred, .enter .callOp]
    = .failed "max call depth exceeded" := by decide
-- the hypotheses of the theorems are satisfiable by non-trivial states
example : (⟨511, 1022, 511, 1022⟩ : Nest).Inv := by
  unfold Nest.Inv Nest.Framed maxCalls maxFrames; simp

/-! ## The importer's mutex -/

theorem muPath_lock_defer : muPath false [.lock, .deferUnlock] = .done false := rfl

/-- **`balanced_paths_never_fatal`**: for EVERY assignment of mutex events to the four paths of
    `Import` that leaves the mutex free on each of them, EVERY sequence of `Import` calls — any
    names, any state of each file at the time of its call, any length — returns exactly what
    the mutex-free Spec returns (a module when cached or compilable, else an error) and leaves
    the mutex free: no call ends the process, none blocks. -/
theorem balanced_paths_never_fatal (paths : Paths)
    (hb : ∀ c f, muPath false (paths c f) = .done false) (steps : List (String × FileSt)) :
    ∀ s : Imp, s.held = false →
      ∃ s', importSeq paths s steps = .ok (specSeq s.cache steps) s' ∧ s'.held = false := by
  induction steps with
  | nil => intro s h; exact ⟨s, rfl, h⟩
  | cons st rest ih =>
    intro s h
    obtain ⟨n, f⟩ := st
    have hs : s = ⟨s.cache, false⟩ := by cases s; simp_all
    simp only [importSeq, importOne, specSeq, h, hb]
    by_cases c : s.cache.contains n = true
    · simp only [c, if_true]
      obtain ⟨s', h1, h2⟩ := ih { s with held := false } rfl
      simp only at h1
      rw [h1]
      exact ⟨s', rfl, h2⟩
    · simp only [c, Bool.false_eq_true, if_false]
      cases f with
      | missing =>
        obtain ⟨s', h1, h2⟩ := ih { s with held := false } rfl
        simp only at h1 ⊢
        rw [h1]; exact ⟨s', rfl, h2⟩
      | bad =>
        obtain ⟨s', h1, h2⟩ := ih { s with held := false } rfl
        simp only at h1 ⊢
        rw [h1]; exact ⟨s', rfl, h2⟩
      | good =>
        obtain ⟨s', h1, h2⟩ := ih ⟨n :: s.cache, false⟩ rfl
        simp only at h1 ⊢
        rw [h1]; exact ⟨s', rfl, h2⟩

/-- **`import_never_fatal`** (the code as it is: `Lock(); defer Unlock()` on every path): every
    sequence of `Import` calls on a fresh or used importer returns what the Spec returns; the
    process is never terminated by the mutex, whatever the module files contain. -/
theorem import_never_fatal (steps : List (String × FileSt)) (s : Imp) (h : s.held = false) :
    ∃ s', importSeq implPaths s steps = .ok (specSeq s.cache steps) s' ∧ s'.held = false :=
  balanced_paths_never_fatal implPaths (fun _ _ => rfl) steps s h

/-- a module whose source does not parse or compile is an ERROR of that `Import` call and
    nothing else: the importer is exactly as it was (nothing cached, mutex free) -/
theorem import_bad_module_is_error (s : Imp) (n : String) (h : s.held = false)
    (hc : s.cache.contains n = false) :
    importOne implPaths s n .bad = .ret (.error "parse or compile error") s := by
  cases s with
  | mk cache held =>
    simp only at h hc
    subst h
    have hm : n ∉ cache := by simpa using hc
    simp [importOne, implPaths, muPath, muRun, muReturn, hm]

/-- why the discipline matters: with the lock released by hand around parseAndCompile and the
    early return for a compile error taken before the lock is re-acquired, the first import of
    a module that does not compile ends the process, for every importer state and name … -/
theorem unbalanced_error_path_kills (s : Imp) (n : String) (h : s.held = false)
    (hc : s.cache.contains n = false) :
    importOne unbalancedPaths s n .bad = .fatal "sync: unlock of unlocked mutex" := by
  have hm : n ∉ s.cache := by simpa using hc
  simp [importOne, unbalancedPaths, muPath, muRun, muReturn, hm, h]

/-- … while modules that compile, cached modules and missing modules behave as before, which
    is why only a search that imports BROKEN modules can see it. -/
theorem unbalanced_other_paths_return (s : Imp) (n : String) (f : FileSt) (h : s.held = false)
    (hf : s.cache.contains n = true ∨ f ≠ .bad) :
    importOne unbalancedPaths s n f = importOne implPaths s n f := by
  cases s with
  | mk cache held =>
    simp only at h hf
    subst h
    by_cases c : n ∈ cache
    · simp [importOne, unbalancedPaths, implPaths, muPath, muRun, muReturn, c]
    · cases f with
      | bad => simp [c] at hf
      | missing => simp [importOne, unbalancedPaths, implPaths, muPath, muRun, muReturn, c]
      | good => simp [importOne, unbalancedPaths, implPaths, muPath, muRun, muReturn, c]

example : importSeq implPaths Imp.init [("a", .good), ("b", .bad), ("a", .missing), ("b", .good), ("c", .missing)]
    = .ok [.module, .error "parse or compile error", .module, .module, .error "import error: module not found"]
        ⟨["b", "a"], false⟩ := by decide
example : importSeq unbalancedPaths Imp.init [("a", .good), ("b", .bad), ("a", .good)]
    = .fatal 1 "sync: unlock of unlocked mutex" := by decide
example : muPath false [.lock, .lock] = .blocked := rfl
example : muPath false [.lock, .deferUnlock, .deferUnlock] = .fatal "sync: unlock of unlocked mutex" := rfl

/-! ## Inspect terminates on every heap; Equals does not -/

/-- With `u` containers not yet being inspected, recursion depth `u + 1` suffices: the
    measure "number of clear `inspectActive` flags" drops at every nested container. -/
theorem inspect_fuel_suffices (h : Heap) (f : Nat) :
    ∀ (act : List Bool) (v : Val), act.length = h.length → unvisited act < f →
      (inspect h f act v).isSome = true := by
  induction f with
  | zero => intro act v _ hu; omega
  | succ f ih =>
    intro act v hl hu
    cases v with
    | int n => simp [inspect]
    | ref k =>
      unfold inspect
      cases hk : h[k]? with
      | none => rfl
      | some c =>
        simp only
        by_cases hact : act.getD k false = true
        · rw [if_pos hact]; rfl
        · rw [if_neg hact]
          have hklt : k < h.length := by
            rcases Nat.lt_or_ge k h.length with hlt | hge
            · exact hlt
            · rw [List.getElem?_eq_none hge] at hk; cases hk
          have hget : act[k]? = some false := by
            have hk2 : k < act.length := by omega
            rw [List.getD_eq_getElem?_getD, List.getElem?_eq_getElem hk2] at hact
            rw [List.getElem?_eq_getElem hk2]
            simp at hact
            simp [hact]
          have hcnt := count_false_set act k hget
          have hu' : unvisited (act.set k true) < f := by unfold unvisited at *; omega
          have hl' : (act.set k true).length = h.length := by simp [hl]
          cases c with
          | list items =>
            simp only [Option.isSome_map]
            exact mapOpt_isSome _ _ (fun x _ => ih _ x hl' hu')
          | map es =>
            simp only [Option.isSome_map]
            exact mapOpt_isSome _ _ (fun x _ => by
              simp only [Option.isSome_map]; exact ih _ x.2 hl' hu')

/-- inspect_terminates: on EVERY heap — any number of containers, any cycles, self
    references, shared sub-structures — `Inspect` of any value returns a string within a
    recursion depth of (number of containers + 1). -/
theorem inspect_terminates (h : Heap) (v : Val) : (inspectTop h v).isSome = true := by
  unfold inspectTop
  apply inspect_fuel_suffices
  · simp
  · unfold unvisited; simp

/-- the heap `a = [a]` (what `a := [1]; a[0] = a` or `a.append(a)` builds) -/
def selfList : Heap := [.list [.ref 0]]

example : inspectTop selfList (.ref 0) = some "[[...]]" := by decide

/-- FULL statement (false): comparing two values needs only finitely much native stack. -/
def C03_full_equals : Prop := ∀ (h : Heap) (a b : Val), ∃ n, equalsF h n a b ≠ .overflow

/-- equals_needs_fuel: on `a = [a]`, `a == a` exhausts EVERY amount of stack — the
    termination proof that cannot be given. -/
theorem equals_needs_fuel (n : Nat) : equalsF selfList n (.ref 0) (.ref 0) = .overflow := by
  induction n with
  | zero => rfl
  | succ n ih => unfold selfList at ih; simp [equalsF, selfList, allEq, ih]

/-- COUNTEREXAMPLE to the full statement -/
theorem C03_counterexample_equals : ¬ C03_full_equals := by
  intro h
  obtain ⟨n, hn⟩ := h selfList (.ref 0) (.ref 0)
  exact hn (equals_needs_fuel n)

/-- PARTIAL: on every heap without cycles (container k refers only to containers below k —
    any depth, any size, any sharing) `Equals` returns with recursion depth ≤ rank + 1. -/
theorem C03_partial_equals (h : Heap) (hr : ranked 0 h = true) :
    ∀ (n : Nat) (a b : Val), rank a < n → equalsF h n a b ≠ .overflow := by
  have hR : ∀ k c, h[k]? = some c → contBelow k c = true := by
    intro k c hc
    have := ranked_sound_aux h 0 hr k c hc
    simpa using this
  intro n
  induction n with
  | zero => intro a b hlt; omega
  | succ n ih =>
    intro a b hlt
    cases a with
    | int x =>
      cases b with
      | int y => simp only [equalsF]; split <;> simp
      | ref j => simp [equalsF]
    | ref i =>
      cases b with
      | int y => simp [equalsF]
      | ref j =>
        simp only [equalsF]
        split
        · rename_i xs ys hx hy
          split
          · simp
          · apply allEq_no_overflow
            intro x hxm y
            apply ih
            have hb := hR i _ hx
            simp only [contBelow, List.all_eq_true] at hb
            have := hb x hxm
            simp only [rank] at hlt
            cases x with
            | int _ => simp [rank]; omega
            | ref q => simp only [valBelow, decide_eq_true_eq] at this; simp only [rank]; omega
        · simp

/-- a deep acyclic heap satisfies the guard; the self-referential one does not -/
example : ranked 0 [.list [.int 1], .list [.ref 0, .ref 0], .list [.ref 1, .int 2]] = true := by decide
example : ranked 0 selfList = false := by decide
example : equalsImpl selfList (.ref 0) (.ref 0) = .overflow := by decide
example : equalsImpl [.list [.int 1], .list [.int 1]] (.ref 0) (.ref 1) = .t := by decide

/-! ## The loops of parseSwitch (finding C03-switch-error-loop, repaired)

`Parser.nextToken` returns without advancing once `p.err` is set.  A loop that tests only the
current/peek token therefore never ends after an error.  Two loops of `parseSwitch` did that
until the repair `fix: stop parsing a switch statement once a parse error is recorded`: the
comma loop of a case list (`switch 5 {⏎case go 0, 10:⏎ 1⏎}`) and the outer loop over the
cases (`switch 1 {⏎case case:⏎}`).  Both now look at the result of `nextToken`. -/

/-- `parseExpression` never un-records an error, leaves an erroring parser where it is, and
    never puts tokens back -/
def WellBehaved (pe : PSt → PSt) : Prop :=
  ∀ s, (s.err = true → pe s = s) ∧ (pe s).toks.length ≤ s.toks.length

/-- **`caseLoop_terminates`**: the comma loop of a case list ends on EVERY token stream, with
    or without a recorded error, whatever `parseExpression` does to the error flag, as long
    as it does not put tokens back: at most one round per remaining token. -/
theorem caseLoop_terminates (pe : PSt → PSt)
    (hpe : ∀ s, (pe s).toks.length ≤ s.toks.length) (f : Nat) :
    ∀ s : PSt, s.toks.length < f → caseLoop pe f s ≠ none := by
  induction f with
  | zero => intro s h; omega
  | succ f ih =>
    intro s hl
    simp only [caseLoop]
    split
    · rename_i hc
      split
      · simp
      · split
        · simp
        · rename_i he1 he2
          apply ih
          have hlen : s.next.next.toks.length < s.toks.length := by
            cases hs : s.toks with
            | nil => rw [hs] at hc; simp at hc
            | cons t ts =>
              have e1 : s.err = false := by
                cases h : s.err with
                | false => rfl
                | true => simp [PSt.next, h] at he1
              simp [PSt.next, e1, hs]
              omega
          have := hpe s.next.next
          omega
    · simp

/-- … and when an error is recorded and a comma follows — the situation in which the loop
    used to spin — it is over after ONE test of `nextToken`'s result, in the same state,
    error still recorded (parseSwitch returns nil, Parse reports `p.err`). -/
theorem caseLoop_error_stops (pe : PSt → PSt) (f : Nat) (s : PSt) (he : s.err = true) :
    caseLoop pe (f + 1) s = some s := by
  have hn : s.next = s := by simp [PSt.next, he]
  simp only [caseLoop, hn, he, if_true]
  split <;> rfl

/-- the loop never loses a recorded error: whatever state it ends in, if `parseExpression`
    keeps errors, an error recorded before the loop (the first expression of the list
    failed) is still recorded after it -/
theorem caseLoop_keeps_error (pe : PSt → PSt) (f : Nat) (s r : PSt) (he : s.err = true)
    (h : caseLoop pe f s = some r) : r.err = true := by
  cases f with
  | zero => simp [caseLoop] at h
  | succ f => rw [caseLoop_error_stops pe f s he] at h; cases h; exact he

/-- The statement that was false before the repair (then `def C03_full_caseLoop : Prop` with
    the counterexample `caseLoop_diverges`), now a theorem: the loop over `case a, b, c:`
    always ends. -/
theorem C03_full_caseLoop :
    ∀ (pe : PSt → PSt) (s : PSt), WellBehaved pe → ∃ f, caseLoop pe f s ≠ none :=
  fun pe s hpe => ⟨s.toks.length + 1,
    caseLoop_terminates pe (fun t => (hpe t).2) _ s (Nat.lt_succ_self _)⟩

/-- `switch 5 {⏎case go 0, 10:⏎ 1⏎}` after the failed `go 0`: an error and `, 10 :` -/
example : caseLoop id 1 ⟨[.comma, .other, .colon], true⟩ = some ⟨[.comma, .other, .colon], true⟩ := by decide
example : caseLoop id 10 ⟨[.comma, .other, .comma, .other, .other], false⟩ = some ⟨[.other], false⟩ := by decide
/-- the second expression of three fails (`pe` records an error at the second call) -/
example : caseLoop (fun s => if s.toks.length = 3 then { s with err := true } else s) 10
    ⟨[.comma, .other, .comma, .other, .comma, .other, .colon], false⟩
    = some ⟨[.comma, .other, .colon], true⟩ := by decide

/-- **The repair changes nothing for a case list whose expressions parse.**  As long as
    `parseExpression` records no error, the repaired loop computes what the old one computed,
    for every token stream and every fuel. -/
theorem caseLoop_unchanged_without_error (pe : PSt → PSt)
    (hpe : ∀ s, s.err = false → (pe s).err = false) (f : Nat) :
    ∀ s : PSt, s.err = false → caseLoop pe f s = preFixCaseLoop pe f s := by
  induction f with
  | zero => intro s _; rfl
  | succ f ih =>
    intro s he
    have hn1 : s.next = { s with toks := s.toks.tail } := by simp [PSt.next, he]
    have hne : s.next.err = false := by rw [hn1]; exact he
    have hn2 : s.next.next.err = false := by simp [PSt.next, he]
    simp only [caseLoop, preFixCaseLoop, hne, hn2]
    split
    · exact ih _ (hpe _ hn2)
    · rfl

/-! ### The outer loop over the cases -/

/-- HEAD and BLOCK never put tokens back -/
def NoPutBack (g : PSt → Part) : Prop :=
  ∀ s s', g s = .goes s' → s'.toks.length ≤ s.toks.length

/-- **`switchLoop_terminates`**: the outer loop of parseSwitch ends on EVERY token stream,
    error recorded or not, for every HEAD and BLOCK that do not put tokens back: every round
    that does not return has passed a `nextToken` that advanced. -/
theorem switchLoop_terminates (head block : PSt → Part)
    (hh : NoPutBack head) (hb : NoPutBack block) (f : Nat) :
    ∀ s : PSt, s.toks.length < f → switchLoop head block f s ≠ none := by
  induction f with
  | zero => intro s h; omega
  | succ f ih =>
    intro s hl
    simp only [switchLoop]
    split
    · simp
    · split
      · simp
      · rename_i hne
        split
        · simp
        · rename_i s1 h1
          split
          · simp
          · rename_i he
            split
            · simp
            · rename_i s2 h2
              apply ih
              have l1 := hh s s1 h1
              have l2 := hb s1.next s2 h2
              have e1 : s1.err = false := by
                cases h : s1.err with
                | false => rfl
                | true => simp [PSt.next, h] at he
              have l3 : s1.next.toks.length < s.toks.length := by
                have hpos : 0 < s.toks.length := by
                  cases hs : s.toks with
                  | nil => exact absurd hs hne
                  | cons t ts => simp
                simp [PSt.next, e1]
                omega
              omega

/-- a round whose HEAD leaves an error recorded is the last one: the loop is over right
    after HEAD, in HEAD's state (parseSwitch returns nil, Parse reports `p.err`) -/
theorem switchLoop_error_stops (head block : PSt → Part) (f : Nat) (s s1 : PSt)
    (h0 : s.toks.head? ≠ some Tk.rbrace) (h1 : s.toks ≠ [])
    (hh : head s = .goes s1) (he : s1.err = true) :
    switchLoop head block (f + 1) s = some s1 := by
  have hn : s1.next = s1 := by simp [PSt.next, he]
  simp only [switchLoop, if_neg h0, if_neg h1, hh, hn, he, if_true]

/-- `switch 1 {⏎case case:⏎}` from the first `case` on -/
def caseCaseToks : List Tk := [.kwCase, .kwCase, .colon, .other, .rbrace]

/-- the repaired loop ends in its first round, error recorded -/
example : switchLoop caseCaseHead emptyBlock 1 ⟨caseCaseToks, false⟩
    = some ⟨[.kwCase, .colon, .other, .rbrace], true⟩ := by decide
/-- a switch with two empty cases and no error: `case x: case x: }` (three rounds of fuel) -/
example : switchLoop (fun s => .goes { s with toks := s.toks.drop 2 }) emptyBlock 3
    ⟨[.kwCase, .other, .colon, .kwCase, .other, .colon, .rbrace], false⟩
    = some ⟨[.rbrace], false⟩ := by decide

/-! ### Historical: the two loops before the repair -/

/-- the full statement about the PRE-FIX comma loop (false): it always ends. -/
def C03_preFix_full_caseLoop : Prop :=
  ∀ (pe : PSt → PSt) (s : PSt), WellBehaved pe → ∃ f, preFixCaseLoop pe f s ≠ none

/-- HISTORICAL: with an error recorded and a comma as the next token the pre-fix loop never
    ended, whatever the fuel: `nextToken` does not advance, the comma stays, one nil is
    appended per round. -/
theorem preFixCaseLoop_diverges (pe : PSt → PSt) (hpe : WellBehaved pe) (f : Nat) :
    ∀ s : PSt, s.err = true → s.toks.head? = some Tk.comma → preFixCaseLoop pe f s = none := by
  induction f with
  | zero => intro s _ _; rfl
  | succ f ih =>
    intro s he hc
    have hn : s.next = s := by simp [PSt.next, he]
    simp only [preFixCaseLoop, hc, if_true, hn, (hpe s).1 he]
    exact ih s he hc

/-- HISTORICAL (finding `C03-switch-error-loop`, repaired; `switch 5 { case go 0, 10: … }`:
    the first expression fails, a comma follows): the pre-fix comma loop did not end. -/
theorem C03_fixed_caseLoop_diverged : ¬ C03_preFix_full_caseLoop := by
  intro h
  have wb : WellBehaved id := fun s => ⟨fun _ => rfl, Nat.le_refl _⟩
  obtain ⟨f, hf⟩ := h id ⟨[Tk.comma], true⟩ wb
  exact hf (preFixCaseLoop_diverges id wb f _ rfl rfl)

/-- HISTORICAL: what could be proved of the pre-fix comma loop — as long as no expression of
    the list failed to parse it ended after at most one round per remaining token. -/
theorem C03_preFix_partial_caseLoop (pe : PSt → PSt)
    (hpe : ∀ s, s.err = false → (pe s).err = false ∧ (pe s).toks.length ≤ s.toks.length) (f : Nat) :
    ∀ s : PSt, s.err = false → s.toks.length < f → preFixCaseLoop pe f s ≠ none := by
  induction f with
  | zero => intro s _ h; omega
  | succ f ih =>
    intro s he hl
    simp only [preFixCaseLoop]
    split
    · rename_i hc
      have hn1 : s.next = { s with toks := s.toks.tail } := by simp [PSt.next, he]
      have hne : s.next.err = false := by rw [hn1]; exact he
      have hn2 : s.next.next = { s with toks := s.toks.tail.tail } := by
        rw [hn1]; simp [PSt.next, he]
      have hlen : s.next.next.toks.length < f := by
        rw [hn2]
        cases hs : s.toks with
        | nil => rw [hs] at hc; simp at hc
        | cons t ts => rw [hs] at hl; simp at hl ⊢; omega
      have hne2 : s.next.next.err = false := by rw [hn2]; exact he
      have := hpe s.next.next hne2
      exact ih _ this.1 (by omega)
    · simp

/-- the state in which the pre-fix outer loop spun on `switch 1 {⏎case case:⏎}`: the error
    recorded, the current token still the second `case`, `:` behind it -/
def caseCaseStuck : PSt := ⟨[.kwCase, .colon, .other, .rbrace], true⟩

theorem preFixSwitchLoop_stuck (f : Nat) :
    preFixSwitchLoop caseCaseHead emptyBlock f caseCaseStuck = none := by
  induction f with
  | zero => rfl
  | succ f ih =>
    have h1 : caseCaseHead caseCaseStuck = .goes caseCaseStuck := rfl
    have h2 : caseCaseStuck.next = caseCaseStuck := rfl
    have h3 : emptyBlock caseCaseStuck = .goes caseCaseStuck := rfl
    have h4 : caseCaseStuck.toks.head? ≠ some Tk.rbrace := by decide
    have h5 : caseCaseStuck.toks ≠ [] := by decide
    simp only [preFixSwitchLoop, if_neg h4, if_neg h5, h1, h2, h3]
    exact ih

/-- HISTORICAL (finding `C03-switch-error-loop`, second form): on `switch 1 {⏎case case:⏎}`
    the pre-fix outer loop never ended, whatever the fuel — `expectPeek(COLON)` succeeds on
    the unmoved `:`, the unmoved `case` is taken for an empty case and appended for ever. -/
theorem C03_fixed_switchLoop_diverged (f : Nat) :
    preFixSwitchLoop caseCaseHead emptyBlock f ⟨caseCaseToks, false⟩ = none := by
  cases f with
  | zero => rfl
  | succ f =>
    have h1 : caseCaseHead ⟨caseCaseToks, false⟩ = .goes caseCaseStuck := rfl
    have h2 : caseCaseStuck.next = caseCaseStuck := rfl
    have h3 : emptyBlock caseCaseStuck = .goes caseCaseStuck := rfl
    have h4 : (⟨caseCaseToks, false⟩ : PSt).toks.head? ≠ some Tk.rbrace := by decide
    have h5 : (⟨caseCaseToks, false⟩ : PSt).toks ≠ [] := by decide
    simp only [preFixSwitchLoop, if_neg h4, if_neg h5, h1, h2, h3]
    exact preFixSwitchLoop_stuck f

/-! ## One VM, many runs (Model 4e): no sequence of entries lets a Go panic out of `stop` -/

theorem enterImpl_panics_is_error (e : Entry) (w : String) :
    enterImpl e (.panics w) = .error ("panic: " ++ w) := by
  cases e <;> simp [enterImpl, enter, requiredRecovers, Entry.scope]

/-- the outcome of the entered code itself is a value, a returned error or a recovered panic —
    never a panic that leaves the entry point.  All entry points, contexts, bodies. -/
theorem lifeBody_not_killed (st : LStep) : (lifeBody st).isKilled = false := by
  unfold lifeBody
  split
  · rfl
  · split
    · rfl
    · rfl
    · rw [enterImpl_panics_is_error]; rfl

/-- one entry on a VM that is not running (the code as it is: `stop` only clears the running
    flag): the entry is admitted, returns the outcome of the entered code and leaves the VM not
    running, whatever earlier runs left in it -/
theorem life_step_untracked (s : Life) (st : LStep) (h : s.running = false) :
    lifeStep .untracked s st = (lifeBody st, ⟨false, s.ch⟩) := by
  simp [lifeStep, h, lifeStop]

/-- **`life_runs_independent`**: for EVERY sequence of entries on one VM — any mix of Run /
    RunCode / Call, of contexts without a Done channel, cancellable ones and cancelled ones, of
    code that returns, fails, raises a Go panic or is halted — every entry returns exactly what
    that entry alone returns (`lifeBody`: no outcome depends on what ran before), and the VM is
    left not running.  Quantifies over all sequences and all start states that are not
    running. -/
theorem life_runs_independent (steps : List LStep) :
    ∀ s : Life, s.running = false →
      lifeSeq .untracked s steps = (steps.map lifeBody, ⟨false, s.ch⟩) := by
  induction steps with
  | nil =>
    intro s h
    cases s with
    | mk r c => simp only at h; subst h; rfl
  | cons st rest ih =>
    intro s h
    simp only [lifeSeq, life_step_untracked s st h, ih ⟨false, s.ch⟩ rfl, List.map_cons]

/-- the full statement for a reused VM: no entry of any sequence ends with a Go panic in the
    embedding program, and none is refused as `vm is already running` -/
def C03_full_life : Prop :=
  ∀ steps : List LStep, ∀ r ∈ (lifeSeq .untracked Life.init steps).1,
    r.isKilled = false ∧ r ≠ .raised "vm is already running"

/-- **`C03_life_never_escapes`**: the full statement holds for the code as it is. -/
theorem C03_life_never_escapes : C03_full_life := by
  intro steps r hr
  rw [life_runs_independent steps Life.init rfl] at hr
  simp only [List.mem_map] at hr
  obtain ⟨st, _, rfl⟩ := hr
  refine ⟨lifeBody_not_killed st, ?_⟩
  unfold lifeBody
  split
  · decide
  · split
    · decide
    · decide
    · rw [enterImpl_panics_is_error]; intro h; cases h

/-- a watcher channel that `stop` closes AND clears is as good: from a VM whose field is nil,
    every sequence returns what the code as it is returns -/
theorem closeCleared_never_escapes (steps : List LStep) :
    lifeSeq .closeCleared Life.init steps = (steps.map lifeBody, Life.init) := by
  induction steps with
  | nil => rfl
  | cons st rest ih =>
    have h1 : lifeStep .closeCleared Life.init st = (lifeBody st, Life.init) := by
      cases hc : st.ctx <;> simp [lifeStep, Life.init, lifeStop, closeChan, CtxK.cancellable, hc]
    simp only [lifeSeq, h1, ih, List.map_cons]

/-- why the release must not depend on what an earlier run left behind — one entry under
    `closeKept` (stop closes the recorded channel and keeps the field), exactly: a cancellable
    context always gets a fresh channel and returns; a context WITHOUT a Done channel returns
    only while no cancellable run came before, and otherwise `stop` closes the channel of that
    earlier run a second time: the Go panic `close of closed channel` leaves the entry point.
    For every entry point, body and state with no run in progress. -/
theorem closeKept_step_exact (c : Chan) (hc : c ≠ .opened) (st : LStep) :
    lifeStep .closeKept ⟨false, c⟩ st =
      if st.ctx.cancellable then (lifeBody st, ⟨false, .closed⟩)
      else if c = .nil then (lifeBody st, ⟨false, .nil⟩)
      else (.killed "close of closed channel", ⟨false, .closed⟩) := by
  cases hk : st.ctx <;> cases c <;>
    first
    | exact absurd rfl hc
    | simp [lifeStep, lifeStop, closeChan, CtxK.cancellable, hk]

/-- the shortest such sequence: any run under a cancellable context, then any entry under
    context.Background() -/
theorem closeKept_escapes (a b : LStep) (ha : a.ctx.cancellable = true) (hb : b.ctx = .plain) :
    (lifeSeq .closeKept Life.init [a, b]).1 = [lifeBody a, .killed "close of closed channel"] := by
  have h1 := closeKept_step_exact .nil (by decide) a
  have h2 := closeKept_step_exact .closed (by decide) b
  simp only [ha, if_true] at h1
  have hb' : b.ctx.cancellable = false := by rw [hb]; rfl
  simp [hb'] at h2
  simp only [lifeSeq, Life.init, h1, h2]

/-- … and why a test that always uses the same kind of context cannot see it -/
theorem closeKept_one_kind_returns (steps : List LStep)
    (h : (∀ st ∈ steps, st.ctx.cancellable = true) ∨ (∀ st ∈ steps, st.ctx = .plain)) :
    (lifeSeq .closeKept Life.init steps).1 = steps.map lifeBody := by
  rcases h with h | h
  · -- all cancellable: after the first step the field is `closed`, each start replaces it
    have gen : ∀ (steps : List LStep) (c : Chan), c ≠ .opened →
        (∀ st ∈ steps, st.ctx.cancellable = true) →
        (lifeSeq .closeKept ⟨false, c⟩ steps).1 = steps.map lifeBody := by
      intro steps
      induction steps with
      | nil => intros; rfl
      | cons st rest ih =>
        intro c hc hall
        have h1 := closeKept_step_exact c hc st
        simp only [hall st (List.mem_cons_self), if_true] at h1
        have h2 := ih .closed (by decide) (fun x hx => hall x (List.mem_cons_of_mem _ hx))
        simp only [lifeSeq, h1, List.map_cons, h2]
    exact gen steps .nil (by decide) h
  · have gen : ∀ (steps : List LStep), (∀ st ∈ steps, st.ctx = .plain) →
        (lifeSeq .closeKept ⟨false, .nil⟩ steps).1 = steps.map lifeBody := by
      intro steps
      induction steps with
      | nil => intros; rfl
      | cons st rest ih =>
        intro hall
        have h1 := closeKept_step_exact .nil (by decide) st
        have hp : st.ctx.cancellable = false := by rw [hall st (List.mem_cons_self)]; rfl
        simp [hp] at h1
        have h2 := ih (fun x hx => hall x (List.mem_cons_of_mem _ hx))
        simp only [lifeSeq, h1, List.map_cons, h2]
    exact gen steps h

example : (lifeSeq .untracked Life.init
    [⟨.runCode, .live, .returns⟩, ⟨.call, .plain, .panics⟩, ⟨.run, .done, .returns⟩]).1
    = [.value, .error "panic: go panic", .raised "context canceled"] := by decide
example : (lifeSeq .closeKept Life.init [⟨.runCode, .live, .raises⟩, ⟨.runCode, .plain, .returns⟩]).1
    = [.raised "evaluation error", .killed "close of closed channel"] := by decide

/-! ## Integer operators on literal operands (Model 4f) -/

/-- with the count converted by `uint(…)`, as `runOperationInt` does, an integer operator
    raises a Go panic exactly for `/` and `%` with a zero divisor.  All operators, all operands
    (in particular every shift count, negative ones included). -/
theorem intBin_panics_iff (o : IOp) (l r : Int) :
    (intBin false o l r).isPanic = true ↔ (o = .div ∨ o = .mod) ∧ r = 0 := by
  by_cases h : r = 0 <;> cases o <;> simp [intBin, Out.isPanic, h]

/-- used as a signed integer, a negative shift count is a Go panic, for every left operand -/
theorem signed_shift_panics (l r : Int) (h : r < 0) :
    intBin true .shl l r = .panic "runtime error: negative shift amount" ∧
    intBin true .shr l r = .panic "runtime error: negative shift amount" := by
  simp [intBin, h]

/-- … where the VM's conversion gives 0 (left shift) or the sign (right shift) -/
theorem unsigned_shift_of_negative_count (l r : Int) (h : r < 0) :
    intBin false .shl l r = .ok 0 ∧ intBin false .shr l r = .ok (if l < 0 then -1 else 0) := by
  simp [intBin, shCount, h, shl64, shr64]

/-- **`decl_contained`**: a declaration whose initialiser is ANY expression over integer
    literals, negation and the integer operators evaluates to a value or to the recovered
    error of the entry (`panic: runtime error: integer divide by zero`) — the Go panic never
    reaches the embedding program.  Quantifies over all expressions. -/
theorem decl_contained (e : IExpr) :
    (declRun implConst e).1 = .value ∨ ∃ w, (declRun implConst e).1 = .error ("panic: " ++ w) := by
  unfold declRun
  cases evalI implConst.signedShift e with
  | ok v => exact Or.inl rfl
  | panic w => exact Or.inr ⟨w, by simp [implConst, enterImpl_panics_is_error]⟩

theorem decl_never_killed (e : IExpr) : (declRun implConst e).1.isKilled = false := by
  rcases decl_contained e with h | ⟨w, h⟩ <;> rw [h] <;> rfl

/-- the compiler has no recover scope: if it computes the initialiser itself, the declaration
    lets a Go panic out exactly when some operator application in the initialiser panics — so
    every operator it evaluates has to be total the way it evaluates it.  All expressions, both
    readings of the shift count. -/
theorem fold_escapes_iff (sg : Bool) (e : IExpr) :
    (declRun ⟨true, sg⟩ e).1.isKilled = true ↔ (evalI sg e).isPanic = true := by
  unfold declRun
  cases evalI sg e with
  | ok v => simp [ProcRes.isKilled, Out.isPanic]
  | panic w => simp [ProcRes.isKilled, Out.isPanic]

/-- `const s = 1 << -1`: a value in the VM, a Go panic out of compiler.Compile when folded with
    a signed count; `const z = 1 / 0`: the recovered error in the VM -/
example : declRun implConst (.bin .shl (.lit 1) (.neg (.lit 1))) = (.value, some 0) := by decide
example : declRun ⟨true, true⟩ (.bin .shl (.lit 1) (.neg (.lit 1)))
    = (.killed "runtime error: negative shift amount", none) := by decide
example : declRun implConst (.bin .div (.lit 1) (.lit 0))
    = (.error "panic: runtime error: integer divide by zero", none) := by decide
example : declRun implConst (.bin .shr (.neg (.lit 256)) (.bin .sub (.lit 2) (.lit 3))) = (.value, some (-1)) := by decide
example : declRun implConst (.bin .div (.neg (.lit 9223372036854775808)) (.neg (.lit 1)))
    = (.value, some (-9223372036854775808)) := by decide

/-! ## nil children of the AST (guard of the parser findings; executable, not a theorem
about parser.go) -/

/-- `return if`: the statement list holds a typed-nil `*ast.Return` -/
example : illegalNil (.node "Program" [.slot "Program.statements" (.list [.nil true])])
    = some "Program.statements" := by decide

/-- `return` without a value is legitimate (`Return.value` is optional) -/
example : illegalNil (.node "Program" [.slot "Program.statements" (.list
    [.node "Return" [.slot "Return.value" (.nil false)]])]) = none := by decide

/-- `[1, (⏎2)]`: a nil element in `List.items` -/
example : illegalNil (.node "List" [.slot "List.items" (.list [.node "Int" [], .nil false])])
    = some "List.items" := by decide

/-- `makeInstruction` returns exactly when the operand count matches -/
theorem makeInstruction_ok (c g : Nat) : (makeInstruction c g).isPanic = false ↔ g = c := by
  unfold makeInstruction
  by_cases h : g = c
  · simp [h, Out.isPanic]
  · simp [h, Out.isPanic]

/-! ## 4g. `vm.Get` on a VM that runs one code object after another -/

theorem scanFrom_spec (name : String) (names : List String) (k i : Nat)
    (h : scanFrom name names k = some i) :
    k ≤ i ∧ i - k < names.length ∧ names[i - k]? = some name := by
  induction names generalizing k with
  | nil => simp [scanFrom] at h
  | cons n ns ih =>
    unfold scanFrom at h
    split at h
    · rename_i hn
      cases h
      simp [hn]
    · have := ih (k + 1) h
      obtain ⟨h1, h2, h3⟩ := this
      refine ⟨by omega, by simp; omega, ?_⟩
      have e : i - k = (i - (k + 1)) + 1 := by omega
      rw [e, List.getElem?_cons_succ]
      exact h3

/-- **`get_found_is_named`**: whatever the Spec answers with `found i` IS a global of that code
    with the asked name (slot in range, name at that slot) — for every code and name. -/
theorem get_found_is_named (names : List String) (name : String) (i : Nat)
    (h : specGet names name = .found i) : i < names.length ∧ names[i]? = some name := by
  unfold specGet at h
  split at h
  · rename_i j hj
    cases h
    have := scanFrom_spec name names 0 _ hj
    simpa using this.2
  · cases h

/-- **`get_scan_exact`**: for EVERY sequence of code switches and lookups on one VM, from every
    state, the code as it is (`scan`) answers each lookup exactly as the Spec does: from the
    code object loaded last before it, whatever was loaded or looked up earlier. -/
theorem get_scan_exact (ops : List GetOp) :
    ∀ s : GetVm, getSeq .scan s ops = specGetSeq s.active ops := by
  induction ops with
  | nil => intro s; rfl
  | cons o rest ih =>
    intro s
    cases o with
    | load names =>
      simp only [getSeq, getStep, specGetSeq]
      exact ih _
    | get name =>
      cases ha : s.active with
      | none =>
        simp only [getSeq, getStep, ha, specGetSeq]
        rw [ih s, ha]
      | some names =>
        simp only [getSeq, getStep, ha, specGetSeq, specGet, if_true]
        cases hs : scanFrom name names 0 with
        | none => simp only []; rw [ih s, ha]
        | some i => simp only []; rw [ih s, ha]

theorem specGet_not_escaped (names : List String) (name w : String) :
    specGet names name ≠ .escaped w := by
  unfold specGet; split <;> simp

theorem specGetSeq_not_escaped (ops : List GetOp) :
    ∀ a : Option (List String), ∀ r ∈ specGetSeq a ops, ∀ w, r ≠ .escaped w := by
  induction ops with
  | nil => intro a r hr; simp [specGetSeq] at hr
  | cons o rest ih =>
    intro a r hr w
    cases o with
    | load names => exact ih _ r (by simpa [specGetSeq] using hr) w
    | get name =>
      cases a with
      | none =>
        simp only [specGetSeq, List.mem_cons] at hr
        rcases hr with h | h
        · subst h; simp
        · exact ih _ r h w
      | some names =>
        simp only [specGetSeq, List.mem_cons] at hr
        rcases hr with h | h
        · subst h; exact specGet_not_escaped _ _ _
        · exact ih _ r h w

/-- the full statement for lookups: on every sequence of code switches and lookups, starting
    from a fresh VM, no Go panic leaves `Get` -/
def C03_full_get (m : GetMode) : Prop :=
  ∀ ops : List GetOp, ∀ r ∈ getSeq m GetVm.init ops, ∀ w, r ≠ .escaped w

/-- **`C03_get_never_escapes`**: it holds for the code as it is. -/
theorem C03_get_never_escapes : C03_full_get .scan := by
  intro ops r hr w
  rw [get_scan_exact] at hr
  exact specGetSeq_not_escaped ops _ r hr w

/-- the memo is right for the active code -/
def MemoOk (s : GetVm) : Prop :=
  ∀ names, s.active = some names → ∀ name i, memoFind name s.memo = some i →
    scanFrom name names 0 = some i

theorem slotOf_of_scan (names : List String) (name : String) (i : Nat)
    (h : scanFrom name names 0 = some i) : slotOf names i = .found i := by
  have := scanFrom_spec name names 0 i h
  unfold slotOf
  rw [if_pos (by omega)]

/-- **`get_memoCleared_exact`**: a memo that is dropped at every code switch is as good as the
    scan — for every sequence, from every state whose memo is right for its active code. -/
theorem get_memoCleared_exact (ops : List GetOp) :
    ∀ s : GetVm, MemoOk s → getSeq .memoCleared s ops = specGetSeq s.active ops := by
  induction ops with
  | nil => intro s _; rfl
  | cons o rest ih =>
    intro s hs
    cases o with
    | load names =>
      simp only [getSeq, getStep, specGetSeq, if_true]
      refine ih ⟨some names, []⟩ ?_
      intro _ _ name i h; simp [memoFind] at h
    | get name =>
      cases ha : s.active with
      | none =>
        simp only [getSeq, getStep, ha, specGetSeq]
        rw [ih s hs, ha]
      | some names =>
        have hne : (GetMode.memoCleared = GetMode.scan) = False := by simp
        simp only [getSeq, getStep, ha, specGetSeq, specGet, hne, if_false]
        cases hm : memoFind name s.memo with
        | some i =>
          have h1 := hs names ha name i hm
          simp only [h1, slotOf_of_scan names name i h1]
          rw [ih s hs, ha]
        | none =>
          cases hsc : scanFrom name names 0 with
          | none => simp only []; rw [ih s hs, ha]
          | some i =>
            simp only []
            rw [ih ⟨some names, (name, i) :: s.memo⟩ ?_]
            intro names' hn' name' j hj
            simp only [Option.some.injEq] at hn'
            subst hn'
            unfold memoFind at hj
            split at hj
            · rename_i hnn; cases hj; rw [← hnn]; exact hsc
            · exact hs names ha name' j hj

theorem C03_get_memoCleared_never_escapes : C03_full_get .memoCleared := by
  intro ops r hr w
  rw [get_memoCleared_exact ops GetVm.init (by intro _ h; simp [GetVm.init] at h)] at hr
  exact specGetSeq_not_escaped ops _ r hr w

/-- **`memoKept_escapes`** (contrast): a memo that survives a code switch answers with the slot
    the name had in the PREVIOUS code.  Two scripts with the same entrypoint, the second one
    smaller: the second lookup indexes past the new code's globals and the Go panic leaves
    `Get` (and `risor.Call`). -/
theorem memoKept_escapes :
    getSeq .memoKept GetVm.init
      [.load ["helper", "handler"], .get "handler", .load ["handler"], .get "handler"]
      = [.found 1, .escaped "index out of range"] := by decide

theorem C03_counterexample_get_memoKept : ¬ C03_full_get .memoKept := by
  intro h
  exact h [.load ["helper", "handler"], .get "handler", .load ["handler"], .get "handler"]
    (.escaped "index out of range") (by decide) _ rfl

/-- **`memoKept_wrong_global`** (contrast): when the stale slot is in range, `Get` silently
    returns ANOTHER global of the new code. -/
theorem memoKept_wrong_global :
    getSeq .memoKept GetVm.init
      [.load ["helper", "handler"], .get "handler", .load ["handler", "other"], .get "handler"]
      = [.found 1, .found 1] ∧
    specGetSeq none
      [.load ["helper", "handler"], .get "handler", .load ["handler", "other"], .get "handler"]
      = [.found 1, .found 0] := by decide

/-- **`memoKept_one_code_exact`**: without a code switch after the first load the kept memo is
    harmless — which is why tests that stay on one code object see nothing. -/
theorem memoKept_one_code_exact (names : List String) (gets : List String) :
    ∀ s : GetVm, s.active = some names → MemoOk s →
      getSeq .memoKept s (gets.map .get) = specGetSeq (some names) (gets.map .get) := by
  induction gets with
  | nil => intro s _ _; rfl
  | cons name rest ih =>
    intro s ha hs
    have hne : (GetMode.memoKept = GetMode.scan) = False := by simp
    simp only [List.map_cons, getSeq, getStep, ha, specGetSeq, specGet, hne, if_false]
    cases hm : memoFind name s.memo with
    | some i =>
      have h1 := hs names ha name i hm
      simp only [h1, slotOf_of_scan names name i h1]
      rw [ih s ha hs]
    | none =>
      cases hsc : scanFrom name names 0 with
      | none => simp only []; rw [ih s ha hs]
      | some i =>
        simp only []
        rw [ih ⟨some names, (name, i) :: s.memo⟩ rfl ?_]
        intro names' hn' name' j hj
        simp only [Option.some.injEq] at hn'
        subst hn'
        unfold memoFind at hj
        split at hj
        · rename_i hnn; cases hj; rw [← hnn]; exact hsc
        · exact hs names ha name' j hj

example : getSeq .scan GetVm.init
    [.get "f", .load ["a", "f"], .get "f", .load ["f"], .get "f", .get "a"]
    = [.noCode, .found 1, .found 0, .notFound] := by decide


/-! ## 4h. One file, two closers -/

/-- what the code as it is maintains: `f.closed` is open exactly as long as `f.once` has not
    fired -/
def FileInv (s : FileObj) : Prop := s.once = false → s.ch = .opened

theorem fileStep_impl_ok (s : FileObj) (e : FEv) (h : FileInv s) :
    (fileStep false s e).1 = .ok ∧ FileInv (fileStep false s e).2 := by
  obtain ⟨ch, once, cancelled, w⟩ := s
  cases e with
  | close =>
    cases once with
    | true => simp [fileStep, FileInv]
    | false =>
      have hc : ch = .opened := h rfl
      subst hc
      simp [fileStep, closeChan, FileInv]
  | cancel =>
    by_cases hw : w = .waiting
    · simp [fileStep, hw, FileInv] at h ⊢; exact h
    · simp [fileStep, hw, FileInv] at h ⊢; exact h
  | resume =>
    by_cases hw : w = .inCtxBranch
    · simp [fileStep, hw, FileInv] at h ⊢; exact h
    · simp [fileStep, hw, FileInv] at h ⊢; exact h

/-- **`file_two_closers_never_panic`**: for EVERY order of script closes, cancellation of the
    opening context and progress of the watcher goroutine — from every state in which the
    channel is open while `once` has not fired — no event panics, neither on the caller's
    goroutine nor on the watcher's. -/
theorem file_two_closers_never_panic (evs : List FEv) :
    ∀ s : FileObj, FileInv s → ∀ r ∈ fileSeq false s evs, r = .ok := by
  induction evs with
  | nil => intro s _ r hr; simp [fileSeq] at hr
  | cons e rest ih =>
    intro s hs r hr
    have h1 := fileStep_impl_ok s e hs
    simp only [fileSeq, List.mem_cons] at hr
    rcases hr with h | h
    · rw [h]; exact h1.1
    · exact ih _ h1.2 r h

/-- the full statement for one file object -/
def C03_full_file (records : Bool) : Prop :=
  ∀ evs : List FEv, ∀ r ∈ fileSeq records FileObj.init evs, ∀ w, r ≠ .killed w

/-- **`C03_file_never_killed`**: it holds for the code as it is. -/
theorem C03_file_never_killed : C03_full_file false := by
  intro evs r hr w
  have := file_two_closers_never_panic evs FileObj.init (by intro _; rfl) r hr
  rw [this]; simp

/-- **`recording_watcher_kills`** (contrast): a watcher that also closes `f.closed` outside
    `f.once` — the context ends, the watcher takes its branch, the script closes the file,
    the watcher runs on: `close of closed channel` on a goroutine nothing recovers. -/
theorem recording_watcher_kills :
    fileSeq true FileObj.init [.cancel, .close, .resume]
      = [.ok, .ok, .killed "close of closed channel"] := by decide

theorem C03_counterexample_file_recording : ¬ C03_full_file true := by
  intro h
  exact h [.cancel, .close, .resume] (.killed "close of closed channel") (by decide) _ rfl

/-- **`recording_watcher_other_order`** (contrast): in the other order the same double close
    is raised on the caller's goroutine (the VM turns it into an error) — the fault is
    intermittent. -/
theorem recording_watcher_other_order :
    fileSeq true FileObj.init [.cancel, .resume, .close]
      = [.ok, .ok, .callerPanic "close of closed channel"] := by decide

/-- without cancellation the recording watcher is harmless: tests that never cancel see nothing -/
theorem recording_without_cancel_ok (n : Nat) :
    ∀ r ∈ fileSeq true FileObj.init (List.replicate n .close ++ [.resume]), r = .ok := by
  intro r hr
  cases n with
  | zero => simp [fileSeq, fileStep, FileObj.init] at hr; exact hr
  | succ k =>
    have key : ∀ m, ∀ r ∈ fileSeq true ⟨.closed, true, false, .ended⟩ (List.replicate m .close ++ [.resume]), r = .ok := by
      intro m
      induction m with
      | zero => intro r hr; simp [fileSeq, fileStep] at hr; exact hr
      | succ j ih =>
        intro r hr
        simp only [List.replicate_succ, List.cons_append, fileSeq, List.mem_cons] at hr
        rcases hr with h | h
        · rw [h]; simp [fileStep]
        · exact ih r (by simpa [fileStep] using h)
    simp only [List.replicate_succ, List.cons_append, fileSeq, List.mem_cons] at hr
    rcases hr with h | h
    · rw [h]; simp [fileStep, FileObj.init, closeChan]
    · exact key k r (by simpa [fileStep, FileObj.init, closeChan] using h)

example : fileSeq false FileObj.init [.cancel, .close, .resume, .close]
    = [.ok, .ok, .ok, .ok] := by decide


end Risor.C03
