import RisorModel.C03.Front
import RisorModel.C20.Lemmas
/-! Helper lemmas for C03/FrontProps.lean: what one step of C20's lexer machine can return
    (at the NUL sentinel, from the start state, as an error class), and how `run` / `runAt`
    depend on them. -/
namespace Risor.C03.Front
open Risor.C20

/-! ### one step -/

/-- what a step may return at the NUL sentinel: never `more`; a token that consumes the
    sentinel is EOF -/
def nulOk : Step → Bool
  | .more _ _ => false
  | .emit _ _ .pushback _ => true
  | .emit k _ _ _ => k == "EOF"
  | .failT _ _ _ _ => true
  | .fail _ => true

theorem lookup2_zero (a : Nat) : lookup2 a 0 = none := by
  simp [lookup2]

theorem numTail_nul (m : NumMode) (acc : Chars) : nulOk (numTail m acc 0) = true := by
  simp [numTail, isLetter, isDigit, nulOk]

theorem step_nul (s : St) (h : stOk s = true) : nulOk (stepChar s 0) = true := by
  cases s with
  | start ab => cases ab <;> decide
  | lineComment => decide
  | slash => decide
  | block star => cases star <;> decide
  | op1 a =>
    simp only [stepChar, lookup2_zero]
    cases lookup1 a <;> rfl
  | ident acc => simp [stepChar, isIdent, isLetter, isDigit, nulOk]
  | num0 => decide
  | num m acc =>
    have : accepts m 0 = false := by cases m <;> decide
    simp only [stepChar, this]
    exact numTail_nul m acc
  | numDot acc => simp [stepChar, isDigit, nulOk]
  | numFrac acc frac => simp [stepChar, isDigit, isLetter, nulOk]
  | str q k acc => simp [stepChar, nulOk]
  | strEsc q k acc =>
    simp only [stOk, bne_iff_ne, ne_eq] at h
    have : (0 == q) = false := by simp; omega
    simp [stepChar, this, nulOk]
  | strNum q k acc l b v t o => simp [stepChar, nulOk]
  | backtick acc => simp [stepChar, nulOk]

/-- the error classes the machine can report -/
def knownCls (cls : String) : Bool :=
  cls == "unexpected-char" || cls == "invalid-identifier" || cls == "invalid-decimal"

/-- a step result whose successor state (if any) keeps the invariant, whose bare error class
    (if any) is one of the three of lexer.go — in particular not the model's "stuck" marker —,
    that steps past the end only with EOF and never gives back the rune at which it set the
    token start -/
def stepOk : Step → Bool
  | .more s _ => stOk s
  | .fail cls => knownCls cls
  | .emit k _ .past _ => k == "EOF"
  | .emit _ _ .pushback f => !f
  | _ => true

theorem stripFresh_ok (r : Step) (h : stepOk r = true) : stepOk (stripFresh r) = true := by
  cases r with
  | emit k l m f => cases m <;> simp_all [stripFresh, stepOk]
  | _ => simp_all [stripFresh, stepOk]

theorem ite_ok (p : Prop) [Decidable p] (a b : Step) (ha : stepOk a = true) (hb : stepOk b = true) :
    stepOk (if p then a else b) = true := by
  split <;> assumption

theorem dispatch_ok (c : Nat) : stepOk (dispatch c) = true := by
  unfold dispatch
  split
  · rfl
  · split
    · rfl
    · repeat' split
      all_goals first | rfl | decide

theorem numTail_ok (m : NumMode) (acc : Chars) (c : Nat) : stepOk (numTail m acc c) = true := by
  unfold numTail
  repeat' split
  all_goals first | rfl | decide

theorem step_ok (s : St) (c : Nat) (h : stOk s = true) : stepOk (stepChar s c) = true := by
  cases s with
  | start ab =>
    simp only [stepChar]
    repeat' split
    all_goals first | rfl | decide | exact dispatch_ok c | exact stripFresh_ok _ (dispatch_ok c)
  | lineComment => simp only [stepChar]; repeat' split
                   all_goals first | rfl | decide
  | slash => simp only [stepChar]; repeat' split
             all_goals first | rfl | decide
  | block star => simp only [stepChar]; repeat' split
                  all_goals first | rfl | decide
  | op1 a => simp only [stepChar]; repeat' split
             all_goals first | rfl | decide
  | ident acc => simp only [stepChar]; repeat' split
                 all_goals first | rfl | decide
  | num0 =>
    simp only [stepChar]; repeat' split
    all_goals first | rfl | decide | exact numTail_ok _ _ _
  | num m acc =>
    simp only [stepChar]; repeat' split
    all_goals first | rfl | decide | exact numTail_ok _ _ _
  | numDot acc => simp only [stepChar]; repeat' split
                  all_goals first | rfl | decide
  | numFrac acc frac => simp only [stepChar]; repeat' split
                        all_goals first | rfl | decide
  | str q k acc =>
    simp only [stepChar]; repeat' split
    all_goals first | rfl | decide | exact h
  | strEsc q k acc =>
    simp only [stepChar]
    repeat' (first | rfl | decide | exact h | apply ite_ok)
  | strNum q k acc l b v t o =>
    simp only [stepChar]; repeat' split
    all_goals first | rfl | decide | exact h
  | backtick acc => simp only [stepChar]; repeat' split
                    all_goals first | rfl | decide

/-- from the start state a step never gives back the rune it looked at -/
def noPush : Step → Bool
  | .emit _ _ .pushback _ => false
  | .failT _ _ _ .pushback => false
  | _ => true

theorem dispatch_noPush (c : Nat) : noPush (dispatch c) = true := by
  unfold dispatch
  repeat' split
  all_goals first | rfl | decide

theorem stripFresh_noPush (r : Step) (h : noPush r = true) : noPush (stripFresh r) = true := by
  cases r with
  | emit k l m f => cases m <;> simp_all [stripFresh, noPush]
  | _ => simp_all [stripFresh, noPush]

theorem step_start_noPush (ab : Bool) (c : Nat) : noPush (stepChar (.start ab) c) = true := by
  simp only [stepChar]
  repeat' split
  all_goals first | rfl | decide | exact dispatch_noPush c | exact stripFresh_noPush _ (dispatch_noPush c)

/-! ### one call of `Next` -/

/-- what the proofs need of the result `r` of a (sub)run that began at offset `lo` with the
    recorded token start `st`, `n` = offset of the end of the input: it is not the model's
    "stuck" marker; it resumes at or after `lo` and at most one past the end; it looked no further
    than the sentinel; its span lies in `[0, n]` (`n + 1` for the EOF of an unterminated block
    comment); a token other than EOF resumes inside the input and its last rune has an index
    below `n` -/
def Good (r : Res) (lo st n : Nat) : Prop :=
  r.out ≠ .err "stuck" ∧ lo ≤ r.next ∧ r.next ≤ n + 1 ∧ r.seen ≤ n + 1 ∧ r.start ≤ n ∧ r.stop ≤ n + 1 ∧
  (∀ k lit, r.out = .tok k lit → k ≠ "EOF" →
     r.next ≤ n ∧ (1 ≤ lo → r.stop < n) ∧ (st < lo → r.start ≤ r.stop))

theorem knownCls_ne_stuck (cls : String) (h : knownCls cls = true) : cls ≠ "stuck" := by
  intro e; subst e; revert h; decide

def isMore : Step → Bool
  | .more _ _ => true
  | _ => false

/-- closes the seven components of `Good (finish …)` after `cases` on the step and its mode -/
macro "good_tac" : tactic => `(tactic| (
  refine ⟨?_, ?_, ?_, ?_, ?_, ?_, ?_⟩
  all_goals simp [finish]
  all_goals try intros
  all_goals try (first
    | omega
    | contradiction
    | (split <;> omega)
    | (refine ⟨by omega, fun _ => by omega, fun _ => ?_⟩; first | omega | (split <;> omega)))))

theorem finish_good_cons (r : Step) (i st n : Nat) (hn : i + 1 ≤ n) (hst : st ≤ i)
    (hr : stepOk r = true) (hm : isMore r = false) : Good (finish r i st) i st n := by
  cases r with
  | more s m => simp [isMore] at hm
  | fail cls =>
    have := knownCls_ne_stuck cls hr
    good_tac
  | failT k l c m => cases m <;> good_tac
  | emit k l m f =>
    cases m with
    | past => simp only [stepOk, beq_iff_eq] at hr; good_tac
    | consume => good_tac
    | pushback => simp only [stepOk, Bool.not_eq_true'] at hr; subst hr; good_tac

theorem finish_good_nil (r : Step) (i st : Nat) (hst : st ≤ i)
    (hr : stepOk r = true) (hz : nulOk r = true) : Good (finish r i st) i st i := by
  cases r with
  | more s m => simp [nulOk] at hz
  | fail cls =>
    have := knownCls_ne_stuck cls hr
    good_tac
  | failT k l c m => cases m <;> good_tac
  | emit k l m f =>
    cases m with
    | past => simp only [stepOk, beq_iff_eq] at hr; good_tac
    | consume => simp only [nulOk, beq_iff_eq] at hz; good_tac
    | pushback => simp only [stepOk, Bool.not_eq_true'] at hr; subst hr; good_tac

theorem isMore_false_of_ne {r : Step} (h : ∀ s m, r ≠ .more s m) : isMore r = false := by
  cases r with
  | more s m => exact absurd rfl (h s m)
  | _ => rfl

theorem Good.weaken {r : Res} {i st st' n : Nat} (h : Good r (i + 1) st' n) (hst : st' < i + 1) :
    Good r i st n := by
  obtain ⟨h1, h2, h3, h4, h5, h6, h7⟩ := h
  refine ⟨h1, by omega, h3, h4, h5, h6, ?_⟩
  intro k lit hk hne
  obtain ⟨a, b, c⟩ := h7 k lit hk hne
  exact ⟨a, fun _ => b (by omega), fun _ => c hst⟩

/-- every (sub)run of the machine from a state that satisfies the invariant is `Good` -/
theorem run_good : ∀ (l : Chars) (s : St) (i st : Nat), stOk s = true → st ≤ i →
    Good (run s l i st) i st (i + l.length)
  | [], s, i, st, hs, hst => by
    rw [run_nil]
    exact finish_good_nil _ i st hst (step_ok s 0 hs) (step_nul s hs)
  | c :: cs, s, i, st, hs, hst => by
    have hok := step_ok s c hs
    cases h : stepChar s c with
    | more s' m =>
      rw [run_cons_more cs i st h]
      rw [h] at hok
      have hst' : (if m then i else st) < i + 1 := by split <;> omega
      have := run_good cs s' (i + 1) (if m then i else st) hok (by omega)
      have hlen : i + 1 + cs.length = i + (c :: cs).length := by simp; omega
      rw [hlen] at this
      exact this.weaken hst'
    | emit k l md f =>
      simp only [run, h]
      rw [h] at hok
      exact finish_good_cons _ i st _ (by simp) hst hok rfl
    | failT k l c' md =>
      simp only [run, h]
      rw [h] at hok
      exact finish_good_cons _ i st _ (by simp) hst hok rfl
    | fail c' =>
      simp only [run, h]
      rw [h] at hok
      exact finish_good_cons _ i st _ (by simp) hst hok rfl

/-- one call of `Next` from the start state on the rest `l` of the input: a token other than
    EOF uses at least one rune and at most all of them, and `start ≤ stop < l.length` -/
theorem start_good (l : Chars) :
    let r := run (.start false) l 0 0
    r.out ≠ .err "stuck" ∧ r.seen ≤ l.length + 1 ∧ r.start ≤ l.length ∧ r.stop ≤ l.length + 1 ∧
    (∀ k lit, r.out = .tok k lit → k ≠ "EOF" →
      1 ≤ r.next ∧ r.next ≤ l.length ∧ r.start ≤ r.stop ∧ r.stop < l.length) := by
  cases l with
  | nil =>
    refine ⟨by decide, by decide, by decide, by decide, ?_⟩
    intro k lit hk hne
    have : (run (.start false) [] 0 0).out = .tok "EOF" [] := by decide
    rw [this] at hk
    injection hk with h1 _
    exact absurd h1.symm hne
  | cons c cs =>
    have hok := step_ok (.start false) c rfl
    have hnp := step_start_noPush false c
    cases h : stepChar (.start false) c with
    | more s' m =>
      show let r := run (.start false) (c :: cs) 0 0; _
      rw [run_cons_more cs 0 0 h]
      rw [h] at hok
      have e : (if m = true then (0 : Nat) else 0) = 0 := by split <;> rfl
      simp only [e, Nat.zero_add]
      have hst' : 0 < 1 := by omega
      obtain ⟨h1, h2, h3, h4, h5, h6, h7⟩ := run_good cs s' 1 0 hok (by omega)
      refine ⟨h1, by simp at h4 ⊢; omega, by simp at h5 ⊢; omega, by simp at h6 ⊢; omega, ?_⟩
      intro k lit hk hne
      obtain ⟨a, b, c'⟩ := h7 k lit hk hne
      have b := b (by omega)
      have c' := c' hst'
      simp at a b ⊢
      omega
    | emit k l md f =>
      show let r := run (.start false) (c :: cs) 0 0; _
      simp only [run, h]
      rw [h] at hok hnp
      cases md with
      | pushback => simp [noPush] at hnp
      | past =>
        simp only [stepOk, beq_iff_eq] at hok
        refine ⟨by simp [finish], by simp [finish], by simp [finish], by simp [finish], ?_⟩
        intro k' lit hk hne
        simp [finish] at hk
        exact absurd (hk.1 ▸ hok) hne
      | consume =>
        refine ⟨by simp [finish], by simp [finish], by simp [finish], by simp [finish], ?_⟩
        intro k' lit _ _
        simp [finish]
    | failT k l c' md =>
      show let r := run (.start false) (c :: cs) 0 0; _
      simp only [run, h]
      cases md <;> simp [finish]
    | fail c' =>
      show let r := run (.start false) (c :: cs) 0 0; _
      simp only [run, h]
      rw [h] at hok
      have := knownCls_ne_stuck c' hok
      simp [finish, this]

/-! ### `runAt` = `run`, and where it reads -/

theorem readAt_lt (src : Chars) (p : Nat) (h : p < src.length) : readAt src p = src[p] := by
  simp [readAt, h]

theorem readAt_ge (src : Chars) (p : Nat) (h : src.length ≤ p) : readAt src p = 0 := by
  simp [readAt]; omega

theorem runAt_run (src : Chars) : ∀ (f : Nat) (s : St) (p i st : Nat), stOk s = true →
    p ≤ src.length → src.length + 1 - p ≤ f →
    (runAt src f s p i st).1 = run s (src.drop p) i st ∧ ∀ q ∈ (runAt src f s p i st).2, q ≤ src.length
  | 0, s, p, i, st, _, hp, hf => by omega
  | f + 1, s, p, i, st, hs, hp, hf => by
    by_cases hlt : p < src.length
    · have hd : src.drop p = src[p] :: src.drop (p + 1) := List.drop_eq_getElem_cons hlt
      have hok := step_ok s src[p] hs
      rw [hd]
      simp only [runAt, readAt_lt src p hlt]
      cases h : stepChar s src[p] with
      | more s' m =>
        rw [h] at hok
        obtain ⟨a, b⟩ := runAt_run src f s' (p + 1) (i + 1) (if m then i else st) hok (by omega) (by omega)
        simp only [run, h]
        refine ⟨a, ?_⟩
        intro q hq
        simp only [List.mem_cons] at hq
        cases hq with
        | inl e => omega
        | inr e => exact b q e
      | emit k l md fr => simp [run, h]; omega
      | failT k l c md => simp [run, h]; omega
      | fail c => simp [run, h]; omega
    · have hpe : p = src.length := by omega
      have hd : src.drop p = [] := by simp [hpe]
      have hz := step_nul s hs
      rw [hd, run_nil]
      simp only [runAt, readAt_ge src p (by omega)]
      cases h : stepChar s 0 with
      | more s' m => rw [h] at hz; simp [nulOk] at hz
      | emit k l md fr => simp; omega
      | failT k l c md => simp; omega
      | fail c => simp; omega

/-! ### the token loop -/

theorem fixOut_tok_eof (prev : String) (l : List Nat) : fixOut prev (.tok "EOF" l) = .tok "EOF" l := by
  simp [fixOut]

theorem fixOut_tok_inv {prev : String} {o : Out} {k' : String} {l' : List Nat}
    (h : fixOut prev o = .tok k' l') (hne : k' ≠ "EOF") : ∃ k l, o = .tok k l ∧ k ≠ "EOF" := by
  cases o with
  | tok k l =>
    refine ⟨k, l, rfl, ?_⟩
    intro e
    subst e
    rw [fixOut_tok_eof] at h
    injection h with h1 _
    exact hne h1.symm
  | errT k l c => simp [fixOut] at h
  | err c => simp [fixOut] at h

theorem fixOut_not_stuck {prev : String} {o : Out} (h : o ≠ .err "stuck") : fixOut prev o ≠ .err "stuck" := by
  cases o with
  | tok k l => unfold fixOut; split <;> simp_all
  | errT k l c => exact h
  | err c => exact h

/-- one call of `Next` on the rest of the input -/
theorem scan_good (rest : Chars) (prev : String) :
    (scan rest prev).out ≠ .err "stuck" ∧ (scan rest prev).seen ≤ rest.length + 1 ∧
    (scan rest prev).start ≤ rest.length ∧ (scan rest prev).stop ≤ rest.length + 1 ∧
    (∀ k lit, (scan rest prev).out = .tok k lit → k ≠ "EOF" →
      1 ≤ (scan rest prev).next ∧ (scan rest prev).next ≤ rest.length ∧
      (scan rest prev).start ≤ (scan rest prev).stop ∧ (scan rest prev).stop < rest.length) := by
  obtain ⟨h1, h2, h3, h4, h5⟩ := start_good rest
  refine ⟨fixOut_not_stuck h1, h2, h3, h4, ?_⟩
  intro k lit hk hne
  obtain ⟨k0, l0, e, hne0⟩ := fixOut_tok_inv hk hne
  exact h5 k0 l0 e hne0

/-! ### the Pratt model (C01): what a successful call has consumed, and from which fuel on the
    result no longer depends on the fuel -/

section Pratt
open Risor.C01.Pratt

theorem skipNl_length_le : ∀ toks : List Token, (skipNl toks).length ≤ toks.length
  | [] => by simp [skipNl]
  | tok :: rest => by
    unfold skipNl
    split
    · have := skipNl_length_le rest; simp; omega
    · simp

theorem tail_length_le {α} (l : List α) : l.tail.length ≤ l.length := by simp

/-- what a successful call of each of the seven functions of the Pratt model has consumed -/
def Bounds (f : Nat) : Prop :=
  (∀ t p toks e rest, parseNode f t p toks = some (e, rest) →
     rest.length < toks.length ∧ e.depth + rest.length ≤ toks.length) ∧
  (∀ t toks e rest, prefixP f t toks = some (e, rest) →
     rest.length < toks.length ∧ e.depth + rest.length ≤ toks.length) ∧
  (∀ t p l toks e rest, loop f t p l toks = some (e, rest) →
     rest.length ≤ toks.length ∧ e.depth + rest.length ≤ l.depth + toks.length) ∧
  (∀ t fn l tok rest e rest', infixP f t fn l tok rest = some (e, rest') →
     rest'.length ≤ rest.length ∧ e.depth + rest'.length ≤ l.depth + 1 + rest.length) ∧
  (∀ t l lo toks e rest, sliceTail f t l lo toks = some (e, rest) →
     rest.length ≤ toks.length ∧ e.depth + rest.length ≤ l.depth + 1 + toks.length) ∧
  (∀ t en toks a rest, exprList f t en toks = some (a, rest) → rest.length ≤ toks.length) ∧
  (∀ t en toks a rest, listTail f t en toks = some (a, rest) → rest.length ≤ toks.length)

theorem bounds_zero : Bounds 0 := by
  refine ⟨?_, ?_, ?_, ?_, ?_, ?_, ?_⟩ <;> intros <;> simp_all [parseNode, prefixP, loop, infixP, sliceTail, exprList, listTail]

theorem bounds_succ (f : Nat) (ih : Bounds f) : Bounds (f + 1) := by
  obtain ⟨iA, iB, iC, iD, iE, iF, iG⟩ := ih
  refine ⟨?_, ?_, ?_, ?_, ?_, ?_, ?_⟩
  · intro t p toks e rest h
    simp only [parseNode] at h
    split at h
    · simp at h
    · rename_i l r0 hp
      have a := iB t toks l r0 hp
      have b := iC t p l r0 e rest h
      omega
  · intro t toks e rest h
    cases toks with
    | nil => simp [prefixP] at h
    | cons tok rs =>
      simp only [prefixP] at h
      repeat' (split at h)
      all_goals (try (simp at h))
      all_goals (try (obtain ⟨h1, h2⟩ := h; subst h1; subst h2))
      all_goals (try (simp [Expr.depth]; done))
      all_goals (try (grind [Expr.depth]))
  · intro t p l toks e rest h
    cases toks with
    | nil => simp [loop] at h; obtain ⟨h1, h2⟩ := h; subst h1; subst h2; simp
    | cons tok rs =>
      simp only [loop] at h
      repeat' (split at h)
      all_goals (try (simp at h))
      all_goals (try (obtain ⟨h1, h2⟩ := h; subst h1; subst h2))
      all_goals (try (simp [Expr.depth]; done))
      all_goals (try (grind [Expr.depth]))
  · intro t fn l tok rest e rest' h
    cases fn
    all_goals simp only [infixP] at h
    all_goals repeat' (split at h)
    all_goals (try (simp at h))
    all_goals (try (obtain ⟨h1, h2⟩ := h; subst h1; subst h2))
    all_goals (try (simp [Expr.depth]; done))
    all_goals (try (grind [Expr.depth, skipNl_length_le, tail_length_le]))
  · intro t l lo toks e rest h
    simp only [sliceTail] at h
    repeat' (split at h)
    all_goals (try (simp at h))
    all_goals (try (obtain ⟨h1, h2⟩ := h; subst h1; subst h2))
    all_goals (try (simp [Expr.depth]; done))
    all_goals (try (grind [Expr.depth, skipNl_length_le, tail_length_le]))
  · intro t en toks a rest h
    simp only [exprList] at h
    repeat' (split at h)
    all_goals (try (simp at h))
    all_goals (try (obtain ⟨h1, h2⟩ := h; subst h1; subst h2))
    all_goals (try (grind [skipNl_length_le, tail_length_le]))
  · intro t en toks a rest h
    simp only [listTail] at h
    repeat' (split at h)
    all_goals (try (simp at h))
    all_goals (try (obtain ⟨h1, h2⟩ := h; subst h1; subst h2))
    all_goals (try (grind [skipNl_length_le, tail_length_le]))

theorem bounds : ∀ f, Bounds f
  | 0 => bounds_zero
  | f + 1 => bounds_succ f (bounds f)

def Stable (f : Nat) : Prop :=
  (∀ t p toks, 4 * toks.length + 4 ≤ f → parseNode (f + 1) t p toks = parseNode f t p toks) ∧
  (∀ t toks, 4 * toks.length + 3 ≤ f → prefixP (f + 1) t toks = prefixP f t toks) ∧
  (∀ t p l toks, 4 * toks.length + 3 ≤ f → loop (f + 1) t p l toks = loop f t p l toks) ∧
  (∀ t fn l tok rest, 4 * rest.length + 6 ≤ f → infixP (f + 1) t fn l tok rest = infixP f t fn l tok rest) ∧
  (∀ t l lo toks, 4 * toks.length + 5 ≤ f → sliceTail (f + 1) t l lo toks = sliceTail f t l lo toks) ∧
  (∀ t en toks, 4 * toks.length + 5 ≤ f → exprList (f + 1) t en toks = exprList f t en toks) ∧
  (∀ t en toks, 4 * toks.length + 6 ≤ f → listTail (f + 1) t en toks = listTail f t en toks)

theorem stable_succ (f : Nat) (ih : Stable f) : Stable (f + 1) := by
  obtain ⟨iA, iB, iC, iD, iE, iF, iG⟩ := ih
  obtain ⟨bA, bB, bC, bD, bE, bF, bG⟩ := bounds f
  refine ⟨?_, ?_, ?_, ?_, ?_, ?_, ?_⟩
  · intro t p toks hb
    simp only [parseNode]
    rw [iB t toks (by omega)]
    split
    · rfl
    · rename_i l rest hp
      have := bB t toks l rest hp
      exact iC t p l rest (by omega)
  · intro t toks hb
    cases toks with
    | nil => simp [prefixP]
    | cons tok rs =>
      simp only [List.length_cons] at hb
      have e1 := fun p => iA t p rs (by omega)
      have e2 := fun en => iF t en rs (by omega)
      simp only [prefixP, e1, e2]
  · intro t p l toks hb
    cases toks with
    | nil => simp [loop]
    | cons tok rs =>
      simp only [List.length_cons] at hb
      have e1 := fun fn => iD t fn l tok rs (by omega)
      simp only [loop, e1]
      grind
  · intro t fn l tok rest hb
    have hs := skipNl_length_le rest
    have e1 := fun t' p => iA t' p rest (by omega)
    have e2 := fun p => iA t p (skipNl rest) (by omega)
    have e3 := fun en => iF t en rest (by omega)
    cases fn
    all_goals simp only [infixP, e1, e2, e3]
    all_goals try grind [skipNl_length_le, tail_length_le]
  · intro t l lo toks hb
    have e1 := fun p => iA t p toks (by omega)
    simp only [sliceTail, e1]
  · intro t en toks hb
    have hs := skipNl_length_le toks
    have e1 := fun p => iA t p (skipNl toks) (by omega)
    simp only [exprList, e1]
    grind
  · intro t en toks hb
    cases toks with
    | nil => simp [listTail, headIs, skipNl]
    | cons tok rs =>
      simp only [List.length_cons] at hb
      have hs := skipNl_length_le rs
      have e1 := fun p => iA t p (skipNl rs) (by omega)
      conv => lhs; rw [listTail]
      conv => rhs; rw [listTail]
      simp only [List.tail_cons, e1]
      cases hP : parseNode f t Level.LOWEST.num (skipNl rs) with
      | none => rfl
      | some v =>
        obtain ⟨e, rest'⟩ := v
        have := bA t _ _ e rest' hP
        have e2 := iG t en rest' (by omega)
        dsimp only
        rw [e2]
        rfl

theorem stable : ∀ f, Stable f
  | 0 => by
    refine ⟨?_, ?_, ?_, ?_, ?_, ?_, ?_⟩ <;> intros <;> omega
  | f + 1 => stable_succ f (stable f)


end Pratt

end Risor.C03.Front
