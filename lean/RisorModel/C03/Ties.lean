import RisorModel.C03.Model
import RisorModel.C03.Lemmas
import RisorModel.Generated.C03
import RisorModel.Generated.C03Front
/-!
C03 ties: facts regenerated from /repo on this run (extract/c03.go) against the reviewed
lists.  The comparisons are one-sided on purpose: a NEW panic site, a NEW unchecked type
assertion, a REMOVED recover scope, a changed array limit or an emit site whose operand
count disagrees with op/op.go, a parser loop that newly drops the result of `nextToken`
breaks a lemma; deleting a panic or adding a recover (an improvement) does not.
-/
namespace Risor.C03
open Risor.Generated.C03

/-- Explicit panics on the parse/compile path, each read against its callers:
* `compile#0` (unknown node type) fires for a nil `ast.Node` interface — reachable today
  through the parser's nil children (finding C03-parser-nil-node);
* `makeInstruction#0` cannot fire: `emit_arity_ok` below;
* `GetLineText#0/#1` cannot fire for tokens the lexer produced: `C03_partial_lineText`
  (Props) + the per-token correspondence check. -/
def reviewedPanicSites : List String := [
  "compiler.Compiler.compile#0: panic(fmt.Sprintf(\"compile error: unknown ast node type: %T\", node))",
  "compiler.makeInstruction#0: panic(\"compile error: wrong operand count\")",
  "lexer.Lexer.GetLineText#0: panic(fmt.Errorf(\"invalid token start position: %d token: %q input length: %…)",
  "lexer.Lexer.GetLineText#1: panic(fmt.Errorf(\"invalid token start line: %d\", tokenStart.Line))"
]

/-- `parseGetAttr` asserts `p.parseIdent().(*ast.Ident)` right after checking that the
    current token is an IDENT; `parseIdent` returns nil only for an empty literal, which
    `readIdentifier` never produces. -/
def reviewedAsserts : List String := [
  "parser.Parser.parseGetAttr#0: p.parseIdent().(*ast.Ident)"
]

/-- vm/: `New` panics only when a host global cannot be converted (not with the default
    globals; `risor.Eval` uses `Run`→`createVM` which returns the error); `reloadCode` and
    `wrapCode` are reached only under `runCodeInternal`'s recover. -/
def reviewedVmPanicSites : List String := [
  "vm.New#0: panic(err)",
  "vm.VirtualMachine.reloadCode#0: panic(\"main code not loaded\")",
  "vm.wrapCode#0: panic(fmt.Sprintf(\"unsupported constant type: %T\", constant))"
]

/-- `Parser.nextToken` stops advancing once `p.err` is set, so a loop of the parser that
    calls it and DROPS its result must end some other way when an error is recorded.  These
    are all such loops (function#ordinal of the `for` in the function, condition, number of
    dropped calls directly in the loop), each read against the code:
* `parseVar#0`, `parseDeclaration#0` (`for p.peekTokenIs(COMMA)`): the dropped call moves to
  the comma and is followed by `expectPeek(IDENT)`, which fails — and returns — when the
  token did not move (the peek token is still the comma);
* `parseSwitch#0` (the outer loop, Model: `switchLoop`): the dropped call moves past `case`;
  every path of a round then returns or reaches the CHECKED `nextToken` before the block of
  the case (`switchLoop_terminates`; that call and the two of the comma loop `parseSwitch#1`
  were dropped calls until the repair of `C03-switch-error-loop`: with them the list has
  `parseSwitch#0 … 2 unchecked` and `parseSwitch#1 … 2 unchecked`, which are NOT reviewed);
* `parseFromImport#2` (`for {`): after `as` and after `,` the next statement is
  `expectPeek(IDENT)`, which fails when the token did not move (or the loop breaks);
* `parseFuncParams#0`: every round starts with a return (EOF, not an identifier) or with
  the checked `nextToken` after the parameter name;
* `parsePipe#0` (`for {`): the dropped call is followed by `continue`, and the round starts
  with a checked `nextToken`;
* `parseMapOrSet#1`: the dropped call is followed by `break`; `parseMapOrSet#5`: the dropped
  call (move to the comma) ends the round, the next round starts with a checked `nextToken`. -/
def reviewedAdvanceLoops : List String := [
  "parser.Parser.parseDeclaration#0: for p.peekTokenIs(token.COMMA): 1 unchecked nextToken()",
  "parser.Parser.parseFromImport#2: for (no condition): 2 unchecked nextToken()",
  "parser.Parser.parseFuncParams#0: for !p.curTokenIs(token.RPAREN): 3 unchecked nextToken()",
  "parser.Parser.parseMapOrSet#1: for !p.peekTokenIs(token.RBRACE): 1 unchecked nextToken()",
  "parser.Parser.parseMapOrSet#5: for !p.peekTokenIs(token.RBRACE): 1 unchecked nextToken()",
  "parser.Parser.parsePipe#0: for (no condition): 1 unchecked nextToken()",
  "parser.Parser.parseSwitch#0: for !p.curTokenIs(token.RBRACE): 1 unchecked nextToken()",
  "parser.Parser.parseVar#0: for p.peekTokenIs(token.COMMA): 1 unchecked nextToken()"
]

/-- no loop of the parser drops the result of `nextToken` outside the reviewed list: in
    particular the comma loop of a case list does not (it is not in the table at all) and the
    outer loop of parseSwitch drops only the call after `case` — the two loops are the ones
    `caseLoop` / `switchLoop` model, with their `nextToken` results tested -/
theorem parser_advance_loops_reviewed :
    parserAdvanceLoops.all (reviewedAdvanceLoops.contains ·) = true := by decide

/-- the two entries the table had before the repair of `C03-switch-error-loop` (the comma
    loop dropping both results, the outer loop dropping two) are gone -/
theorem preFix_switch_loops_absent :
    parserAdvanceLoops.contains "parser.Parser.parseSwitch#1: for p.peekTokenIs(token.COMMA): 2 unchecked nextToken()" = false ∧
    parserAdvanceLoops.contains "parser.Parser.parseSwitch#0: for !p.curTokenIs(token.RBRACE): 2 unchecked nextToken()" = false := by
  decide

/-- no explicit panic on the parse/compile path outside the reviewed list -/
theorem panic_sites_reviewed : panicSites.all (reviewedPanicSites.contains ·) = true := by decide

/-- no unchecked type assertion on the parse/compile/option path outside the reviewed list -/
theorem unchecked_asserts_reviewed : uncheckedAsserts.all (reviewedAsserts.contains ·) = true := by decide

/-- no explicit panic in vm/ outside the reviewed list -/
theorem vm_panic_sites_reviewed : vmPanicSites.all (reviewedVmPanicSites.contains ·) = true := by decide

/-- `Run`/`RunCode`, `Call` and spawned threads still recover -/
theorem recover_scopes_present : requiredRecovers.all (vmRecovers.contains ·) = true := by decide

/-- … hence, with the recover scopes the extractor finds in the code of THIS run, no
    evaluation — whatever its entry point, whatever panics in its main code and in any of
    the threads it starts — ends with the process killed (model level; the harness's
    `thread|…` cases observe the same on the real code with concurrency enabled). -/
theorem code_scopes_contain_panics (x : Exec) : x.killed vmRecovers = false :=
  exec_not_killed vmRecovers recover_scopes_present x

/-- the array sizes of the VM model are the ones in vm/vm.go -/
theorem vm_limits_match : maxStackDepth = maxStack ∧ maxFrameDepth = maxFrames := by decide

/-! ### Native nesting (Model 4c) -/

/-- `frames` and `stack` of `vm.VirtualMachine` are Go ARRAYS of the two limits: every index
    into them is bounds-checked by Go and an index past the end is a Go panic (which the
    recover scopes contain), whichever function computes the index.  A slice that grows has no
    such end: `each_reentry_needs_bound`. -/
theorem frames_fixed_array :
    vmArrays = ["frames: [MaxFrameDepth]frame", "stack: [MaxStackDepth]object.Object"] := by decide

/-- the three places where `vm.eval` is called, each after claiming a frame: frame 0 for the
    entry point, frame `fp+1` for every function call (`callFunction`: the Call opcode,
    callbacks of builtins through the context's CallFunc, `vm.Call`, deferred calls) and for
    every module body (`importModule`) — the frame-index test of the `enter` step of `nestStep`;
    `callFunction` is the only one of them that can be re-entered at the SAME frame index (its
    deferred calls), and it is the one that counts its nesting: `call_depth_discipline` -/
def reviewedEvalReentries : List String := [
  "vm.VirtualMachine.callFunction: activateFunction(vm.fp + 1, …) then eval",
  "vm.VirtualMachine.importModule: activateCode(vm.fp + 1, …) then eval",
  "vm.VirtualMachine.runCodeInternal: activateCode(0, …) then eval"
]

/-- no re-entry of `vm.eval` outside the reviewed list (none that claims no frame, or another
    frame than `fp+1`) -/
theorem eval_reentries_reviewed :
    evalReentries.all (reviewedEvalReentries.contains ·) = true := by decide

/-- what `callFunction` does with its nesting counter, in source order: it TESTS `vm.callDepth`
    against `MaxFrameDepth` (= `maxCalls`: `vm_limits_match`) and returns the error before
    anything is claimed; raises it; lowers it in the Go `defer` that is registered FIRST — which
    therefore runs LAST, after the `defer` registered later that runs the frame's deferred calls
    (`range callFrame.defers`): the counter is still raised while those run; `activateFunction`
    and `eval` come after the test.  No other function of vm/ reads or writes the counter
    (`Clone` builds the clone's struct without it: a clone starts at 0, like `Nest.init`).
    This is the `enter` step of `nestStep` with `checked = true`, and the `leave` / `defersDone`
    steps' `calls - 1`. -/
def reviewedCallDepthUses : List String := [
  "vm.VirtualMachine.callFunction: if vm.callDepth >= MaxFrameDepth { return }; callDepth++; defer{; callDepth--; }; activateFunction; defer{; range defers; }; eval"
]

set_option maxRecDepth 8000 in
/-- the nesting counter of `callFunction` is used exactly as reviewed (since the repair of
    `C03-defer-recursion-stack-overflow`; on the pre-fix code the list was
    `["…callFunction: defer{; }; activateFunction; defer{; range defers; }; eval"]` — no test:
    `preFixNestRun`) -/
theorem call_depth_discipline : callDepthUses = reviewedCallDepthUses := by decide

/-! ### Mutexes (Model 4d) -/

/-- the mutex calls of a function are `m.Lock()` then `defer m.Unlock()` on the same `m` (or
    the read-lock pair), and nothing else: on every path through the function the mutex is
    taken once and released once, at the return -/
def lockThenDeferUnlock (ops : List (String × String × Bool)) : Bool :=
  match ops with
  | [(m1, "Lock", false), (m2, "Unlock", true)] => m1 == m2
  | [(m1, "RLock", false), (m2, "RUnlock", true)] => m1 == m2
  | _ => false

/-- every function of importer/, vm/, compiler/ and the root package that touches a mutex
    follows that discipline: no `Unlock` by hand anywhere on the evaluation path, hence no
    path on which a deferred `Unlock` can meet a mutex that was already released -/
theorem mutex_discipline : mutexOps.all (fun f => lockThenDeferUnlock f.2) = true := by decide

/-- a mutex call of the table as an event of the model -/
def evOf : String × String × Bool → Option MuEv
  | (_, "Lock", false) => some .lock
  | (_, "Unlock", false) => some .unlock
  | (_, "Unlock", true) => some .deferUnlock
  | _ => none

/-- the mutex events of `LocalImporter.Import` and `FSImporter.Import` in the code of THIS run
    are the ones of the Impl model, on every path — so `import_never_fatal` (Props) speaks
    about this code: no sequence of imports, whatever the module files contain, ends the
    process or leaves the importer locked (the harness's `importer|…` and `import|…` cases
    observe the same on the real importers) -/
theorem importer_lock_discipline (cached : Bool) (f : FileSt) :
    (mutexOps.lookup "importer.LocalImporter.Import").map (·.filterMap evOf) = some (implPaths cached f) ∧
    (mutexOps.lookup "importer.FSImporter.Import").map (·.filterMap evOf) = some (implPaths cached f) := by
  unfold implPaths
  constructor <;> decide

/-- every emit site names its opcode as a constant and passes operands one by one -/
theorem emit_all_static : emitDynamic = [] := by decide

/-- emit_arity_ok: at EVERY `c.emit(op.X, …)` site of compiler/ the number of operands
    passed equals the operand count op/op.go registers for `X` … -/
theorem emit_arity_ok :
    emitSites.all (fun s => opOperands.lookup s.2.1 == some s.2.2) = true := by decide

/-- … hence `makeInstruction`'s "wrong operand count" panic cannot fire at any of them. -/
theorem emit_never_panics (s : String × String × Nat) (hs : s ∈ emitSites) :
    ∃ c, opOperands.lookup s.2.1 = some c ∧ (makeInstruction c s.2.2).isPanic = false := by
  have h := emit_arity_ok
  rw [List.all_eq_true] at h
  have := h s hs
  simp only [beq_iff_eq] at this
  refine ⟨s.2.2, this, ?_⟩
  simp [makeInstruction, Out.isPanic]

/-! ### Front end: index / slice bounds, nesting depth (extract/c03front.go) -/

open Risor.Generated.C03Front in
/-- Every index `x[i]` and slice expression `x[a:b]` on a slice, array or string (maps are not
    listed) of lexer/lexer.go and parser/*.go, with what the extractor could establish
    SYNTACTICALLY about its upper bound (`bound-check`: dominated by a test against `len(x)` that
    names the index; `loop-len`; `const-fixed`; `slice-len-derived`; `UNGUARDED`: nothing
    established — each of those is read against the code below).  A Go index out of range is
    a run-time panic, and nothing on the parse path recovers (`frontRecovers`): each entry here
    is a place where `parser.Parse` could let a Go panic out.

    The classified entries, for the record: `GetLineText|l.characters[end]` is right of
    `end < len(l.characters) &&`; `peekChar` returns NUL first when
    `l.nextPosition >= len(l.characters)`; `readChar` indexes inside
    `if l.position < len(l.characters)`; `parseInt|lit[1:]` is inside `… && len(lit) > 1`;
    `parseString|statements[0]` is in the else-branch of `len(statements) == 0`.
    (The extractor does not look at LOWER bounds: `end` in `GetLineText` is negative only for an
    EOF token at offset 0 of a non-empty input, `C03_counterexample_lineText`, outside
    `lineTextGuard`; the other classified indices are lexer positions ≥ 0 and constants.) -/
def reviewedFrontIndexSites : List String := [
  "lexer.Lexer.GetLineText|l.characters[end]|bound-check",
  -- REVIEW: `start` is `tokenStart.Char` (minus 1 for EOF), the panic guard above admits
  -- `Char ≤ len+1`, the loop tests only `start > 0`: for a token inside `lineTextGuard`
  -- (Props: non-EOF `Char ≤ len`, EOF `1 ≤ Char ≤ len+1`) `0 < start ≤ len`, so `start-1` is
  -- in range — `C03_partial_lineText`.  OUTSIDE the guard it is NOT: a non-EOF token with
  -- `Char = len+1` indexes `l.characters[len]`.  The lexer produces no such token (its token
  -- starts are positions it has read, EOF at `len`); the harness compares every token.
  "lexer.Lexer.GetLineText|l.characters[start-1]|UNGUARDED",
  -- REVIEW: same function, same theorem: inside `lineTextGuard` the two scans return
  -- `0 ≤ s ≤ e ≤ len` (`C03_partial_lineText`: "a slice `[s, e)` inside the input").
  "lexer.Lexer.GetLineText|l.characters[start:end]|UNGUARDED",
  "lexer.Lexer.peekChar|l.characters[l.nextPosition]|bound-check",
  -- REVIEW: `position = l.position+1` at the opening backtick; the loop calls `readChar` at
  -- least once before `break` (so `l.position ≥ position`: `readChar` is the only writer of
  -- `position`/`nextPosition` and moves by one) and only after `peekChar() != 0`, i.e.
  -- `l.nextPosition < len(l.characters)`: at `break` `l.position < len`.  In range.
  "lexer.Lexer.readBacktick|l.characters[position:l.position]|UNGUARDED",
  "lexer.Lexer.readChar|l.characters[l.position]|bound-check",
  -- REVIEW: `allChars` is the 16-byte constant "0123456789abcdef"; `base` is a parameter of
  -- the unexported `readEscapeSequence`, whose seven call sites (all in `readString`) pass
  -- the literals 16 or 8.  In range.
  "lexer.Lexer.readEscapeSequence|allChars[:base]|UNGUARDED",
  -- REVIEW: `idents` starts as the one-element literal `[]*ast.Ident{ast.NewIdent(p.curToken)}`
  -- and is only appended to (the test before it is `len(idents) > 1 → return`).  In range.
  "parser.Parser.parseDeclaration|idents[0]|UNGUARDED",
  "parser.Parser.parseInt|lit[1:]|bound-check",
  -- REVIEW: inside `if strings.HasPrefix(lit, "0x")`, hence `len(lit) ≥ 2`.  In range.
  "parser.Parser.parseInt|lit[2:]|UNGUARDED",
  "parser.Parser.parseString|statements[0]|bound-check",
  -- REVIEW: as parseDeclaration: one-element literal, only appended to.  In range.
  "parser.Parser.parseVar|idents[0]|UNGUARDED"
]

/-- the UNGUARDED entries of the table above, on their own: a NEW index or slice expression
    that no test against `len` dominates is named by the lemma that fails -/
def reviewedUnguardedFrontSites : List String := [
  "lexer.Lexer.GetLineText|l.characters[start-1]|UNGUARDED",
  "lexer.Lexer.GetLineText|l.characters[start:end]|UNGUARDED",
  "lexer.Lexer.readBacktick|l.characters[position:l.position]|UNGUARDED",
  "lexer.Lexer.readEscapeSequence|allChars[:base]|UNGUARDED",
  "parser.Parser.parseDeclaration|idents[0]|UNGUARDED",
  "parser.Parser.parseInt|lit[2:]|UNGUARDED",
  "parser.Parser.parseVar|idents[0]|UNGUARDED"
]

set_option maxRecDepth 8000 in
/-- the index and slice expressions of lexer/lexer.go and parser/*.go in the code of THIS run,
    with their classes, are exactly the reviewed ones (two-sided: a new site, a site whose
    dominating test was removed — its class changes — and a removed site all break it) -/
theorem front_index_sites_reviewed :
    Risor.Generated.C03Front.frontIndexSites = reviewedFrontIndexSites := by decide

set_option maxRecDepth 8000 in
/-- the sites with no dominating test are exactly the seven read by hand above (the extractor
    emits them as a list of their own; `front_unguarded_is_filter` ties that list to the table) -/
theorem front_unguarded_sites_reviewed :
    Risor.Generated.C03Front.frontUnguardedSites = reviewedUnguardedFrontSites := by decide

set_option maxRecDepth 8000 in
/-- the short list is the UNGUARDED part of the full table, nothing dropped: every entry of
    `frontIndexSites` is in `frontUnguardedSites` or in the reviewed table with another class -/
theorem front_unguarded_is_filter :
    Risor.Generated.C03Front.frontIndexSites.all (fun s =>
      Risor.Generated.C03Front.frontUnguardedSites.contains s ||
      (reviewedFrontIndexSites.contains s && !reviewedUnguardedFrontSites.contains s)) = true := by
  decide

/-- The real recursive-descent parser has NO nesting-depth guard: no constant, variable, field,
    parameter, local or function of parser/*.go has "depth" in its name (no `depth`, no
    `maxDepth`).  The nesting-depth theorem of the Pratt model (C03/FrontProps.lean: the depth
    of the tree is at most the number of tokens) is therefore the ONLY bound there is: the
    native recursion of `parseExpression` grows with the input, and a source of about a million
    nested brackets ends the process with a fatal stack overflow — finding
    `C03-deep-nesting-stack-overflow` (known, listed).  If a guard is added to the parser this
    lemma breaks: its constant must then be tied here and the finding re-judged. -/
theorem parser_has_no_depth_guard : Risor.Generated.C03Front.parserDepthGuards = [] := by decide

set_option maxRecDepth 8000 in
/-- the recursion points of the parser: every function of parser/parser.go that calls
    `parseExpression` directly.  Each is reached from `parseExpression` through the prefix /
    infix / postfix tables or from `parseStatement`, so each adds native frames per level of
    nesting of its construct (brackets, calls, `[`, `{`, prefix operators, `if`, `switch`,
    `func` bodies through `parseStatement`, …) with nothing counting them
    (`parser_has_no_depth_guard`). -/
theorem parser_recursion_points_reviewed :
    Risor.Generated.C03Front.parserRecursiveEntry = [
      "parser.Parser.parseAssign",
      "parser.Parser.parseAssignmentValue",
      "parser.Parser.parseDefer",
      "parser.Parser.parseExprList",
      "parser.Parser.parseFor",
      "parser.Parser.parseFuncParams",
      "parser.Parser.parseGetAttr",
      "parser.Parser.parseGo",
      "parser.Parser.parseGroupedExpr",
      "parser.Parser.parseIf",
      "parser.Parser.parseIn",
      "parser.Parser.parseIndex",
      "parser.Parser.parseInfixExpr",
      "parser.Parser.parseKeyValue",
      "parser.Parser.parseMapOrSet",
      "parser.Parser.parseNotIn",
      "parser.Parser.parsePipe",
      "parser.Parser.parsePrefixExpr",
      "parser.Parser.parseRange",
      "parser.Parser.parseReceive",
      "parser.Parser.parseReturn",
      "parser.Parser.parseSend",
      "parser.Parser.parseSwitch",
      "parser.Parser.parseTernary"
    ] := by decide

end Risor.C03
