import RisorModel.C03.Model
import RisorModel.C03.Lemmas
import RisorModel.Generated.C03
/-!
C03 ties: facts regenerated from /repo on this run (extract/c03.go) against the reviewed
lists.  The comparisons are one-sided on purpose: a NEW panic site, a NEW unchecked type
assertion, a REMOVED recover scope, a changed array limit or an emit site whose operand
count disagrees with op/op.go breaks a lemma; deleting a panic or adding a recover (an
improvement) does not.
-/
namespace Risor.C03
open Risor.Generated.C03

/-- Explicit panics on the parse/compile path, each read against its callers:
* `compile#0` (unknown node type) fires for a nil `ast.Node` interface — reachable today
  through the parser's nil children (finding C03-parser-nil-node);
* `makeInstruction#0` cannot fire: `emit_arity_ok` below;
* `GetLineText#0/#1` cannot fire for tokens the lexer produced: `C03_partial_lineText`
  (Props) + the per-token correspondence check. -/
def reviewedPanicSites : List String := [
  "compiler.Compiler.compile#0: panic(fmt.Sprintf(\"compile error: unknown ast node type: %T\", node))",
  "compiler.makeInstruction#0: panic(\"compile error: wrong operand count\")",
  "lexer.Lexer.GetLineText#0: panic(fmt.Errorf(\"invalid token start position: %d token: %q input length: %…)",
  "lexer.Lexer.GetLineText#1: panic(fmt.Errorf(\"invalid token start line: %d\", tokenStart.Line))"
]

/-- `parseGetAttr` asserts `p.parseIdent().(*ast.Ident)` right after checking that the
    current token is an IDENT; `parseIdent` returns nil only for an empty literal, which
    `readIdentifier` never produces. -/
def reviewedAsserts : List String := [
  "parser.Parser.parseGetAttr#0: p.parseIdent().(*ast.Ident)"
]

/-- vm/: `New` panics only when a host global cannot be converted (not with the default
    globals; `risor.Eval` uses `Run`→`createVM` which returns the error); `reloadCode` and
    `wrapCode` are reached only under `runCodeInternal`'s recover. -/
def reviewedVmPanicSites : List String := [
  "vm.New#0: panic(err)",
  "vm.VirtualMachine.reloadCode#0: panic(\"main code not loaded\")",
  "vm.wrapCode#0: panic(fmt.Sprintf(\"unsupported constant type: %T\", constant))"
]

/-- no explicit panic on the parse/compile path outside the reviewed list -/
theorem panic_sites_reviewed : panicSites.all (reviewedPanicSites.contains ·) = true := by decide

/-- no unchecked type assertion on the parse/compile/option path outside the reviewed list -/
theorem unchecked_asserts_reviewed : uncheckedAsserts.all (reviewedAsserts.contains ·) = true := by decide

/-- no explicit panic in vm/ outside the reviewed list -/
theorem vm_panic_sites_reviewed : vmPanicSites.all (reviewedVmPanicSites.contains ·) = true := by decide

/-- `Run`/`RunCode`, `Call` and spawned threads still recover -/
theorem recover_scopes_present : requiredRecovers.all (vmRecovers.contains ·) = true := by decide

/-- … hence, with the recover scopes the extractor finds in the code of THIS run, no
    evaluation — whatever its entry point, whatever panics in its main code and in any of
    the threads it starts — ends with the process killed (model level; the harness's
    `thread|…` cases observe the same on the real code with concurrency enabled). -/
theorem code_scopes_contain_panics (x : Exec) : x.killed vmRecovers = false :=
  exec_not_killed vmRecovers recover_scopes_present x

/-- the array sizes of the VM model are the ones in vm/vm.go -/
theorem vm_limits_match : maxStackDepth = maxStack ∧ maxFrameDepth = maxFrames := by decide

/-- every emit site names its opcode as a constant and passes operands one by one -/
theorem emit_all_static : emitDynamic = [] := by decide

/-- emit_arity_ok: at EVERY `c.emit(op.X, …)` site of compiler/ the number of operands
    passed equals the operand count op/op.go registers for `X` … -/
theorem emit_arity_ok :
    emitSites.all (fun s => opOperands.lookup s.2.1 == some s.2.2) = true := by decide

/-- … hence `makeInstruction`'s "wrong operand count" panic cannot fire at any of them. -/
theorem emit_never_panics (s : String × String × Nat) (hs : s ∈ emitSites) :
    ∃ c, opOperands.lookup s.2.1 = some c ∧ (makeInstruction c s.2.2).isPanic = false := by
  have h := emit_arity_ok
  rw [List.all_eq_true] at h
  have := h s hs
  simp only [beq_iff_eq] at this
  refine ⟨s.2.2, this, ?_⟩
  simp [makeInstruction, Out.isPanic]

end Risor.C03
