import RisorModel.C03.Model
import RisorModel.C03.Lemmas
import RisorModel.Generated.C03
/-!
C03 ties: facts regenerated from /repo on this run (extract/c03.go) against the reviewed
lists.  The comparisons are one-sided on purpose: a NEW panic site, a NEW unchecked type
assertion, a REMOVED recover scope, a changed array limit or an emit site whose operand
count disagrees with op/op.go, a parser loop that newly drops the result of `nextToken`
breaks a lemma; deleting a panic or adding a recover (an improvement) does not.
-/
namespace Risor.C03
open Risor.Generated.C03

/-- Explicit panics on the parse/compile path, each read against its callers:
* `compile#0` (unknown node type) fires for a nil `ast.Node` interface — reachable today
  through the parser's nil children (finding C03-parser-nil-node);
* `makeInstruction#0` cannot fire: `emit_arity_ok` below;
* `GetLineText#0/#1` cannot fire for tokens the lexer produced: `C03_partial_lineText`
  (Props) + the per-token correspondence check. -/
def reviewedPanicSites : List String := [
  "compiler.Compiler.compile#0: panic(fmt.Sprintf(\"compile error: unknown ast node type: %T\", node))",
  "compiler.makeInstruction#0: panic(\"compile error: wrong operand count\")",
  "lexer.Lexer.GetLineText#0: panic(fmt.Errorf(\"invalid token start position: %d token: %q input length: %…)",
  "lexer.Lexer.GetLineText#1: panic(fmt.Errorf(\"invalid token start line: %d\", tokenStart.Line))"
]

/-- `parseGetAttr` asserts `p.parseIdent().(*ast.Ident)` right after checking that the
    current token is an IDENT; `parseIdent` returns nil only for an empty literal, which
    `readIdentifier` never produces. -/
def reviewedAsserts : List String := [
  "parser.Parser.parseGetAttr#0: p.parseIdent().(*ast.Ident)"
]

/-- vm/: `New` panics only when a host global cannot be converted (not with the default
    globals; `risor.Eval` uses `Run`→`createVM` which returns the error); `reloadCode` and
    `wrapCode` are reached only under `runCodeInternal`'s recover. -/
def reviewedVmPanicSites : List String := [
  "vm.New#0: panic(err)",
  "vm.VirtualMachine.reloadCode#0: panic(\"main code not loaded\")",
  "vm.wrapCode#0: panic(fmt.Sprintf(\"unsupported constant type: %T\", constant))"
]

/-- `Parser.nextToken` stops advancing once `p.err` is set, so a loop of the parser that
    calls it and DROPS its result must end some other way when an error is recorded.  These
    are all such loops (function#ordinal of the `for` in the function, condition, number of
    dropped calls directly in the loop), each read against the code:
* `parseVar#0`, `parseDeclaration#0` (`for p.peekTokenIs(COMMA)`): the dropped call moves to
  the comma and is followed by `expectPeek(IDENT)`, which fails — and returns — when the
  token did not move (the peek token is still the comma);
* `parseSwitch#0` (the outer loop, Model: `switchLoop`): the dropped call moves past `case`;
  every path of a round then returns or reaches the CHECKED `nextToken` before the block of
  the case (`switchLoop_terminates`; that call and the two of the comma loop `parseSwitch#1`
  were dropped calls until the repair of `C03-switch-error-loop`: with them the list has
  `parseSwitch#0 … 2 unchecked` and `parseSwitch#1 … 2 unchecked`, which are NOT reviewed);
* `parseFromImport#2` (`for {`): after `as` and after `,` the next statement is
  `expectPeek(IDENT)`, which fails when the token did not move (or the loop breaks);
* `parseFuncParams#0`: every round starts with a return (EOF, not an identifier) or with
  the checked `nextToken` after the parameter name;
* `parsePipe#0` (`for {`): the dropped call is followed by `continue`, and the round starts
  with a checked `nextToken`;
* `parseMapOrSet#1`: the dropped call is followed by `break`; `parseMapOrSet#5`: the dropped
  call (move to the comma) ends the round, the next round starts with a checked `nextToken`. -/
def reviewedAdvanceLoops : List String := [
  "parser.Parser.parseDeclaration#0: for p.peekTokenIs(token.COMMA): 1 unchecked nextToken()",
  "parser.Parser.parseFromImport#2: for (no condition): 2 unchecked nextToken()",
  "parser.Parser.parseFuncParams#0: for !p.curTokenIs(token.RPAREN): 3 unchecked nextToken()",
  "parser.Parser.parseMapOrSet#1: for !p.peekTokenIs(token.RBRACE): 1 unchecked nextToken()",
  "parser.Parser.parseMapOrSet#5: for !p.peekTokenIs(token.RBRACE): 1 unchecked nextToken()",
  "parser.Parser.parsePipe#0: for (no condition): 1 unchecked nextToken()",
  "parser.Parser.parseSwitch#0: for !p.curTokenIs(token.RBRACE): 1 unchecked nextToken()",
  "parser.Parser.parseVar#0: for p.peekTokenIs(token.COMMA): 1 unchecked nextToken()"
]

/-- no loop of the parser drops the result of `nextToken` outside the reviewed list: in
    particular the comma loop of a case list does not (it is not in the table at all) and the
    outer loop of parseSwitch drops only the call after `case` — the two loops are the ones
    `caseLoop` / `switchLoop` model, with their `nextToken` results tested -/
theorem parser_advance_loops_reviewed :
    parserAdvanceLoops.all (reviewedAdvanceLoops.contains ·) = true := by decide

/-- the two entries the table had before the repair of `C03-switch-error-loop` (the comma
    loop dropping both results, the outer loop dropping two) are gone -/
theorem preFix_switch_loops_absent :
    parserAdvanceLoops.contains "parser.Parser.parseSwitch#1: for p.peekTokenIs(token.COMMA): 2 unchecked nextToken()" = false ∧
    parserAdvanceLoops.contains "parser.Parser.parseSwitch#0: for !p.curTokenIs(token.RBRACE): 2 unchecked nextToken()" = false := by
  decide

/-- no explicit panic on the parse/compile path outside the reviewed list -/
theorem panic_sites_reviewed : panicSites.all (reviewedPanicSites.contains ·) = true := by decide

/-- no unchecked type assertion on the parse/compile/option path outside the reviewed list -/
theorem unchecked_asserts_reviewed : uncheckedAsserts.all (reviewedAsserts.contains ·) = true := by decide

/-- no explicit panic in vm/ outside the reviewed list -/
theorem vm_panic_sites_reviewed : vmPanicSites.all (reviewedVmPanicSites.contains ·) = true := by decide

/-- `Run`/`RunCode`, `Call` and spawned threads still recover -/
theorem recover_scopes_present : requiredRecovers.all (vmRecovers.contains ·) = true := by decide

/-- … hence, with the recover scopes the extractor finds in the code of THIS run, no
    evaluation — whatever its entry point, whatever panics in its main code and in any of
    the threads it starts — ends with the process killed (model level; the harness's
    `thread|…` cases observe the same on the real code with concurrency enabled). -/
theorem code_scopes_contain_panics (x : Exec) : x.killed vmRecovers = false :=
  exec_not_killed vmRecovers recover_scopes_present x

/-- the array sizes of the VM model are the ones in vm/vm.go -/
theorem vm_limits_match : maxStackDepth = maxStack ∧ maxFrameDepth = maxFrames := by decide

/-! ### Native nesting (Model 4c) -/

/-- `frames` and `stack` of `vm.VirtualMachine` are Go ARRAYS of the two limits: every index
    into them is bounds-checked by Go and an index past the end is a Go panic (which the
    recover scopes contain), whichever function computes the index.  A slice that grows has no
    such end: `each_reentry_needs_bound`. -/
theorem frames_fixed_array :
    vmArrays = ["frames: [MaxFrameDepth]frame", "stack: [MaxStackDepth]object.Object"] := by decide

/-- the three places where `vm.eval` is called, each after claiming a frame: frame 0 for the
    entry point, frame `fp+1` for every function call (`callFunction`: the Call opcode,
    callbacks of builtins through the context's CallFunc, `vm.Call`, deferred calls) and for
    every module body (`importModule`) — the frame-index test of the `enter` step of `nestStep`;
    `callFunction` is the only one of them that can be re-entered at the SAME frame index (its
    deferred calls), and it is the one that counts its nesting: `call_depth_discipline` -/
def reviewedEvalReentries : List String := [
  "vm.VirtualMachine.callFunction: activateFunction(vm.fp + 1, …) then eval",
  "vm.VirtualMachine.importModule: activateCode(vm.fp + 1, …) then eval",
  "vm.VirtualMachine.runCodeInternal: activateCode(0, …) then eval"
]

/-- no re-entry of `vm.eval` outside the reviewed list (none that claims no frame, or another
    frame than `fp+1`) -/
theorem eval_reentries_reviewed :
    evalReentries.all (reviewedEvalReentries.contains ·) = true := by decide

/-- what `callFunction` does with its nesting counter, in source order: it TESTS `vm.callDepth`
    against `MaxFrameDepth` (= `maxCalls`: `vm_limits_match`) and returns the error before
    anything is claimed; raises it; lowers it in the Go `defer` that is registered FIRST — which
    therefore runs LAST, after the `defer` registered later that runs the frame's deferred calls
    (`range callFrame.defers`): the counter is still raised while those run; `activateFunction`
    and `eval` come after the test.  No other function of vm/ reads or writes the counter
    (`Clone` builds the clone's struct without it: a clone starts at 0, like `Nest.init`).
    This is the `enter` step of `nestStep` with `checked = true`, and the `leave` / `defersDone`
    steps' `calls - 1`. -/
def reviewedCallDepthUses : List String := [
  "vm.VirtualMachine.callFunction: if vm.callDepth >= MaxFrameDepth { return }; callDepth++; defer{; callDepth--; }; activateFunction; defer{; range defers; }; eval"
]

set_option maxRecDepth 8000 in
/-- the nesting counter of `callFunction` is used exactly as reviewed (since the repair of
    `C03-defer-recursion-stack-overflow`; on the pre-fix code the list was
    `["…callFunction: defer{; }; activateFunction; defer{; range defers; }; eval"]` — no test:
    `preFixNestRun`) -/
theorem call_depth_discipline : callDepthUses = reviewedCallDepthUses := by decide

/-! ### Mutexes (Model 4d) -/

/-- the mutex calls of a function are `m.Lock()` then `defer m.Unlock()` on the same `m` (or
    the read-lock pair), and nothing else: on every path through the function the mutex is
    taken once and released once, at the return -/
def lockThenDeferUnlock (ops : List (String × String × Bool)) : Bool :=
  match ops with
  | [(m1, "Lock", false), (m2, "Unlock", true)] => m1 == m2
  | [(m1, "RLock", false), (m2, "RUnlock", true)] => m1 == m2
  | _ => false

/-- every function of importer/, vm/, compiler/ and the root package that touches a mutex
    follows that discipline: no `Unlock` by hand anywhere on the evaluation path, hence no
    path on which a deferred `Unlock` can meet a mutex that was already released -/
theorem mutex_discipline : mutexOps.all (fun f => lockThenDeferUnlock f.2) = true := by decide

/-- a mutex call of the table as an event of the model -/
def evOf : String × String × Bool → Option MuEv
  | (_, "Lock", false) => some .lock
  | (_, "Unlock", false) => some .unlock
  | (_, "Unlock", true) => some .deferUnlock
  | _ => none

/-- the mutex events of `LocalImporter.Import` and `FSImporter.Import` in the code of THIS run
    are the ones of the Impl model, on every path — so `import_never_fatal` (Props) speaks
    about this code: no sequence of imports, whatever the module files contain, ends the
    process or leaves the importer locked (the harness's `importer|…` and `import|…` cases
    observe the same on the real importers) -/
theorem importer_lock_discipline (cached : Bool) (f : FileSt) :
    (mutexOps.lookup "importer.LocalImporter.Import").map (·.filterMap evOf) = some (implPaths cached f) ∧
    (mutexOps.lookup "importer.FSImporter.Import").map (·.filterMap evOf) = some (implPaths cached f) := by
  unfold implPaths
  constructor <;> decide

/-- every emit site names its opcode as a constant and passes operands one by one -/
theorem emit_all_static : emitDynamic = [] := by decide

/-- emit_arity_ok: at EVERY `c.emit(op.X, …)` site of compiler/ the number of operands
    passed equals the operand count op/op.go registers for `X` … -/
theorem emit_arity_ok :
    emitSites.all (fun s => opOperands.lookup s.2.1 == some s.2.2) = true := by decide

/-- … hence `makeInstruction`'s "wrong operand count" panic cannot fire at any of them. -/
theorem emit_never_panics (s : String × String × Nat) (hs : s ∈ emitSites) :
    ∃ c, opOperands.lookup s.2.1 = some c ∧ (makeInstruction c s.2.2).isPanic = false := by
  have h := emit_arity_ok
  rw [List.all_eq_true] at h
  have := h s hs
  simp only [beq_iff_eq] at this
  refine ⟨s.2.2, this, ?_⟩
  simp [makeInstruction, Out.isPanic]

end Risor.C03
