import RisorModel.Util
import RisorModel.C03.Model
import RisorModel.C20.Model
import RisorModel.C20.Oracle
/-! Line-protocol front end of the C03 model (fields after the leading `C03`).

* `toks <runes> <a,b,eof[,len];…>`   runes = comma-separated code points (`-` = empty); per token
  the start/end rune offsets, whether it is the EOF token and optionally the number of runes of
  the source line the error quotes (default: the length of the model's GetLineText range) →
  `ok` then one field per token: `sl,sc,sls,el,ec,els,<G>,<F>` with the model's position
  registers at both ends, G = `P` | `s:e` (GetLineText) and F = `P` | `pad:n` (FriendlyErrorMessage)
* `ast <prefix tokens>` → `clean` | `nil <slot>`
* `vm <op*count,…>` → `ok <sp> <fp>` | `recovered <why>`
* `enter <run|call|thread> <ops:<op*count,…> | panic | return>` → `value` | `error <why>` |
  `killed <why>`: outcome for the process of a body run under that entry (Impl: all three
  recover scopes present); `ops:` bodies run on a fresh VM (`Vm.init`)
* `nest <run|call|thread> <limit> <op,op,…*count;…>` (ops: callOp callback hostCall importMod
  deferred = enter through that re-entry, leave, exitDefers, defersDone, leaveMod; each
  `;`-separated group is repeated `count` times) → `value` | `error <why>` (a recovered Go
  panic) | `raised <why>` (an ordinary evaluation error: the call depth) | `killed <why>`, then
  `peak=<n>` (`peakOpen` of the sequence): `nestRun limit` from `Nest.init` under that entry
* `importseq <name:state,…>` (state m = no file, b = a file that does not compile, g = a file
  that compiles) → `ok <M|Enf|Ebad,…>` | `fatal <call index> <why>` | `blocked <call index>`:
  `importSeq implPaths` on a fresh importer
* `life <untracked|closeKept|closeCleared> <api:ctx:body,…>` (api run | runCode | call; ctx plain |
  live | done; body returns | raises | panics) → `ok` then the outcome classes of the entries
  (`value` | `error` | `raised` | `killed`, comma-separated) then `running=<bool>`: `lifeSeq`
  from `Life.init`
* `get <scan|memoKept|memoCleared> <op,op,…>` (op `load:<name.name.…>` = the VM is pointed at a
  code object with these globals in slot order, `load:` for none; `get:<name>`) → `ok` then one
  outcome per `get` (`found:<slot>` | `notfound` | `nocode` | `escaped`, comma-separated; `-` for
  none): `getSeq` from `GetVm.init`
* `file <impl|recording> <ev,ev,…>` (ev close | cancel | resume) → `ok` then one outcome per event
  (`ok` | `callerPanic` | `killed`, comma-separated): `fileSeq` from `FileObj.init`
* `constexpr <prefix tokens>` (`n<decimal>`, `neg`, `add sub mul div mod xor shl shr band bor`) →
  `value <n>` | `error <why>` | `killed <why>`: `declRun implConst`
* `inspect <heap> <value>` → `ok <hex of the rendering>` | `nofuel`
* `equals <heap> <a> <b>` → `t|f|overflow` then `ranked=<bool>`
* `front <src-utf8-hex>` (the runes of a source text as UTF-8, `-` = empty) →
  `ok <class> <ntokens> <nrunes> <maxStop> <errcls>` for `ts := Risor.C20.lexAll src` (C20's lexer
  machine, imported): class `eof` (the last element is the EOF token) | `lexerr` (it is an error
  value) | `fuel` (neither: never, see FrontProps.lean); ntokens = `ts.length` (the final EOF /
  error element included); nrunes = `src.length`; maxStop = the largest `.stop` of `ts`; errcls =
  the error class or `-` -/
namespace Risor.C03
open Risor.Util

def parseNats (s : String) : Option (List Nat) :=
  if s = "-" then some [] else (s.splitOn ",").mapM String.toNat?

def allStates (cs : Array Nat) : Array LexSt := Id.run do
  let mut s := readChar cs LexSt.init
  let mut out := #[s]
  for _ in [0:cs.size + 2] do
    s := readChar cs s
    out := out.push s
  return out

def showOutPair (o : Out (Int × Int)) : String :=
  match o with
  | .panic _ => "P"
  | .ok (a, b) => toString a ++ ":" ++ toString b

def showOutNat (o : Out (Nat × Nat)) : String :=
  match o with
  | .panic _ => "P"
  | .ok (a, b) => toString a ++ ":" ++ toString b

/-- number of runes of the quoted line: given by the request (the returned error's own
    `SourceCode()`), or else the length of the range the `GetLineText` model returns
    (the empty text when it panics) -/
def quotedLen (g : Out (Int × Int)) (given : Option Nat) : Int :=
  match given with
  | some n => n
  | none =>
    match g with
    | .ok (s, e) => e - s
    | .panic _ => 0

def tokReply (cs : Array Nat) (st : Array LexSt) (spec : String) : String :=
  let go (a b e : String) (len : Option Nat) : String :=
    match a.toNat?, b.toNat? with
    | some a, some b =>
      match st[a]?, st[b]? with
      | some s, some t =>
        let g := getLineText cs s.pos s.line (e == "1")
        let f := friendly s.line s.col t.line t.col (quotedLen g len)
        s!"{s.line},{s.col},{s.lineStart},{t.line},{t.col},{t.lineStart},{showOutPair g},{showOutNat f}"
      | _, _ => "range"
    | _, _ => "bad"
  match spec.splitOn "," with
  | [a, b, e] => go a b e none
  | [a, b, e, l] =>
    match l.toNat? with
    | some n => go a b e (some n)
    | none => "bad"
  | _ => "bad"

def parseVal (s : String) : Option Val :=
  if s.startsWith "i" then (s.drop 1).toString.toInt?.map Val.int
  else if s.startsWith "r" then (s.drop 1).toString.toNat?.map Val.ref
  else none

def parseCont (s : String) : Option Cont :=
  if s.startsWith "L" then
    let body := (s.drop 1).toString
    if body = "" then some (.list []) else ((body.splitOn ",").mapM parseVal).map Cont.list
  else if s.startsWith "M" then
    let body := (s.drop 1).toString
    if body = "" then some (.map []) else
      ((body.splitOn ",").mapM fun (kv : String) =>
        match kv.splitOn "=" with
        | [k, v] => (parseVal v).map fun x => (k, x)
        | _ => none).map Cont.map
  else none

def parseHeap (s : String) : Option Heap :=
  if s = "-" then some [] else (s.splitOn ";").mapM parseCont

def parseVmOps (s : String) : Option (List VmOp) :=
  ((s.splitOn ",").mapM fun (part : String) =>
    match part.splitOn "*" with
    | [o, n] =>
      match n.toNat? with
      | some k =>
        (match o with
         | "push" => some VmOp.push
         | "pop" => some VmOp.pop
         | "call" => some VmOp.call
         | "ret" => some VmOp.ret
         | _ => none).map (List.replicate k)
      | none => none
    | _ => none).map List.flatten

def parseNOp (s : String) : Option NOp :=
  match s with
  | "callOp" => some (.enter .callOp)
  | "callback" => some (.enter .callback)
  | "hostCall" => some (.enter .hostCall)
  | "importMod" => some (.enter .importMod)
  | "deferred" => some (.enter .deferred)
  | "leave" => some .leave
  | "exitDefers" => some .exitDefers
  | "defersDone" => some .defersDone
  | "leaveMod" => some .leaveMod
  | _ => none

def parseNestOps (s : String) : Option (List NOp) :=
  ((s.splitOn ";").mapM fun (seg : String) =>
    match seg.splitOn "*" with
    | [ops, n] =>
      match n.toNat?, (ops.splitOn ",").mapM parseNOp with
      | some k, some l => some (List.replicate k l).flatten
      | _, _ => none
    | _ => none).map List.flatten

def parseEntry (entry : String) : Option Entry :=
  match entry with
  | "run" => some .run
  | "call" => some .call
  | "thread" => some .thread
  | _ => none

def parseImportSteps (s : String) : Option (List (String × FileSt)) :=
  if s = "-" then some [] else
  (s.splitOn ",").mapM fun (st : String) =>
    match st.splitOn ":" with
    | [n, "m"] => some (n, FileSt.missing)
    | [n, "b"] => some (n, FileSt.bad)
    | [n, "g"] => some (n, FileSt.good)
    | _ => none

def showImpRes : ImpRes → String
  | .module => "M"
  | .error w => if w.startsWith "import error" then "Enf" else "Ebad"

def parseLStep (s : String) : Option LStep :=
  match s.splitOn ":" with
  | [a, c, b] =>
    let api : Option HostApi := match a with
      | "run" => some .run | "runCode" => some .runCode | "call" => some .call | _ => none
    let ctx : Option CtxK := match c with
      | "plain" => some .plain | "live" => some .live | "done" => some .done | _ => none
    let body : Option RunBody := match b with
      | "returns" => some .returns | "raises" => some .raises | "panics" => some .panics | _ => none
    match api, ctx, body with
    | some a, some c, some b => some ⟨a, c, b⟩
    | _, _, _ => none
  | _ => none

def procClass : ProcRes → String
  | .value => "value"
  | .error _ => "error"
  | .raised _ => "raised"
  | .killed _ => "killed"

def parseIOp (s : String) : Option IOp :=
  match s with
  | "add" => some .add | "sub" => some .sub | "mul" => some .mul | "div" => some .div
  | "mod" => some .mod | "xor" => some .xor | "shl" => some .shl | "shr" => some .shr
  | "band" => some .band | "bor" => some .bor | _ => none

/-- prefix-token reader with fuel; returns the expression and the remaining tokens -/
def parseIExpr : Nat → List String → Option (IExpr × List String)
  | 0, _ => none
  | _, [] => none
  | fuel + 1, t :: rest =>
    if t = "neg" then
      match parseIExpr fuel rest with
      | some (e, r) => some (.neg e, r)
      | none => none
    else if t.startsWith "n" then
      ((t.drop 1).toString.toNat?).map fun n => (IExpr.lit (Int.ofNat n), rest)
    else
      match parseIOp t with
      | none => none
      | some o =>
        match parseIExpr fuel rest with
        | none => none
        | some (l, r1) =>
          match parseIExpr fuel r1 with
          | none => none
          | some (r, r2) => some (.bin o l r, r2)

def parseGetOp (s : String) : Option GetOp :=
  match s.splitOn ":" with
  | ["load", ns] => some (.load (if ns = "" then [] else ns.splitOn "."))
  | ["get", n] => some (.get n)
  | _ => none

def showGetRes : GetRes → String
  | .found i => "found:" ++ toString i
  | .notFound => "notfound"
  | .noCode => "nocode"
  | .escaped _ => "escaped"

def parseFEv : String → Option FEv
  | "close" => some .close | "cancel" => some .cancel | "resume" => some .resume | _ => none

def showFRes : FRes → String
  | .ok => "ok" | .callerPanic _ => "callerPanic" | .killed _ => "killed"

/-- how the token stream of `Risor.C20.lexAll` ends: class and error class -/
def frontClass (ts : List Risor.C20.PTok) : String × String :=
  match ts.getLast? with
  | some t =>
    match t.out with
    | .tok k _ => if k == "EOF" then ("eof", "-") else ("fuel", "-")
    | .errT _ _ c => ("lexerr", c)
    | .err c => ("lexerr", c)
  | none => ("fuel", "-")

def frontReply (src : Risor.C20.Chars) : String :=
  let ts := Risor.C20.lexAll src
  let (cls, ec) := frontClass ts
  let maxStop := ts.foldl (fun m t => max m t.stop) 0
  "ok\t" ++ cls ++ "\t" ++ toString ts.length ++ "\t" ++ toString src.length ++ "\t" ++ toString maxStop
    ++ "\t" ++ (if ec == "" then "-" else ec)

def handle : List String → String
  | ["front", h] =>
    match Risor.C20.hexChars h with
    | some src => frontReply src
    | none => "error\tbad-hex"
  | ["file", mode, evs] =>
    let m : Option Bool := match mode with
      | "impl" => some false | "recording" => some true | _ => none
    match m, (evs.splitOn ",").mapM parseFEv with
    | some m, some l => "ok\t" ++ ",".intercalate ((fileSeq m FileObj.init l).map showFRes)
    | _, _ => "error?\tbad-file"
  | ["get", mode, ops] =>
    let m : Option GetMode := match mode with
      | "scan" => some .scan | "memoKept" => some .memoKept
      | "memoCleared" => some .memoCleared | _ => none
    match m, (ops.splitOn ",").mapM parseGetOp with
    | some m, some l =>
      let rs := getSeq m GetVm.init l
      "ok\t" ++ (if rs.isEmpty then "-" else ",".intercalate (rs.map showGetRes))
    | _, _ => "error?\tbad-get"
  | ["life", watch, steps] =>
    let w : Option Watch := match watch with
      | "untracked" => some .untracked | "closeKept" => some .closeKept
      | "closeCleared" => some .closeCleared | _ => none
    match w, (steps.splitOn ",").mapM parseLStep with
    | some w, some l =>
      let (rs, s) := lifeSeq w Life.init l
      "ok\t" ++ ",".intercalate (rs.map procClass) ++ "\trunning=" ++ toString s.running
    | _, _ => "error?\tbad-life"
  | ["constexpr", toks] =>
    let ts := toks.splitOn " "
    match parseIExpr (ts.length + 1) ts with
    | some (e, []) =>
      match declRun implConst e with
      | (.value, some v) => "value\t" ++ toString v
      | (.error w, _) => "error\t" ++ w
      | (.raised w, _) => "raised\t" ++ w
      | (.killed w, _) => "killed\t" ++ w
      | (.value, none) => "error?\tno-value"
    | _ => "error?\tbad-expr"
  | ["nest", entry, limit, ops] =>
    match parseEntry entry, limit.toNat?, parseNestOps ops with
    | some e, some lim, some l =>
      let pk := "\tpeak=" ++ toString (peakOpen 0 l)
      match enterNest requiredRecovers e (nestRun lim Nest.init l) with
      | .value => "value" ++ pk
      | .error w => "error\t" ++ w ++ pk
      | .raised w => "raised\t" ++ w ++ pk
      | .killed w => "killed\t" ++ w ++ pk
    | _, _, _ => "error?\tbad-nest"
  | ["importseq", steps] =>
    match parseImportSteps steps with
    | none => "error?\tbad-steps"
    | some l =>
      match importSeq implPaths Imp.init l with
      | .ok rs _ => "ok\t" ++ (if rs.isEmpty then "-" else ",".intercalate (rs.map showImpRes))
      | .fatal k w => "fatal\t" ++ toString k ++ "\t" ++ w
      | .blocked k => "blocked\t" ++ toString k
  | ["toks", runes, specs] =>
    match parseNats runes with
    | none => "error\tbad-runes"
    | some csl =>
      let cs := csl.toArray
      let st := allStates cs
      let parts := if specs = "-" then [] else (specs.splitOn ";").map (tokReply cs st)
      "\t".intercalate ("ok" :: parts)
  | ["ast", toks] =>
    match buildAst (toks.splitOn " ") with
    | none => "error\tbad-ast"
    | some a =>
      match illegalNil a with
      | none => "clean"
      | some slot => "nil\t" ++ slot
  | ["vm", ops] =>
    match parseVmOps ops with
    | none => "error\tbad-ops"
    | some l =>
      match vmRun Vm.init l with
      | .ok s => s!"ok\t{s.sp}\t{s.fp}"
      | .recovered w => "recovered\t" ++ w
  | ["enter", entry, body] =>
    let e : Option Entry := match entry with
      | "run" => some .run
      | "call" => some .call
      | "thread" => some .thread
      | _ => none
    let b : Option Body :=
      if body = "panic" then some (.panics "go panic")
      else if body = "return" then some .returns
      else if body.startsWith "ops:" then
        (parseVmOps (body.drop 4).toString).map fun l => Body.ofVm (vmRun Vm.init l)
      else none
    match e, b with
    | some e, some b =>
      match enterImpl e b with
      | .value => "value"
      | .error w => "error\t" ++ w
      | .raised w => "raised\t" ++ w
      | .killed w => "killed\t" ++ w
    | _, _ => "error?\tbad-enter"
  | ["inspect", heap, v] =>
    match parseHeap heap, parseVal v with
    | some h, some v =>
      match inspectTop h v with
      | some s => "ok\t" ++ toHexField (strBytes s)
      | none => "nofuel"
    | _, _ => "error\tbad-heap"
  | ["equals", heap, a, b] =>
    match parseHeap heap, parseVal a, parseVal b with
    | some h, some a, some b =>
      let r := match equalsImpl h a b with
        | .t => "t"
        | .f => "f"
        | .overflow => "overflow"
      r ++ "\tranked=" ++ toString (ranked 0 h)
    | _, _, _ => "error\tbad-heap"
  | _ => "error\tunknown-request"

end Risor.C03
