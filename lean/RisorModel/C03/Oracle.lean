import RisorModel.Util
/-! Line-protocol front end of the C03 model (stub until the model exists). -/
namespace Risor.C03

def handle : List String → String
  | _ => "error\tnot-implemented"

end Risor.C03
