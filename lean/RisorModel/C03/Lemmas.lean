import RisorModel.C03.Model
/-! C03 — helper lemmas (invariants of `readChar`, scans, flag counting, `mapOpt`). -/
namespace Risor.C03

/-! ### readChar -/

theorem readChar_cases (cs : Array Nat) (s : LexSt) :
    readChar cs s = s ∨
    ((readChar cs s).line = s.line ∧ (readChar cs s).col = s.col + 1) ∨
    ((readChar cs s).line = s.line + 1 ∧ (readChar cs s).col = 0) := by
  unfold readChar
  split
  · exact Or.inl rfl
  · split
    · exact Or.inr (Or.inr ⟨rfl, rfl⟩)
    · exact Or.inr (Or.inl ⟨rfl, rfl⟩)

theorem readChars_succ (cs : Array Nat) (k : Nat) (s : LexSt) :
    readChars cs (k + 1) s = readChars cs k (readChar cs s) := rfl

/-- the line register never decreases -/
theorem line_mono (cs : Array Nat) (k : Nat) : ∀ s : LexSt, s.line ≤ (readChars cs k s).line := by
  induction k with
  | zero => intro s; exact Int.le_refl _
  | succ k ih =>
    intro s
    rw [readChars_succ]
    have h1 := ih (readChar cs s)
    rcases readChar_cases cs s with h | h | h
    · rw [h]; rw [h] at h1; exact h1
    · omega
    · omega

theorem col_nonneg_step (cs : Array Nat) (s : LexSt) (h : 0 ≤ s.col) : 0 ≤ (readChar cs s).col := by
  rcases readChar_cases cs s with h1 | h1 | h1
  · rw [h1]; exact h
  · omega
  · omega

theorem col_nonneg_steps (cs : Array Nat) (k : Nat) :
    ∀ s : LexSt, 0 ≤ s.col → 0 ≤ (readChars cs k s).col := by
  induction k with
  | zero => intro s h; exact h
  | succ k ih => intro s h; rw [readChars_succ]; exact ih _ (col_nonneg_step cs s h)

theorem first_readChar_col (cs : Array Nat) : (readChar cs LexSt.init).col = 0 := by
  have hlen : ¬ ((-1 : Int) > (cs.size : Int)) := by omega
  simp [readChar, LexSt.init, hlen]

/-- once the lexer has read its first character the column register is never negative -/
theorem stateAt_col_nonneg (cs : Array Nat) (p : Nat) : 0 ≤ (stateAt cs p).col := by
  unfold stateAt
  rw [readChars_succ]
  apply col_nonneg_steps
  rw [first_readChar_col]
  exact Int.le_refl _

/-! ### scans of GetLineText -/

theorem scanBack_ok (cs : Array Nat) (f : Nat) :
    ∀ s : Int, 0 ≤ s → s ≤ cs.size → ∃ r, scanBack cs f s = .ok r ∧ 0 ≤ r ∧ r ≤ s := by
  induction f with
  | zero => intro s h0 _; exact ⟨s, rfl, h0, Int.le_refl _⟩
  | succ f ih =>
    intro s h0 hl
    unfold scanBack
    split
    · rw [if_pos (by omega)]
      split
      · obtain ⟨r, hr, h1, h2⟩ := ih (s - 1) (by omega) (by omega)
        exact ⟨r, hr, h1, by omega⟩
      · exact ⟨s, rfl, h0, Int.le_refl _⟩
    · exact ⟨s, rfl, h0, Int.le_refl _⟩

theorem scanFwd_ok (cs : Array Nat) (f : Nat) :
    ∀ e : Int, 0 ≤ e → e ≤ cs.size → ∃ r, scanFwd cs f e = .ok r ∧ e ≤ r ∧ r ≤ cs.size := by
  induction f with
  | zero => intro e _ hl; exact ⟨e, rfl, Int.le_refl _, hl⟩
  | succ f ih =>
    intro e h0 hl
    unfold scanFwd
    split
    · rw [if_neg (by omega)]
      split
      · obtain ⟨r, hr, h1, h2⟩ := ih (e + 1) (by omega) (by omega)
        exact ⟨r, hr, by omega, h2⟩
      · exact ⟨e, rfl, Int.le_refl _, hl⟩
    · exact ⟨e, rfl, Int.le_refl _, hl⟩

/-! ### inspect -/

theorem count_false_set (act : List Bool) :
    ∀ k : Nat, act[k]? = some false → (act.set k true).count false + 1 = act.count false := by
  induction act with
  | nil => intro k h; simp at h
  | cons b bs ih =>
    intro k h
    cases k with
    | zero =>
      simp at h
      subst h
      simp
    | succ k =>
      simp at h
      have := ih k h
      simp only [List.set_cons_succ, List.count_cons]
      omega

theorem mapOpt_isSome {α β : Type} (g : α → Option β) (xs : List α)
    (h : ∀ x, x ∈ xs → (g x).isSome = true) : (mapOpt g xs).isSome = true := by
  induction xs with
  | nil => rfl
  | cons x xs ih =>
    have hx := h x (by simp)
    have hxs := ih (fun y hy => h y (by simp [hy]))
    unfold mapOpt
    cases hg : g x with
    | none => rw [hg] at hx; cases hx
    | some y =>
      cases hm : mapOpt g xs with
      | none => rw [hm] at hxs; cases hxs
      | some ys => rfl

/-! ### equals -/

theorem allEq_no_overflow (g : Val → Val → EqR) :
    ∀ (xs ys : List Val), (∀ x, x ∈ xs → ∀ y, g x y ≠ .overflow) → allEq g xs ys ≠ .overflow := by
  intro xs
  induction xs with
  | nil => intro ys _; simp [allEq]
  | cons x xs ih =>
    intro ys h
    cases ys with
    | nil => simp [allEq]
    | cons y ys =>
      unfold allEq
      have hx := h x (by simp) y
      cases hg : g x y with
      | t => exact ih ys (fun z hz => h z (by simp [hz]))
      | f => simp
      | overflow => exact absurd hg hx

theorem ranked_sound_aux (h : Heap) :
    ∀ k : Nat, ranked k h = true → ∀ i c, h[i]? = some c → contBelow (k + i) c = true := by
  induction h with
  | nil => intro k _ i c hc; simp at hc
  | cons c0 cs ih =>
    intro k hr i c hc
    simp only [ranked, Bool.and_eq_true] at hr
    cases i with
    | zero => simp at hc; subst hc; simpa using hr.1
    | succ i =>
      simp at hc
      have := ih (k + 1) hr.2 i c hc
      have e : k + (i + 1) = k + 1 + i := by omega
      rw [e]; exact this

/-! ### recover scopes -/

theorem entry_scope_required (e : Entry) : e.scope ∈ requiredRecovers := by
  cases e <;> simp [Entry.scope, requiredRecovers]

theorem enter_not_killed (scopes : List String)
    (h : requiredRecovers.all (scopes.contains ·) = true) (e : Entry) (b : Body) :
    (enter scopes e b).isKilled = false := by
  cases b with
  | returns => rfl
  | panics w =>
    have hc : scopes.contains e.scope = true := by
      rw [List.all_eq_true] at h
      exact h _ (entry_scope_required e)
    show (if scopes.contains e.scope = true then ProcRes.error ("panic: " ++ w)
      else ProcRes.killed w).isKilled = false
    rw [if_pos hc]
    rfl

theorem exec_not_killed (scopes : List String)
    (h : requiredRecovers.all (scopes.contains ·) = true) (x : Exec) :
    x.killed scopes = false := by
  unfold Exec.killed
  rw [enter_not_killed scopes h, Bool.false_or, List.any_eq_false]
  intro b _
  simp [enter_not_killed scopes h]

end Risor.C03
