import RisorModel.C20.Model
import RisorModel.C01.Pratt
/-!
C03 — the FRONT END inside the model (definitions).

The lexer machine is C20's (`Risor.C20.stepChar` / `run` / `scan` / `lexPos` / `lexAll`, tied
token by token to lexer/lexer.go by C20's harness); it is imported, not copied.  `run` walks a
LIST of runes, so "no index out of range" is true of it by construction and says nothing about
an implementation that keeps an ARRAY and a position, as lexer.go does.  This file therefore
adds the array-and-position form of the same machine:

* `readAt src p` — the guarded read of `readChar` / `peekChar`:
  `if p < len(l.characters) { l.characters[p] } else { rune(0) }`;
* `runAt src fuel s p i st` — `run` re-expressed over the whole input `src` and an absolute
  position `p`; it reads ONLY through `readAt`, never tests `p` against the length itself, and
  returns, next to the result, the list of positions it read.

`FrontProps.lean` proves that `runAt` equals `run` on the rest of the input, that every position
in its read list is `≤ src.length` (the read AT the length is the NUL sentinel), and that the
token loop ends — on every rune list.

`stOk` is the invariant of the machine's states that the proofs need: the closing quote of a
string state is not NUL (it is `'` or `"` in every state `dispatch` creates).

`goRunes` is Go's `[]rune(string)` conversion on a byte string (what `lexer.New` applies to its
input): every invalid byte becomes U+FFFD, so the rune list is never longer than the byte string.

The parser part: C01's Pratt model (`Risor.C01.Pratt`) is imported; `depth` measures the nesting
of a tree it returns.
Core Lean only.
-/
namespace Risor.C03.Front
open Risor.C20

/-- `readChar` / `peekChar`: the rune at position `p`, NUL at and past the end -/
def readAt (src : Chars) (p : Nat) : Nat := if h : p < src.length then src[p] else 0

/-- the invariant of reachable machine states: a string state's closing quote is not NUL -/
def stOk : St → Bool
  | .str q _ _ => q != 0
  | .strEsc q _ _ => q != 0
  | .strNum q _ _ _ _ _ _ _ => q != 0
  | _ => true

/-- `run` over an array and a position.  Reads only through `readAt`; the second component is
    the list of absolute positions read, in order.  `fuel` counts reads. -/
def runAt (src : Chars) : Nat → St → Nat → Nat → Nat → Res × List Nat
  | 0, _, _, i, _ => (⟨.err "fuel", 0, 0, i + 1, i + 1⟩, [])
  | f + 1, s, p, i, st =>
    match stepChar s (readAt src p) with
    | .more s' mark =>
      let r := runAt src f s' (p + 1) (i + 1) (if mark then i else st)
      (r.1, p :: r.2)
    | r => (finish r i st, [p])

/-- how a token stream ends -/
inductive End where
  /-- the last element is the EOF token -/
  | eof
  /-- the last element is a lexical error value -/
  | lexErr
  /-- the stream was cut by the fuel of `lexPos` (proved impossible for `lexAll`) -/
  | cut
  deriving DecidableEq, Repr

/-- classify a finished stream by its last element -/
def endOf : List PTok → End
  | [] => .cut
  | [t] =>
    (match t.out with
     | .tok k _ => if k == "EOF" then .eof else .cut
     | _ => .lexErr)
  | _ :: t :: ts => endOf (t :: ts)

/-- is the element a token other than EOF -/
def isPlainTok (t : PTok) : Bool :=
  match t.out with
  | .tok k _ => k != "EOF"
  | _ => false

/-- every element but the last is a token other than EOF, the last is not (it is the EOF token
    or a lexical error value): the stream was ended by the lexer, not by the fuel of `lexPos` -/
def wellEnded : List PTok → Bool
  | [] => false
  | t :: ts => if isPlainTok t then wellEnded ts else ts.isEmpty

/-- an element of the stream of an input of `n` runes, produced at or after offset `base`: it
    is not the model's "stuck" marker, its span lies in `[0, n]` (`n + 1`: the end of the EOF
    token of an unterminated block comment, one past the sentinel, as `readChar` counts), and
    the span of a token other than EOF is `base ≤ start ≤ stop < n` — its runes are real
    indices of the input -/
def tokOk (base n : Nat) (t : PTok) : Prop :=
  t.out ≠ .err "stuck" ∧ t.start ≤ n ∧ t.stop ≤ n + 1 ∧
  (isPlainTok t = true → base ≤ t.start ∧ t.start ≤ t.stop ∧ t.stop < n)

/-! ### Go's `[]rune(s)` on a byte string -/

def isCont (b : Nat) : Bool := 0x80 ≤ b && b < 0xC0

/-- one step of `utf8.DecodeRuneInString`: (rune, width).  Invalid input: (U+FFFD, 1). -/
def decodeRune : List Nat → Nat × Nat
  | [] => (0xFFFD, 1)
  | b :: bs =>
    if b < 0x80 then (b, 1)
    else if 0xC2 ≤ b && b < 0xE0 then
      (match bs with
       | b1 :: _ => if isCont b1 then ((b - 0xC0) * 64 + (b1 - 0x80), 2) else (0xFFFD, 1)
       | _ => (0xFFFD, 1))
    else if 0xE0 ≤ b && b < 0xF0 then
      (match bs with
       | b1 :: b2 :: _ =>
         let lo := if b == 0xE0 then 0xA0 else 0x80
         let hi := if b == 0xED then 0xA0 else 0xC0
         if lo ≤ b1 && b1 < hi && isCont b2 then
           ((b - 0xE0) * 4096 + (b1 - 0x80) * 64 + (b2 - 0x80), 3)
         else (0xFFFD, 1)
       | _ => (0xFFFD, 1))
    else if 0xF0 ≤ b && b < 0xF5 then
      (match bs with
       | b1 :: b2 :: b3 :: _ =>
         let lo := if b == 0xF0 then 0x90 else 0x80
         let hi := if b == 0xF4 then 0x90 else 0xC0
         if lo ≤ b1 && b1 < hi && isCont b2 && isCont b3 then
           ((b - 0xF0) * 262144 + (b1 - 0x80) * 4096 + (b2 - 0x80) * 64 + (b3 - 0x80), 4)
         else (0xFFFD, 1)
       | _ => (0xFFFD, 1))
    else (0xFFFD, 1)

/-- `[]rune(string(bytes))`; `fuel` ≥ number of bytes -/
def goRunesF : Nat → List Nat → Chars
  | 0, _ => []
  | _, [] => []
  | f + 1, b :: bs =>
    let d := decodeRune (b :: bs)
    d.1 :: goRunesF f ((b :: bs).drop d.2)

def goRunes (bytes : List Nat) : Chars := goRunesF bytes.length bytes

/-- the front end's lexer on a BYTE string, as `lexer.New(input)` + `Next()` until EOF/error -/
def lexBytes (bytes : List Nat) : List PTok := lexAll (goRunes bytes)

end Risor.C03.Front
