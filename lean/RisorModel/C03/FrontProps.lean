import RisorModel.C03.Front
import RisorModel.C03.FrontLemmas
/-!
C03 — the front end inside the model: TOTALITY of the lexer machine (and, further down, of the
Pratt parser model) on EVERY input.

The lexer is C20's character-level machine (`Risor.C20.stepChar`, `run`, `scan`, `lexPos`,
`lexAll`), the function C20's harness compares token by token — kinds, literals and positions —
with lexer/lexer.go, and that the stream `front` of C03's harness compares by outcome and token
count on random bytes, mutated programs, broken UTF-8 and deep nesting.  All theorems quantify
over ALL rune lists (`List Nat`: valid programs, garbage, NUL runes, code points that are not
Unicode at all) and, through `goRunes`, over all BYTE strings; none is a bounded `decide`.
-/
namespace Risor.C03.Front
open Risor.C20

/-! ### 1. every read is guarded -/

/-- **The array-and-position form of the machine is the list machine, and it never reads past
    the sentinel.**  For every input `src`, every state satisfying the invariant, every position
    `p ≤ src.length` and every fuel of at least the `src.length + 1 - p` remaining reads
    (sentinel included): `runAt`, which reads ONLY through `readAt` (`readChar`'s
    `if position < len(characters) { characters[position] } else { 0 }`) and does not itself
    look at the length, returns what `run` returns on the rest of the input (in particular it
    never runs out of fuel), and every position it read is `≤ src.length`. -/
theorem lex_reads_guarded (src : Chars) (s : St) (p i st f : Nat) (hs : stOk s = true)
    (hp : p ≤ src.length) (hf : src.length + 1 - p ≤ f) :
    (runAt src f s p i st).1 = run s (src.drop p) i st ∧
    ∀ q ∈ (runAt src f s p i st).2, q ≤ src.length :=
  runAt_run src f s p i st hs hp hf

/-- a read below the length is the array element, the read AT (or past) the length is the NUL
    sentinel — for every input and position: exactly the two branches of `readChar` / `peekChar` -/
theorem read_is_element_or_sentinel (src : Chars) (p : Nat) :
    (∃ h : p < src.length, readAt src p = src[p]) ∨ (src.length ≤ p ∧ readAt src p = 0) := by
  by_cases h : p < src.length
  · exact .inl ⟨h, readAt_lt src p h⟩
  · exact .inr ⟨by omega, readAt_ge src p (by omega)⟩

/-- **No stuck state.**  At the sentinel no state that satisfies the invariant asks for another
    rune (`stepChar s 0` is never `more`), and the invariant is kept by every step — for all
    states and all runes. -/
theorem lex_never_stuck (s : St) (hs : stOk s = true) :
    (∀ s' m, stepChar s 0 ≠ .more s' m) ∧ (∀ c s' m, stepChar s c = .more s' m → stOk s' = true) := by
  constructor
  · intro s' m e
    have := step_nul s hs
    rw [e] at this
    simp [nulOk] at this
  · intro c s' m e
    have := step_ok s c hs
    rw [e] at this
    exact this

/-- one call of `Next` looks at most at the sentinel: for every rest of the input and previous
    token type, the number of runes looked at is `≤ rest.length + 1` -/
theorem scan_looks_at_most_one_past (rest : Chars) (prev : String) :
    (scan rest prev).seen ≤ rest.length + 1 := (scan_good rest prev).2.1

/-! ### 2. the token loop ends, with a bounded number of tokens, inside the input -/

theorem tokOk_mono {b b' n : Nat} {t : PTok} (h : tokOk b' n t) (hb : b ≤ b') : tokOk b n t := by
  obtain ⟨h1, h2, h3, h4⟩ := h
  exact ⟨h1, h2, h3, fun hp => by have := h4 hp; omega⟩

/-- the loop `lexPos` with fuel for at least `rest.length + 1` calls of `Next`, on every rest
    of an input of `n` runes that begins at offset `base` -/
theorem lexPos_good : ∀ (f : Nat) (rest : Chars) (base : Nat) (prev : String) (n : Nat),
    base + rest.length = n → rest.length + 1 ≤ f →
    (lexPos f rest base prev).length ≤ rest.length + 1 ∧
    wellEnded (lexPos f rest base prev) = true ∧
    ∀ t ∈ lexPos f rest base prev, tokOk base n t
  | 0, rest, base, prev, n, _, hf => by omega
  | f + 1, rest, base, prev, n, hn, hf => by
    obtain ⟨g1, _, g3, g4, g5⟩ := scan_good rest prev
    unfold lexPos
    simp only []
    cases ho : (scan rest prev).out with
    | tok k l =>
      simp only []
      by_cases hk : k = "EOF"
      · subst hk
        simp only [beq_self_eq_true, if_true]
        refine ⟨by simp, by simp [wellEnded, isPlainTok], ?_⟩
        intro t ht
        simp only [List.mem_singleton] at ht
        subst ht
        refine ⟨by simp, by simp; omega, by simp; omega, ?_⟩
        intro hp
        simp [isPlainTok] at hp
      · have hb : (k == "EOF") = false := by simp [hk]
        simp only [hb]
        obtain ⟨a1, a2, a3, a4⟩ := g5 k l ho hk
        have hlen : (rest.drop (scan rest prev).next).length = rest.length - (scan rest prev).next := by simp
        obtain ⟨r1, r2, r3⟩ := lexPos_good f (rest.drop (scan rest prev).next) (base + (scan rest prev).next) k n
          (by rw [hlen]; omega) (by rw [hlen]; omega)
        refine ⟨?_, ?_, ?_⟩
        · simp only [Bool.false_eq_true, if_false, List.length_cons]; rw [hlen] at r1; omega
        · simp only [Bool.false_eq_true, if_false, wellEnded, isPlainTok, bne_iff_ne, ne_eq, hk,
            not_false_eq_true, if_true]
          exact r2
        · intro t ht
          simp only [Bool.false_eq_true, if_false, List.mem_cons] at ht
          cases ht with
          | inl e =>
            subst e
            refine ⟨by simp, by simp; omega, by simp; omega, ?_⟩
            intro _
            simp; omega
          | inr e => exact tokOk_mono (r3 t e) (by omega)
    | errT k l c =>
      simp only []
      refine ⟨by simp, by simp [wellEnded, isPlainTok], ?_⟩
      intro t ht
      simp only [List.mem_singleton] at ht
      subst ht
      refine ⟨by simp, by simp; omega, by simp; omega, ?_⟩
      intro hp
      simp [isPlainTok] at hp
    | err c =>
      simp only []
      rw [ho] at g1
      refine ⟨by simp, by simp [wellEnded, isPlainTok], ?_⟩
      intro t ht
      simp only [List.mem_singleton] at ht
      subst ht
      refine ⟨by simpa using g1, by simp, by simp, ?_⟩
      intro hp
      simp [isPlainTok] at hp

/-- **Lexer totality (termination).**  For EVERY rune list the lexer's token stream `lexAll src`
    is ended by the lexer itself: every element but the last is a token other than EOF, the last
    is the EOF token or a lexical error value — the fuel `src.length + 2` of `lexAll` is never
    what ends it, and no element is the model's "stuck" marker. -/
theorem lex_terminates (src : Chars) :
    wellEnded (lexAll src) = true ∧ ∀ t ∈ lexAll src, t.out ≠ .err "stuck" := by
  obtain ⟨_, h2, h3⟩ := lexPos_good (src.length + 2) src 0 "" src.length (by simp) (by omega)
  exact ⟨h2, fun t ht => (h3 t ht).1⟩

/-- **At most one token per rune, plus the final one**: for every rune list,
    `(lexAll src).length ≤ src.length + 1` (the final EOF / error element included). -/
theorem lex_token_count (src : Chars) : (lexAll src).length ≤ src.length + 1 :=
  (lexPos_good (src.length + 2) src 0 "" src.length (by simp) (by omega)).1

/-- **Token spans lie inside the input.**  For every rune list and every element of its stream:
    `start ≤ src.length` and `stop ≤ src.length + 1` (the `+ 1` is reached only by the EOF token
    of an unterminated block comment, whose end `readChar` puts one past the sentinel); a token
    other than EOF has `start ≤ stop < src.length`: its first and last rune are real indices. -/
theorem lex_spans_inside (src : Chars) : ∀ t ∈ lexAll src,
    t.start ≤ src.length ∧ t.stop ≤ src.length + 1 ∧
    (isPlainTok t = true → t.start ≤ t.stop ∧ t.stop < src.length) := by
  intro t ht
  obtain ⟨_, h2, h3, h4⟩ := (lexPos_good (src.length + 2) src 0 "" src.length (by simp) (by omega)).2.2 t ht
  exact ⟨h2, h3, fun hp => (h4 hp).2⟩

/-- a stream that is `wellEnded` is classified `eof` or `lexErr`, never `cut` -/
theorem endOf_of_wellEnded : ∀ ts : List PTok, wellEnded ts = true → endOf ts ≠ .cut
  | [], h => by simp [wellEnded] at h
  | [t], h => by
    simp only [wellEnded, List.isEmpty_nil] at h
    unfold endOf
    cases ho : t.out with
    | tok k l =>
      simp only [isPlainTok, ho] at h
      by_cases hk : k = "EOF"
      · simp [hk]
      · simp [hk] at h
    | errT k l c => simp
    | err c => simp
  | t :: u :: ts, h => by
    simp only [wellEnded] at h
    unfold endOf
    by_cases hp : isPlainTok t = true
    · rw [if_pos hp] at h
      exact endOf_of_wellEnded (u :: ts) h
    · rw [if_neg hp] at h
      simp at h

/-- the outcome class the harness compares with the real lexer is never `cut`, for every input -/
theorem lex_outcome_total (src : Chars) : endOf (lexAll src) = .eof ∨ endOf (lexAll src) = .lexErr := by
  have := endOf_of_wellEnded _ (lex_terminates src).1
  cases h : endOf (lexAll src) <;> simp_all

/-! ### 3. byte strings -/

theorem decodeRune_width (bs : List Nat) : 1 ≤ (decodeRune bs).2 := by
  unfold decodeRune
  repeat' split
  all_goals first | (simp; done) | (simp only []; split <;> simp)

theorem goRunesF_length : ∀ (f : Nat) (bs : List Nat), (goRunesF f bs).length ≤ bs.length
  | 0, bs => by simp [goRunesF]
  | f + 1, [] => by simp [goRunesF]
  | f + 1, b :: bs => by
    have hw := decodeRune_width (b :: bs)
    have := goRunesF_length f ((b :: bs).drop (decodeRune (b :: bs)).2)
    simp only [goRunesF, List.length_cons]
    simp only [List.length_drop, List.length_cons] at this
    omega

/-- `[]rune(s)` is never longer than `s` (every decoding step uses at least one byte) -/
theorem goRunes_length (bytes : List Nat) : (goRunes bytes).length ≤ bytes.length :=
  goRunesF_length _ _

/-- **Lexer totality on byte strings.**  For EVERY byte string `bytes` (valid UTF-8 or not), the
    lexer run on `[]rune(bytes)` — what `lexer.New` does — ends with the EOF token or a lexical
    error value, returns at most `len(bytes) + 1` elements, and every span lies within
    `[0, len(bytes) + 1]`. -/
theorem lex_bytes_total (bytes : List Nat) :
    wellEnded (lexBytes bytes) = true ∧
    (endOf (lexBytes bytes) = .eof ∨ endOf (lexBytes bytes) = .lexErr) ∧
    (lexBytes bytes).length ≤ bytes.length + 1 ∧
    ∀ t ∈ lexBytes bytes, t.out ≠ .err "stuck" ∧ t.start ≤ bytes.length ∧ t.stop ≤ bytes.length + 1 := by
  have hl := goRunes_length bytes
  refine ⟨(lex_terminates _).1, lex_outcome_total _, ?_, ?_⟩
  · have := lex_token_count (goRunes bytes)
    unfold lexBytes; omega
  · intro t ht
    have h1 := (lex_terminates (goRunes bytes)).2 t ht
    obtain ⟨h2, h3, _⟩ := lex_spans_inside (goRunes bytes) t ht
    exact ⟨h1, by omega, by omega⟩

/-! ### non-vacuity -/

/-- the invariant holds in the state every call of `Next` starts in, and in the string states
    `dispatch` creates -/
example : stOk (.start false) = true ∧ stOk (.str 39 "'" []) = true ∧ stOk (.strEsc 34 "STRING" []) = true := by decide

/-- `x = "a\` — an unterminated escape at the end of the input: the array machine reads
    positions 0 … 7 (7 = the length: the sentinel) and nothing beyond -/
example : (runAt [120, 32, 61, 32, 34, 97, 92] 8 (.start false) 4 0 0).2 = [4, 5, 6, 7] := by decide

/-- the streams of `x=1`, of a lone `~` and of an unterminated block comment end as EOF, as an
    error, and as EOF with `stop = length + 1` -/
example : endOf (lexAll [120, 61, 49]) = .eof ∧ (lexAll [120, 61, 49]).length = 4 := by decide
example : endOf (lexAll [126]) = .lexErr := by decide
example : (lexAll [47, 42, 120]).map (·.stop) = [4] := by decide

/-- invalid bytes become U+FFFD one by one: `ff c3 28` ↦ U+FFFD U+FFFD `(` -/
example : goRunes [0xFF, 0xC3, 0x28] = [0xFFFD, 0xFFFD, 0x28] := by decide

/-! ### 4. the parser model of the expression core (C01's Pratt model) is total

`Risor.C01.Pratt.parseNode fuel tern prec tokens` is the model of `parser.parseNode` that C01 ties
to parser/parser.go (regenerated precedence / prefix / infix tables, `PrattTies.lean`, and a
token-by-token comparison with the real parser).  It is defined by recursion on `fuel` and
answers `none` both for a parse error and for exhausted fuel.  The theorems below separate the
two: from the fuel `4 * tokens.length + 4` on the answer no longer depends on the fuel, for
EVERY token list — so with that fuel `none` is a parse error and never exhaustion — and a tree it
returns is nested no deeper than the number of tokens it was built from.

The real parser has NO nesting-depth guard to which the depth bound could correspond (no
`p.depth`, no maximum; `Ties.parser_has_no_depth_guard` regenerates the — empty — list of
depth-like identifiers of parser/*.go on every run): its recursion depth is bounded by the
number of tokens only, exactly as in the model, which is why a source of 1.5 million `(`
exhausts the goroutine stack (finding C03-deep-nesting-stack-overflow). -/

section Pratt
open Risor.C01.Pratt

/-- the fuel that is always enough: linear in the number of tokens -/
def parseFuel (toks : List Token) : Nat := 4 * toks.length + 4

/-- **Fuel bound.**  For EVERY token list, ternary flag and precedence: any fuel of at least
    `4 * toks.length + 4` gives the result that exactly that fuel gives. -/
theorem parse_fuel_linear (t : Bool) (p : Nat) (toks : List Token) :
    ∀ k, parseNode (parseFuel toks + k) t p toks = parseNode (parseFuel toks) t p toks
  | 0 => rfl
  | k + 1 => by
    rw [← parse_fuel_linear t p toks k]
    exact (stable (parseFuel toks + k)).1 t p toks (by unfold parseFuel; omega)

/-- **Depth and progress.**  For every fuel and every token list: a tree that `parseNode`
    returns used at least one token, and its nesting depth (`Expr.depth`: nesting along operand
    positions) is at most the number of tokens used — `depth + |rest| ≤ |tokens|`. -/
theorem parse_depth_le_tokens (f : Nat) (t : Bool) (p : Nat) (toks : List Token) (e : Expr)
    (rest : List Token) (h : parseNode f t p toks = some (e, rest)) :
    rest.length < toks.length ∧ e.depth + rest.length ≤ toks.length :=
  (bounds f).1 t p toks e rest h

/-- **Parser totality for the modelled expression core.**  For EVERY token list and precedence,
    `parseExpr` with the linear fuel `4 * toks.length + 4` ends in one of two ways, and every
    larger fuel ends in the same way: a parse ERROR (`none` — not exhaustion: no larger fuel finds
    a tree), or a tree together with the unread tokens, the tree nested no deeper than the
    number of tokens read. -/
theorem parse_total (p : Nat) (toks : List Token) :
    (parseExpr (parseFuel toks) p toks = none ∧ ∀ k, parseExpr (parseFuel toks + k) p toks = none) ∨
    (∃ e rest, parseExpr (parseFuel toks) p toks = some (e, rest) ∧
       (∀ k, parseExpr (parseFuel toks + k) p toks = some (e, rest)) ∧
       rest.length < toks.length ∧ e.depth + rest.length ≤ toks.length ∧ e.depth ≤ toks.length) := by
  unfold parseExpr
  cases h : parseNode (parseFuel toks) false p toks with
  | none =>
    exact .inl ⟨rfl, fun k => by rw [parse_fuel_linear, h]⟩
  | some v =>
    obtain ⟨e, rest⟩ := v
    have := parse_depth_le_tokens _ _ _ _ _ _ h
    exact .inr ⟨e, rest, rfl, fun k => by rw [parse_fuel_linear, h], this.1, this.2, by omega⟩

/-- a smaller fuel can be too small: the bound is about `parseFuel`, not about every fuel
    (`- - - 1` needs more than 4 units) -/
example : parseExpr 4 0 [tk .MINUS, tk .MINUS, tk .MINUS, ⟨.INT, "1"⟩] = none ∧
    (parseExpr (parseFuel [tk .MINUS, tk .MINUS, tk .MINUS, ⟨.INT, "1"⟩]) 0
      [tk .MINUS, tk .MINUS, tk .MINUS, ⟨.INT, "1"⟩]).isSome = true := by decide

/-- both outcomes occur: `( 1` is a parse error at every fuel, `1 + 2` a tree of depth 2 from
    3 tokens -/
example : parseExpr (parseFuel [tk .LPAREN, ⟨.INT, "1"⟩]) 0 [tk .LPAREN, ⟨.INT, "1"⟩] = none := by decide
example : (parseExpr (parseFuel [⟨.INT, "1"⟩, tk .PLUS, ⟨.INT, "2"⟩]) 0 [⟨.INT, "1"⟩, tk .PLUS, ⟨.INT, "2"⟩]).map
    (fun r => (r.1.depth, r.2.length)) = some (2, 0) := by decide

end Pratt

end Risor.C03.Front
