import RisorModel.C01.Clo
/-!
C01 function fragment — helper lemmas for `FunProps.lean`.  The development of
`FragLemmas.lean` (multi-step execution, `CodeAt`, one simulation lemma per construct, the
generic loop lemma) redone over the machine with call frames of `Fun.lean`, plus the lemmas for
calls, `return` and function bodies.

`World` = what stays fixed while one activation runs a node: the program, the running code
object and the stack of suspended callers.  `Steps W a b` = the MACHINE goes from activation
state `a` to activation state `b` in the same world; in between it may have entered and left
any number of callee activations.  Core Lean only.
-/
namespace Risor.C01.Clo
open Risor.C01
open Risor.C01.Frag (isNilL opOK postName isDefault countDefault dfltBody assignK)

/-! ### the machine, multi-step -/

structure World where
  P : Prog
  fn : Option FnId
  fs : List Frame

/-- the code object the activation runs -/
def World.code (W : World) : Code := W.P.codeOf W.fn

/-- the machine state in which the activation is in state `c` -/
def World.at (W : World) (c : Cfg) : M := { cfg := c, fn := W.fn, frames := W.fs }

inductive MSteps (P : Prog) : M → M → Prop where
  | refl (m : M) : MSteps P m m
  | cons {a b c : M} : mstep P a = .ok b → MSteps P b c → MSteps P a c

theorem MSteps.trans {P : Prog} {a b c : M} (h1 : MSteps P a b) (h2 : MSteps P b c) : MSteps P a c := by
  induction h1 with
  | refl => exact h2
  | cons hs _ ih => exact .cons hs (ih h2)

theorem MSteps.one {P : Prog} {a b : M} (h : mstep P a = .ok b) : MSteps P a b := .cons h (.refl _)

def Steps (W : World) (a b : Cfg) : Prop := MSteps W.P (W.at a) (W.at b)

/-- an instruction of the activation itself is a step of the machine -/
theorem mstep_of_step {W : World} {a b : Cfg} (h : step W.code a = .ok b) : mstep W.P (W.at a) = .ok (W.at b) := by
  unfold mstep
  simp only [World.at]
  have hc : W.P.codeOf W.fn = W.code := rfl
  rw [hc]
  unfold step at h
  split at h
  · cases h
  · split
    · rename_i n hn; rw [hn] at h; simp [execIns] at h
    · rename_i hn; rw [hn] at h; simp [execIns] at h
    · rename_i h1 h2
      have : step W.code a = .ok b := by
        unfold step; rw [if_neg (by assumption)]; exact h
      rw [this]

/-- an error raised by an instruction of the activation itself is an error of the machine -/
theorem mstep_of_step_err {W : World} {a : Cfg} {c : String} (h : step W.code a = .error (.err c)) :
    mstep W.P (W.at a) = .error (.err c) := by
  unfold mstep
  simp only [World.at]
  have hc : W.P.codeOf W.fn = W.code := rfl
  rw [hc]
  have h0 := h
  unfold step at h
  split at h
  · cases h
  · split
    · rename_i n hn; rw [hn] at h; simp [execIns] at h
    · rename_i hn; rw [hn] at h; simp [execIns] at h
    · rw [h0]

theorem Steps.refl {W : World} (c : Cfg) : Steps W c c := MSteps.refl _

theorem Steps.trans {W : World} {a b c : Cfg} (h1 : Steps W a b) (h2 : Steps W b c) : Steps W a c :=
  MSteps.trans h1 h2

theorem Steps.one {W : World} {a b : Cfg} (h : step W.code a = .ok b) : Steps W a b :=
  MSteps.one (mstep_of_step h)

theorem Steps.snoc {W : World} {a b c : Cfg} (h1 : Steps W a b) (h : step W.code b = .ok c) : Steps W a c :=
  h1.trans (.one h)

theorem Steps.cast {W : World} {a : Cfg} {p q : Nat} {s : List V} {σ : Env}
    (h : Steps W a ⟨p, s, σ⟩) (e : p = q) : Steps W a ⟨q, s, σ⟩ := e ▸ h

theorem Steps.castL {W : World} {b : Cfg} {p q : Nat} {s : List V} {σ : Env}
    (h : Steps W ⟨p, s, σ⟩ b) (e : p = q) : Steps W ⟨q, s, σ⟩ b := e ▸ h

/-- where an abrupt completion ends, for globals `G`: an error `cls c` — a machine state with
    globals `G` whose next step raises the class `c`; a `return v` — the caller of the activation
    resumed after its `Call` with `v` pushed on the operand stack it had below the call, ITS locals,
    the remaining suspended frames untouched, and globals `G` (with no caller: the machine halts
    with `v`) -/
def Final (W : World) (x : Exc) (G : Sh) (m1 : M) : Prop :=
  match x with
  | .cls c => m1.cfg.σ.sh = G ∧ mstep W.P m1 = .error (.err c)
  | .ret v =>
    match W.fs with
    | fr :: fs' => m1 = { cfg := ⟨fr.pc, v :: fr.stk, ⟨fr.act, G⟩⟩, fn := fr.fn, frames := fs' }
    | [] => m1.cfg.σ.sh = G ∧ mstep W.P m1 = .error (.done v)

/-- the run from `c0` completes abruptly with `x` and final globals `σ'.sh` -/
def Fails (W : World) (c0 : Cfg) (x : Exc) (σ' : Env) : Prop :=
  ∃ m1, MSteps W.P (W.at c0) m1 ∧ Final W x σ'.sh m1

theorem Fails.pre {W : World} {a b : Cfg} {x : Exc} {σ' : Env}
    (h : Steps W a b) (f : Fails W b x σ') : Fails W a x σ' := by
  obtain ⟨m1, h1, h2⟩ := f
  exact ⟨m1, MSteps.trans h h1, h2⟩

/-- an instruction of the activation raises an error -/
theorem Fails.of_step {W : World} {c0 c1 : Cfg} {c : String}
    (hpre : Steps W c0 c1) (h : step W.code c1 = .error (.err c)) : Fails W c0 (.cls c) c1.σ :=
  ⟨W.at c1, hpre, rfl, mstep_of_step_err h⟩

variable {ls : Sc}

/-- outcome `r` with final store `σ'` is realised from `c0`: a value lands at `pcE` on top of
    `stk`, unit lands at `pcE` with `stk` itself, `break` / `continue` land on the enclosing
    loop's targets (`kb` / `kc` slots after `pcE`) with `stk` itself, an error is raised by the
    VM with the same class; nothing is claimed for out-of-fuel -/
def Lands (W : World) (c0 : Cfg) (pcE kb kc : Nat) (stk : List V) (r : Out) (σ' : Env) : Prop :=
  match r with
  | .val v => Steps W c0 ⟨pcE, v :: stk, σ'⟩
  | .unit => Steps W c0 ⟨pcE, stk, σ'⟩
  | .brk => Steps W c0 ⟨pcE + kb, stk, σ'⟩
  | .cont => Steps W c0 ⟨pcE + kc, stk, σ'⟩
  | .err c => Fails W c0 c σ'
  | .oof => True

theorem Lands.pre {W : World} {a b : Cfg} {pcE kb kc : Nat} {stk : List V} {r : Out} {σ' : Env}
    (h : Steps W a b) (l : Lands W b pcE kb kc stk r σ') : Lands W a pcE kb kc stk r σ' := by
  cases r with
  | val v => exact h.trans l
  | unit => exact h.trans l
  | brk => exact h.trans l
  | cont => exact h.trans l
  | err c => exact Fails.pre h l
  | oof => trivial

theorem Lands.cast {W : World} {a : Cfg} {p q kb kc : Nat} {stk : List V} {r : Out} {σ' : Env}
    (l : Lands W a p kb kc stk r σ') (e : p = q) : Lands W a q kb kc stk r σ' := e ▸ l

/-- which nodes end with a value, which with `unit`, and which can be left by a break/continue -/
def Shape (n : N) (r : Out) : Prop :=
  match r with
  | .val _ => isUnitNode n = false
  | .unit => isUnitNode n = true
  | .brk => escapes n = true
  | .cont => escapes n = true
  | _ => True

/-- the simulation statement for one node at one place -/
def Post (W : World) (ls : Sc) (kb kc : Nat) (n : N) (pc : Nat) (stk : List V) (σ : Env) (r : Out) (σ' : Env) : Prop :=
  Shape n r ∧ Lands W ⟨pc, stk, σ⟩ (pc + size ls n) kb kc stk r σ'

/-! ### `CodeAt code pc frag`: the fragment sits at slot offset `pc` of the enclosing code -/

def CodeAt (code : Code) (pc : Nat) (frag : Code) : Prop :=
  ∀ i, i < frag.length → code[pc + i]? = frag[i]?

theorem CodeAt.append_left {code : Code} {pc : Nat} {a b : Code} (h : CodeAt code pc (a ++ b)) : CodeAt code pc a := by
  intro i hi
  have := h i (by simp; omega)
  rw [this, List.getElem?_append_left hi]

theorem CodeAt.append_right {code : Code} {pc : Nat} {a b : Code} (h : CodeAt code pc (a ++ b)) :
    CodeAt code (pc + a.length) b := by
  intro i hi
  have := h (a.length + i) (by simp; omega)
  rw [← Nat.add_assoc] at this
  rw [this, List.getElem?_append_right (by omega)]
  simp

theorem CodeAt.head {code : Code} {pc : Nat} {x : Option FIns} {rest : Code} (h : CodeAt code pc (x :: rest)) :
    code[pc]? = some x := by
  have := h 0 (by simp)
  simpa using this

theorem CodeAt.cast {code : Code} {p q : Nat} {frag : Code} (h : CodeAt code p frag) (e : p = q) :
    CodeAt code q frag := e ▸ h

theorem CodeAt.self (code : Code) : CodeAt code 0 code := by
  intro i _
  simp

theorem at_eq {code : Code} {p q : Nat} {x : Option FIns} (h : code[p]? = some x) (e : p = q) :
    code[q]? = some x := e ▸ h

@[simp] theorem one_length (i : FIns) : (one i).length = 1 := rfl
@[simp] theorem two_length (i : FIns) : (two i).length = 2 := rfl

theorem CodeAt.one {code : Code} {pc : Nat} {i : FIns} (h : CodeAt code pc (one i)) : code[pc]? = some (some i) :=
  CodeAt.head h
theorem CodeAt.two {code : Code} {pc : Nat} {i : FIns} (h : CodeAt code pc (two i)) : code[pc]? = some (some i) :=
  CodeAt.head h

/-- executing the instruction found at `pc` -/
theorem step_of {code : Code} {pc : Nat} {i : FIns} (h : code[pc]? = some (some i)) (stk : List V) (σ : Env) :
    step code ⟨pc, stk, σ⟩ = execIns i ⟨pc, stk, σ⟩ := by
  have hlt : pc < code.length := by
    rcases Nat.lt_or_ge pc code.length with h1 | h1
    · exact h1
    · rw [List.getElem?_eq_none h1] at h; cases h
  have : ¬ (pc ≥ code.length) := by omega
  simp only [step, this, if_false, h]

/-! ### shallow class facts -/

theorem isE_not_unit {n : N} (h : isE n = true) : isUnitNode n = false := by
  cases n <;> simp_all [isE, isUnitNode]
theorem isBlock_not_unit {n : N} (h : isBlock n = true) : isUnitNode n = false := by
  cases n <;> simp_all [isBlock, isUnitNode]
theorem isElse_not_unit {n : N} (h : isElse n = true) : isUnitNode n = false := by
  cases n <;> simp_all [isElse, isUnitNode]
theorem isL_not_unit {n : N} (h : isL n = true) : isUnitNode n = false := by
  cases n <;> simp_all [isL, isUnitNode]
theorem isInit_unit {n : N} (h : isInit n = true) : isUnitNode n = true := by
  cases n <;> simp_all [isInit, isUnitNode]

/-! ### operators: the VM's numeric dispatch agrees with the source-level operator -/

theorem execIns_opIns (op : BinOp) (hok : opOK op = true) (hand : op ≠ .and) (hor : op ≠ .or)
    (a b : V) (s : List V) (pc : Nat) (σ : Env) :
    execIns (opIns op) ⟨pc, b :: a :: s, σ⟩ =
      (match binopF op a b with
       | .ok v => .ok ⟨pc + 2, v :: s, σ⟩
       | .error e => .error (.err e)) := by
  cases op <;> simp_all [opOK] <;> cases a <;> cases b <;>
    simp [opIns, execIns, binopF, vBinaryF, vCompareF] <;> split <;> simp_all

theorem vBinaryF_assign (op : AssignOp) (h : op ≠ .set) (cur v : V) :
    vBinaryF (assignK op) cur v = applyF op cur v := by
  cases op <;> simp_all <;> cases cur <;> cases v <;> simp [assignK, applyF, binopF, vBinaryF]

theorem vBinaryF_add (a b : V) : vBinaryF 1 a b = binopF .add a b := by
  cases a <;> cases b <;> simp [binopF, vBinaryF]

/-! ### sequencing helper of the reference semantics -/

theorem seqV_elim {x : Out × Env} {k : V → Env → Out × Env} {r : Out} {σ' : Env}
    (h : seqV x k = (r, σ')) :
    (∃ v σ1, x = (.val v, σ1) ∧ k v σ1 = (r, σ')) ∨ ((∀ v, r ≠ .val v) ∧ x = (r, σ')) := by
  obtain ⟨r1, σ1⟩ := x
  cases r1 with
  | val v => exact .inl ⟨v, σ1, rfl, h⟩
  | unit => simp only [seqV] at h; cases h; exact .inr ⟨(by intro v hv; cases hv), rfl⟩
  | brk => simp only [seqV] at h; cases h; exact .inr ⟨(by intro v hv; cases hv), rfl⟩
  | cont => simp only [seqV] at h; cases h; exact .inr ⟨(by intro v hv; cases hv), rfl⟩
  | err c => simp only [seqV] at h; cases h; exact .inr ⟨(by intro v hv; cases hv), rfl⟩
  | oof => simp only [seqV] at h; cases h; exact .inr ⟨(by intro v hv; cases hv), rfl⟩

/-- the induction hypothesis: sub-nodes evaluated through `rec` are simulated wherever their
    code sits -/
def IH (W : World) (ls : Sc) (rec : N → Env → Out × Env) : Prop :=
  ∀ n, wf n = true → ∀ kb kc pc stk σ r σ', CodeAt W.code pc (comp ls kb kc n) → rec n σ = (r, σ') →
    Post W ls kb kc n pc stk σ r σ'

/-- a sub-evaluation (of an operand: no break/continue escapes it) that did not produce a value
    (error, out of fuel) is the result of the whole node -/
theorem Post.propagate {W : World} {sub n : N} {pc1 pc0 kb1 kc1 kb kc : Nat} {stk1 stk0 : List V}
    {σ1 σ0 σ' : Env} {r : Out}
    (hpre : Steps W ⟨pc0, stk0, σ0⟩ ⟨pc1, stk1, σ1⟩)
    (h : Post W ls kb1 kc1 sub pc1 stk1 σ1 r σ') (hnv : ∀ v, r ≠ .val v) (hu : isUnitNode sub = false)
    (hx : escapes sub = false) :
    Post W ls kb kc n pc0 stk0 σ0 r σ' := by
  cases r with
  | val v => exact absurd rfl (hnv v)
  | unit => have := h.1; simp only [Shape] at this; rw [hu] at this; cases this
  | brk => have := h.1; simp only [Shape] at this; rw [hx] at this; cases this
  | cont => have := h.1; simp only [Shape] at this; rw [hx] at this; cases this
  | err c => exact ⟨trivial, Fails.pre hpre h.2⟩
  | oof => exact ⟨trivial, trivial⟩

theorem Post.val_steps {W : World} {n : N} {pc kb kc : Nat} {stk : List V} {σ σ' : Env} {v : V}
    (h : Post W ls kb kc n pc stk σ (.val v) σ') : Steps W ⟨pc, stk, σ⟩ ⟨pc + size ls n, v :: stk, σ'⟩ := h.2

theorem Post.unit_steps {W : World} {n : N} {pc kb kc : Nat} {stk : List V} {σ σ' : Env}
    (h : Post W ls kb kc n pc stk σ .unit σ') : Steps W ⟨pc, stk, σ⟩ ⟨pc + size ls n, stk, σ'⟩ := h.2

/-! ### the length of a node's code does not depend on where the loop targets are -/

theorem pre_length (h : N) : (pre ls h).length = preLen h := by
  unfold pre preLen
  cases postName h <;> rfl

@[simp] theorem three_length (i : FIns) : (three i).length = 3 := rfl

theorem cells_code_length (us : List String) : (us.flatMap (fun x => three (.makeCell x))).length = 3 * us.length := by
  induction us with
  | nil => rfl
  | cons x r ih => simp only [List.flatMap_cons, List.length_append, three_length, ih, List.length_cons]; omega

theorem mkCode_length (lit : N) : (mkCode ls lit).length = mkLen ls lit := by
  unfold mkCode mkLen
  split
  · rfl
  · simp only [List.length_append, cells_code_length, three_length]

/-- the seven list-shaped components of `comp_lengths` are trivial on a node that is neither a
    list nor a case -/
macro "len_rest" : tactic =>
  `(tactic| (refine ⟨?_, by intro k; simp [compVals, valsLen], by intro k; simp [compCmpCase, caseCmpLen],
      by intro b; simp [compCmp, cmpLen], by intro a; simp [compBody, caseBodyLen],
      by intro d; simp [compBodies, bodiesLen], by simp [compDfltBody, dfltBodyLen], by simp [compDflt, defLen],
      by simp [compArgs, argsLen]⟩))

/-- lengths of every piece of generated code (the mutual functions of `comp`), by structural
    induction on the node -/
theorem comp_lengths (n : N) :
    (∀ kb kc, (comp ls kb kc n).length = size ls n) ∧ (∀ k, (compVals ls k n).length = valsLen ls n) ∧
    (∀ k, (compCmpCase ls k n).length = caseCmpLen ls n) ∧ (∀ b, (compCmp ls b n).length = cmpLen ls n) ∧
    (∀ a, (compBody ls a n).length = caseBodyLen ls n) ∧ (∀ d, (compBodies ls d n).length = bodiesLen ls n) ∧
    ((compDfltBody ls n).length = dfltBodyLen ls n) ∧ ((compDflt ls n).length = defLen ls n) ∧
    ((compArgs ls n).length = argsLen ls n) := by
  induction n with
  | cons h t ihh iht =>
    obtain ⟨h1, _, h3, _, h5, _, h7, _, _⟩ := ihh
    obtain ⟨t1, t2, _, t4, _, t6, _, t8, t9⟩ := iht
    refine ⟨?_, ?_, ?_, ?_, ?_, ?_, ?_, ?_, ?_⟩
    · intro kb kc
      simp only [comp, size, List.length_append, pre_length]
      split <;> split <;> simp [h1, t1] <;> omega
    · intro k; simp [compVals, valsLen, h1, t2]; omega
    · intro k; simp [compCmpCase, caseCmpLen]
    · intro b; simp [compCmp, cmpLen, h3, t4]
    · intro a; simp [compBody, caseBodyLen]
    · intro d; simp [compBodies, bodiesLen, h5, t6]
    · simp [compDfltBody, dfltBodyLen]
    · simp only [compDflt, defLen]; split <;> simp [h7, t8]
    · simp [compArgs, argsLen, h1, t9]
  | case_ vals body ihv ihb =>
    refine ⟨?_, ?_, ?_, ?_, ?_, ?_, ?_, ?_, ?_⟩
    · intro kb kc; simp [comp, size]
    · intro k; simp [compVals, valsLen]
    · intro k; simp [compCmpCase, caseCmpLen, ihv.2.1]
    · intro b; simp [compCmp, cmpLen]
    · intro a; simp [compBody, caseBodyLen, ihb.1]
    · intro d; simp [compBodies, bodiesLen]
    · simp [compDfltBody, dfltBodyLen]
    · simp [compDflt, defLen]
    · simp [compArgs, argsLen]
  | default_ body ihb =>
    refine ⟨?_, ?_, ?_, ?_, ?_, ?_, ?_, ?_, ?_⟩
    · intro kb kc; simp [comp, size]
    · intro k; simp [compVals, valsLen]
    · intro k; simp [compCmpCase, caseCmpLen]
    · intro b; simp [compCmp, cmpLen]
    · intro a; simp [compBody, caseBodyLen]
    · intro d; simp [compBodies, bodiesLen]
    · simp [compDfltBody, dfltBodyLen, ihb.1]
    · simp [compDflt, defLen]
    · simp [compArgs, argsLen]
  | «infix» op l r ihl ihr =>
    len_rest
    intro kb kc
    by_cases h1 : op = .and
    · simp [comp, size, h1, ihl.1, ihr.1]; omega
    · by_cases h2 : op = .or
      · simp [comp, size, h2, ihl.1, ihr.1]; omega
      · simp [comp, size, h1, h2, ihl.1, ihr.1]; omega
  | assign x op e ih =>
    len_rest
    intro kb kc
    by_cases h1 : op = .set
    · simp [comp, size, h1, ih.1]
    · simp [comp, size, h1, ih.1]; omega
  | for3 i c p b ihi ihc ihp ihb =>
    len_rest
    intro kb kc
    simp only [comp, size, List.length_append, ihi.1, ihc.1, ihp.1, ihb.1, two_length, one_length]
    split <;> simp <;> omega
  | switch subj cases ihs ihc =>
    len_rest
    intro kb kc
    simp [comp, size, ihs.1, ihc.2.2.2.1, ihc.2.2.2.2.2.1, ihc.2.2.2.2.2.2.2]; omega
  | tern c a b ihc iha ihb => len_rest; intro kb kc; simp [comp, size, ihc.1, iha.1, ihb.1]; omega
  | if_ c a b ihc iha ihb => len_rest; intro kb kc; simp [comp, size, ihc.1, iha.1, ihb.1]; omega
  | forcond c b ihc ihb => len_rest; intro kb kc; simp [comp, size, ihc.1, ihb.1]; omega
  | forever b ihb => len_rest; intro kb kc; simp [comp, size, ihb.1]
  | neg e ih => len_rest; intro kb kc; simp [comp, size, ih.1]
  | not e ih => len_rest; intro kb kc; simp [comp, size, ih.1]
  | var x e ih => len_rest; intro kb kc; simp [comp, size, ih.1]
  | call f args ihf iha => len_rest; intro kb kc; simp [comp, size, ihf.1, iha.2.2.2.2.2.2.2.2]; omega
  | return_ e ih => len_rest; intro kb kc; simp [comp, size, ih.1]
  | block s ih => len_rest; intro kb kc; simp [comp, size, ih.1]
  | prog s ih => len_rest; intro kb kc; simp [comp, size, ih.1]
  | expr s ih => len_rest; intro kb kc; simp only [comp, size]; split <;> simp [ih.1, mkCode_length]
  | func name ps b _ _ => len_rest; intro kb kc; simp [comp, size, mkCode_length]
  | _ => len_rest; intro kb kc; simp [comp, size]

theorem comp_length (n : N) (kb kc : Nat) : (comp ls kb kc n).length = size ls n := (comp_lengths n).1 kb kc
theorem compVals_length (n : N) (k : Nat) : (compVals ls k n).length = valsLen ls n := (comp_lengths n).2.1 k
theorem compCmp_length (n : N) (b : Nat) : (compCmp ls b n).length = cmpLen ls n := (comp_lengths n).2.2.2.1 b
theorem compBody_length (n : N) (a : Nat) : (compBody ls a n).length = caseBodyLen ls n := (comp_lengths n).2.2.2.2.1 a
theorem compBodies_length (n : N) (d : Nat) : (compBodies ls d n).length = bodiesLen ls n := (comp_lengths n).2.2.2.2.2.1 d
theorem compDflt_length (n : N) : (compDflt ls n).length = defLen ls n := (comp_lengths n).2.2.2.2.2.2.2.1
theorem compArgs_length (n : N) : (compArgs ls n).length = argsLen ls n := (comp_lengths n).2.2.2.2.2.2.2.2

/-! ### variable access: the opcode the resolution picks reads / writes the variable -/

theorem exec_loadV (ls : Sc) (x : String) (pc : Nat) (stk : List V) (σ : Env) :
    execIns (loadV ls x) ⟨pc, stk, σ⟩ = .ok ⟨pc + 2, σ.get ls x :: stk, σ⟩ := by
  unfold loadV Env.get
  split
  · rfl
  · split <;> rfl

theorem exec_storeV (ls : Sc) (x : String) (pc : Nat) (v : V) (stk : List V) (σ : Env) :
    execIns (storeV ls x) ⟨pc, v :: stk, σ⟩ = .ok ⟨pc + 2, stk, σ.set ls x v⟩ := by
  unfold storeV Env.set
  split
  · rfl
  · split <;> rfl

/-! ### one simulation lemma per construct (sub-nodes through the induction hypothesis) -/

variable {W : World} {rec : N → Env → Out × Env} {app : V → List V → Sh → Out × Sh} {fuel : Nat} {kb kc : Nat}

theorem Post.fail {n : N} {pc0 pc1 : Nat} {stk0 stk1 : List V} {σ0 σ1 : Env} {c : String}
    (hpre : Steps W ⟨pc0, stk0, σ0⟩ ⟨pc1, stk1, σ1⟩) (h : step W.code ⟨pc1, stk1, σ1⟩ = .error (.err c)) :
    Post W ls kb kc n pc0 stk0 σ0 (.err (.cls c)) σ1 := ⟨trivial, Fails.of_step hpre h⟩

theorem Post.congr {n m : N} {pc : Nat} {stk : List V} {σ σ' : Env} {r : Out}
    (hc : size ls n = size ls m) (hu : isUnitNode n = isUnitNode m) (hx : escapes n = escapes m)
    (h : Post W ls kb kc m pc stk σ r σ') :
    Post W ls kb kc n pc stk σ r σ' := by
  unfold Post Shape at *
  rw [hc, hu, hx]; exact h

theorem sim_and (ih : IH W ls rec) (l r : N)
    (hwf : wf (.infix .and l r) = true) (pc : Nat) (stk : List V) (σ : Env) (res : Out) (σ' : Env)
    (hat : CodeAt W.code pc (comp ls kb kc (.infix .and l r))) (he : evNode ls fuel rec app (.infix .and l r) σ = (res, σ')) :
    Post W ls kb kc (.infix .and l r) pc stk σ res σ' := by
  simp only [wf, Bool.and_eq_true, Bool.not_eq_true'] at hwf
  obtain ⟨⟨⟨⟨⟨⟨_, hel⟩, her⟩, hxl⟩, hxr⟩, hwl⟩, hwr⟩ := hwf
  simp only [comp, ↓reduceIte] at hat
  simp only [evNode, ↓reduceIte] at he
  have hlen : size ls (.infix .and l r) = size ls l + size ls r + 7 := by simp [size]
  have hatl := hat.append_left.append_left.append_left.append_left.append_left
  have hcopy := CodeAt.two hat.append_left.append_left.append_left.append_left.append_right
  have hpjf := CodeAt.two hat.append_left.append_left.append_left.append_right
  have hatr := hat.append_left.append_left.append_right
  have hbin := CodeAt.two hat.append_left.append_right
  have hnop := CodeAt.one hat.append_right
  simp only [List.length_append, two_length, comp_length] at hcopy hpjf hatr hbin hnop
  rcases seqV_elim he with ⟨a, σ1, hl, he⟩ | ⟨hnv, hx⟩
  · have Pl := (ih l hwl 0 0 pc stk σ _ _ hatl hl).val_steps
    have s1 : step W.code ⟨pc + size ls l, a :: stk, σ1⟩ = .ok ⟨pc + size ls l + 2, a :: a :: stk, σ1⟩ := by
      rw [step_of hcopy]; rfl
    have hpjf := at_eq hpjf (q := pc + size ls l + 2) (by omega)
    by_cases ht : a.truthy = true
    · simp only [ht, ↓reduceIte] at he
      have s2 : step W.code ⟨pc + size ls l + 2, a :: a :: stk, σ1⟩ = .ok ⟨pc + size ls l + 4, a :: stk, σ1⟩ := by
        rw [step_of hpjf]; simp [execIns, ht]
      have pre := (Pl.snoc s1).snoc s2
      have hatr := hatr.cast (q := pc + size ls l + 4) (by omega)
      rcases seqV_elim he with ⟨b, σ2, hr, he⟩ | ⟨hnv, hx⟩
      · cases he
        have Pr := (ih r hwr 0 0 _ (a :: stk) σ1 _ _ hatr hr).val_steps
        have hbin := at_eq hbin (q := pc + size ls l + 4 + size ls r) (by omega)
        have hnop := at_eq hnop (q := pc + size ls l + 4 + size ls r + 2) (by omega)
        have s3 : step W.code ⟨pc + size ls l + 4 + size ls r, b :: a :: stk, σ'⟩
            = .ok ⟨pc + size ls l + 4 + size ls r + 2, b :: stk, σ'⟩ := by
          rw [step_of hbin]; simp [execIns, vBinaryF, ht]
        have s4 : step W.code ⟨pc + size ls l + 4 + size ls r + 2, b :: stk, σ'⟩
            = .ok ⟨pc + size ls l + 4 + size ls r + 2 + 1, b :: stk, σ'⟩ := by
          rw [step_of hnop]; rfl
        refine ⟨rfl, ?_⟩
        show Steps W _ ⟨_, b :: stk, _⟩
        rw [hlen]
        exact (((pre.trans Pr).snoc s3).snoc s4).cast (by omega)
      · exact Post.propagate pre (ih r hwr 0 0 _ (a :: stk) σ1 _ _ hatr hx) hnv (isE_not_unit her) hxr
    · simp only [ht] at he
      have ht' : a.truthy = false := by simpa using ht
      simp only [Bool.false_eq_true, ↓reduceIte] at he
      cases he
      have s2 : step W.code ⟨pc + size ls l + 2, a :: a :: stk, σ'⟩
          = .ok ⟨pc + size ls l + 2 + (size ls r + 5), a :: stk, σ'⟩ := by
        rw [step_of hpjf]; simp [execIns, ht']
      refine ⟨rfl, ?_⟩
      show Steps W _ ⟨_, a :: stk, _⟩
      rw [hlen]
      exact ((Pl.snoc s1).snoc s2).cast (by omega)
  · exact Post.propagate (.refl _) (ih l hwl 0 0 pc stk σ _ _ hatl hx) hnv (isE_not_unit hel) hxl

theorem sim_infix (ih : IH W ls rec) (op : BinOp) (l r : N) (hop : op ≠ .and) (hor : op ≠ .or)
    (hwf : wf (.infix op l r) = true) (pc : Nat) (stk : List V) (σ : Env) (res : Out) (σ' : Env)
    (hat : CodeAt W.code pc (comp ls kb kc (.infix op l r))) (he : evNode ls fuel rec app (.infix op l r) σ = (res, σ')) :
    Post W ls kb kc (.infix op l r) pc stk σ res σ' := by
  simp only [wf, Bool.and_eq_true, Bool.not_eq_true'] at hwf
  obtain ⟨⟨⟨⟨⟨⟨hok, hel⟩, her⟩, hxl⟩, hxr⟩, hwl⟩, hwr⟩ := hwf
  simp only [comp, if_neg hop, if_neg hor] at hat
  simp only [evNode, if_neg hop, if_neg hor] at he
  have hlen : size ls (.infix op l r) = size ls l + size ls r + 2 := by
    simp [size, hop, hor]
  have hatl := hat.append_left.append_left
  have hatr := hat.append_left.append_right
  have hins := CodeAt.two hat.append_right
  simp only [List.length_append, comp_length] at hins hatr
  have hins := at_eq hins (q := pc + size ls l + size ls r) (by omega)
  rcases seqV_elim he with ⟨a, σ1, hl, he⟩ | ⟨hnv, hx⟩
  · have Pl := (ih l hwl 0 0 pc stk σ _ _ hatl hl).val_steps
    rcases seqV_elim he with ⟨b, σ2, hr, he⟩ | ⟨hnv, hx⟩
    · have Pr := (ih r hwr 0 0 _ (a :: stk) σ1 _ _ hatr hr).val_steps
      have hstep := step_of hins (b :: a :: stk) σ2
      rw [execIns_opIns op hok hop hor] at hstep
      cases hb : binopF op a b with
      | ok v =>
        simp only [hb, liftE] at he hstep; cases he
        refine ⟨rfl, ?_⟩
        show Steps W _ ⟨_, v :: stk, _⟩
        rw [hlen]
        exact (Pl.trans (Pr.snoc hstep)).cast (by omega)
      | error c =>
        simp only [hb, liftE] at he hstep; cases he
        exact Post.fail (Pl.trans Pr) hstep
    · exact Post.propagate Pl (ih r hwr 0 0 _ (a :: stk) σ1 _ _ hatr hx) hnv (isE_not_unit her) hxr
  · exact Post.propagate (.refl _) (ih l hwl 0 0 pc stk σ _ _ hatl hx) hnv (isE_not_unit hel) hxl

theorem sim_or (ih : IH W ls rec) (l r : N)
    (hwf : wf (.infix .or l r) = true) (pc : Nat) (stk : List V) (σ : Env) (res : Out) (σ' : Env)
    (hat : CodeAt W.code pc (comp ls kb kc (.infix .or l r))) (he : evNode ls fuel rec app (.infix .or l r) σ = (res, σ')) :
    Post W ls kb kc (.infix .or l r) pc stk σ res σ' := by
  simp only [wf, Bool.and_eq_true, Bool.not_eq_true'] at hwf
  obtain ⟨⟨⟨⟨⟨⟨_, hel⟩, her⟩, hxl⟩, hxr⟩, hwl⟩, hwr⟩ := hwf
  simp only [comp, reduceCtorEq, ↓reduceIte] at hat
  simp only [evNode, reduceCtorEq, ↓reduceIte] at he
  have hlen : size ls (.infix .or l r) = size ls l + size ls r + 7 := by simp [size]
  have hatl := hat.append_left.append_left.append_left.append_left.append_left
  have hcopy := CodeAt.two hat.append_left.append_left.append_left.append_left.append_right
  have hpjt := CodeAt.two hat.append_left.append_left.append_left.append_right
  have hatr := hat.append_left.append_left.append_right
  have hbin := CodeAt.two hat.append_left.append_right
  have hnop := CodeAt.one hat.append_right
  simp only [List.length_append, two_length, comp_length] at hcopy hpjt hatr hbin hnop
  rcases seqV_elim he with ⟨a, σ1, hl, he⟩ | ⟨hnv, hx⟩
  · have Pl := (ih l hwl 0 0 pc stk σ _ _ hatl hl).val_steps
    have s1 : step W.code ⟨pc + size ls l, a :: stk, σ1⟩ = .ok ⟨pc + size ls l + 2, a :: a :: stk, σ1⟩ := by
      rw [step_of hcopy]; rfl
    have hpjt := at_eq hpjt (q := pc + size ls l + 2) (by omega)
    by_cases ht : a.truthy = true
    · simp only [ht, ↓reduceIte] at he
      cases he
      have s2 : step W.code ⟨pc + size ls l + 2, a :: a :: stk, σ'⟩
          = .ok ⟨pc + size ls l + 2 + (size ls r + 5), a :: stk, σ'⟩ := by
        rw [step_of hpjt]; simp [execIns, ht]
      refine ⟨rfl, ?_⟩
      show Steps W _ ⟨_, a :: stk, _⟩
      rw [hlen]
      exact ((Pl.snoc s1).snoc s2).cast (by omega)
    · have ht' : a.truthy = false := by simpa using ht
      simp only [ht', Bool.false_eq_true, ↓reduceIte] at he
      have s2 : step W.code ⟨pc + size ls l + 2, a :: a :: stk, σ1⟩ = .ok ⟨pc + size ls l + 4, a :: stk, σ1⟩ := by
        rw [step_of hpjt]; simp [execIns, ht']
      have pre := (Pl.snoc s1).snoc s2
      have hatr := hatr.cast (q := pc + size ls l + 4) (by omega)
      rcases seqV_elim he with ⟨b, σ2, hr, he⟩ | ⟨hnv, hx⟩
      · cases he
        have Pr := (ih r hwr 0 0 _ (a :: stk) σ1 _ _ hatr hr).val_steps
        have hbin := at_eq hbin (q := pc + size ls l + 4 + size ls r) (by omega)
        have hnop := at_eq hnop (q := pc + size ls l + 4 + size ls r + 2) (by omega)
        have s3 : step W.code ⟨pc + size ls l + 4 + size ls r, b :: a :: stk, σ'⟩
            = .ok ⟨pc + size ls l + 4 + size ls r + 2, b :: stk, σ'⟩ := by
          rw [step_of hbin]; simp [execIns, vBinaryF, ht']
        have s4 : step W.code ⟨pc + size ls l + 4 + size ls r + 2, b :: stk, σ'⟩
            = .ok ⟨pc + size ls l + 4 + size ls r + 2 + 1, b :: stk, σ'⟩ := by
          rw [step_of hnop]; rfl
        refine ⟨rfl, ?_⟩
        show Steps W _ ⟨_, b :: stk, _⟩
        rw [hlen]
        exact (((pre.trans Pr).snoc s3).snoc s4).cast (by omega)
      · exact Post.propagate pre (ih r hwr 0 0 _ (a :: stk) σ1 _ _ hatr hx) hnv (isE_not_unit her) hxr
  · exact Post.propagate (.refl _) (ih l hwl 0 0 pc stk σ _ _ hatl hx) hnv (isE_not_unit hel) hxl

theorem sim_neg (ih : IH W ls rec) (e : N)
    (hwf : wf (.neg e) = true) (pc : Nat) (stk : List V) (σ : Env) (res : Out) (σ' : Env)
    (hat : CodeAt W.code pc (comp ls kb kc (.neg e))) (he : evNode ls fuel rec app (.neg e) σ = (res, σ')) :
    Post W ls kb kc (.neg e) pc stk σ res σ' := by
  simp only [wf, Bool.and_eq_true, Bool.not_eq_true'] at hwf
  obtain ⟨⟨hee, hxe⟩, hwe⟩ := hwf
  simp only [comp] at hat
  simp only [evNode] at he
  have hlen : size ls (.neg e) = size ls e + 1 := by simp [size]
  have hins := CodeAt.one hat.append_right
  simp only [comp_length] at hins
  rcases seqV_elim he with ⟨v, σ1, h1, he⟩ | ⟨hnv, hx⟩
  · have P1 := (ih e hwe 0 0 pc stk σ _ _ hat.append_left h1).val_steps
    cases v with
    | int i =>
      simp only at he; cases he
      refine ⟨rfl, ?_⟩
      show Steps W _ ⟨_, .int (wrap64 (-i)) :: stk, _⟩
      rw [hlen]
      have s1 : step W.code ⟨pc + size ls e, .int i :: stk, σ'⟩ = .ok ⟨pc + size ls e + 1, .int (wrap64 (-i)) :: stk, σ'⟩ := by
        rw [step_of hins]; rfl
      exact (P1.snoc s1).cast (by omega)
    | nil => simp only at he; cases he; exact Post.fail P1 (by rw [step_of hins]; rfl)
    | bool b => simp only at he; cases he; exact Post.fail P1 (by rw [step_of hins]; rfl)
    | str s => simp only at he; cases he; exact Post.fail P1 (by rw [step_of hins]; rfl)
    | fn g => simp only at he; cases he; exact Post.fail P1 (by rw [step_of hins]; rfl)
    | clo i g cs => simp only at he; cases he; exact Post.fail P1 (by rw [step_of hins]; rfl)
    | cell a x => simp only at he; cases he; exact Post.fail P1 (by rw [step_of hins]; rfl)
  · exact Post.propagate (.refl _) (ih e hwe 0 0 pc stk σ _ _ hat.append_left hx) hnv (isE_not_unit hee) hxe

theorem sim_not (ih : IH W ls rec) (e : N)
    (hwf : wf (.not e) = true) (pc : Nat) (stk : List V) (σ : Env) (res : Out) (σ' : Env)
    (hat : CodeAt W.code pc (comp ls kb kc (.not e))) (he : evNode ls fuel rec app (.not e) σ = (res, σ')) :
    Post W ls kb kc (.not e) pc stk σ res σ' := by
  simp only [wf, Bool.and_eq_true, Bool.not_eq_true'] at hwf
  obtain ⟨⟨hee, hxe⟩, hwe⟩ := hwf
  simp only [comp] at hat
  simp only [evNode] at he
  have hlen : size ls (.not e) = size ls e + 1 := by simp [size]
  have hins := CodeAt.one hat.append_right
  simp only [comp_length] at hins
  rcases seqV_elim he with ⟨v, σ1, h1, he⟩ | ⟨hnv, hx⟩
  · have P1 := (ih e hwe 0 0 pc stk σ _ _ hat.append_left h1).val_steps
    cases he
    refine ⟨rfl, ?_⟩
    show Steps W _ ⟨_, .bool (!v.truthy) :: stk, _⟩
    rw [hlen]
    have s1 : step W.code ⟨pc + size ls e, v :: stk, σ'⟩ = .ok ⟨pc + size ls e + 1, .bool (!v.truthy) :: stk, σ'⟩ := by
      rw [step_of hins]; rfl
    exact (P1.snoc s1).cast (by omega)
  · exact Post.propagate (.refl _) (ih e hwe 0 0 pc stk σ _ _ hat.append_left hx) hnv (isE_not_unit hee) hxe

/-- ternary and if/else share their shape: the condition is an operand, the two branches
    inherit the loop targets (shifted by what follows them) -/
theorem sim_cond (ih : IH W ls rec) (n c a b : N)
    (hcomp : comp ls kb kc n = comp ls 0 0 c ++ two (.pjf (size ls a + 4)) ++ comp ls (kb + (size ls b + 2)) (kc + (size ls b + 2)) a
      ++ two (.jf (size ls b + 2)) ++ comp ls kb kc b)
    (hsize : size ls n = size ls c + size ls a + size ls b + 4)
    (hun : isUnitNode n = false) (hesc : escapes n = (escapes c || escapes a || escapes b))
    (hwc : wf c = true) (hwa : wf a = true) (hwb : wf b = true)
    (huc : isUnitNode c = false) (hua : isUnitNode a = false) (hub : isUnitNode b = false)
    (hxc : escapes c = false)
    (pc : Nat) (stk : List V) (σ : Env) (res : Out) (σ' : Env)
    (hat : CodeAt W.code pc (comp ls kb kc n))
    (he : (seqV (rec c σ) fun v σ1 => if v.truthy = true then rec a σ1 else rec b σ1) = (res, σ')) :
    Post W ls kb kc n pc stk σ res σ' := by
  have hlen := hsize
  rw [hcomp] at hat
  have hatc := hat.append_left.append_left.append_left.append_left
  have hpjf := CodeAt.two hat.append_left.append_left.append_left.append_right
  have hata := hat.append_left.append_left.append_right
  have hjf := CodeAt.two hat.append_left.append_right
  have hatb := hat.append_right
  simp only [List.length_append, two_length, comp_length] at hpjf hata hjf hatb
  rcases seqV_elim he with ⟨v, σ1, h1, he⟩ | ⟨hnv, hx⟩
  · have Pc := (ih c hwc 0 0 pc stk σ _ _ hatc h1).val_steps
    by_cases ht : v.truthy = true
    · simp only [ht, ↓reduceIte] at he
      have s1 : step W.code ⟨pc + size ls c, v :: stk, σ1⟩ = .ok ⟨pc + size ls c + 2, stk, σ1⟩ := by
        rw [step_of hpjf]; simp [execIns, ht]
      have pre := Pc.snoc s1
      have Pa := ih a hwa _ _ _ stk σ1 _ _ hata he
      have hjf := at_eq hjf (q := pc + size ls c + 2 + size ls a) (by omega)
      cases res with
      | val w =>
        refine ⟨by simp [Shape, hun], ?_⟩
        show Steps W _ ⟨_, w :: stk, _⟩
        have s2 : step W.code ⟨pc + size ls c + 2 + size ls a, w :: stk, σ'⟩
            = .ok ⟨pc + size ls c + 2 + size ls a + (size ls b + 2), w :: stk, σ'⟩ := by
          rw [step_of hjf]; rfl
        rw [hlen]
        exact ((pre.trans Pa.val_steps).snoc s2).cast (by omega)
      | unit => have := Pa.1; simp only [Shape] at this; rw [hua] at this; cases this
      | brk =>
        have hxa : escapes a = true := Pa.1
        refine ⟨by simp [Shape, hesc, hxa], ?_⟩
        show Steps W _ ⟨_, stk, _⟩
        rw [hlen]
        exact (pre.trans Pa.2).cast (by omega)
      | cont =>
        have hxa : escapes a = true := Pa.1
        refine ⟨by simp [Shape, hesc, hxa], ?_⟩
        show Steps W _ ⟨_, stk, _⟩
        rw [hlen]
        exact (pre.trans Pa.2).cast (by omega)
      | err e => exact ⟨trivial, Fails.pre pre Pa.2⟩
      | oof => exact ⟨trivial, trivial⟩
    · have ht' : v.truthy = false := by simpa using ht
      simp only [ht', Bool.false_eq_true, ↓reduceIte] at he
      have s1 : step W.code ⟨pc + size ls c, v :: stk, σ1⟩
          = .ok ⟨pc + size ls c + (size ls a + 4), stk, σ1⟩ := by
        rw [step_of hpjf]; simp [execIns, ht']
      have pre := Pc.snoc s1
      have Pb := ih b hwb kb kc _ stk σ1 _ _ (hatb.cast (q := pc + size ls c + (size ls a + 4)) (by omega)) he
      cases res with
      | val w =>
        refine ⟨by simp [Shape, hun], ?_⟩
        show Steps W _ ⟨_, w :: stk, _⟩
        rw [hlen]
        exact (pre.trans Pb.val_steps).cast (by omega)
      | unit => have := Pb.1; simp only [Shape] at this; rw [hub] at this; cases this
      | brk =>
        have hxb : escapes b = true := Pb.1
        refine ⟨by simp [Shape, hesc, hxb], ?_⟩
        show Steps W _ ⟨_, stk, _⟩
        rw [hlen]
        exact (pre.trans Pb.2).cast (by omega)
      | cont =>
        have hxb : escapes b = true := Pb.1
        refine ⟨by simp [Shape, hesc, hxb], ?_⟩
        show Steps W _ ⟨_, stk, _⟩
        rw [hlen]
        exact (pre.trans Pb.2).cast (by omega)
      | err e => exact ⟨trivial, Fails.pre pre Pb.2⟩
      | oof => exact ⟨trivial, trivial⟩
  · exact Post.propagate (.refl _) (ih c hwc 0 0 pc stk σ _ _ hatc hx) hnv huc hxc

/-- a leaf: one instruction pushes the value, the store is untouched -/
theorem sim_leaf (n : N) (i : FIns) (v : V) (w : Nat) (pc : Nat) (stk : List V) (σ : Env) (r : Out) (σ' : Env)
    (hun : isUnitNode n = false)
    (hins : W.code[pc]? = some (some i)) (hlen : size ls n = w)
    (hex : execIns i ⟨pc, stk, σ⟩ = .ok ⟨pc + w, v :: stk, σ⟩)
    (he : (Out.val v, σ) = (r, σ')) : Post W ls kb kc n pc stk σ r σ' := by
  cases he
  refine ⟨hun, ?_⟩
  show Steps W _ ⟨_, v :: stk, _⟩
  rw [hlen]
  exact .one (by rw [step_of hins]; exact hex)

theorem pre_steps (h : N) (pc : Nat) (stk : List V) (σ : Env) (hat : CodeAt W.code pc (pre ls h)) :
    Steps W ⟨pc, stk, σ⟩ ⟨pc + preLen h, stk, σ⟩ := by
  cases hp : postName h with
  | none => simp only [preLen, hp]; exact .refl _
  | some x =>
    simp only [pre, hp] at hat
    simp only [preLen, hp]
    have h1 := CodeAt.two hat.append_left
    have h2 := CodeAt.one hat.append_right
    simp only [two_length] at h2
    have s1 : step W.code ⟨pc, stk, σ⟩ = .ok ⟨pc + 2, σ.get ls x :: stk, σ⟩ := by rw [step_of h1]; exact exec_loadV ..
    have s2 : step W.code ⟨pc + 2, σ.get ls x :: stk, σ⟩ = .ok ⟨pc + 2 + 1, stk, σ⟩ := by rw [step_of h2]; rfl
    exact (Steps.one s1).snoc s2

theorem unit_not_leaves {n : N} (h : isUnitNode n = true) : leaves n = false := by
  cases n <;> simp_all [isUnitNode, leaves]

theorem sim_cons (ih : IH W ls rec) (h t : N)
    (hwf : wf (.cons h t) = true) (pc : Nat) (stk : List V) (σ : Env) (res : Out) (σ' : Env)
    (hat : CodeAt W.code pc (comp ls kb kc (.cons h t))) (he : evNode ls fuel rec app (.cons h t) σ = (res, σ')) :
    Post W ls kb kc (.cons h t) pc stk σ res σ' := by
  simp only [wf, Bool.and_eq_true] at hwf
  obtain ⟨⟨⟨hsh, hlt⟩, hwh⟩, hwt⟩ := hwf
  simp only [isS, Bool.or_eq_true] at hsh
  simp only [comp] at hat
  simp only [evNode] at he
  have hpre := pre_steps h pc stk σ hat.append_left
  have hrest := hat.append_right
  simp only [pre_length] at hrest
  have hesc : escapes (.cons h t) = (escapes h || escapes t) := by simp [escapes]
  -- the head statement
  rcases hh : rec h σ with ⟨r1, σ1⟩
  rw [hh] at he
  -- a value forces an expression statement, unit / break / continue a non-expression
  have hleaves : ∀ {kb' kc' pc'}, Post W ls kb' kc' h pc' stk σ r1 σ1 →
      (∀ v, r1 = .val v → leaves h = true) ∧ (r1 = .unit → leaves h = false) := by
    intro kb' kc' pc' P
    refine ⟨?_, ?_⟩
    · intro v hv; subst hv
      rcases hsh with hu | hl
      · have := P.1; simp only [Shape] at this; rw [hu] at this; cases this
      · exact hl
    · intro hv; subst hv
      exact unit_not_leaves P.1
  by_cases hnil : isNilL t = true
  · -- last statement
    simp only [hnil, ↓reduceIte] at he hrest
    cases hl : leaves h with
    | true =>
      simp only [hl, ↓reduceIte, List.append_nil, Nat.add_zero] at hrest
      have hsz : size ls (.cons h t) = preLen h + size ls h := by simp [size, hnil, hl]
      have Ph := ih h hwh _ _ _ stk σ _ _ hrest hh
      cases r1 with
      | val v =>
        simp only at he; cases he
        refine ⟨rfl, ?_⟩
        show Steps W _ ⟨_, v :: stk, _⟩
        rw [hsz]
        exact (hpre.trans Ph.val_steps).cast (by omega)
      | unit => have := (hleaves Ph).2 rfl; rw [hl] at this; cases this
      | brk =>
        simp only at he; cases he
        have hxh : escapes h = true := Ph.1
        refine ⟨by simp [Shape, hesc, hxh], ?_⟩
        show Steps W _ ⟨_, stk, _⟩
        rw [hsz]
        exact (hpre.trans Ph.2).cast (by omega)
      | cont =>
        simp only at he; cases he
        have hxh : escapes h = true := Ph.1
        refine ⟨by simp [Shape, hesc, hxh], ?_⟩
        show Steps W _ ⟨_, stk, _⟩
        rw [hsz]
        exact (hpre.trans Ph.2).cast (by omega)
      | err c => simp only at he; cases he; exact ⟨trivial, Fails.pre hpre Ph.2⟩
      | oof => simp only at he; cases he; exact ⟨trivial, trivial⟩
    | false =>
      simp only [hl, Bool.false_eq_true, ↓reduceIte] at hrest
      have hsz : size ls (.cons h t) = preLen h + size ls h + 1 := by simp [size, hnil, hl]
      have Ph := ih h hwh _ _ _ stk σ _ _ hrest.append_left hh
      have hins := CodeAt.one hrest.append_right
      simp only [comp_length] at hins
      cases r1 with
      | val v => have := (hleaves Ph).1 v rfl; rw [hl] at this; cases this
      | unit =>
        simp only at he; cases he
        have s1 : step W.code ⟨pc + preLen h + size ls h, stk, σ'⟩ = .ok ⟨pc + preLen h + size ls h + 1, .nil :: stk, σ'⟩ := by
          rw [step_of hins]; rfl
        refine ⟨rfl, ?_⟩
        show Steps W _ ⟨_, .nil :: stk, _⟩
        rw [hsz]
        exact ((hpre.trans Ph.unit_steps).snoc s1).cast (by omega)
      | brk =>
        simp only at he; cases he
        have hxh : escapes h = true := Ph.1
        refine ⟨by simp [Shape, hesc, hxh], ?_⟩
        show Steps W _ ⟨_, stk, _⟩
        rw [hsz]
        exact (hpre.trans Ph.2).cast (by omega)
      | cont =>
        simp only at he; cases he
        have hxh : escapes h = true := Ph.1
        refine ⟨by simp [Shape, hesc, hxh], ?_⟩
        show Steps W _ ⟨_, stk, _⟩
        rw [hsz]
        exact (hpre.trans Ph.2).cast (by omega)
      | err c => simp only at he; cases he; exact ⟨trivial, Fails.pre hpre Ph.2⟩
      | oof => simp only at he; cases he; exact ⟨trivial, trivial⟩
  · have hnil' : isNilL t = false := by simpa using hnil
    simp only [hnil', Bool.false_eq_true, ↓reduceIte] at he hrest
    have hut := isL_not_unit hlt
    -- the rest of the list runs from the state after the head
    have rest : ∀ pcT, Steps W ⟨pc, stk, σ⟩ ⟨pcT, stk, σ1⟩ → CodeAt W.code pcT (comp ls kb kc t) →
        pcT + size ls t = pc + size ls (.cons h t) → rec t σ1 = (res, σ') →
        Post W ls kb kc (.cons h t) pc stk σ res σ' := by
      intro pcT hs hatT hend heT
      have Pt := ih t hwt kb kc pcT stk σ1 _ _ hatT heT
      refine ⟨?_, ?_⟩
      · have := Pt.1
        cases res <;> simp_all [Shape, isUnitNode]
      · exact (Lands.pre hs Pt.2).cast hend
    cases hl : leaves h with
    | true =>
      simp only [hl, ↓reduceIte] at hrest
      have hsz : size ls (.cons h t) = preLen h + size ls h + 1 + size ls t := by simp [size, hnil', hl]; omega
      have Ph := ih h hwh _ _ _ stk σ _ _ hrest.append_left hh
      have hpop := CodeAt.one hrest.append_right.append_left
      have hatT := hrest.append_right.append_right
      simp only [comp_length, one_length] at hpop hatT
      cases r1 with
      | val v =>
        simp only at he
        have s1 : step W.code ⟨pc + preLen h + size ls h, v :: stk, σ1⟩ = .ok ⟨pc + preLen h + size ls h + 1, stk, σ1⟩ := by
          rw [step_of hpop]; rfl
        exact rest _ ((hpre.trans Ph.val_steps).snoc s1) hatT (by rw [hsz]; omega) he
      | unit => have := (hleaves Ph).2 rfl; rw [hl] at this; cases this
      | brk =>
        simp only at he; cases he
        have hxh : escapes h = true := Ph.1
        refine ⟨by simp [Shape, hesc, hxh], ?_⟩
        show Steps W _ ⟨_, stk, _⟩
        rw [hsz]
        exact (hpre.trans Ph.2).cast (by omega)
      | cont =>
        simp only at he; cases he
        have hxh : escapes h = true := Ph.1
        refine ⟨by simp [Shape, hesc, hxh], ?_⟩
        show Steps W _ ⟨_, stk, _⟩
        rw [hsz]
        exact (hpre.trans Ph.2).cast (by omega)
      | err c => simp only at he; cases he; exact ⟨trivial, Fails.pre hpre Ph.2⟩
      | oof => simp only at he; cases he; exact ⟨trivial, trivial⟩
    | false =>
      simp only [hl, Bool.false_eq_true, ↓reduceIte, List.nil_append, Nat.zero_add] at hrest
      have hsz : size ls (.cons h t) = preLen h + size ls h + size ls t := by simp [size, hnil', hl]
      have Ph := ih h hwh _ _ _ stk σ _ _ hrest.append_left hh
      have hatT := hrest.append_right
      simp only [comp_length] at hatT
      cases r1 with
      | val v => have := (hleaves Ph).1 v rfl; rw [hl] at this; cases this
      | unit =>
        simp only at he
        exact rest _ (hpre.trans Ph.unit_steps) hatT (by rw [hsz]; omega) he
      | brk =>
        simp only at he; cases he
        have hxh : escapes h = true := Ph.1
        refine ⟨by simp [Shape, hesc, hxh], ?_⟩
        show Steps W _ ⟨_, stk, _⟩
        rw [hsz]
        exact (hpre.trans Ph.2).cast (by omega)
      | cont =>
        simp only at he; cases he
        have hxh : escapes h = true := Ph.1
        refine ⟨by simp [Shape, hesc, hxh], ?_⟩
        show Steps W _ ⟨_, stk, _⟩
        rw [hsz]
        exact (hpre.trans Ph.2).cast (by omega)
      | err c => simp only at he; cases he; exact ⟨trivial, Fails.pre hpre Ph.2⟩
      | oof => simp only at he; cases he; exact ⟨trivial, trivial⟩

theorem sim_ctl (isBrk : Bool) (pc : Nat) (stk : List V) (σ : Env) (res : Out) (σ' : Env)
    (hat : CodeAt W.code pc (comp ls kb kc (if isBrk then .break_ else .continue_)))
    (he : ((if isBrk then Out.brk else Out.cont), σ) = (res, σ')) :
    Post W ls kb kc (if isBrk then .break_ else .continue_) pc stk σ res σ' := by
  cases isBrk with
  | true =>
    simp only [↓reduceIte] at hat he ⊢
    cases he
    have hins := CodeAt.two hat
    refine ⟨rfl, ?_⟩
    show Steps W _ ⟨pc + size ls .break_ + kb, stk, σ⟩
    have s1 : step W.code ⟨pc, stk, σ⟩ = .ok ⟨pc + (kb + 2), stk, σ⟩ := by rw [step_of hins]; rfl
    exact (Steps.one s1).cast (by simp [size]; omega)
  | false =>
    simp only [Bool.false_eq_true, ↓reduceIte] at hat he ⊢
    cases he
    have hins := CodeAt.two hat
    refine ⟨rfl, ?_⟩
    show Steps W _ ⟨pc + size ls .continue_ + kc, stk, σ⟩
    have s1 : step W.code ⟨pc, stk, σ⟩ = .ok ⟨pc + (kc + 2), stk, σ⟩ := by rw [step_of hins]; rfl
    exact (Steps.one s1).cast (by simp [size]; omega)

theorem sim_var (ih : IH W ls rec) (x : String) (e : N)
    (hwf : wf (.var x e) = true) (pc : Nat) (stk : List V) (σ : Env) (res : Out) (σ' : Env)
    (hat : CodeAt W.code pc (comp ls kb kc (.var x e))) (he : evNode ls fuel rec app (.var x e) σ = (res, σ')) :
    Post W ls kb kc (.var x e) pc stk σ res σ' := by
  simp only [wf, Bool.and_eq_true, Bool.not_eq_true'] at hwf
  obtain ⟨⟨hee, hxe⟩, hwe⟩ := hwf
  simp only [comp] at hat
  simp only [evNode] at he
  have hlen : size ls (.var x e) = size ls e + 2 := by simp [size]
  have hins := CodeAt.two hat.append_right
  simp only [comp_length] at hins
  rcases seqV_elim he with ⟨v, σ1, h1, he⟩ | ⟨hnv, hx⟩
  · have P1 := (ih e hwe 0 0 pc stk σ _ _ hat.append_left h1).val_steps
    cases he
    refine ⟨rfl, ?_⟩
    show Steps W _ ⟨_, stk, _⟩
    rw [hlen]
    have s1 : step W.code ⟨pc + size ls e, v :: stk, σ1⟩ = .ok ⟨pc + size ls e + 2, stk, σ1.set ls x v⟩ := by
      rw [step_of hins]; exact exec_storeV ..
    exact (P1.snoc s1).cast (by omega)
  · exact Post.propagate (.refl _) (ih e hwe 0 0 pc stk σ _ _ hat.append_left hx) hnv (isE_not_unit hee) hxe

theorem sim_assign (ih : IH W ls rec) (x : String) (op : AssignOp) (e : N)
    (hwf : wf (.assign x op e) = true) (pc : Nat) (stk : List V) (σ : Env) (res : Out) (σ' : Env)
    (hat : CodeAt W.code pc (comp ls kb kc (.assign x op e))) (he : evNode ls fuel rec app (.assign x op e) σ = (res, σ')) :
    Post W ls kb kc (.assign x op e) pc stk σ res σ' := by
  simp only [wf, Bool.and_eq_true, Bool.not_eq_true'] at hwf
  obtain ⟨⟨hee, hxe⟩, hwe⟩ := hwf
  simp only [evNode] at he
  by_cases hop : op = .set
  · subst hop
    simp only [comp, ↓reduceIte] at hat
    have hlen : size ls (.assign x .set e) = size ls e + 2 := by simp [size]
    have hins := CodeAt.two hat.append_right
    simp only [comp_length] at hins
    rcases seqV_elim he with ⟨v, σ1, h1, he⟩ | ⟨hnv, hx⟩
    · have P1 := (ih e hwe 0 0 pc stk σ _ _ hat.append_left h1).val_steps
      simp only [applyF] at he; cases he
      refine ⟨rfl, ?_⟩
      show Steps W _ ⟨_, stk, _⟩
      rw [hlen]
      have s1 : step W.code ⟨pc + size ls e, v :: stk, σ1⟩ = .ok ⟨pc + size ls e + 2, stk, σ1.set ls x v⟩ := by
        rw [step_of hins]; exact exec_storeV ..
      exact (P1.snoc s1).cast (by omega)
    · exact Post.propagate (.refl _) (ih e hwe 0 0 pc stk σ _ _ hat.append_left hx) hnv (isE_not_unit hee) hxe
  · simp only [comp, if_neg hop] at hat
    have hlen : size ls (.assign x op e) = size ls e + 6 := by simp [size, hop]
    have hload := CodeAt.two hat.append_left.append_left.append_left
    have hate := hat.append_left.append_left.append_right
    have hbin := CodeAt.two hat.append_left.append_right
    have hsto := CodeAt.two hat.append_right
    simp only [List.length_append, two_length, comp_length] at hate hbin hsto
    have s0 : step W.code ⟨pc, stk, σ⟩ = .ok ⟨pc + 2, σ.get ls x :: stk, σ⟩ := by rw [step_of hload]; exact exec_loadV ..
    rcases seqV_elim he with ⟨v, σ1, h1, he⟩ | ⟨hnv, hx⟩
    · have P1 := (ih e hwe 0 0 _ (σ.get ls x :: stk) σ _ _ hate h1).val_steps
      have hbin := at_eq hbin (q := pc + 2 + size ls e) (by omega)
      have hsto := at_eq hsto (q := pc + 2 + size ls e + 2) (by omega)
      cases ha : applyF op (σ.get ls x) v with
      | ok w =>
        simp only [ha] at he; cases he
        have s1 : step W.code ⟨pc + 2 + size ls e, v :: σ.get ls x :: stk, σ1⟩
            = .ok ⟨pc + 2 + size ls e + 2, w :: stk, σ1⟩ := by
          rw [step_of hbin]; simp [execIns, vBinaryF_assign op hop, ha]
        have s2 : step W.code ⟨pc + 2 + size ls e + 2, w :: stk, σ1⟩
            = .ok ⟨pc + 2 + size ls e + 2 + 2, stk, σ1.set ls x w⟩ := by
          rw [step_of hsto]; exact exec_storeV ..
        refine ⟨rfl, ?_⟩
        show Steps W _ ⟨_, stk, _⟩
        rw [hlen]
        exact ((((Steps.one s0).trans P1).snoc s1).snoc s2).cast (by omega)
      | error c =>
        simp only [ha] at he; cases he
        exact Post.fail ((Steps.one s0).trans P1) (by rw [step_of hbin]; simp [execIns, vBinaryF_assign op hop, ha])
    · exact Post.propagate (.one s0) (ih e hwe 0 0 _ (σ.get ls x :: stk) σ _ _ hate hx) hnv (isE_not_unit hee) hxe

theorem sim_postfix (x : String) (inc : Bool)
    (pc : Nat) (stk : List V) (σ : Env) (res : Out) (σ' : Env)
    (hat : CodeAt W.code pc (comp ls kb kc (.postfix x inc))) (he : evNode ls fuel rec app (.postfix x inc) σ = (res, σ')) :
    Post W ls kb kc (.postfix x inc) pc stk σ res σ' := by
  simp only [comp] at hat
  simp only [evNode] at he
  have hload := CodeAt.two hat.append_left.append_left.append_left
  have hcon := CodeAt.two hat.append_left.append_left.append_right
  have hbin := CodeAt.two hat.append_left.append_right
  have hsto := CodeAt.two hat.append_right
  simp only [List.length_append, two_length] at hcon hbin hsto
  have s0 : step W.code ⟨pc, stk, σ⟩ = .ok ⟨pc + 2, σ.get ls x :: stk, σ⟩ := by rw [step_of hload]; exact exec_loadV ..
  have s1 : step W.code ⟨pc + 2, σ.get ls x :: stk, σ⟩ = .ok ⟨pc + 2 + 2, .int (if inc then 1 else -1) :: σ.get ls x :: stk, σ⟩ := by
    rw [step_of hcon]; rfl
  have pre := (Steps.one s0).snoc s1
  cases ha : binopF .add (σ.get ls x) (.int (if inc then 1 else -1)) with
  | ok w =>
    simp only [ha] at he; cases he
    have s2 : step W.code ⟨pc + 2 + 2, .int (if inc then 1 else -1) :: σ.get ls x :: stk, σ⟩ = .ok ⟨pc + 2 + 2 + 2, w :: stk, σ⟩ := by
      rw [step_of hbin]; simp [execIns, vBinaryF_add, ha]
    have s3 : step W.code ⟨pc + 2 + 2 + 2, w :: stk, σ⟩ = .ok ⟨pc + 2 + 2 + 2 + 2, stk, σ.set ls x w⟩ := by
      rw [step_of hsto]; exact exec_storeV ..
    refine ⟨rfl, ?_⟩
    show Steps W _ ⟨_, stk, _⟩
    exact ((pre.snoc s2).snoc s3).cast (by simp [size])
  | error c =>
    simp only [ha] at he; cases he
    exact Post.fail pre (by rw [step_of hbin]; simp [execIns, vBinaryF_add, ha])

/-! ### loops -/

/-- the post-statement phase, and the result of a whole loop: value and unit both land at
    `tgt` with the loop's stack; no break/continue gets out -/
def PhaseTo (W : World) (c0 : Cfg) (tgt : Nat) (stk : List V) (r : Out) (σ' : Env) : Prop :=
  match r with
  | .val _ => Steps W c0 ⟨tgt, stk, σ'⟩
  | .unit => Steps W c0 ⟨tgt, stk, σ'⟩
  | .brk => False
  | .cont => False
  | .err c => Fails W c0 c σ'
  | .oof => True

/-- the body phase: the block's value is popped and control is at the post statement; a
    `continue` lands there too, a `break` at the loop's exit -/
def BodyTo (W : World) (c0 : Cfg) (pcP pcX : Nat) (stk : List V) (r : Out) (σ' : Env) : Prop :=
  match r with
  | .val _ => Steps W c0 ⟨pcP, stk, σ'⟩
  | .cont => Steps W c0 ⟨pcP, stk, σ'⟩
  | .brk => Steps W c0 ⟨pcX, stk, σ'⟩
  | .unit => False
  | .err c => Fails W c0 c σ'
  | .oof => True

/-- the condition phase: a truthy value lands at the body, a falsy one at the exit -/
def CondTo (W : World) (c0 : Cfg) (pcB pcX : Nat) (stk : List V) (r : Out) (σ' : Env) : Prop :=
  match r with
  | .val v => Steps W c0 ⟨if v.truthy = true then pcB else pcX, stk, σ'⟩
  | .unit => False
  | .brk => False
  | .cont => False
  | .err c => Fails W c0 c σ'
  | .oof => True

/-- the generic loop: condition at `pc0` (exit to `pcX`), body at `pcB`, post statement at
    `pcP` ending with the backward jump to `pc0`; by induction on the iteration bound -/
theorem loop_sim {cond body post : Env → Out × Env} {pc0 pcB pcP pcX : Nat} {stk : List V}
    (HC : ∀ σ r σ1, cond σ = (r, σ1) → CondTo W ⟨pc0, stk, σ⟩ pcB pcX stk r σ1)
    (HB : ∀ σ r σ1, body σ = (r, σ1) → BodyTo W ⟨pcB, stk, σ⟩ pcP pcX stk r σ1)
    (HP : ∀ σ r σ1, post σ = (r, σ1) → PhaseTo W ⟨pcP, stk, σ⟩ pc0 stk r σ1) :
    ∀ k σ r σ', loopF cond body post k σ = (r, σ') →
      (∀ v, r ≠ .val v) ∧ PhaseTo W ⟨pc0, stk, σ⟩ pcX stk r σ' := by
  intro k
  induction k with
  | zero =>
    intro σ r σ' h
    simp only [loopF] at h; cases h
    exact ⟨(by intro v hv; cases hv), trivial⟩
  | succ k ihk =>
    intro σ r σ' h
    simp only [loopF] at h
    -- the post statement and the next round, from the state after the body
    have after : ∀ σ2, Steps W ⟨pc0, stk, σ⟩ ⟨pcP, stk, σ2⟩ →
        (match post σ2 with
          | (.unit, σ3) => loopF cond body post k σ3
          | (.val _, σ3) => loopF cond body post k σ3
          | other => other) = (r, σ') →
        (∀ v, r ≠ .val v) ∧ PhaseTo W ⟨pc0, stk, σ⟩ pcX stk r σ' := by
      intro σ2 pre0 h
      rcases hp : post σ2 with ⟨rp, σ3⟩
      have P := HP σ2 _ _ hp
      rw [hp] at h
      have next : Steps W ⟨pcP, stk, σ2⟩ ⟨pc0, stk, σ3⟩ → loopF cond body post k σ3 = (r, σ') →
          (∀ v, r ≠ .val v) ∧ PhaseTo W ⟨pc0, stk, σ⟩ pcX stk r σ' := by
        intro P h
        have R := ihk σ3 r σ' h
        have pre : Steps W ⟨pc0, stk, σ⟩ ⟨pc0, stk, σ3⟩ := pre0.trans P
        refine ⟨R.1, ?_⟩
        cases r with
        | val u => exact absurd rfl (R.1 u)
        | unit => exact pre.trans R.2
        | brk => exact R.2
        | cont => exact R.2
        | err c => exact Fails.pre pre R.2
        | oof => trivial
      cases rp with
      | val u => exact next P h
      | unit => exact next P h
      | brk => exact P.elim
      | cont => exact P.elim
      | err c =>
        simp only at h; cases h
        exact ⟨(by intro v hv; cases hv), Fails.pre pre0 P⟩
      | oof =>
        simp only at h; cases h
        exact ⟨(by intro v hv; cases hv), trivial⟩
    rcases seqV_elim h with ⟨v, σ1, hc, h⟩ | ⟨hnv, hx⟩
    · have C := HC σ _ _ hc
      simp only [CondTo] at C
      by_cases ht : v.truthy = true
      · simp only [ht, ↓reduceIte] at h C
        rcases hb : body σ1 with ⟨rb, σ2⟩
        have B := HB σ1 _ _ hb
        rw [hb] at h
        cases rb with
        | val w => exact after σ2 (C.trans B) h
        | cont => exact after σ2 (C.trans B) h
        | brk =>
          simp only at h; cases h
          exact ⟨(by intro v hv; cases hv), C.trans B⟩
        | unit => exact B.elim
        | err c =>
          simp only at h; cases h
          exact ⟨(by intro v hv; cases hv), Fails.pre C B⟩
        | oof =>
          simp only at h; cases h
          exact ⟨(by intro v hv; cases hv), trivial⟩
      · have ht' : v.truthy = false := by simpa using ht
        simp only [ht', Bool.false_eq_true, ↓reduceIte] at h C
        cases h
        exact ⟨(by intro v hv; cases hv), C⟩
    · have C := HC σ _ _ hx
      refine ⟨hnv, ?_⟩
      cases r with
      | val u => exact absurd rfl (hnv u)
      | unit => exact C.elim
      | brk => exact C.elim
      | cont => exact C.elim
      | err c => exact C
      | oof => trivial

/-- from the loop's phases to the statement's `Post` -/
theorem Post.of_loop {n : N} {pc : Nat} {stk : List V} {σ σ' : Env} {r : Out}
    (hun : isUnitNode n = true)
    (h : (∀ v, r ≠ .val v) ∧ PhaseTo W ⟨pc, stk, σ⟩ (pc + size ls n) stk r σ') :
    Post W ls kb kc n pc stk σ r σ' := by
  cases r with
  | val v => exact absurd rfl (h.1 v)
  | unit => exact ⟨hun, h.2⟩
  | brk => exact h.2.elim
  | cont => exact h.2.elim
  | err c => exact ⟨trivial, h.2⟩
  | oof => exact ⟨trivial, trivial⟩

/-- the body phase of every loop: the block's value is popped; `continue` lands right after
    that `PopTop`, `break` `kbB` slots after the block, from where `hbrk` leads to the exit -/
theorem body_phase (ih : IH W ls rec) (b : N) (hwb : wf b = true) (hbb : isBlock b = true)
    (kbB pcB pcX : Nat) (stk : List V) (hatb : CodeAt W.code pcB (comp ls kbB 1 b))
    (hpop : W.code[pcB + size ls b]? = some (some .popTop))
    (hbrk : ∀ σ, Steps W ⟨pcB + size ls b + kbB, stk, σ⟩ ⟨pcX, stk, σ⟩) :
    ∀ σ r σ1, rec b σ = (r, σ1) → BodyTo W ⟨pcB, stk, σ⟩ (pcB + size ls b + 1) pcX stk r σ1 := by
  intro σ r σ1 h
  have P := ih b hwb kbB 1 pcB stk σ _ _ hatb h
  cases r with
  | val v =>
    have s1 : step W.code ⟨pcB + size ls b, v :: stk, σ1⟩ = .ok ⟨pcB + size ls b + 1, stk, σ1⟩ := by
      rw [step_of hpop]; rfl
    exact P.val_steps.snoc s1
  | unit => have := P.1; simp only [Shape] at this; rw [isBlock_not_unit hbb] at this; cases this
  | brk => exact Steps.trans P.2 (hbrk σ1)
  | cont => exact P.2
  | err c => exact P.2
  | oof => trivial

/-- the condition phase of `for c { }` and `for i; c; p { }` -/
theorem cond_phase (ih : IH W ls rec) (c : N) (hwc : wf c = true) (hec : isE c = true) (hxc : escapes c = false)
    (pc0 d : Nat) (stk : List V) (hatc : CodeAt W.code pc0 (comp ls 0 0 c))
    (hpjf : W.code[pc0 + size ls c]? = some (some (.pjf d))) :
    ∀ σ r σ1, rec c σ = (r, σ1) →
      CondTo W ⟨pc0, stk, σ⟩ (pc0 + size ls c + 2) (pc0 + size ls c + d) stk r σ1 := by
  intro σ r σ1 h
  have P := ih c hwc 0 0 pc0 stk σ _ _ hatc h
  cases r with
  | val v =>
    show Steps W _ _
    have s1 : step W.code ⟨pc0 + size ls c, v :: stk, σ1⟩
        = .ok ⟨if v.truthy = true then pc0 + size ls c + 2 else pc0 + size ls c + d, stk, σ1⟩ := by
      rw [step_of hpjf]; rfl
    exact P.val_steps.snoc s1
  | unit => have := P.1; simp only [Shape] at this; rw [isE_not_unit hec] at this; cases this
  | brk => have := P.1; simp only [Shape] at this; rw [hxc] at this; cases this
  | cont => have := P.1; simp only [Shape] at this; rw [hxc] at this; cases this
  | err e => exact P.2
  | oof => trivial

theorem sim_forcond (ih : IH W ls rec) (c b : N)
    (hwf : wf (.forcond c b) = true) (pc : Nat) (stk : List V) (σ : Env) (res : Out) (σ' : Env)
    (hat : CodeAt W.code pc (comp ls kb kc (.forcond c b))) (he : evNode ls fuel rec app (.forcond c b) σ = (res, σ')) :
    Post W ls kb kc (.forcond c b) pc stk σ res σ' := by
  simp only [wf, Bool.and_eq_true, Bool.not_eq_true'] at hwf
  obtain ⟨⟨⟨⟨hec, hbb⟩, hxc⟩, hwc⟩, hwb⟩ := hwf
  simp only [comp] at hat
  simp only [evNode] at he
  have hlen : size ls (.forcond c b) = size ls c + size ls b + 6 := by simp [size]
  have hatc := hat.append_left.append_left.append_left.append_left.append_left
  have hpjf := CodeAt.two hat.append_left.append_left.append_left.append_left.append_right
  have hatb := hat.append_left.append_left.append_left.append_right
  have hpop := CodeAt.one hat.append_left.append_left.append_right
  have hjb := CodeAt.two hat.append_left.append_right
  have hnop := CodeAt.one hat.append_right
  simp only [List.length_append, two_length, one_length, comp_length] at hpjf hatb hpop hjb hnop
  have hatb := hatb.cast (q := pc + size ls c + 2) (by omega)
  have hpop := at_eq hpop (q := pc + size ls c + 2 + size ls b) (by omega)
  have hjb := at_eq hjb (q := pc + size ls c + 2 + size ls b + 1) (by omega)
  have hnop := at_eq hnop (q := pc + size ls c + 2 + size ls b + 3) (by omega)
  have HC := cond_phase ih c hwc hec hxc pc (size ls b + 6) stk hatc hpjf
  have HB := body_phase ih b hwb hbb 3 (pc + size ls c + 2) (pc + size ls c + (size ls b + 6)) stk hatb hpop
    (by
      intro σ
      have s1 : step W.code ⟨pc + size ls c + 2 + size ls b + 3, stk, σ⟩ = .ok ⟨pc + size ls c + 2 + size ls b + 3 + 1, stk, σ⟩ := by
        rw [step_of hnop]; rfl
      exact (Steps.one s1).cast (by omega))
  have HP : ∀ σ r σ1, (fun σ => ((Out.unit, σ) : Out × Env)) σ = (r, σ1) →
      PhaseTo W ⟨pc + size ls c + 2 + size ls b + 1, stk, σ⟩ pc stk r σ1 := by
    intro σ r σ1 h
    cases h
    show Steps W _ _
    have s1 : step W.code ⟨pc + size ls c + 2 + size ls b + 1, stk, σ⟩
        = .ok ⟨pc + size ls c + 2 + size ls b + 1 - (size ls c + size ls b + 3), stk, σ⟩ := by
      rw [step_of hjb]; rfl
    exact (Steps.one s1).cast (by omega)
  have R := loop_sim HC HB HP fuel σ res σ' he
  apply Post.of_loop rfl
  rw [hlen]
  refine ⟨R.1, ?_⟩
  have e : pc + size ls c + (size ls b + 6) = pc + (size ls c + size ls b + 6) := by omega
  rw [← e]; exact R.2

theorem sim_forever (ih : IH W ls rec) (b : N)
    (hwf : wf (.forever b) = true) (pc : Nat) (stk : List V) (σ : Env) (res : Out) (σ' : Env)
    (hat : CodeAt W.code pc (comp ls kb kc (.forever b))) (he : evNode ls fuel rec app (.forever b) σ = (res, σ')) :
    Post W ls kb kc (.forever b) pc stk σ res σ' := by
  simp only [wf, Bool.and_eq_true] at hwf
  obtain ⟨hbb, hwb⟩ := hwf
  simp only [comp] at hat
  simp only [evNode] at he
  have hlen : size ls (.forever b) = size ls b + 4 := by simp [size]
  have hatb := hat.append_left.append_left.append_left
  have hpop := CodeAt.one hat.append_left.append_left.append_right
  have hjb := CodeAt.two hat.append_left.append_right
  have hnop := CodeAt.one hat.append_right
  simp only [List.length_append, one_length, two_length, comp_length] at hpop hjb hnop
  have HC : ∀ σ r σ1, (fun σ => ((Out.val (.bool true), σ) : Out × Env)) σ = (r, σ1) →
      CondTo W ⟨pc, stk, σ⟩ pc (pc + size ls (.forever b)) stk r σ1 := by
    intro σ r σ1 h
    cases h
    exact .refl _
  have HB := body_phase ih b hwb hbb 3 pc (pc + size ls (.forever b)) stk hatb hpop
    (by
      intro σ
      have s1 : step W.code ⟨pc + size ls b + 3, stk, σ⟩ = .ok ⟨pc + size ls b + 3 + 1, stk, σ⟩ := by
        rw [step_of (at_eq hnop (by omega))]; rfl
      exact (Steps.one s1).cast (by rw [hlen]; omega))
  have HP : ∀ σ r σ1, (fun σ => ((Out.unit, σ) : Out × Env)) σ = (r, σ1) →
      PhaseTo W ⟨pc + size ls b + 1, stk, σ⟩ pc stk r σ1 := by
    intro σ r σ1 h
    cases h
    show Steps W _ _
    have s1 : step W.code ⟨pc + size ls b + 1, stk, σ⟩
        = .ok ⟨pc + size ls b + 1 - (size ls b + 1), stk, σ⟩ := by
      rw [step_of (at_eq hjb (by omega))]; rfl
    exact (Steps.one s1).cast (by omega)
  exact Post.of_loop rfl (loop_sim HC HB HP fuel σ res σ' he)

theorem isPost_cases {n : N} (h : isPost n = true) : isUnitNode n = true ∨ leaves n = true := by
  cases n <;> simp_all [isPost, isUnitNode, leaves]

theorem sim_for3 (ih : IH W ls rec) (i c p b : N)
    (hwf : wf (.for3 i c p b) = true) (pc : Nat) (stk : List V) (σ : Env) (res : Out) (σ' : Env)
    (hat : CodeAt W.code pc (comp ls kb kc (.for3 i c p b))) (he : evNode ls fuel rec app (.for3 i c p b) σ = (res, σ')) :
    Post W ls kb kc (.for3 i c p b) pc stk σ res σ' := by
  simp only [wf, Bool.and_eq_true, Bool.not_eq_true'] at hwf
  obtain ⟨⟨⟨⟨⟨⟨⟨⟨⟨⟨hii, hec⟩, hpp⟩, hbb⟩, hxi⟩, hxc⟩, hxp⟩, hwi⟩, hwc⟩, hwp⟩, hwb⟩ := hwf
  simp only [comp] at hat
  simp only [evNode] at he
  have hlen : size ls (.for3 i c p b) = size ls i + size ls c + size ls b
      + (size ls p + (if leaves p = true then 1 else 0)) + 5 := by
    simp [size]
  have hati := hat.append_left.append_left.append_left.append_left.append_left.append_left.append_left
  have hatc := hat.append_left.append_left.append_left.append_left.append_left.append_left.append_right
  have hpjf := CodeAt.two hat.append_left.append_left.append_left.append_left.append_left.append_right
  have hatb := hat.append_left.append_left.append_left.append_left.append_right
  have hpop := CodeAt.one hat.append_left.append_left.append_left.append_right
  have hatp := hat.append_left.append_left.append_right
  have hpp2 := hat.append_left.append_right
  have hjb := CodeAt.two hat.append_right
  simp only [List.length_append, two_length, one_length, comp_length] at hatc hpjf hatb hpop hatp hpp2 hjb
  -- positions
  have hpjf := at_eq hpjf (q := pc + size ls i + size ls c) (by omega)
  have hatb := hatb.cast (q := pc + size ls i + size ls c + 2) (by omega)
  have hpop := at_eq hpop (q := pc + size ls i + size ls c + 2 + size ls b) (by omega)
  have hatp := hatp.cast (q := pc + size ls i + size ls c + 2 + size ls b + 1) (by omega)
  have hpp2 := hpp2.cast (q := pc + size ls i + size ls c + 2 + size ls b + 1 + size ls p) (by omega)
  -- the init statement
  rcases hi : rec i σ with ⟨r1, σ1⟩
  have Pi := ih i hwi 0 0 pc stk σ _ _ hati hi
  rw [hi] at he
  cases r1 with
  | val v => have := Pi.1; simp only [Shape] at this; rw [isInit_unit hii] at this; cases this
  | brk => have := Pi.1; simp only [Shape] at this; rw [hxi] at this; cases this
  | cont => have := Pi.1; simp only [Shape] at this; rw [hxi] at this; cases this
  | err e => simp only at he; cases he; exact ⟨trivial, Pi.2⟩
  | oof => simp only at he; cases he; exact ⟨trivial, trivial⟩
  | unit =>
    simp only at he
    have HC := cond_phase ih c hwc hec hxc (pc + size ls i)
      (size ls b + (size ls p + (if leaves p = true then 1 else 0)) + 5) stk hatc hpjf
    have HB := body_phase ih b hwb hbb ((size ls p + (if leaves p = true then 1 else 0)) + 3)
      (pc + size ls i + size ls c + 2)
      (pc + size ls i + size ls c + (size ls b + (size ls p + (if leaves p = true then 1 else 0)) + 5)) stk hatb hpop
      (by intro σ; exact (Steps.refl _).cast (by omega))
    have HP : ∀ σ r σ1, rec p σ = (r, σ1) →
        PhaseTo W ⟨pc + size ls i + size ls c + 2 + size ls b + 1, stk, σ⟩ (pc + size ls i) stk r σ1 := by
      intro σ r σ1 h
      have P := ih p hwp 0 0 _ stk σ _ _ hatp h
      cases r with
      | val v =>
        have hl : leaves p = true := by
          rcases isPost_cases hpp with hu | hl
          · have := P.1; simp only [Shape] at this; rw [hu] at this; cases this
          · exact hl
        simp only [hl, ↓reduceIte] at hpp2 hjb
        have hpop2 := CodeAt.one hpp2
        have s1 : step W.code ⟨pc + size ls i + size ls c + 2 + size ls b + 1 + size ls p, v :: stk, σ1⟩
            = .ok ⟨pc + size ls i + size ls c + 2 + size ls b + 1 + size ls p + 1, stk, σ1⟩ := by
          rw [step_of hpop2]; rfl
        have s2 : step W.code ⟨pc + size ls i + size ls c + 2 + size ls b + 1 + size ls p + 1, stk, σ1⟩
            = .ok ⟨pc + size ls i + size ls c + 2 + size ls b + 1 + size ls p + 1
                - (size ls c + size ls b + (size ls p + 1) + 3), stk, σ1⟩ := by
          rw [step_of (at_eq hjb (by simp only [one_length]; omega))]; rfl
        show Steps W _ _
        exact ((P.val_steps.snoc s1).snoc s2).cast (by omega)
      | unit =>
        have hu : isUnitNode p = true := P.1
        have hl := unit_not_leaves hu
        simp only [hl, Bool.false_eq_true, ↓reduceIte] at hjb
        have s2 : step W.code ⟨pc + size ls i + size ls c + 2 + size ls b + 1 + size ls p, stk, σ1⟩
            = .ok ⟨pc + size ls i + size ls c + 2 + size ls b + 1 + size ls p
                - (size ls c + size ls b + (size ls p + 0) + 3), stk, σ1⟩ := by
          rw [step_of (at_eq hjb (by simp only [List.length_nil]; omega))]; rfl
        show Steps W _ _
        exact (P.unit_steps.snoc s2).cast (by omega)
      | brk => have := P.1; simp only [Shape] at this; rw [hxp] at this; cases this
      | cont => have := P.1; simp only [Shape] at this; rw [hxp] at this; cases this
      | err e => exact P.2
      | oof => trivial
    have R := loop_sim HC HB HP fuel σ1 res σ' he
    have pre : Steps W ⟨pc, stk, σ⟩ ⟨pc + size ls i, stk, σ1⟩ := Pi.unit_steps
    apply Post.of_loop rfl
    rw [hlen]
    refine ⟨R.1, ?_⟩
    have e : pc + size ls i + size ls c
        + (size ls b + (size ls p + (if leaves p = true then 1 else 0)) + 5)
        = pc + (size ls i + size ls c + size ls b
          + (size ls p + (if leaves p = true then 1 else 0)) + 5) := by omega
    rw [← e]
    have R2 := R.2
    cases res with
    | val u => exact absurd rfl (R.1 u)
    | unit => exact pre.trans R2
    | brk => exact R2
    | cont => exact R2
    | err c => exact Fails.pre pre R2
    | oof => trivial

/-! ### switch -/

/-- inside a switch (the subject `sv` stays on the stack): a sub-evaluation that fails -/
def ErrTo (W : World) (c0 : Cfg) (o : Out) (σ' : Env) : Prop :=
  match o with
  | .err c => Fails W c0 c σ'
  | .oof => True
  | _ => False

/-- inside a switch: the selected body's value lands on the `Swap` at `Wp`, above the subject -/
def SwTo (W : World) (c0 : Cfg) (Wp : Nat) (sv : V) (stk : List V) (r : Out) (σ' : Env) : Prop :=
  match r with
  | .val v => Steps W c0 ⟨Wp, v :: sv :: stk, σ'⟩
  | .err c => Fails W c0 c σ'
  | .oof => True
  | _ => False

theorem SwTo.pre {c0 c1 : Cfg} {Wp : Nat} {sv : V} {stk : List V} {r : Out} {σ' : Env}
    (h : Steps W c0 c1) (l : SwTo W c1 Wp sv stk r σ') : SwTo W c0 Wp sv stk r σ' := by
  cases r with
  | val v => exact h.trans l
  | err c => exact Fails.pre h l
  | oof => trivial
  | unit => exact l
  | brk => exact l
  | cont => exact l

/-- a block (or any operand no break/continue escapes) run inside a switch -/
theorem sw_body (ih : IH W ls rec) (b : N) (hwb : wf b = true) (hub : isUnitNode b = false) (hxb : escapes b = false)
    (pcB : Nat) (sv : V) (stk : List V) (hatb : CodeAt W.code pcB (comp ls 0 0 b)) (σ : Env) (r : Out) (σ' : Env)
    (h : rec b σ = (r, σ')) :
    SwTo W ⟨pcB, sv :: stk, σ⟩ (pcB + size ls b) sv stk r σ' := by
  have P := ih b hwb 0 0 pcB (sv :: stk) σ _ _ hatb h
  cases r with
  | val v => exact P.val_steps
  | unit => have := P.1; simp only [Shape] at this; rw [hub] at this; cases this
  | brk => have := P.1; simp only [Shape] at this; rw [hxb] at this; cases this
  | cont => have := P.1; simp only [Shape] at this; rw [hxb] at this; cases this
  | err c => exact P.2
  | oof => trivial

/-- the comparisons of one case: on a match control is `k` slots after them (at the case's
    body), otherwise right after them; the subject stays on the stack -/
theorem vals_sim (ih : IH W ls rec) (sv : V) (stk : List V) :
    ∀ (vs : N), wfVals vs = true → ∀ (k P : Nat) (σ : Env) (res : Except Out Bool) (σ' : Env),
      CodeAt W.code P (compVals ls k vs) → matchValsF rec sv vs σ = (res, σ') →
      (match res with
       | .ok true => Steps W ⟨P, sv :: stk, σ⟩ ⟨P + valsLen ls vs + k, sv :: stk, σ'⟩
       | .ok false => Steps W ⟨P, sv :: stk, σ⟩ ⟨P + valsLen ls vs, sv :: stk, σ'⟩
       | .error o => ErrTo W ⟨P, sv :: stk, σ⟩ o σ') := by
  intro vs
  induction vs with
  | nilL =>
    intro _ k P σ res σ' _ he
    simp only [matchValsF] at he; cases he
    simp only [valsLen]; exact .refl _
  | cons v vs _ ihvs =>
    intro hw k P σ res σ' hat he
    simp only [wfVals, Bool.and_eq_true, Bool.not_eq_true'] at hw
    obtain ⟨⟨⟨hev, hxv⟩, hwv⟩, hwvs⟩ := hw
    simp only [compVals] at hat
    simp only [matchValsF] at he
    have hcopy := CodeAt.two hat.append_left.append_left.append_left.append_left
    have hatv := hat.append_left.append_left.append_left.append_right
    have hcmp := CodeAt.two hat.append_left.append_left.append_right
    have hpjt := CodeAt.two hat.append_left.append_right
    have hatvs := hat.append_right
    simp only [List.length_append, two_length, comp_length] at hatv hcmp hpjt hatvs
    have hlen : valsLen ls (.cons v vs) = size ls v + 6 + valsLen ls vs := by simp [valsLen]
    have s1 : step W.code ⟨P, sv :: stk, σ⟩ = .ok ⟨P + 2, sv :: sv :: stk, σ⟩ := by rw [step_of hcopy]; rfl
    rcases hv : rec v σ with ⟨o, σ1⟩
    rw [hv] at he
    have Pv := ih v hwv 0 0 (P + 2) (sv :: sv :: stk) σ _ _ hatv hv
    cases o with
    | val x =>
      simp only at he
      have hcmp := at_eq hcmp (q := P + 2 + size ls v) (by omega)
      have s2 : step W.code ⟨P + 2 + size ls v, x :: sv :: sv :: stk, σ1⟩
          = .ok ⟨P + 2 + size ls v + 2, .bool (sv == x) :: sv :: stk, σ1⟩ := by
        rw [step_of hcmp]; simp [execIns, vCompareF]
      have hpjt := at_eq hpjt (q := P + 2 + size ls v + 2) (by omega)
      have pre := ((Steps.one s1).trans Pv.val_steps).snoc s2
      by_cases heq : (sv == x) = true
      · simp only [heq, ↓reduceIte] at he; cases he
        have s3 : step W.code ⟨P + 2 + size ls v + 2, .bool (sv == x) :: sv :: stk, σ'⟩
            = .ok ⟨P + 2 + size ls v + 2 + (valsLen ls vs + k + 2), sv :: stk, σ'⟩ := by
          rw [step_of hpjt]; simp [execIns, V.truthy, heq]
        show Steps W _ _
        rw [hlen]
        exact (pre.snoc s3).cast (by omega)
      · have heq' : (sv == x) = false := by simpa using heq
        simp only [heq', Bool.false_eq_true, ↓reduceIte] at he
        have s3 : step W.code ⟨P + 2 + size ls v + 2, .bool (sv == x) :: sv :: stk, σ1⟩
            = .ok ⟨P + 2 + size ls v + 2 + 2, sv :: stk, σ1⟩ := by
          rw [step_of hpjt]; simp [execIns, V.truthy, heq']
        have R := ihvs hwvs k (P + 2 + size ls v + 2 + 2) σ1 res σ' (hatvs.cast (by omega)) he
        have pre2 := pre.snoc s3
        cases res with
        | ok b =>
          cases b with
          | true => exact (pre2.trans R).cast (by rw [hlen]; omega)
          | false => exact (pre2.trans R).cast (by rw [hlen]; omega)
        | error o =>
          cases o with
          | err c => exact Fails.pre pre2 R
          | oof => trivial
          | val _ => exact R
          | unit => exact R
          | brk => exact R
          | cont => exact R
    | unit => have := Pv.1; simp only [Shape] at this; rw [isE_not_unit hev] at this; cases this
    | brk => have := Pv.1; simp only [Shape] at this; rw [hxv] at this; cases this
    | cont => have := Pv.1; simp only [Shape] at this; rw [hxv] at this; cases this
    | err c => simp only at he; cases he; exact Fails.pre (.one s1) Pv.2
    | oof => simp only at he; cases he; trivial
  | _ => intro hw; simp [wfVals] at hw

/-- facts about the default clause of a well-formed case list -/
theorem dflt_facts : ∀ (cs : N), wfCases cs = true →
    (match dfltBody cs with
     | some b => compDflt ls cs = comp ls 0 0 b ∧ defLen ls cs = size ls b ∧ wf b = true ∧ isBlock b = true ∧ escapes b = false
     | none => compDflt ls cs = one .nil_ ∧ defLen ls cs = 1) := by
  intro cs
  induction cs with
  | nilL => intro _; simp [dfltBody, compDflt, defLen]
  | cons h t _ iht =>
    intro hw
    simp only [wfCases, Bool.and_eq_true] at hw
    obtain ⟨hwh, hwt⟩ := hw
    cases h with
    | case_ vals body =>
      have := iht hwt
      simp only [dfltBody, compDflt, defLen, isDefault, Bool.false_eq_true, ↓reduceIte]
      exact this
    | default_ b =>
      simp only [wfCase, Bool.and_eq_true, Bool.not_eq_true'] at hwh
      simp [dfltBody, compDflt, defLen, isDefault, compDfltBody, dfltBodyLen, hwh.1.1, hwh.1.2, hwh.2]
    | _ => simp [wfCase] at hwh
  | _ => intro hw; simp [wfCases] at hw

/-- the two sections of a switch, for a suffix `cs` of the case list whose comparisons sit at
    `P` and whose bodies sit `before` slots into the body section `Bs`: whatever
    `evCasesF` selects (a case body, the default, nil), its value lands on the `Swap` at `Wp` -/
theorem cases_sim (ih : IH W ls rec) (sv : V) (stk : List V) (dflt : Option N) (E Bs D Wp d : Nat)
    (hBs : Bs = E + 2) (hW : Wp = D + d)
    (hjd : ∀ σ, Steps W ⟨E, sv :: stk, σ⟩ ⟨D, sv :: stk, σ⟩)
    (hdef : ∀ σ res σ', runDflt rec dflt σ = (res, σ') → SwTo W ⟨D, sv :: stk, σ⟩ Wp sv stk res σ') :
    ∀ (cs : N), wfCases cs = true → ∀ (before P : Nat) (σ : Env) (res : Out) (σ' : Env),
      CodeAt W.code P (compCmp ls before cs) → P + cmpLen ls cs = E →
      CodeAt W.code (Bs + before) (compBodies ls d cs) → Bs + before + bodiesLen ls cs = D →
      evCasesF rec sv dflt cs σ = (res, σ') →
      SwTo W ⟨P, sv :: stk, σ⟩ Wp sv stk res σ' := by
  intro cs
  induction cs with
  | nilL =>
    intro _ before P σ res σ' _ hP _ _ he
    simp only [cmpLen, Nat.add_zero] at hP
    subst hP
    simp only [evCasesF] at he
    exact SwTo.pre (hjd σ) (hdef σ res σ' he)
  | cons h t _ iht =>
    intro hw before P σ res σ' hatc hP hatb hB he
    simp only [wfCases, Bool.and_eq_true] at hw
    obtain ⟨hwh, hwt⟩ := hw
    cases h with
    | case_ vals body =>
      simp only [wfCase, Bool.and_eq_true, Bool.not_eq_true'] at hwh
      obtain ⟨⟨⟨hwv, hbb⟩, hxb⟩, hwb⟩ := hwh
      simp only [compCmp, compCmpCase, caseBodyLen] at hatc
      simp only [compBodies, compBody] at hatb
      simp only [cmpLen, caseCmpLen] at hP
      simp only [bodiesLen, caseBodyLen] at hB
      simp only [evCasesF] at he
      have hatv := hatc.append_left
      have hatc' := hatc.append_right
      have hatbody := hatb.append_left.append_left
      have hjf := CodeAt.two hatb.append_left.append_right
      have hatb' := hatb.append_right
      simp only [List.length_append, two_length, comp_length, compVals_length] at hatc' hjf hatb'
      rcases hm : matchValsF rec sv vals σ with ⟨m, σ1⟩
      rw [hm] at he
      have V := vals_sim ih sv stk vals hwv (cmpLen ls t + 2 + before) P σ m σ1 hatv hm
      cases m with
      | ok b =>
        cases b with
        | true =>
          simp only at he V
          have V' : Steps W ⟨P, sv :: stk, σ⟩ ⟨Bs + before, sv :: stk, σ1⟩ := V.cast (by omega)
          have B := sw_body ih body hwb (isBlock_not_unit hbb) hxb (Bs + before) sv stk hatbody σ1 res σ' he
          cases res with
          | val v =>
            have s1 : step W.code ⟨Bs + before + size ls body, v :: sv :: stk, σ'⟩
                = .ok ⟨Bs + before + size ls body + (bodiesLen ls t + d + 2), v :: sv :: stk, σ'⟩ := by
              rw [step_of hjf]; rfl
            exact ((V'.trans B).snoc s1).cast (by omega)
          | err c => exact Fails.pre V' B
          | oof => trivial
          | unit => exact B
          | brk => exact B
          | cont => exact B
        | false =>
          simp only at he V
          exact SwTo.pre V (iht hwt (before + (size ls body + 2)) (P + valsLen ls vals) σ1 res σ' hatc' (by omega)
            (hatb'.cast (by omega)) (by omega) he)
      | error o =>
        simp only at he V; cases he
        cases res with
        | err c => exact V
        | oof => trivial
        | val _ => exact V.elim
        | unit => exact V.elim
        | brk => exact V.elim
        | cont => exact V.elim
    | default_ b =>
      simp only [compCmp, compCmpCase, caseBodyLen, List.nil_append, Nat.add_zero] at hatc
      simp only [compBodies, compBody, List.nil_append] at hatb
      simp only [cmpLen, caseCmpLen, Nat.zero_add] at hP
      simp only [bodiesLen, caseBodyLen, Nat.zero_add] at hB
      simp only [evCasesF] at he
      exact iht hwt before P σ res σ' hatc hP hatb hB he
    | _ => simp [wfCase] at hwh
  | _ => intro hw; simp [wfCases] at hw

theorem sim_switch (ih : IH W ls rec) (subj cases : N)
    (hwf : wf (.switch subj cases) = true) (pc : Nat) (stk : List V) (σ : Env) (res : Out) (σ' : Env)
    (hat : CodeAt W.code pc (comp ls kb kc (.switch subj cases))) (he : evNode ls fuel rec app (.switch subj cases) σ = (res, σ')) :
    Post W ls kb kc (.switch subj cases) pc stk σ res σ' := by
  simp only [wf, Bool.and_eq_true, Bool.not_eq_true'] at hwf
  obtain ⟨⟨⟨⟨hes, hxs⟩, hws⟩, hwc⟩, _⟩ := hwf
  simp only [comp] at hat
  simp only [evNode] at he
  have hlen : size ls (.switch subj cases) = size ls subj + cmpLen ls cases + 2 + bodiesLen ls cases + defLen ls cases + 3 := by
    simp [size]
  have hats := hat.append_left.append_left.append_left.append_left.append_left.append_left
  have hatc := hat.append_left.append_left.append_left.append_left.append_left.append_right
  have hjd := CodeAt.two hat.append_left.append_left.append_left.append_left.append_right
  have hatb := hat.append_left.append_left.append_left.append_right
  have hatd := hat.append_left.append_left.append_right
  have hswap := CodeAt.two hat.append_left.append_right
  have hpop := CodeAt.one hat.append_right
  simp only [List.length_append, two_length, comp_length, compCmp_length, compBodies_length, compDflt_length]
    at hatc hjd hatb hatd hswap hpop
  rcases seqV_elim he with ⟨sv, σ1, hs, he⟩ | ⟨hnv, hx⟩
  · have Ps := (ih subj hws 0 0 pc stk σ _ _ hats hs).val_steps
    -- positions
    have hjd' : ∀ σ, Steps W ⟨pc + size ls subj + cmpLen ls cases, sv :: stk, σ⟩
        ⟨pc + size ls subj + cmpLen ls cases + 2 + bodiesLen ls cases, sv :: stk, σ⟩ := by
      intro σ
      have s1 : step W.code ⟨pc + size ls subj + cmpLen ls cases, sv :: stk, σ⟩
          = .ok ⟨pc + size ls subj + cmpLen ls cases + (bodiesLen ls cases + 2), sv :: stk, σ⟩ := by
        rw [step_of (at_eq hjd (by omega))]; rfl
      exact (Steps.one s1).cast (by omega)
    have F := dflt_facts (ls := ls) cases hwc
    have hdef : ∀ σ res σ', runDflt rec (dfltBody cases) σ = (res, σ') →
        SwTo W ⟨pc + size ls subj + cmpLen ls cases + 2 + bodiesLen ls cases, sv :: stk, σ⟩
          (pc + size ls subj + cmpLen ls cases + 2 + bodiesLen ls cases + defLen ls cases) sv stk res σ' := by
      intro σ res σ' h
      cases hd : dfltBody cases with
      | some b =>
        rw [hd] at F h
        simp only [runDflt] at F h
        obtain ⟨hc, hl, hwb, hbb, hxb⟩ := F
        rw [hc] at hatd
        rw [hl]
        exact sw_body ih b hwb (isBlock_not_unit hbb) hxb _ sv stk (hatd.cast (by omega)) σ res σ' h
      | none =>
        rw [hd] at F h
        simp only [runDflt] at F h
        obtain ⟨hc, hl⟩ := F
        rw [hc] at hatd
        cases h
        have hnil := CodeAt.one hatd
        rw [hl]
        have s1 : step W.code ⟨pc + size ls subj + cmpLen ls cases + 2 + bodiesLen ls cases, sv :: stk, σ⟩
            = .ok ⟨pc + size ls subj + cmpLen ls cases + 2 + bodiesLen ls cases + 1, .nil :: sv :: stk, σ⟩ := by
          rw [step_of (at_eq hnil (by omega))]; rfl
        exact Steps.one s1
    have R := cases_sim ih sv stk (dfltBody cases) (pc + size ls subj + cmpLen ls cases)
      (pc + size ls subj + cmpLen ls cases + 2) (pc + size ls subj + cmpLen ls cases + 2 + bodiesLen ls cases)
      (pc + size ls subj + cmpLen ls cases + 2 + bodiesLen ls cases + defLen ls cases) (defLen ls cases) rfl rfl hjd' hdef
      cases hwc 0 (pc + size ls subj) σ1 res σ' hatc rfl (hatb.cast (by omega)) (by omega) he
    cases res with
    | val v =>
      have s1 : step W.code ⟨pc + size ls subj + cmpLen ls cases + 2 + bodiesLen ls cases + defLen ls cases, v :: sv :: stk, σ'⟩
          = .ok ⟨pc + size ls subj + cmpLen ls cases + 2 + bodiesLen ls cases + defLen ls cases + 2, sv :: v :: stk, σ'⟩ := by
        rw [step_of (at_eq hswap (by omega))]; rfl
      have s2 : step W.code ⟨pc + size ls subj + cmpLen ls cases + 2 + bodiesLen ls cases + defLen ls cases + 2, sv :: v :: stk, σ'⟩
          = .ok ⟨pc + size ls subj + cmpLen ls cases + 2 + bodiesLen ls cases + defLen ls cases + 2 + 1, v :: stk, σ'⟩ := by
        rw [step_of (at_eq hpop (by omega))]; rfl
      refine ⟨rfl, ?_⟩
      show Steps W _ ⟨_, v :: stk, _⟩
      rw [hlen]
      exact (((Ps.trans R).snoc s1).snoc s2).cast (by omega)
    | err c => exact ⟨trivial, Fails.pre Ps R⟩
    | oof => exact ⟨trivial, trivial⟩
    | unit => exact R.elim
    | brk => exact R.elim
    | cont => exact R.elim
  · exact Post.propagate (.refl _) (ih subj hws 0 0 pc stk σ _ _ hats hx) hnv (isE_not_unit hes) hxs

/-! ### calls, `return`, function bodies -/

theorem mstep_call {W : World} {pc n : Nat} (h : W.code[pc]? = some (some (.call n))) (stk : List V) (σ : Env) :
    mstep W.P (W.at ⟨pc, stk, σ⟩) = doCall W.P n (W.at ⟨pc, stk, σ⟩) := by
  unfold mstep
  simp only [World.at]
  have hc : W.P.codeOf W.fn = W.code := rfl
  rw [hc, h]

theorem mstep_ret {W : World} {pc : Nat} (h : W.code[pc]? = some (some .ret)) (stk : List V) (σ : Env) :
    mstep W.P (W.at ⟨pc, stk, σ⟩) = doRet (W.at ⟨pc, stk, σ⟩) := by
  unfold mstep
  simp only [World.at]
  have hc : W.P.codeOf W.fn = W.code := rfl
  rw [hc, h]

/-- `ReturnValue` with `v` on top: the activation is left with `v` -/
theorem ret_fails {W : World} {pc : Nat} {v : V} {stk : List V} {σ : Env} (h : W.code[pc]? = some (some .ret)) :
    Fails W ⟨pc, v :: stk, σ⟩ (.ret v) σ := by
  have hm := mstep_ret h (v :: stk) σ
  cases hfs : W.fs with
  | nil =>
    refine ⟨W.at ⟨pc, v :: stk, σ⟩, .refl _, ?_⟩
    simp only [Final, hfs]
    refine ⟨rfl, ?_⟩
    rw [hm]
    simp [doRet, World.at, hfs]
  | cons fr fs' =>
    refine ⟨{ cfg := ⟨fr.pc, v :: fr.stk, ⟨fr.act, σ.sh⟩⟩, fn := fr.fn, frames := fs' }, MSteps.one ?_, ?_⟩
    · rw [hm]
      simp [doRet, World.at, hfs]
    · simp only [Final, hfs]

/-- the arguments of a call: their values are pushed left to right -/
theorem args_sim (ih : IH W ls rec) :
    ∀ (as : N), wfVals as = true → ∀ (P : Nat) (stk : List V) (σ : Env) (res : Except Out (List V)) (σ' : Env),
      CodeAt W.code P (compArgs ls as) → evArgsF rec as σ = (res, σ') →
      (match res with
       | .ok vs => vs.length = argCount as ∧ Steps W ⟨P, stk, σ⟩ ⟨P + argsLen ls as, vs.reverse ++ stk, σ'⟩
       | .error o => ErrTo W ⟨P, stk, σ⟩ o σ') := by
  intro as
  induction as with
  | nilL =>
    intro _ P stk σ res σ' _ he
    simp only [evArgsF] at he; cases he
    simp only [argsLen, argCount]
    exact ⟨rfl, .refl _⟩
  | cons a as _ ihas =>
    intro hw P stk σ res σ' hat he
    simp only [wfVals, Bool.and_eq_true, Bool.not_eq_true'] at hw
    obtain ⟨⟨⟨hea, hxa⟩, hwa⟩, hwas⟩ := hw
    simp only [compArgs] at hat
    simp only [evArgsF] at he
    have hata := hat.append_left
    have hatas := hat.append_right
    simp only [comp_length] at hatas
    rcases ha : rec a σ with ⟨o, σ1⟩
    rw [ha] at he
    have Pa := ih a hwa 0 0 P stk σ _ _ hata ha
    cases o with
    | val v =>
      simp only at he
      rcases hr : evArgsF rec as σ1 with ⟨res2, σ2⟩
      rw [hr] at he
      have R := ihas hwas (P + size ls a) (v :: stk) σ1 res2 σ2 hatas hr
      cases res2 with
      | ok vs =>
        simp only at he R; cases he
        obtain ⟨hn, Rs⟩ := R
        refine ⟨by simp [argCount, hn], ?_⟩
        have e1 : (v :: vs).reverse ++ stk = vs.reverse ++ v :: stk := by simp
        rw [e1]
        exact (Pa.val_steps.trans Rs).cast (by simp [argsLen]; omega)
      | error o2 =>
        simp only at he R; cases he
        cases o2 with
        | err c => exact Fails.pre Pa.val_steps R
        | oof => trivial
        | val _ => exact R
        | unit => exact R
        | brk => exact R
        | cont => exact R
    | unit => have := Pa.1; simp only [Shape] at this; rw [isE_not_unit hea] at this; cases this
    | brk => have := Pa.1; simp only [Shape] at this; rw [hxa] at this; cases this
    | cont => have := Pa.1; simp only [Shape] at this; rw [hxa] at this; cases this
    | err c => simp only at he; cases he; exact Pa.2
    | oof => simp only at he; cases he; trivial
  | _ => intro hw; simp [wfVals] at hw

/-- **what a call does, seen from the caller** (`call_returns_one`): from the `Call n` instruction
    with the callee and its `n` arguments on top of `stk`, a call that yields `v` runs to the
    instruction after the `Call` with `v` pushed on `stk`, the caller's locals as they were and
    the globals the callee left; a call that fails raises the same error class -/
def CallOK (W : World) (app : V → List V → Sh → Out × Sh) : Prop :=
  ∀ (fv : V) (vs : List V) (G : Sh) (r : Out) (G' : Sh), app fv vs G = (r, G') →
    ∀ (pc : Nat) (stk : List V) (loc : Act), W.code[pc]? = some (some (.call vs.length)) →
      (match r with
       | .val v => Steps W ⟨pc, vs.reverse ++ fv :: stk, ⟨loc, G⟩⟩ ⟨pc + 2, v :: stk, ⟨loc, G'⟩⟩
       | .err x => (∀ v, x ≠ .ret v) ∧ Fails W ⟨pc, vs.reverse ++ fv :: stk, ⟨loc, G⟩⟩ x ⟨loc, G'⟩
       | .oof => True
       | _ => False)

theorem sim_call (ih : IH W ls rec) (happ : CallOK W app) (fe args : N)
    (hwf : wf (.call fe args) = true) (pc : Nat) (stk : List V) (σ : Env) (res : Out) (σ' : Env)
    (hat : CodeAt W.code pc (comp ls kb kc (.call fe args))) (he : evNode ls fuel rec app (.call fe args) σ = (res, σ')) :
    Post W ls kb kc (.call fe args) pc stk σ res σ' := by
  simp only [wf, Bool.and_eq_true, Bool.not_eq_true'] at hwf
  obtain ⟨⟨⟨hef, hxf⟩, hwfe⟩, hwa⟩ := hwf
  simp only [comp] at hat
  simp only [evNode] at he
  have hlen : size ls (.call fe args) = size ls fe + argsLen ls args + 2 := by simp [size]
  have hatf := hat.append_left.append_left
  have hata := hat.append_left.append_right
  have hcall := CodeAt.two hat.append_right
  simp only [List.length_append, comp_length, compArgs_length] at hata hcall
  rcases seqV_elim he with ⟨fv, σ1, hf, he⟩ | ⟨hnv, hx⟩
  · have Pf := (ih fe hwfe 0 0 pc stk σ _ _ hatf hf).val_steps
    rcases ha : evArgsF rec args σ1 with ⟨ra, σ2⟩
    rw [ha] at he
    have A := args_sim ih args hwa (pc + size ls fe) (fv :: stk) σ1 ra σ2 hata ha
    cases ra with
    | ok vs =>
      simp only at he A
      obtain ⟨hn, As⟩ := A
      rcases hap : app fv vs σ2.sh with ⟨r, G'⟩
      rw [hap] at he
      simp only at he
      have hres : r = res := (Prod.mk.inj he).1
      have hσ : ({ act := σ2.act, sh := G' } : Env) = σ' := (Prod.mk.inj he).2
      subst hres; subst hσ
      have hcall' : W.code[pc + size ls fe + argsLen ls args]? = some (some (.call vs.length)) := by
        rw [hn]; exact at_eq hcall (by omega)
      have C := happ fv vs σ2.sh r G' hap (pc + size ls fe + argsLen ls args) stk σ2.act hcall'
      have pre : Steps W ⟨pc, stk, σ⟩ ⟨pc + size ls fe + argsLen ls args, vs.reverse ++ fv :: stk, ⟨σ2.act, σ2.sh⟩⟩ :=
        Pf.trans As
      cases r with
      | val v =>
        refine ⟨rfl, ?_⟩
        show Steps W _ ⟨_, v :: stk, _⟩
        rw [hlen]
        exact (pre.trans C).cast (by omega)
      | err x => exact ⟨trivial, Fails.pre pre C.2⟩
      | oof => exact ⟨trivial, trivial⟩
      | unit => exact C.elim
      | brk => exact C.elim
      | cont => exact C.elim
    | error o =>
      simp only at he A
      cases he
      cases res with
      | err c => exact ⟨trivial, Fails.pre Pf A⟩
      | oof => exact ⟨trivial, trivial⟩
      | val _ => exact A.elim
      | unit => exact A.elim
      | brk => exact A.elim
      | cont => exact A.elim
  · exact Post.propagate (.refl _) (ih fe hwfe 0 0 pc stk σ _ _ hatf hx) hnv (isE_not_unit hef) hxf

theorem sim_return (ih : IH W ls rec) (e : N)
    (hwf : wf (.return_ e) = true) (pc : Nat) (stk : List V) (σ : Env) (res : Out) (σ' : Env)
    (hat : CodeAt W.code pc (comp ls kb kc (.return_ e))) (he : evNode ls fuel rec app (.return_ e) σ = (res, σ')) :
    Post W ls kb kc (.return_ e) pc stk σ res σ' := by
  simp only [wf, Bool.and_eq_true, Bool.not_eq_true', Bool.or_eq_true] at hwf
  obtain ⟨⟨hee, hxe⟩, hwe⟩ := hwf
  simp only [comp] at hat
  simp only [evNode] at he
  have hins := CodeAt.one hat.append_right
  simp only [comp_length] at hins
  have hue : isUnitNode e = false := by
    rcases hee with h | h
    · exact isE_not_unit h
    · cases e <;> simp_all [isNone, isUnitNode]
  rcases h1 : rec e σ with ⟨r1, σ1⟩
  rw [h1] at he
  have P1 := ih e hwe 0 0 pc stk σ _ _ hat.append_left h1
  cases r1 with
  | val v =>
    simp only at he; cases he
    exact ⟨trivial, Fails.pre P1.val_steps (ret_fails hins)⟩
  | unit => have := P1.1; simp only [Shape] at this; rw [hue] at this; cases this
  | brk => have := P1.1; simp only [Shape] at this; rw [hxe] at this; cases this
  | cont => have := P1.1; simp only [Shape] at this; rw [hxe] at this; cases this
  | err x => simp only at he; cases he; exact ⟨trivial, P1.2⟩
  | oof => simp only at he; cases he; exact ⟨trivial, trivial⟩

/-! ### function literals: `MakeCell` per capture, `LoadClosure` -/

/-- `MakeCell x 0` for every capture pushes the cells of the RUNNING activation, the first deepest -/
theorem cells_steps (us : List String) : ∀ (pc : Nat) (stk : List V) (σ : Env),
    CodeAt W.code pc (us.flatMap (fun x => three (.makeCell x))) →
    Steps W ⟨pc, stk, σ⟩ ⟨pc + 3 * us.length, (us.map (fun x => V.cell σ.act.id x)).reverse ++ stk, σ⟩ := by
  induction us with
  | nil => intro pc stk σ _; exact (Steps.refl _).cast (by simp)
  | cons x r ih =>
    intro pc stk σ hat
    simp only [List.flatMap_cons] at hat
    have hins : W.code[pc]? = some (some (.makeCell x)) := CodeAt.head hat.append_left
    have s1 : step W.code ⟨pc, stk, σ⟩ = .ok ⟨pc + 3, .cell σ.act.id x :: stk, σ⟩ := by rw [step_of hins]; rfl
    have h2 := ih (pc + 3) (.cell σ.act.id x :: stk) σ (by simpa using hat.append_right)
    have e : (List.map (fun x => V.cell σ.act.id x) (x :: r)).reverse ++ stk
        = (List.map (fun x => V.cell σ.act.id x) r).reverse ++ V.cell σ.act.id x :: stk := by simp
    rw [e]
    exact ((Steps.one s1).trans h2).cast (by simp only [List.length_cons]; omega)

theorem popCells_all (l : List Cell) : ∀ (stk : List V) (acc : List Cell),
    popCells l.length (l.map (fun c => V.cell c.1 c.2) ++ stk) acc = some (l.reverse ++ acc, stk) := by
  induction l with
  | nil => intro stk acc; rfl
  | cons c r ih =>
    intro stk acc
    obtain ⟨a, x⟩ := c
    simp only [List.length_cons, List.map_cons, List.cons_append, popCells, ih, List.reverse_cons, List.append_assoc,
      List.cons_append, List.nil_append]

theorem popCells_made (a : Nat) (us : List String) (stk : List V) :
    popCells us.length ((us.map (fun x => V.cell a x)).reverse ++ stk) [] = some (us.map (fun x => (a, x)), stk) := by
  have := popCells_all ((us.map (fun x => ((a, x) : Cell))).reverse) stk []
  simpa [List.map_reverse, Function.comp_def] using this

/-- the code that pushes a function literal's value (`mkCode`) is `mkClo` -/
theorem mk_steps (lit : N) (pc : Nat) (stk : List V) (σ : Env) (hat : CodeAt W.code pc (mkCode ls lit)) :
    Steps W ⟨pc, stk, σ⟩ ⟨pc + mkLen ls lit, (mkClo ls lit σ).1 :: stk, (mkClo ls lit σ).2⟩ := by
  unfold mkCode at hat
  unfold mkLen mkClo
  by_cases hc : (capt ls.ls lit).isEmpty = true
  · simp only [hc, ↓reduceIte] at hat ⊢
    have s1 : step W.code ⟨pc, stk, σ⟩ = .ok ⟨pc + 2, .fn (lit, ls.ls) :: stk, σ⟩ := by
      rw [step_of (CodeAt.two hat)]; rfl
    exact Steps.one s1
  · simp only [hc, Bool.false_eq_true, ↓reduceIte] at hat ⊢
    have h1 := cells_steps (capt ls.ls lit) pc stk σ hat.append_left
    have hins : W.code[pc + 3 * (capt ls.ls lit).length]? = some (some (.loadClosure (lit, ls.ls) (capt ls.ls lit).length)) := by
      have := CodeAt.head hat.append_right
      rwa [cells_code_length] at this
    have s2 : step W.code ⟨pc + 3 * (capt ls.ls lit).length, (List.map (fun x => V.cell σ.act.id x) (capt ls.ls lit)).reverse ++ stk, σ⟩
        = .ok ⟨pc + 3 * (capt ls.ls lit).length + 3,
            .clo σ.sh.next (lit, ls.ls) ((capt ls.ls lit).map fun x => (σ.act.id, x)) :: stk,
            { σ with sh := { σ.sh with next := σ.sh.next + 1 } }⟩ := by
      rw [step_of hins]
      simp only [execIns, popCells_made]
    exact (h1.snoc s2).cast (by omega)

/-- `func f(…) { … }` as a statement: the function, a copy, the store under the name, and the
    `PopTop` of the copy -/
theorem sim_fundecl (e : N) (hf : isNamed e = true) (pc : Nat) (stk : List V) (σ : Env) (res : Out) (σ' : Env)
    (hat : CodeAt W.code pc (comp ls kb kc (.expr e))) (he : evNode ls fuel rec app (.expr e) σ = (res, σ')) :
    Post W ls kb kc (.expr e) pc stk σ res σ' := by
  simp only [comp, hf, ↓reduceIte] at hat
  simp only [evNode, hf, ↓reduceIte] at he
  cases he
  have h1 := mk_steps e pc stk σ hat.append_left.append_left.append_left
  have h2 := CodeAt.two hat.append_left.append_left.append_right
  have h3 := CodeAt.two hat.append_left.append_right
  have h4 := CodeAt.one hat.append_right
  simp only [List.length_append, two_length, mkCode_length] at h2 h3 h4
  generalize (mkClo ls e σ).1 = v at *
  generalize (mkClo ls e σ).2 = σ1 at *
  have s2 : step W.code ⟨pc + mkLen ls e, v :: stk, σ1⟩ = .ok ⟨pc + mkLen ls e + 2, v :: v :: stk, σ1⟩ := by
    rw [step_of h2]; rfl
  have s3 : step W.code ⟨pc + mkLen ls e + 2, v :: v :: stk, σ1⟩
      = .ok ⟨pc + mkLen ls e + 2 + 2, v :: stk, σ1.set ls (funcName e) v⟩ := by
    rw [step_of (at_eq h3 (by omega))]; exact exec_storeV ..
  have s4 : step W.code ⟨pc + mkLen ls e + 2 + 2, v :: stk, σ1.set ls (funcName e) v⟩
      = .ok ⟨pc + mkLen ls e + 2 + 2 + 1, stk, σ1.set ls (funcName e) v⟩ := by
    rw [step_of (at_eq h4 (by omega))]; rfl
  refine ⟨by simp [Shape, isUnitNode, hf], ?_⟩
  show Steps W _ ⟨_, stk, _⟩
  exact (((h1.snoc s2).snoc s3).snoc s4).cast (by simp [size, hf]; omega)

/-- a function literal as an expression -/
theorem sim_func (name : String) (ps b : N) (pc : Nat) (stk : List V) (σ : Env) (res : Out) (σ' : Env)
    (hat : CodeAt W.code pc (comp ls kb kc (.func name ps b)))
    (he : evNode ls fuel rec app (.func name ps b) σ = (res, σ')) :
    Post W ls kb kc (.func name ps b) pc stk σ res σ' := by
  simp only [comp] at hat
  simp only [evNode] at he
  cases he
  refine ⟨by simp [Shape, isUnitNode], ?_⟩
  show Steps W _ ⟨_, _ :: stk, _⟩
  have := mk_steps (.func name ps b) pc stk σ hat
  simpa [size] using this

/-- how the body of a function ends: a value (of the last expression statement, or nil) and a
    `return v` both leave the activation with the value; an error is raised; nothing else -/
def BodyEnds (W : World) (c0 : Cfg) (r : Out) (σ' : Env) : Prop :=
  match r with
  | .val v => Fails W c0 (.ret v) σ'
  | .err x => Fails W c0 x σ'
  | .oof => True
  | _ => False

/-- a function body as `compileFunctionBlock` compiles it, run by `evBody` -/
theorem body_sim (ih : IH W ls rec)
    (hret : ∀ e σ r σ', rec (.return_ e) σ = (r, σ') → r ≠ .unit ∧ ∀ v, r ≠ .val v) :
    ∀ (stmts : N), isL stmts = true → escapes stmts = false → wf stmts = true →
    ∀ (pc : Nat) (stk : List V) (σ : Env) (r : Out) (σ' : Env),
      CodeAt W.code pc (compFnStmts ls stmts) → evBody rec stmts σ = (r, σ') →
      BodyEnds W ⟨pc, stk, σ⟩ r σ' := by
  intro stmts
  induction stmts with
  | nilL =>
    intro _ _ _ pc stk σ r σ' hat he
    simp only [evBody] at he; cases he
    simp only [compFnStmts] at hat
    have h1 := CodeAt.one hat.append_left
    have h2 := CodeAt.one hat.append_right
    simp only [one_length] at h2
    have s1 : step W.code ⟨pc, stk, σ⟩ = .ok ⟨pc + 1, .nil :: stk, σ⟩ := by rw [step_of h1]; rfl
    exact Fails.pre (.one s1) (ret_fails h2)
  | cons h t _ iht =>
    intro _ hesc hwf pc stk σ r σ' hat he
    simp only [wf, Bool.and_eq_true] at hwf
    obtain ⟨⟨⟨hsh, hlt⟩, hwh⟩, hwt⟩ := hwf
    simp only [isS, Bool.or_eq_true] at hsh
    simp only [escapes, Bool.or_eq_false_iff] at hesc
    obtain ⟨hxh, hxt⟩ := hesc
    simp only [evBody] at he
    rcases hh : rec h σ with ⟨r1, σ1⟩
    rw [hh] at he
    -- a value forces an expression statement, unit a non-expression
    have hleaves : ∀ {kb' kc' pc'}, Post W ls kb' kc' h pc' stk σ r1 σ1 →
        (∀ v, r1 = .val v → leaves h = true) ∧ (r1 = .unit → leaves h = false) := by
      intro kb' kc' pc' P
      refine ⟨?_, ?_⟩
      · intro v hv; subst hv
        rcases hsh with hu | hl
        · have := P.1; simp only [Shape] at this; rw [hu] at this; cases this
        · exact hl
      · intro hv; subst hv
        exact unit_not_leaves P.1
    by_cases hr : isReturn h = true
    · -- the first top-level `return`: what follows is not compiled
      simp only [compFnStmts, hr, ↓reduceIte] at hat
      have Ph := ih h hwh 0 0 pc stk σ _ _ hat hh
      obtain ⟨e, rfl⟩ : ∃ e, h = .return_ e := by cases h <;> simp_all [isReturn]
      have hn := hret e σ r1 σ1 hh
      cases r1 with
      | val v => exact absurd rfl (hn.2 v)
      | unit => exact absurd rfl hn.1
      | brk => have := Ph.1; simp only [Shape] at this; rw [hxh] at this; cases this
      | cont => have := Ph.1; simp only [Shape] at this; rw [hxh] at this; cases this
      | err x => simp only at he; cases he; exact Ph.2
      | oof => simp only at he; cases he; trivial
    · have hr' : isReturn h = false := by simpa using hr
      by_cases hnil : isNilL t = true
      · simp only [compFnStmts, hr', hnil, Bool.false_eq_true, ↓reduceIte] at hat
        simp only [hnil, ↓reduceIte] at he
        have hpre := pre_steps h pc stk σ hat.append_left.append_left
        have hath := hat.append_left.append_right
        have htail := hat.append_right
        simp only [List.length_append, pre_length, comp_length] at hath htail
        have Ph := ih h hwh 0 0 _ stk σ _ _ hath hh
        cases r1 with
        | val v =>
          simp only at he; cases he
          have hl := (hleaves Ph).1 v rfl
          simp only [hl, ↓reduceIte] at htail
          exact Fails.pre (hpre.trans (Ph.val_steps.cast (by omega))) (ret_fails (CodeAt.one htail))
        | unit =>
          simp only at he; cases he
          have hl := (hleaves Ph).2 rfl
          simp only [hl, Bool.false_eq_true, ↓reduceIte] at htail
          have h1 := CodeAt.one htail.append_left
          have h2 := CodeAt.one htail.append_right
          simp only [one_length] at h2
          have s1 : step W.code ⟨pc + (preLen h + size ls h), stk, σ'⟩ = .ok ⟨pc + (preLen h + size ls h) + 1, .nil :: stk, σ'⟩ := by
            rw [step_of h1]; rfl
          exact Fails.pre ((hpre.trans (Ph.unit_steps.cast (by omega))).snoc s1) (ret_fails h2)
        | brk => have := Ph.1; simp only [Shape] at this; rw [hxh] at this; cases this
        | cont => have := Ph.1; simp only [Shape] at this; rw [hxh] at this; cases this
        | err x => simp only at he; cases he; exact Fails.pre hpre Ph.2
        | oof => simp only at he; cases he; trivial
      · have hnil' : isNilL t = false := by simpa using hnil
        simp only [compFnStmts, hr', hnil', Bool.false_eq_true, ↓reduceIte] at hat
        simp only [hnil', Bool.false_eq_true, ↓reduceIte] at he
        have hpre := pre_steps h pc stk σ hat.append_left.append_left.append_left
        have hath := hat.append_left.append_left.append_right
        have hpop := hat.append_left.append_right
        have hatt := hat.append_right
        simp only [List.length_append, pre_length, comp_length] at hath hpop hatt
        have Ph := ih h hwh 0 0 _ stk σ _ _ hath hh
        cases r1 with
        | val v =>
          simp only at he
          have hl := (hleaves Ph).1 v rfl
          simp only [hl, ↓reduceIte, one_length] at hpop hatt
          have s1 : step W.code ⟨pc + (preLen h + size ls h), v :: stk, σ1⟩ = .ok ⟨pc + (preLen h + size ls h) + 1, stk, σ1⟩ := by
            rw [step_of (CodeAt.one hpop)]; rfl
          have R := iht hlt hxt hwt (pc + (preLen h + size ls h) + 1) stk σ1 r σ' (hatt.cast (by omega)) he
          have pre : Steps W ⟨pc, stk, σ⟩ ⟨pc + (preLen h + size ls h) + 1, stk, σ1⟩ :=
            (hpre.trans (Ph.val_steps.cast (by omega))).snoc s1
          cases r with
          | val w => exact Fails.pre pre R
          | err x => exact Fails.pre pre R
          | oof => trivial
          | unit => exact R
          | brk => exact R
          | cont => exact R
        | unit =>
          simp only at he
          have hl := (hleaves Ph).2 rfl
          simp only [hl, Bool.false_eq_true, ↓reduceIte, List.length_nil, Nat.add_zero] at hatt
          have R := iht hlt hxt hwt _ stk σ1 r σ' hatt he
          have pre : Steps W ⟨pc, stk, σ⟩ ⟨pc + (preLen h + size ls h), stk, σ1⟩ :=
            hpre.trans (Ph.unit_steps.cast (by omega))
          cases r with
          | val w => exact Fails.pre pre R
          | err x => exact Fails.pre pre R
          | oof => trivial
          | unit => exact R
          | brk => exact R
          | cont => exact R
        | brk => have := Ph.1; simp only [Shape] at this; rw [hxh] at this; cases this
        | cont => have := Ph.1; simp only [Shape] at this; rw [hxh] at this; cases this
        | err x => simp only at he; cases he; exact Fails.pre hpre Ph.2
        | oof => simp only at he; cases he; trivial
  | _ => intro h; simp [isL] at h

theorem take_args (vs : List V) (fv : V) (stk : List V) :
    ((vs.reverse ++ fv :: stk).take vs.length).reverse = vs := by
  have : (vs.reverse ++ fv :: stk).take vs.length = vs.reverse := by
    rw [List.take_append_of_le_length (by simp)]
    rw [List.take_of_length_le (by simp)]
  rw [this, List.reverse_reverse]

theorem drop_args (vs : List V) (fv : V) (stk : List V) :
    (vs.reverse ++ fv :: stk).drop vs.length = fv :: stk := by
  rw [List.drop_append_of_le_length (by simp)]
  rw [List.drop_of_length_le (by simp)]
  rfl

/-- application is what the `Call` instruction does: if the bodies of the program's functions are
    simulated wherever they run (`ihb`), a call returns exactly one value to its caller -/
theorem app_sim (Φ : List FDecl) (evb : Sc → N → Env → Out × Env) (P : Prog)
    (hP : ∀ g, P.find g = (findFun Φ g).map compDecl)
    (hΦ : ∀ g d, findFun Φ g = some d → wfBody d.body = true)
    (ihb : ∀ (W' : World) (ls' : Sc), W'.P = P → IH W' ls' (evb ls'))
    (hret : ∀ ls' e σ r σ', evb ls' (.return_ e) σ = (r, σ') → r ≠ .unit ∧ ∀ v, r ≠ .val v)
    (W : World) (hW : W.P = P) : CallOK W (applyFn Φ evb) := by
  intro fv vs G r G' hap pc stk loc hcall
  have hm := mstep_call hcall (vs.reverse ++ fv :: stk) ⟨loc, G⟩
  -- a call that fails before the callee is entered
  have early : ∀ c, doCall W.P vs.length (W.at ⟨pc, vs.reverse ++ fv :: stk, ⟨loc, G⟩⟩) = .error (.err c) →
      Fails W ⟨pc, vs.reverse ++ fv :: stk, ⟨loc, G⟩⟩ (.cls c) ⟨loc, G⟩ := by
    intro c hd
    exact ⟨W.at _, .refl _, rfl, by rw [hm]; exact hd⟩
  unfold applyFn at hap
  cases hcal : fv.callee with
  | none =>
    rw [hcal] at hap
    simp only at hap; cases hap
    refine ⟨(by intro v hv; cases hv), early "type" ?_⟩
    simp only [doCall, World.at, drop_args, hcal]
  | some gc =>
    obtain ⟨g, cs⟩ := gc
    rw [hcal] at hap
    simp only at hap
    cases hfind : findFun Φ g with
    | none =>
      rw [hfind] at hap
      simp only at hap; cases hap
      refine ⟨(by intro v hv; cases hv), early "eval" ?_⟩
      simp only [doCall, World.at, drop_args, hcal, hW, hP, hfind, Option.map_none]
    | some d =>
      rw [hfind] at hap
      simp only at hap
      have hPg : W.P.find g = some (compDecl d) := by rw [hW, hP, hfind]; rfl
      cases hent : enterLoc fv d.name d.named d.params vs with
      | none =>
        rw [hent] at hap
        simp only at hap; cases hap
        refine ⟨(by intro v hv; cases hv), early "args" ?_⟩
        simp only [doCall, World.at, drop_args, take_args, hcal, hPg, compDecl, hent]
      | some L =>
        rw [hent] at hap
        simp only at hap
        -- the callee's world: the caller suspended on top of the caller's own suspended frames
        let W' : World := { P := W.P, fn := some g, fs := ⟨W.fn, pc + 2, stk, loc⟩ :: W.fs }
        have hcode : W'.code = compFnStmts d.sc d.body := by
          show W.P.codeOf (some g) = _
          simp [Prog.codeOf, hPg, compDecl]
        have hstep : mstep W.P (W.at ⟨pc, vs.reverse ++ fv :: stk, ⟨loc, G⟩⟩) = .ok (W'.at ⟨0, [], G.enter cs L⟩) := by
          rw [hm]
          simp only [doCall, World.at, drop_args, take_args, hcal, hPg, compDecl, hent, W']
        have enter : MSteps W.P (W.at ⟨pc, vs.reverse ++ fv :: stk, ⟨loc, G⟩⟩) (W'.at ⟨0, [], G.enter cs L⟩) :=
          MSteps.one hstep
        have ih' : IH W' d.sc (evb d.sc) := ihb W' d.sc hW
        have hb := hΦ g d hfind
        unfold wfBody at hb
        simp only [Bool.and_eq_true, Bool.not_eq_true'] at hb
        rcases hbody : evBody (evb d.sc) d.body (G.enter cs L) with ⟨rb, σb⟩
        rw [hbody] at hap
        have B := body_sim ih' (hret d.sc) d.body hb.1.1 hb.1.2 hb.2 0 [] (G.enter cs L) rb σb
          (by rw [hcode]; exact CodeAt.self _) hbody
        -- a body that ends with `v` (falling off its end, or `return v`)
        have returns : ∀ v, Fails W' ⟨0, [], G.enter cs L⟩ (.ret v) σb →
            Steps W ⟨pc, vs.reverse ++ fv :: stk, ⟨loc, G⟩⟩ ⟨pc + 2, v :: stk, ⟨loc, σb.sh⟩⟩ := by
          intro v F
          obtain ⟨m1, hs, hfin⟩ := F
          have hfin' : m1 = { cfg := ⟨pc + 2, v :: stk, ⟨loc, σb.sh⟩⟩, fn := W.fn, frames := W.fs } := hfin
          subst hfin'
          exact MSteps.trans enter hs
        cases rb with
        | val v =>
          simp only at hap; cases hap
          exact returns v B
        | err x =>
          cases x with
          | cls c =>
            simp only at hap; cases hap
            obtain ⟨m1, hs, hg, he⟩ := B
            exact ⟨(by intro v hv; cases hv), m1, MSteps.trans enter hs, hg, he⟩
          | ret v =>
            simp only at hap; cases hap
            exact returns v B
        | oof => simp only at hap; cases hap; trivial
        | unit => exact B.elim
        | brk => exact B.elim
        | cont => exact B.elim

/-! ### every node form -/

/-- every node form of the fragment: if the sub-nodes are simulated and calls return one value, so
    is the node -/
theorem evNode_sim (ih : IH W ls rec) (happ : CallOK W app) (fuel : Nat) : IH W ls (evNode ls fuel rec app) := by
  intro n hwf kb kc pc stk σ r σ' hat he
  cases n with
  | nilLit => exact sim_leaf _ .nil_ .nil 1 pc stk σ r σ' rfl (CodeAt.one hat) rfl rfl (by simpa [evNode] using he)
  | none_ => exact sim_leaf _ .nil_ .nil 1 pc stk σ r σ' rfl (CodeAt.one hat) rfl rfl (by simpa [evNode] using he)
  | nilL => exact sim_leaf _ .nil_ .nil 1 pc stk σ r σ' rfl (CodeAt.one hat) rfl rfl (by simpa [evNode] using he)
  | int i => exact sim_leaf _ (.constInt i) (.int i) 2 pc stk σ r σ' rfl (CodeAt.two hat) rfl rfl (by simpa [evNode] using he)
  | str s => exact sim_leaf _ (.constStr s) (.str s) 2 pc stk σ r σ' rfl (CodeAt.two hat) rfl rfl (by simpa [evNode] using he)
  | id x =>
    exact sim_leaf _ (loadV ls x) (σ.get ls x) 2 pc stk σ r σ' rfl (CodeAt.two hat) rfl (exec_loadV ..)
      (by simpa [evNode] using he)
  | bool b =>
    exact sim_leaf _ (if b then .true_ else .false_) (.bool b) 1 pc stk σ r σ' rfl (CodeAt.one hat) rfl
      (by cases b <;> rfl) (by simpa [evNode] using he)
  | «infix» op l r =>
    by_cases hand : op = .and
    · subst hand; exact sim_and ih l r hwf pc stk σ _ σ' hat he
    · by_cases hor : op = .or
      · subst hor; exact sim_or ih l r hwf pc stk σ _ σ' hat he
      · exact sim_infix ih op l r hand hor hwf pc stk σ _ σ' hat he
  | neg e => exact sim_neg ih e hwf pc stk σ r σ' hat he
  | not e => exact sim_not ih e hwf pc stk σ r σ' hat he
  | tern c a b =>
    simp only [wf, Bool.and_eq_true, Bool.not_eq_true'] at hwf
    obtain ⟨⟨⟨⟨⟨⟨⟨⟨hec, hea⟩, heb⟩, hxc⟩, _⟩, _⟩, hwc⟩, hwa⟩, hwb⟩ := hwf
    exact sim_cond ih _ c a b (by simp only [comp]) (by simp [size]) rfl (by simp [escapes]) hwc hwa hwb
      (isE_not_unit hec) (isE_not_unit hea) (isE_not_unit heb) hxc pc stk σ r σ' hat (by simpa only [evNode] using he)
  | if_ c t e =>
    simp only [wf, Bool.and_eq_true, Bool.not_eq_true'] at hwf
    obtain ⟨⟨⟨⟨⟨⟨hec, hbt⟩, hee⟩, hxc⟩, hwc⟩, hwt⟩, hwe⟩ := hwf
    exact sim_cond ih _ c t e (by simp only [comp]) (by simp [size]) rfl (by simp [escapes]) hwc hwt hwe
      (isE_not_unit hec) (isBlock_not_unit hbt) (isElse_not_unit hee) hxc pc stk σ r σ' hat
      (by simpa only [evNode] using he)
  | block s =>
    simp only [wf, Bool.and_eq_true] at hwf
    simp only [comp] at hat
    simp only [evNode] at he
    exact Post.congr (by simp [size]) (by rw [isL_not_unit hwf.1]; rfl) (by simp [escapes])
      (ih s hwf.2 kb kc pc stk σ r σ' hat he)
  | prog s =>
    simp only [wf, Bool.and_eq_true] at hwf
    simp only [comp] at hat
    simp only [evNode] at he
    exact Post.congr (by simp [size]) (by rw [isL_not_unit hwf.1.1]; rfl) (by simp [escapes])
      (ih s hwf.2 kb kc pc stk σ r σ' hat he)
  | expr e =>
    cases hf : isNamed e with
    | true => exact sim_fundecl e hf pc stk σ r σ' hat he
    | false =>
      simp only [wf, hf, Bool.false_eq_true, ↓reduceIte, Bool.and_eq_true] at hwf
      simp only [comp, hf, Bool.false_eq_true, ↓reduceIte] at hat
      simp only [evNode, hf, Bool.false_eq_true, ↓reduceIte] at he
      exact Post.congr (by simp [size, hf]) (by rw [isE_not_unit hwf.1]; simp [isUnitNode, hf]) (by simp [escapes])
        (ih e hwf.2 kb kc pc stk σ r σ' hat he)
  | cons h t => exact sim_cons ih h t hwf pc stk σ r σ' hat he
  | var x e => exact sim_var ih x e hwf pc stk σ r σ' hat he
  | assign x op e => exact sim_assign ih x op e hwf pc stk σ r σ' hat he
  | «postfix» x inc => exact sim_postfix x inc pc stk σ r σ' hat he
  | break_ => exact sim_ctl true pc stk σ r σ' hat (by simpa [evNode] using he)
  | continue_ => exact sim_ctl false pc stk σ r σ' hat (by simpa [evNode] using he)
  | forcond c b => exact sim_forcond ih c b hwf pc stk σ r σ' hat he
  | forever b => exact sim_forever ih b hwf pc stk σ r σ' hat he
  | for3 i c p b => exact sim_for3 ih i c p b hwf pc stk σ r σ' hat he
  | switch subj cases => exact sim_switch ih subj cases hwf pc stk σ r σ' hat he
  | call fe args => exact sim_call ih happ fe args hwf pc stk σ r σ' hat he
  | return_ e => exact sim_return ih e hwf pc stk σ r σ' hat he
  | func name ps b => exact sim_func name ps b pc stk σ r σ' hat he
  | _ => simp [wf] at hwf

/-- a `return` statement never completes normally -/
theorem ev_return_abrupt (Φ : List FDecl) (f : Nat) (ls : Sc) (e : N) (σ : Env) (r : Out) (σ' : Env)
    (h : ev Φ f ls (.return_ e) σ = (r, σ')) : r ≠ .unit ∧ ∀ v, r ≠ .val v := by
  cases f with
  | zero => simp only [ev] at h; cases h; exact ⟨(by intro h; cases h), (by intro v h; cases h)⟩
  | succ f =>
    simp only [ev, evNode] at h
    split at h <;> cases h <;> exact ⟨(by intro h; cases h), (by intro v h; cases h)⟩

/-- the program `P` is the compiled form of the functions `Φ` -/
def Compiled (Φ : List FDecl) (P : Prog) : Prop := ∀ g, P.find g = (findFun Φ g).map compDecl

/-- every function body is in the fragment -/
def BodiesOK (Φ : List FDecl) : Prop := ∀ g d, findFun Φ g = some d → wfBody d.body = true

/-- the simulation, for every fuel, every world (code object, suspended frames) and every set of
    local names: induction on fuel only (each node evaluates its sub-nodes, and each call the
    callee's body, with one unit of fuel less; loops iterate inside `loop_sim`) -/
theorem ev_sim (Φ : List FDecl) (P : Prog) (hP : Compiled Φ P) (hΦ : BodiesOK Φ) :
    ∀ f (W : World) (ls : Sc), W.P = P → IH W ls (ev Φ f ls)
  | 0 => by
    intro W ls _ n _ kb kc pc stk σ r σ' _ he
    simp only [ev] at he; cases he
    exact ⟨trivial, trivial⟩
  | f + 1 => by
    intro W ls hW n hwf kb kc pc stk σ r σ' hat he
    exact evNode_sim (ev_sim Φ P hP hΦ f W ls hW)
      (app_sim Φ (ev Φ f) P hP hΦ (fun W' ls' h' => ev_sim Φ P hP hΦ f W' ls' h')
        (fun ls' e σ r σ' h => ev_return_abrupt Φ f ls' e σ r σ' h) W hW)
      f n hwf kb kc pc stk σ r σ' hat he

/-- calls return one value, for every fuel and world -/
theorem call_sim (Φ : List FDecl) (P : Prog) (hP : Compiled Φ P) (hΦ : BodiesOK Φ) (f : Nat) (W : World) (hW : W.P = P) :
    CallOK W (applyFn Φ (ev Φ f)) :=
  app_sim Φ (ev Φ f) P hP hΦ (fun W' ls' h' => ev_sim Φ P hP hΦ f W' ls' h')
    (fun ls' e σ r σ' h => ev_return_abrupt Φ f ls' e σ r σ' h) W hW

/-- `compClo` compiles the functions of the program -/
theorem compClo_compiled (p : N) : Compiled (funsOf p) (compClo p) := by
  intro g
  unfold Prog.find compClo findFun
  simp only
  induction funsOf p with
  | nil => rfl
  | cons d Φ ih =>
    simp only [List.map_cons, List.find?_cons]
    have : (compDecl d).key = d.key := rfl
    rw [this]
    cases d.key == g with
    | true => rfl
    | false => exact ih

/-! ### from `MSteps` to the fuel-indexed `mrun` -/

theorem mrun_of_msteps {P : Prog} {a b : M} (h : MSteps P a b) :
    ∃ n, ∀ k, mrun P (n + k) a = mrun P k b := by
  induction h with
  | refl c => exact ⟨0, fun k => by rw [Nat.zero_add]⟩
  | cons hs _ ih =>
    obtain ⟨n, hn⟩ := ih
    refine ⟨n + 1, fun k => ?_⟩
    have : n + 1 + k = (n + k) + 1 := by omega
    rw [this, mrun, hs]
    exact hn k

/-- once the machine has halted, more fuel does not change the outcome -/
theorem mrun_mono {P : Prog} : ∀ (k : Nat) (m : M) (res : RunRes) (G : Sh),
    mrun P k m = (res, G) → res ≠ .running → mrun P (k + 1) m = (res, G)
  | 0, m, res, G, h, hr => by simp only [mrun] at h; cases h; exact absurd rfl hr
  | k + 1, m, res, G, h, hr => by
    rw [mrun] at h ⊢
    cases hs : mstep P m with
    | ok m' => rw [hs] at h; simp only at h ⊢; exact mrun_mono k m' res G h hr
    | error e => rw [hs] at h; cases e <;> exact h

end Risor.C01.Clo
